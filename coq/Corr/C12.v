(** Correspondence for C12: the encoders and decoders of the wire model against
    MarshalJSON / UnmarshalJSON on structurally generated protocol values. *)
From LOV Require Export Wire.Decode Wire.Encode Wire.SchemaCodec Wire.Operation Wire.Messages Corr.Common.
From Coq Require Import List.
Import ListNotations.

Inductive target := RValue | RSet | RMap | RUuid | RRow | RCond | RMut | RBase | RColTy | RColumn.
(** [c_v] the value (for the schema targets: the generated JSON), [c_enc] the
    implementation's encoding (schema targets: the re-encoding of the decoded
    value), [c_dec] what the implementation decodes from its own encoding,
    [c_uuids] the strings that are well-formed uuids. *)
Record vcase := mkVCase { c_t : target; c_v : gval; c_enc : gval; c_dec : gval; c_uuids : list sym }.
(** an operation: the value, the implementation's encoding, what the implementation decodes from it *)
(** a message of Wire/Messages.v: the value, the implementation's encoding, what the implementation decodes from it *)
Inductive wmsg := MRu (t : wtables wru) | MRu2 (t : wtables wru2) | MRes (r : wresult) | MMon (m : wmonreq) | MSince (s : wsince).
Inductive case := CVal (c : vcase) | COp (w : wop) (enc : gval) (dec : wop) (uuids : list sym)
                | CMsg (m : wmsg) (enc : gval) (dec : wmsg) (uuids : list sym)
                (* a decoded monitor request and what its accessors Initial/Insert/Delete/Modify answer *)
                | CSel (m : wmonreq) (initial insert delete modify : bool).
Definition mkCase t v e d u := CVal (mkVCase t v e d u).

Definition FUEL := 64%nat.
Definition eqv := geqv FUEL.

Definition triple_out (r : res (sym * sym * gval)) : res gval :=
  t <- r ;; Ok (GArr [GStr t.1.1; GStr t.1.2; t.2]).

Definition model_enc (vu : sym -> bool) (t : target) (v : gval) : option gval :=
  match t, v with
  | RValue, _ | RMap, _ => Some (enc_value vu v)
  | RSet, GSet l => Some (enc_set vu l)
  | RUuid, _ => Some (enc_atom vu v)
  | RRow, GObj r => Some (enc_row vu r)
  | (RCond | RMut), GArr [GStr c; GStr f; x] => Some (enc_triple vu (c, f, x))
  | RBase, _ => match dec_base v with Ok b => Some (enc_base b) | _ => None end
  | RColTy, _ => match dec_colty v with Ok b => Some (enc_colty b) | _ => None end
  | RColumn, _ => match dec_column v with Ok b => Some (enc_column b) | _ => None end
  | _, _ => None
  end.

Definition model_dec (t : target) (j : gval) : res gval :=
  match t with
  | RValue => notation FUEL j
  | RSet => dec_set FUEL j
  | RMap => dec_map FUEL j
  | RUuid => dec_uuid j
  | RRow => r <- dec_row FUEL j ;; Ok (GObj r)
  | RCond => triple_out (dec_condition FUEL j)
  | RMut => triple_out (dec_mutation FUEL j)
  | RBase => b <- dec_base j ;; Ok (enc_base b)
  | RColTy => c <- dec_colty j ;; Ok (enc_colty c)
  | RColumn => c <- dec_column j ;; Ok (enc_column c)
  end.

Definition is_schema (t : target) : bool :=
  match t with RBase | RColTy | RColumn => true | _ => false end.

Definition row_eqv (a b : wrow) : bool := eqv (GObj a) (GObj b).
Definition triple_eqv (a b : wtriple) : bool := N.eqb a.1.1 b.1.1 && N.eqb a.1.2 b.1.2 && eqv a.2 b.2.
Definition oeqb {A} (e : A -> A -> bool) (a b : option A) : bool :=
  match a, b with Some x, Some y => e x y | None, None => true | _, _ => false end.
Definition wop_eqv (a b : wop) : bool :=
  N.eqb (o_op a) (o_op b) && N.eqb (o_table a) (o_table b) && row_eqv (o_row a) (o_row b) &&
  list_eqv row_eqv (o_rows a) (o_rows b) && list_eqv N.eqb (o_columns a) (o_columns b) &&
  list_eqv triple_eqv (o_mutations a) (o_mutations b) && oeqb Z.eqb (o_timeout a) (o_timeout b) &&
  list_eqv triple_eqv (o_where a) (o_where b) && N.eqb (o_until a) (o_until b) &&
  oeqb Bool.eqb (o_durable a) (o_durable b) && oeqb N.eqb (o_comment a) (o_comment b) &&
  oeqb N.eqb (o_lock a) (o_lock b) && N.eqb (o_uuid a) (o_uuid b) && N.eqb (o_uuid_name a) (o_uuid_name b).

Definition check_op (w : wop) (enc : gval) (dec : wop) (uuids : list sym) : nat :=
  let vu s := existsb (N.eqb s) uuids in
  first_fail
    [ (11, eqv (enc_op vu w) enc);
      (12, match dec_op FUEL enc with Ok d => wop_eqv d dec | _ => false end);
      (13, wop_eqv dec w) ]%nat.

Definition check_val (c : vcase) : nat :=
  let vu s := existsb (N.eqb s) (c_uuids c) in
  first_fail
    [ (1, match model_enc vu (c_t c) (c_v c) with Some e => eqv e (c_enc c) | None => false end);
      (2, match model_dec (c_t c) (c_enc c) with
          | Ok d => eqv d (if is_schema (c_t c) then c_enc c else c_dec c)
          | _ => false end);
      (3, is_schema (c_t c) || eqv (c_dec c) (c_v c)) ]%nat.

(** messages: tables and uuids arrive sorted by name on both sides (Go maps have no order) *)
Definition prow_eqv := oeqb row_eqv.
Definition ru_eqv (a b : wru) : bool := prow_eqv (ru_new a) (ru_new b) && prow_eqv (ru_old a) (ru_old b).
Definition ru2_eqv (a b : wru2) : bool :=
  prow_eqv (r2_initial a) (r2_initial b) && prow_eqv (r2_insert a) (r2_insert b) &&
  prow_eqv (r2_modify a) (r2_modify b) && prow_eqv (r2_delete a) (r2_delete b).
Definition tables_eqv {A} (e : A -> A -> bool) (a b : wtables A) : bool :=
  list_eqv (fun x y => N.eqb x.1 y.1 && list_eqv (fun p q => N.eqb p.1 q.1 && oeqb e p.2 q.2) x.2 y.2) a b.
Definition result_eqv (a b : wresult) : bool :=
  Z.eqb (rs_count a) (rs_count b) && N.eqb (rs_error a) (rs_error b) && N.eqb (rs_details a) (rs_details b) &&
  N.eqb (rs_uuid a) (rs_uuid b) && list_eqv row_eqv (rs_rows a) (rs_rows b).
Definition select_eqv (a b : wselect) : bool :=
  oeqb Bool.eqb (ms_initial a) (ms_initial b) && oeqb Bool.eqb (ms_insert a) (ms_insert b) &&
  oeqb Bool.eqb (ms_delete a) (ms_delete b) && oeqb Bool.eqb (ms_modify a) (ms_modify b).
Definition monreq_eqv (a b : wmonreq) : bool :=
  oeqb (list_eqv N.eqb) (mr_columns a) (mr_columns b) && list_eqv triple_eqv (mr_where a) (mr_where b) &&
  oeqb select_eqv (mr_select a) (mr_select b).
Definition msg_eqv (a b : wmsg) : bool :=
  match a, b with
  | MRu x, MRu y => tables_eqv ru_eqv x y
  | MRu2 x, MRu2 y => tables_eqv ru2_eqv x y
  | MRes x, MRes y => result_eqv x y
  | MMon x, MMon y => monreq_eqv x y
  | MSince x, MSince y => Bool.eqb (sn_found x) (sn_found y) && N.eqb (sn_last x) (sn_last y) &&
                          tables_eqv ru2_eqv (sn_updates x) (sn_updates y)
  | _, _ => false
  end.
Definition msg_enc (vu : sym -> bool) (m : wmsg) : gval :=
  match m with
  | MRu t => enc_tables (enc_ru vu) t
  | MRu2 t => enc_tables (enc_ru2 vu) t
  | MRes r => enc_result vu r
  | MMon r => enc_monreq vu r
  | MSince s => enc_since vu s
  end.
Definition msg_dec (m : wmsg) (j : gval) : res wmsg :=
  match m with
  | MRu _ => t <- dec_tables (dec_ru FUEL) j ;; Ok (MRu t)
  | MRu2 _ => t <- dec_tables (dec_ru2 FUEL) j ;; Ok (MRu2 t)
  | MRes _ => r <- dec_result FUEL j ;; Ok (MRes r)
  | MMon _ => r <- dec_monreq FUEL j ;; Ok (MMon r)
  | MSince _ => s <- dec_since FUEL j ;; Ok (MSince s)
  end.
Definition check_msg (m : wmsg) (enc : gval) (dec : wmsg) (uuids : list sym) : nat :=
  let vu s := existsb (N.eqb s) uuids in
  first_fail
    [ (21, eqv (msg_enc vu m) enc);
      (22, match msg_dec m enc with Ok d => msg_eqv d dec | _ => false end);
      (23, msg_eqv dec m) ]%nat.

Definition check (c : case) : nat :=
  match c with
  | CVal v => check_val v | COp w e d u => check_op w e d u | CMsg m e d u => check_msg m e d u
  | CSel m a b c d =>
      let '(a', b', c', d') := sel_kinds (mr_select m) in
      first_fail [ (24, Bool.eqb a a' && Bool.eqb b b' && Bool.eqb c c' && Bool.eqb d d') ]%nat
  end.
Definition run := run_cases check.
