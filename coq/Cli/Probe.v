(** The inactivity probe (client/client.go: handleInactivityProbes, the signal
    sent by transact).  Time is counted in units; [T] units without traffic
    from the peer make the timer fire.  When it fires with an echo outstanding
    the connection is dropped, otherwise an echo is sent.  Traffic from the
    peer (the reply to a call, signalled through trafficSeen) restarts the
    timer; the reply to the probe's echo clears the outstanding echo.  A call
    of the application that only runs into its own deadline is not traffic. *)
From Coq Require Import List Arith Bool Lia.
Import ListNotations.

Inductive pev :=
| Elapse          (* one unit of time passes *)
| Traffic         (* a reply from the peer reached a caller *)
| EchoReply       (* the peer answered the probe's echo *)
| AppDeadline.    (* a call of the application gave up on its own deadline *)

Record pstate := mkP { elapsed : nat; outstanding : bool; dropped : bool }.

Definition pinit : pstate := mkP 0 false false.

Section Probe.
Variable T : nat.                 (* the inactivity timeout, in units; at least 1 *)
Variable deadline_is_traffic : bool.   (* the variant in which a call that timed out counts as traffic *)

Definition pstep (s : pstate) (e : pev) : pstate :=
  if dropped s then s else
  match e with
  | Elapse =>
      if Nat.leb T (S (elapsed s))
      then (if outstanding s then mkP 0 true true else mkP 0 true false)
      else mkP (S (elapsed s)) (outstanding s) false
  | Traffic => mkP 0 (outstanding s) false
  | EchoReply => mkP 0 false false
  | AppDeadline => if deadline_is_traffic then mkP 0 (outstanding s) false else s
  end.

Definition prun (s : pstate) (es : list pev) : pstate := fold_left pstep es s.

(** the peer is silent in a schedule: nothing comes from it *)
Definition silent (es : list pev) : Prop := Forall (fun e => e = Elapse \/ e = AppDeadline) es.

Definition elapses (es : list pev) : nat := length (filter (fun e => match e with Elapse => true | _ => false end) es).

End Probe.
