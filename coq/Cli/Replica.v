(** The client's monitor-fed cache (client/client.go update handlers,
    cache.TableCache.Populate/Populate2): the initial contents are stored,
    then every notification is applied in arrival order.

    Tables are independent both in the server's notification and in the
    client's application, and a table without entries is left out of the
    message, which changes nothing ([apply_tbl_empty]); the cache is therefore
    modelled table-wise, as a function from table names to tables. *)
From LOV Require Export Srv.Monitor.

Notation fcache := (sym -> gmap sym (gmap sym value)).

(** the monitored part of the database *)
Definition proj_db (R : request) (d : dbstate) : fcache :=
  fun t => match req_for R t with
           | Some q => pc q <$> get_tbl d t
           | None => ∅
           end.

(** initial contents: the dump of the monitored tables whose initial
    contents were selected *)
Definition apply_dump (R : request) (d : dbstate) : fcache :=
  fun t => match req_for R t with
           | Some q => if mr_initial q then pc q <$> get_tbl d t else ∅
           | None => ∅
           end.

(** one notification, for the transaction taking [d] to [d'] *)
Definition apply_notification (R : request) (e : enc) (c : fcache) (d d' : dbstate) : fcache :=
  fun t => match req_for R t with
           | Some q => apply_tbl (c t) (notify_tbl e q (get_tbl d t) (get_tbl d' t))
           | None => c t
           end.

(** the cache after the history [h] was committed and notified; failed
    transactions leave the database as it was and notify nothing *)
Fixpoint replica_run (S : schema) (R : request) (e : enc) (c : fcache) (d : dbstate) (h : list (list op)) : fcache * dbstate :=
  match h with
  | [] => (c, d)
  | ops :: h' =>
    let d' := commit d (transact S d ops) in
    replica_run S R e (apply_notification R e c d d') d' h'
  end.

