(** monitor_cond_since against a server that keeps history (client/client.go:
    monitor(), update3 handling, syncLastTransactionIDs).

    The server logs the contents of a monitored table under the id of every
    transaction.  Asked for the changes since [last] it answers, when it
    (still, or on this cluster member) knows [last], found = true with the
    update2 difference between that state and the current one, and otherwise
    found = false with the complete current contents; both with the id of the
    current state.  The client keeps the cache and the id of the last
    transaction it holds; an update3 notification applies a difference and
    carries the new id.

    [on_reply_fixed] is the repaired client: it takes the id of every reply.
    [on_reply_pinned] is the pinned tree: after found = false it replaced the
    cache but kept its old id ([pinned_since_refuted]). *)
From LOV Require Export Srv.Monitor.
From LOV Require Import Srv.MonitorProofs Upd.MergeProofs.

Notation tblc := (gmap sym (gmap sym value)).
Notation history := (list (N * tblc)).

Definition hist_get (h : history) (id : N) : option tblc :=
  snd <$> List.find (fun p => N.eqb (fst p) id) h.

Inductive reply :=
| RFound (id : N) (es : gmap sym entry)
| RNotFound (id : N) (dump : tblc).

Section Since.
Variable q : mreq.

(** [known]: whether the answering server can find the id just now *)
Definition since_reply (h : history) (known : bool) (last cur_id : N) (cur : tblc) : reply :=
  match (if known then hist_get h last else None) with
  | Some old => RFound cur_id (notify_tbl V2 q old cur)
  | None => RNotFound cur_id (pc q <$> cur)
  end.

Record cstate := mkCS { cs_cache : tblc; cs_last : N }.

Definition on_update3 (s : cstate) (id : N) (es : gmap sym entry) : cstate :=
  mkCS (apply_tbl (cs_cache s) es) id.

Definition on_reply_fixed (s : cstate) (r : reply) : cstate :=
  match r with
  | RFound id es => mkCS (apply_tbl (cs_cache s) es) id
  | RNotFound id dump => mkCS dump id
  end.

Definition on_reply_pinned (s : cstate) (r : reply) : cstate :=
  match r with
  | RFound id es => mkCS (apply_tbl (cs_cache s) es) id
  | RNotFound id dump => mkCS dump (cs_last s)
  end.

(** the client is good for the state [st]: its cache is the monitored part of
    [st], and whatever the server logged under the client's id has the same
    monitored part *)
Definition good (h : history) (s : cstate) (st : tblc) : Prop :=
  cs_cache s = pc q <$> st /\
  forall old, hist_get h (cs_last s) = Some old -> pc q <$> old = pc q <$> st.

End Since.
