(** Leader-only mode (client/client.go: isEndpointLeader, connect's endpoint
    loop, watchForLeaderChange).

    Every server lists the databases it serves in _Server.Database; a row
    says whether the database is clustered and, if so, whether this server is
    the leader.  The select returns the rows in arbitrary order.  A
    leader-only client accepts an endpoint when the row of its database is
    not clustered or says leader, and also when there is no row at all; it
    tries its endpoints in order and attaches to the first it accepts.  When
    the attached endpoint announces that it lost leadership the client moves
    it to the end of its list and connects again. *)
From LOV Require Export Base.Atoms.
From Coq Require Import List.
Import ListNotations.

Record srow := mkSRow { sr_name : sym; sr_clustered : bool; sr_leader : bool }.

(** isEndpointLeader: rows of other databases are skipped *)
Fixpoint accepts (db : sym) (rows : list srow) : bool :=
  match rows with
  | [] => true
  | r :: rows' =>
      if N.eqb (sr_name r) db then (if sr_clustered r then sr_leader r else true)
      else accepts db rows'
  end.

(** connect: the index of the first endpoint that is accepted *)
Fixpoint choose_from (db : sym) (i : nat) (eps : list (list srow)) : option nat :=
  match eps with
  | [] => None
  | rows :: eps' => if accepts db rows then Some i else choose_from db (S i) eps'
  end.
Definition choose_endpoint (db : sym) (eps : list (list srow)) : option nat := choose_from db 0 eps.

(** what the endpoint reports about the database *)
Definition reports_not_leader (db : sym) (rows : list srow) : Prop :=
  exists r, In r rows /\ sr_name r = db /\ sr_clustered r = true /\ sr_leader r = false.

(** at most one row per database *)
Definition one_row_per_db (db : sym) (rows : list srow) : Prop :=
  forall r r', In r rows -> In r' rows -> sr_name r = db -> sr_name r' = db -> r = r'.

(** losing leadership: the active endpoint (first) goes to the end of the list *)
Definition rotate {A} (l : list A) : list A := match l with [] => [] | x :: l' => l' ++ [x] end.
