(** Proofs about monitor_cond_since with a history-keeping server (Cli/Since.v). *)
From LOV Require Import Cli.Since Srv.MonitorProofs Upd.MergeProofs.

Lemma hist_get_cons (h : history) id0 st0 id :
  hist_get ((id0, st0) :: h) id = if N.eqb id0 id then Some st0 else hist_get h id.
Proof. unfold hist_get. cbn. destruct (N.eqb id0 id); reflexivity. Qed.

Section SinceProofs.
Variable q : mreq.
Hypothesis Hk : all_kinds q.
Variable τ : gmap sym kind.

(** the server's answer, taken by the repaired client, leaves it good for the
    current state: whether the id was found (difference applied) or not
    (contents replaced), and whatever the server knew about the id *)
Theorem reply_resynchronises h s st known cur_id cur :
  good q h s st ->
  (forall old, hist_get h (cs_last s) = Some old -> tbl_typed τ old) -> tbl_typed τ cur ->
  hist_get h cur_id = Some cur ->
  good q h (on_reply_fixed s (since_reply q h known (cs_last s) cur_id cur)) cur.
Proof.
  intros [Hc Hid] Htold Htcur Hcur. unfold since_reply.
  destruct (if known then hist_get h (cs_last s) else None) as [old|] eqn:Hold.
  - assert (Hget : hist_get h (cs_last s) = Some old) by (destruct known; [exact Hold|discriminate]).
    cbn [on_reply_fixed]. split; cbn [cs_cache cs_last].
    + rewrite Hc, <- (Hid old Hget). apply (notify_tbl_exact V2 q τ old cur Hk); [apply Htold; exact Hget|exact Htcur].
    + intros old' Hold'. rewrite Hcur in Hold'. inversion Hold'. reflexivity.
  - cbn [on_reply_fixed]. split; cbn [cs_cache cs_last]; [reflexivity|].
    intros old' Hold'. rewrite Hcur in Hold'. inversion Hold'. reflexivity.
Qed.

(** an update3 notification (the difference of one transaction, with its id) keeps the client good *)
Theorem update3_keeps_good h s st id st' :
  good q h s st -> tbl_typed τ st -> tbl_typed τ st' -> hist_get h id = Some st' ->
  good q h (on_update3 s id (notify_tbl V2 q st st')) st'.
Proof.
  intros [Hc _] Ht Ht' Hid. split; cbn [on_update3 cs_cache cs_last].
  - rewrite Hc. apply (notify_tbl_exact V2 q τ st st' Hk Ht Ht').
  - intros old Hold. rewrite Hid in Hold. inversion Hold. reflexivity.
Qed.

(** a session: notifications and reconnections in any order and number; every
    state the server passes through is logged under its id *)
Inductive event :=
| EvUpdate3 (id : N) (st' : tblc)                     (* a transaction committed while connected *)
| EvReconnect (known : bool) (cur_id : N) (cur : tblc). (* connection lost, others committed, monitor re-established *)

Definition step (h : history) (x : cstate * tblc) (e : event) : cstate * tblc :=
  match e with
  | EvUpdate3 id st' => (on_update3 x.1 id (notify_tbl V2 q x.2 st'), st')
  | EvReconnect known cur_id cur => (on_reply_fixed x.1 (since_reply q h known (cs_last x.1) cur_id cur), cur)
  end.

Definition logged (h : history) (e : event) : Prop :=
  match e with
  | EvUpdate3 id st' => hist_get h id = Some st' /\ tbl_typed τ st'
  | EvReconnect _ cur_id cur => hist_get h cur_id = Some cur /\ tbl_typed τ cur
  end.

Theorem session_keeps_client_synchronised h : forall es s st,
  (forall id old, hist_get h id = Some old -> tbl_typed τ old) ->
  good q h s st -> tbl_typed τ st -> Forall (logged h) es ->
  let x := fold_left (step h) es (s, st) in good q h x.1 x.2 /\ cs_cache x.1 = pc q <$> x.2.
Proof.
  induction es as [|e es IH]; intros s st Hh Hg Ht Hl; cbn [fold_left].
  - split; [exact Hg|exact (proj1 Hg)].
  - inversion Hl as [|? ? He Hrest]; subst.
    destruct e as [id st'|known cur_id cur]; cbn [step fst snd]; destruct He as [Hid Hty].
    + apply IH; [exact Hh| |exact Hty|exact Hrest]. apply (update3_keeps_good h s st id st' Hg Ht Hty Hid).
    + apply IH; [exact Hh| |exact Hty|exact Hrest]. apply (reply_resynchronises h s st known cur_id cur Hg); [|exact Hty|exact Hid].
      intros old Hold. exact (Hh _ _ Hold).
Qed.

End SinceProofs.

(** the pinned client: after found = false it kept its old id; when a server
    that knows that id answers the next reconnection (no notification in
    between), the difference is applied to a cache that already contains it *)
Definition ex_row (s : gset atom) : row := {[ 5%N := VSet s ]}.
Definition ex_A : tblc := {[ 9%N := ex_row {[AInt 1]} ]}.
Definition ex_B : tblc := {[ 9%N := ex_row {[AInt 1; AInt 2]} ]}.
Definition ex_h : history := [(1%N, ex_A); (2%N, ex_B)].

Lemma pinned_since_refuted :
  let q := default_req in
  let s0 := mkCS (pc q <$> ex_A) 1%N in
  good q ex_h s0 ex_A /\
  let s1 := on_reply_pinned s0 (since_reply q ex_h false (cs_last s0) 2%N ex_B) in
  let s2 := on_reply_pinned s1 (since_reply q ex_h true (cs_last s1) 2%N ex_B) in
  cs_cache s2 <> pc q <$> ex_B /\
  (* the repaired client on the same exchange *)
  let t1 := on_reply_fixed s0 (since_reply q ex_h false (cs_last s0) 2%N ex_B) in
  let t2 := on_reply_fixed t1 (since_reply q ex_h true (cs_last t1) 2%N ex_B) in
  cs_cache t2 = pc q <$> ex_B.
Proof.
  cbv zeta. split; [split; [reflexivity|]|].
  - intros old Hold. vm_compute in Hold. inversion Hold. reflexivity.
  - split.
    + intros H. apply (f_equal (fun tb => bool_decide (tb = pc default_req <$> ex_B))) in H.
      vm_compute in H. discriminate.
    + match goal with |- ?a = ?b => assert (H : bool_decide (a = b) = true) by (vm_compute; reflexivity) end.
      apply bool_decide_eq_true in H. exact H.
Qed.
