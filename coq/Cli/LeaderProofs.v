(** Proofs about leader-only mode (Cli/Leader.v). *)
From LOV Require Import Cli.Leader.
From Coq Require Import List Permutation Lia.
Import ListNotations.

(** an accepted endpoint does not report "clustered and not the leader" -
    provided the server lists the database once *)
Theorem accepted_is_not_a_follower db rows :
  one_row_per_db db rows -> accepts db rows = true -> ~ reports_not_leader db rows.
Proof.
  induction rows as [|r rows IH]; intros H1 Ha (x & Hin & Hn & Hc & Hl); [inversion Hin|].
  cbn in Ha. destruct (N.eqb_spec (sr_name r) db) as [He|Hne].
  - assert (x = r) by (apply H1; [exact Hin|left; reflexivity|exact Hn|exact He]). subst x.
    rewrite Hc, Hl in Ha. discriminate.
  - destruct Hin as [->|Hin]; [contradiction|].
    apply IH; [|exact Ha|exists x; auto].
    intros a b Ha' Hb'. apply H1; right; assumption.
Qed.

(** a follower is refused, wherever its row stands among the others *)
Theorem follower_is_refused db rows :
  one_row_per_db db rows -> reports_not_leader db rows -> accepts db rows = false.
Proof.
  intros H1 Hr. destruct (accepts db rows) eqn:Ha; [|reflexivity].
  exfalso. exact (accepted_is_not_a_follower db rows H1 Ha Hr).
Qed.

(** the answer does not depend on the order in which the server returns the rows *)
Lemma accepts_spec db rows : one_row_per_db db rows ->
  accepts db rows = true <-> ~ reports_not_leader db rows.
Proof.
  intros H1. split; [apply accepted_is_not_a_follower; exact H1|].
  induction rows as [|r rows IH]; intros Hn; [reflexivity|]. cbn.
  destruct (N.eqb_spec (sr_name r) db) as [He|Hne].
  - destruct (sr_clustered r) eqn:Hc; [|reflexivity]. destruct (sr_leader r) eqn:Hl; [reflexivity|].
    exfalso. apply Hn. exists r. split; [left; reflexivity|auto].
  - apply IH.
    + intros a b Ha Hb. apply H1; right; assumption.
    + intros (x & Hin & Hx). apply Hn. exists x. split; [right; exact Hin|exact Hx].
Qed.

Theorem accepts_order_irrelevant db rows rows' :
  Permutation rows rows' -> one_row_per_db db rows -> accepts db rows = accepts db rows'.
Proof.
  intros Hp H1.
  assert (H1' : one_row_per_db db rows').
  { intros a b Ha Hb. apply H1; eapply Permutation_in; try (apply Permutation_sym; exact Hp); assumption. }
  assert (Hiff : reports_not_leader db rows <-> reports_not_leader db rows').
  { split; intros (x & Hin & Hx); exists x; (split; [|exact Hx]).
    - eapply Permutation_in; [exact Hp|exact Hin].
    - eapply Permutation_in; [apply Permutation_sym; exact Hp|exact Hin]. }
  destruct (accepts db rows) eqn:Ha, (accepts db rows') eqn:Hb; try reflexivity.
  - apply (accepts_spec db rows H1) in Ha. rewrite Hiff in Ha. apply (accepts_spec db rows' H1') in Ha. congruence.
  - apply (accepts_spec db rows' H1') in Hb. rewrite <- Hiff in Hb. apply (accepts_spec db rows H1) in Hb. congruence.
Qed.

(** the endpoint the client attaches to is one it accepts, and every endpoint before it was refused *)
Lemma choose_from_spec db : forall eps i k,
  choose_from db i eps = Some k ->
  i <= k /\ exists rows, nth_error eps (k - i) = Some rows /\ accepts db rows = true /\
            forall j rows', j < k - i -> nth_error eps j = Some rows' -> accepts db rows' = false.
Proof.
  induction eps as [|rows eps IH]; intros i k H; [discriminate|]. cbn in H.
  destruct (accepts db rows) eqn:Ha.
  - inversion H; subst. split; [lia|]. exists rows. rewrite Nat.sub_diag. split; [reflexivity|]. split; [exact Ha|].
    intros j rows' Hj. lia.
  - apply IH in H as (Hle & rows0 & Hn & Hacc & Hbefore). split; [lia|]. exists rows0.
    replace (k - i) with (S (k - S i)) by lia. split; [exact Hn|]. split; [exact Hacc|].
    intros j rows' Hj Hnth. destruct j as [|j]; [cbn in Hnth; inversion Hnth; subst; exact Ha|].
    cbn in Hnth. apply (Hbefore j rows'); [lia|exact Hnth].
Qed.

Theorem chosen_endpoint_is_not_a_follower db eps k rows :
  choose_endpoint db eps = Some k -> nth_error eps k = Some rows -> one_row_per_db db rows ->
  ~ reports_not_leader db rows.
Proof.
  intros Hc Hn H1. apply choose_from_spec in Hc as (_ & rows0 & Hn0 & Ha & _).
  rewrite Nat.sub_0_r in Hn0. rewrite Hn in Hn0. inversion Hn0; subst.
  apply accepted_is_not_a_follower; assumption.
Qed.

Theorem no_endpoint_chosen_iff_all_refused db eps :
  choose_endpoint db eps = None <-> Forall (fun rows => accepts db rows = false) eps.
Proof.
  unfold choose_endpoint. generalize 0. induction eps as [|rows eps IH]; intros i; cbn.
  - split; [constructor|reflexivity].
  - destruct (accepts db rows) eqn:Ha.
    + split; [discriminate|]. intros H. inversion H; congruence.
    + rewrite IH. split; [intros H; constructor; assumption|intros H; inversion H; assumption].
Qed.

(** after the active endpoint lost leadership (it is the first of the list
    and now reports it), the client, having rotated its list, does not choose
    it again as long as it keeps reporting that *)
Theorem lost_leader_not_chosen_again db rows eps k :
  one_row_per_db db rows -> reports_not_leader db rows ->
  choose_endpoint db (rotate (rows :: eps)) = Some k -> k < length eps.
Proof.
  intros H1 Hr Hc. cbn [rotate] in Hc.
  apply choose_from_spec in Hc as (_ & rows0 & Hn & Ha & _). rewrite Nat.sub_0_r in Hn.
  destruct (Nat.lt_ge_cases k (length eps)) as [Hlt|Hge]; [exact Hlt|]. exfalso.
  rewrite nth_error_app2 in Hn by exact Hge.
  destruct (k - length eps) as [|j]; cbn in Hn.
  - inversion Hn; subst. rewrite (follower_is_refused db rows0 H1 Hr) in Ha. discriminate.
  - destruct j; discriminate.
Qed.

Example premises_hold :
  let rows := [mkSRow 7 false true; mkSRow 3 true false; mkSRow 9 false true] in
  one_row_per_db 3%N rows /\ reports_not_leader 3%N rows /\ accepts 3%N rows = false /\
  choose_endpoint 3%N [rows; [mkSRow 3 true true]] = Some 1.
Proof.
  cbv zeta. split.
  - intros r r' Hr Hr' Hn Hn'. cbn in Hr, Hr'.
    destruct Hr as [<-|[<-|[<-|[]]]]; try discriminate; destruct Hr' as [<-|[<-|[<-|[]]]]; try discriminate; reflexivity.
  - split; [exists (mkSRow 3 true false); cbn; auto|]. split; reflexivity.
Qed.
