(** Proofs about the conditional API model (Cli/CondApi.v): what List()
    reports, what Generate sends, and that the generated operations, executed
    by the transaction engine on a database the cache is synchronised with,
    affect exactly the rows List() reported. *)
From LOV Require Import Cli.CondApi Cache.IndexProofs Cache.SelectProofs Upd.CondProofs.

(** * conditions on [_uuid] *)
Lemma row_matches_uuid u r u0 : row_matches u r (uuid_cond u0) = true <-> u = u0.
Proof.
  unfold row_matches, uuid_cond. cbn [forallb]. rewrite andb_true_r.
  unfold eval_cond_row, row_col. rewrite N.eqb_refl. rewrite eval_eq. split; [congruence|intros ->; reflexivity].
Qed.

Lemma filter_rows_uuid (tb : tbl) u :
  filter_rows tb (uuid_cond u) = match tb !! u with Some r => {[u := r]} | None => ∅ end.
Proof.
  apply map_eq. intros u'. unfold filter_rows.
  destruct (tb !! u) as [r|] eqn:Hu.
  - destruct (decide (u' = u)) as [->|Hne].
    + rewrite lookup_singleton. apply map_filter_lookup_Some. split; [exact Hu|]. cbv beta. cbn [fst snd]. apply row_matches_uuid. reflexivity.
    + rewrite lookup_singleton_ne by congruence. apply map_filter_lookup_None. right. intros r' _ Hm. cbv beta in Hm. cbn [fst snd] in Hm.
      apply row_matches_uuid in Hm. contradiction.
  - rewrite lookup_empty. apply map_filter_lookup_None.
    destruct (decide (u' = u)) as [->|Hne]; [left; exact Hu|].
    right. intros r' _ Hm. cbv beta in Hm. cbn [fst snd] in Hm. apply row_matches_uuid in Hm. contradiction.
Qed.

Lemma conds_valid_uuid T u : conds_valid T (uuid_cond u) = true.
Proof. unfold conds_valid, uuid_cond, col_type. cbn [forallb]. rewrite N.eqb_refl. reflexivity. Qed.

(** * the row operation an API call performs on each selected row *)
Definition kind_f (T : table) (k : akind) (r : row) : res (option row) :=
  match k with
  | ADelete => Ok None
  | AUpdate _ w => r' <- row_update T r w ;; Ok (Some r')
  | AMutate ms => r' <- row_mutate T r ms ;; Ok (Some r')
  end.

Definition put_row (t u : sym) (n : option row) (d : dbstate) : dbstate :=
  <[t := match n with Some r' => <[u := r']> (get_tbl d t) | None => delete u (get_tbl d t) end]> d.

Lemma get_tbl_put_same t u n d :
  get_tbl (put_row t u n d) t = match n with Some r' => <[u := r']> (get_tbl d t) | None => delete u (get_tbl d t) end.
Proof. unfold put_row, get_tbl at 1. rewrite lookup_insert. reflexivity. Qed.

Lemma get_tbl_put_other t t' u n d : t' <> t -> get_tbl (put_row t u n d) t' = get_tbl d t'.
Proof. intros Hne. unfold put_row, get_tbl at 1. rewrite lookup_insert_ne by congruence. reflexivity. Qed.

Section Exec.
Variable S : schema.
Variable T : table.
Hypothesis HT : find_table S (t_name T) = Some T.

(** one generated operation addressing an existing row by uuid *)
Lemma exec_uuid_op d0 d k u r n :
  get_tbl d (t_name T) !! u = Some r -> kind_f T k r = Ok n ->
  exec_op S d0 d (api_op T k (uuid_cond u)) = (RCount 1, put_row (t_name T) u n d).
Proof.
  intros Hu Hf.
  assert (Hsel : select_uuids d (t_name T) (uuid_cond u) = [(u, r)]).
  { unfold select_uuids. rewrite filter_rows_uuid, Hu. apply map_to_list_singleton. }
  destruct k as [|e w|ms]; cbn [api_op exec_op]; rewrite HT, conds_valid_uuid; cbn [negb]; rewrite Hsel;
    unfold apply_rows; cbn [rfold rbind fst snd length]; cbn [kind_f] in Hf.
  - inversion Hf; subst. reflexivity.
  - destruct (row_update T r w) as [r'| |]; cbn in Hf; inversion Hf; subst. reflexivity.
  - destruct (row_mutate T r ms) as [r'| |]; cbn in Hf; inversion Hf; subst. reflexivity.
Qed.

(** one generated operation whose conditions select nothing *)
Lemma exec_noop d0 d k wh :
  conds_valid T wh = true -> filter_rows (get_tbl d (t_name T)) wh = ∅ ->
  exec_op S d0 d (api_op T k wh) = (RCount 0, d).
Proof.
  intros Hv He.
  assert (Hsel : select_uuids d (t_name T) wh = []) by (unfold select_uuids; rewrite He; apply map_to_list_empty).
  destruct k as [|e w|ms]; cbn [api_op exec_op]; rewrite HT, Hv; cbn [negb]; rewrite Hsel; reflexivity.
Qed.

(** the table after applying the row operation to a list of rows *)
Definition after_step (k : akind) (tb : tbl) (u : sym) : tbl :=
  match tb !! u with
  | Some r => match kind_f T k r with
              | Ok (Some r') => <[u := r']> tb
              | Ok None => delete u tb
              | _ => tb
              end
  | None => tb
  end.
Definition after_rows (k : akind) (us : list sym) (tb : tbl) : tbl := foldl (after_step k) tb us.

Lemma after_rows_cons k u us tb : after_rows k (u :: us) tb = after_rows k us (after_step k tb u).
Proof. reflexivity. Qed.

Lemma after_step_ne k tb u0 u : u <> u0 -> after_step k tb u0 !! u = tb !! u.
Proof.
  intros Hne. unfold after_step. destruct (tb !! u0) as [r|]; [|reflexivity].
  destruct (kind_f T k r) as [[r'|]| |]; try reflexivity.
  - rewrite lookup_insert_ne by congruence. reflexivity.
  - rewrite lookup_delete_ne by congruence. reflexivity.
Qed.

Lemma after_rows_notin k us : forall tb u, u ∉ us -> after_rows k us tb !! u = tb !! u.
Proof.
  induction us as [|u0 us IH]; intros tb u Hn; [reflexivity|].
  apply not_elem_of_cons in Hn as [Hne Hn]. rewrite after_rows_cons, IH by exact Hn. apply after_step_ne. exact Hne.
Qed.

Lemma after_rows_in k us : forall tb u r n, NoDup us -> u ∈ us -> tb !! u = Some r -> kind_f T k r = Ok n ->
  after_rows k us tb !! u = n.
Proof.
  induction us as [|u0 us IH]; intros tb u r n Hnd Hin Hu Hf; [inversion Hin|].
  apply NoDup_cons in Hnd as [Hnotin Hnd]. rewrite after_rows_cons.
  destruct (decide (u = u0)) as [->|Hne].
  - rewrite after_rows_notin by exact Hnotin. unfold after_step. rewrite Hu, Hf.
    destruct n; [apply lookup_insert|apply lookup_delete].
  - apply elem_of_cons in Hin as [?|Hin]; [contradiction|].
    eapply IH; eauto. rewrite after_step_ne by exact Hne. exact Hu.
Qed.

(** the operations generated after a cache hit: one per row, each affects
    its row and nothing else *)
Lemma exec_uuid_ops k : forall us d0 d,
  NoDup us ->
  (forall u, u ∈ us -> exists r n, get_tbl d (t_name T) !! u = Some r /\ kind_f T k r = Ok n) ->
  exists d', exec_ops S d0 d (map (api_op T k) (map uuid_cond us)) = (repeat (RCount 1) (length us), d', true) /\
             get_tbl d' (t_name T) = after_rows k us (get_tbl d (t_name T)) /\
             (forall t', t' <> t_name T -> get_tbl d' t' = get_tbl d t').
Proof.
  induction us as [|u us IH]; intros d0 d Hnd Hall.
  - exists d. cbn. auto.
  - apply NoDup_cons in Hnd as [Hnotin Hnd].
    destruct (Hall u) as (r & n & Hu & Hf); [left|].
    cbn [map exec_ops]. rewrite (exec_uuid_op d0 d k u r n Hu Hf). cbn [is_err].
    destruct (IH d0 (put_row (t_name T) u n d) Hnd) as (d' & He & Htb & Hot).
    { intros u' Hu'. destruct (Hall u') as (r' & n' & Hr' & Hf'); [right; exact Hu'|].
      exists r', n'. split; [|exact Hf']. rewrite get_tbl_put_same.
      assert (u' <> u) by (intros ->; contradiction).
      destruct n; [rewrite lookup_insert_ne by congruence|rewrite lookup_delete_ne by congruence]; exact Hr'. }
    exists d'. rewrite He. split; [reflexivity|]. split.
    + rewrite Htb, get_tbl_put_same, after_rows_cons. unfold after_step. rewrite Hu, Hf. destruct n; reflexivity.
    + intros t' Ht'. rewrite Hot by exact Ht'. apply get_tbl_put_other. exact Ht'.
Qed.

(** operations whose conditions select nothing change nothing *)
Lemma exec_noops k : forall conds d0 d,
  Forall (fun wh => conds_valid T wh = true /\ filter_rows (get_tbl d (t_name T)) wh = ∅) conds ->
  exec_ops S d0 d (map (api_op T k) conds) = (repeat (RCount 0) (length conds), d, true).
Proof.
  induction conds as [|wh conds IH]; intros d0 d Hall; [reflexivity|].
  inversion Hall as [|? ? [Hv He] Hrest]; subst. cbn [map exec_ops].
  rewrite (exec_noop d0 d k wh Hv He). cbn [is_err]. rewrite (IH d0 d Hrest). reflexivity.
Qed.

End Exec.

(** * what List() reports *)
Section Matches.
Variable T : table.
Variable specs : list ispec.
Variable c : rc.
Hypothesis HI : Inv T specs c.

Lemma elem_of_union_list_fmap {A} (f : A -> gset sym) (l : list A) u :
  u ∈ ⋃ (f <$> l) <-> exists x, x ∈ l /\ u ∈ f x.
Proof.
  rewrite elem_of_union_list. split.
  - intros (X & HX & Hu). apply elem_of_list_fmap in HX as (x & -> & Hx). eauto.
  - intros (x & Hx & Hu). exists (f x). split; [apply elem_of_list_fmap; eauto|exact Hu].
Qed.

(** WhereAll / WhereAny: a row is reported iff it satisfies every condition of one of the lists *)
Theorem matches_explicit any u :
  u ∈ matches T specs c (CExplicit any) <->
  exists cs r, cs ∈ any /\ rc_rows c !! u = Some r /\ row_matches u r cs = true.
Proof.
  cbn [matches]. rewrite elem_of_union_list_fmap. split.
  - intros (cs & Hcs & Hu). rewrite (rows_by_condition_is_filter T specs c cs HI) in Hu.
    apply elem_of_F in Hu as (r & Hr & Hm). eauto.
  - intros (cs & r & Hcs & Hr & Hm). exists cs. split; [exact Hcs|].
    rewrite (rows_by_condition_is_filter T specs c cs HI). apply elem_of_F. eauto.
Qed.

Corollary where_all_is_all cs u :
  u ∈ matches T specs c (CExplicit [cs]) <->
  exists r, rc_rows c !! u = Some r /\ Forall (fun cd => eval_cond_row u r cd = true) cs.
Proof.
  rewrite matches_explicit. split.
  - intros (cs' & r & Hin & Hr & Hm). apply elem_of_list_singleton in Hin as ->. exists r. split; [exact Hr|].
    apply Forall_forall. intros cd Hcd. unfold row_matches in Hm. rewrite forallb_forall in Hm. apply Hm.
    apply elem_of_list_In. exact Hcd.
  - intros (r & Hr & Hall). exists cs, r. split; [apply elem_of_list_singleton; reflexivity|]. split; [exact Hr|].
    unfold row_matches. apply forallb_forall. intros cd Hcd. rewrite Forall_forall in Hall. apply Hall.
    apply elem_of_list_In. exact Hcd.
Qed.

Corollary where_any_is_any cs u :
  u ∈ matches T specs c (CExplicit (map (fun cd => [cd]) cs)) <->
  exists r cd, rc_rows c !! u = Some r /\ cd ∈ cs /\ eval_cond_row u r cd = true.
Proof.
  rewrite matches_explicit. split.
  - intros (l & r & Hin & Hr & Hm). apply elem_of_list_fmap in Hin as (cd & -> & Hcd).
    exists r, cd. split; [exact Hr|]. split; [exact Hcd|]. unfold row_matches in Hm. cbn in Hm.
    rewrite andb_true_r in Hm. exact Hm.
  - intros (r & cd & Hr & Hcd & He). exists [cd], r. split; [apply elem_of_list_fmap; eauto|]. split; [exact Hr|].
    unfold row_matches. cbn. rewrite He. reflexivity.
Qed.

(** through an index only cached rows are found *)
Lemma first_index_hit_sub mvals : forall sm us,
  Forall (fun p => Inv1 T (rc_rows c) p.1 p.2) sm ->
  first_usable_hit T mvals sm = Some us -> us ⊆ dom (rc_rows c) /\ us <> ∅.
Proof.
  induction sm as [|[s m] sm IH]; intros us Hall Hf; [discriminate|].
  inversion Hall as [|? ? [Hne Hm] Hrest]; subst. cbn in Hf. cbn in Hm, Hne.
  destruct (usable T s mvals); [|apply IH; assumption].
  rename Hf into Hk. split.
  - intros u Hu. assert (Hu' : u ∈ i_get m (K T s mvals)) by (unfold i_get; rewrite Hk; exact Hu).
    apply Hm in Hu' as (r & Hr & _). apply elem_of_dom. eauto.
  - intros ->. apply (Hne (K T s mvals)). exact Hk.
Qed.

Lemma Inv_zip : Forall (fun p => Inv1 T (rc_rows c) p.1 p.2) (zip specs (rc_idx c)).
Proof.
  pose proof HI as H. unfold Inv in H. clear HI.
  induction H as [|s m ss ms H1 H2 IH]; [constructor|]. cbn. constructor; [exact H1|exact IH].
Qed.

Lemma rbm_step_sub acc m : acc ⊆ dom (rc_rows c) -> rbm_step T specs c acc m ⊆ dom (rc_rows c).
Proof.
  intros Hacc. unfold rbm_step.
  assert (Hby : default ∅ (first_usable_hit T m.2 (zip specs (rc_idx c))) ⊆ dom (rc_rows c)).
  { destruct (first_usable_hit T m.2 (zip specs (rc_idx c))) as [us|] eqn:Hf; [|cbn; set_solver].
    apply first_index_hit_sub in Hf as [Hs _]; [exact Hs|apply Inv_zip]. }
  destruct m.1 as [u|]; [|set_solver].
  destruct (bool_decide (is_Some (rc_rows c !! u))) eqn:Hb; [|set_solver].
  apply bool_decide_eq_true in Hb. apply elem_of_dom in Hb. set_solver.
Qed.

(** a row found through an index agrees with the model on an index for which
    the model holds a value in every column *)
Lemma first_usable_hit_agrees mvals : forall sm us u,
  Forall (fun p => Inv1 T (rc_rows c) p.1 p.2) sm ->
  first_usable_hit T mvals sm = Some us -> u ∈ us ->
  exists s mi r, (s, mi) ∈ sm /\ usable T s mvals = true /\ rc_rows c !! u = Some r /\ K T s r = K T s mvals.
Proof.
  induction sm as [|[s m] sm IH]; intros us u Hall Hf Hu; [discriminate|].
  inversion Hall as [|? ? [Hne Hm] Hrest]; subst. cbn in Hf. cbn in Hm, Hne.
  destruct (usable T s mvals) eqn:Hus.
  - rename Hf into Hk. assert (Hu' : u ∈ i_get m (K T s mvals)) by (unfold i_get; rewrite Hk; exact Hu).
    apply Hm in Hu' as (r & Hr & HK). exists s, m, r. split; [left|]. split; [exact Hus|]. split; [exact Hr|exact HK].
  - destruct (IH us u Hrest Hf Hu) as (s' & mi & r & Hin & H1 & H2 & H3). exists s', mi, r. split; [right; exact Hin|auto].
Qed.

(** Where(model) for a model without uuid: every row it selects agrees with the
    model on all columns of one index specification that is usable for the
    model - unset (default) fields never select anything *)
Theorem where_model_uses_usable_index mvals u :
  u ∈ rbm_step T specs c ∅ (None, mvals) ->
  exists s r, s ∈ specs /\ usable T s mvals = true /\ rc_rows c !! u = Some r /\ K T s r = K T s mvals.
Proof.
  unfold rbm_step. cbn [fst snd]. rewrite union_empty_l_L.
  destruct (first_usable_hit T mvals (zip specs (rc_idx c))) as [us|] eqn:Hf; cbn [default]; [|set_solver].
  intros Hu. destruct (first_usable_hit_agrees mvals _ us u Inv_zip Hf Hu) as (s & mi & r & Hin & H1 & H2 & H3).
  exists s, r. split; [|auto]. apply elem_of_list_lookup in Hin as [i Hi]. apply lookup_zip_with_Some in Hi as (s0 & m0 & Heq & Hs & _).
  inversion Heq; subst. eapply elem_of_list_lookup_2. exact Hs.
Qed.

Theorem matches_sub_dom cd : matches T specs c cd ⊆ dom (rc_rows c).
Proof.
  destruct cd as [ms|any|cs]; cbn [matches].
  - assert (H : forall acc, acc ⊆ dom (rc_rows c) -> foldl (rbm_step T specs c) acc ms ⊆ dom (rc_rows c)).
    { induction ms as [|m ms IH]; intros acc Hacc; [exact Hacc|]. cbn. apply IH. apply rbm_step_sub. exact Hacc. }
    apply H. set_solver.
  - intros u Hu. apply (matches_explicit any u) in Hu as (cs & r & _ & Hr & _). apply elem_of_dom. eauto.
  - intros u Hu. apply elem_of_dom in Hu as [r Hr]. apply map_filter_lookup_Some in Hr as [Hr _]. apply elem_of_dom. eauto.
Qed.

End Matches.

(** * Where(model) without a cache hit: equality on the first usable index selects nothing *)
Section NoHit.
Variable T : table.
Variable specs : list ispec.
Variable c : rc.
Hypothesis HI : Inv T specs c.
(** the schema indexes of the table are the first index specifications of the cache, in the schema's order *)
Hypothesis Hschema : forall j idx, t_indexes T !! j = Some idx ->
  exists s, specs !! j = Some s /\ i_cols s = map (fun col => (col, None)) idx.
Hypothesis Hnouuid : find_col T ucol = None.

Lemma foldl_rbm_mono ms : forall acc, acc ⊆ foldl (rbm_step T specs c) acc ms.
Proof.
  induction ms as [|m ms IH]; intros acc; [reflexivity|]. cbn. etransitivity; [|apply IH].
  unfold rbm_step. destruct m.1 as [u|]; [|set_solver].
  destruct (bool_decide (is_Some (rc_rows c !! u))); set_solver.
Qed.

Lemma foldl_rbm_empty ms : foldl (rbm_step T specs c) ∅ ms = ∅ -> Forall (fun m => rbm_step T specs c ∅ m = ∅) ms.
Proof.
  induction ms as [|m ms IH]; intros He; [constructor|]. cbn in He.
  assert (H0 : rbm_step T specs c ∅ m = ∅).
  { pose proof (foldl_rbm_mono ms (rbm_step T specs c ∅ m)) as Hmono. rewrite He in Hmono.
    apply leibniz_equiv. apply equiv_empty. exact Hmono. }
  constructor; [exact H0|]. apply IH. rewrite H0 in He. exact He.
Qed.

Lemma first_index_hit_some mvals s m : forall sm i,
  Forall (fun p => Inv1 T (rc_rows c) p.1 p.2) sm ->
  sm !! i = Some (s, m) -> usable T s mvals = true ->
  (forall j p, j < i -> sm !! j = Some p -> usable T p.1 mvals = false) ->
  is_Some (m !! K T s mvals) ->
  exists us, first_usable_hit T mvals sm = Some us /\ us <> ∅.
Proof.
  induction sm as [|[s0 m0] sm IH]; intros i Hall Hi Hus Hbefore Hk; [destruct i; discriminate|].
  inversion Hall as [|? ? [Hne _] Hrest]; subst. cbn. cbn in Hne.
  destruct i as [|i]; cbn in Hi.
  - inversion Hi; subst. rewrite Hus. destruct Hk as [us0 H0]. exists us0. split; [exact H0|].
    intros ->. apply (Hne (K T s mvals)). exact H0.
  - assert (H0 : usable T s0 mvals = false) by (apply (Hbefore 0 (s0, m0)); [lia|reflexivity]).
    rewrite H0. eapply IH; eauto. intros j p Hj Hp. apply (Hbefore (S j) p); [lia|exact Hp].
Qed.

(** List.find returns the first element that passes *)
Lemma find_first {A} (f : A -> bool) : forall l x,
  List.find f l = Some x ->
  exists j, l !! j = Some x /\ f x = true /\ forall k y, k < j -> l !! k = Some y -> f y = false.
Proof.
  induction l as [|a l IH]; intros x Hf; [discriminate|]. cbn in Hf.
  destruct (f a) eqn:Ha.
  - inversion Hf; subst. exists 0. split; [reflexivity|]. split; [exact Ha|]. intros k y Hk. lia.
  - destruct (IH x Hf) as (j & Hj & Hx & Hb). exists (S j). split; [exact Hj|]. split; [exact Hx|].
    intros k y Hk Hy. destruct k as [|k]; cbn in Hy; [inversion Hy; subst; exact Ha|]. apply (Hb k y); [lia|exact Hy].
Qed.

Lemma mapM_eq_conds_lookup (m : row) : forall idx cs,
  mapM (fun col => v ← m !! col; Some (col, CEq, v)) idx = Some cs ->
  forall col, col ∈ idx -> exists v, m !! col = Some v /\ (col, CEq, v) ∈ cs.
Proof.
  induction idx as [|c0 idx IH]; intros cs Hm col Hin; [inversion Hin|].
  cbn in Hm. destruct (m !! c0) as [v0|] eqn:H0; [|discriminate]. cbn in Hm.
  destruct (mapM _ idx) as [cs'|] eqn:Hrest; [|discriminate]. cbn in Hm. inversion Hm; subst.
  apply elem_of_cons in Hin as [->|Hin].
  - exists v0. split; [exact H0|left].
  - destruct (IH cs' eq_refl col Hin) as (v & Hv & Hc). exists v. split; [exact Hv|right; exact Hc].
Qed.

(** a model without a cache hit: its equality conditions select no cached row *)
Theorem model_nohit_selects_nothing m cs :
  rbm_step T specs c ∅ m = ∅ -> model_eq_conds T m = Some cs -> filter_rows (rc_rows c) cs = ∅.
Proof.
  intros He Hc. apply map_empty. intros u. apply map_filter_lookup_None.
  destruct (rc_rows c !! u) as [r|] eqn:Hr; [right|left; reflexivity].
  intros r' Hr' Hm. inversion Hr'; subst r'. cbv beta in Hm. cbn [fst snd] in Hm.
  unfold model_eq_conds in Hc. unfold rbm_step in He. destruct m as [[u0|] mv]; cbn [fst snd] in *.
  - (* by uuid: the row does not exist *)
    inversion Hc; subst cs. apply row_matches_uuid in Hm. subst u0.
    rewrite bool_decide_eq_true_2 in He by eauto. set_solver.
  - (* by index *)
    destruct (List.find (forallb (col_nondefault T mv)) (t_indexes T)) as [idx|] eqn:Hf; [|discriminate].
    cbn in Hc. apply find_first in Hf as (i & Hidx & Hnd & Hfirst).
    destruct (Hschema i idx Hidx) as (s & Hs & Hcols).
    pose proof (Inv_zip T specs c HI) as Hz.
    assert (Hlen : length specs = length (rc_idx c)) by (eapply Forall2_length; exact HI).
    destruct (lookup_lt_is_Some_2 (rc_idx c) i) as [mi Hmi]; [rewrite <- Hlen; eapply lookup_lt_Some; exact Hs|].
    assert (Hzi : zip specs (rc_idx c) !! i = Some (s, mi)).
    { apply lookup_zip_with_Some. exists s, mi. auto. }
    assert (HK : K T s r = K T s mv).
    { apply K_agree. intros ck Hck. rewrite Hcols in Hck. apply elem_of_list_fmap in Hck as (col & -> & Hcol).
      destruct (mapM_eq_conds_lookup mv idx cs Hc col Hcol) as (v & Hv & Hin).
      unfold row_matches in Hm. rewrite forallb_forall in Hm. specialize (Hm (col, CEq, v)).
      rewrite <- elem_of_list_In in Hm. specialize (Hm Hin). unfold eval_cond_row, row_col in Hm.
      assert (Hne : N.eqb col ucol = false).
      { apply N.eqb_neq. intros ->. rewrite forallb_forall in Hnd. specialize (Hnd ucol).
        rewrite <- elem_of_list_In in Hnd. specialize (Hnd Hcol). unfold col_nondefault in Hnd. rewrite Hnouuid in Hnd. discriminate. }
      rewrite Hne in Hm. destruct (r !! col) as [v'|] eqn:Hv'; [|discriminate]. apply eval_eq in Hm. subst v'.
      unfold col_key. cbn [fst snd]. rewrite Hv', Hv; reflexivity. }
    assert (Hk : is_Some (mi !! K T s mv)).
    { apply (index_entry_iff T specs c i s mi (K T s mv) HI Hs Hmi). exists u, r. split; [exact Hr|exact HK]. }
    assert (Husable : usable T s mv = true).
    { unfold usable. rewrite Hcols. apply forallb_forall. intros ck Hck. apply in_map_iff in Hck as (col & <- & Hcol).
      unfold ck_usable. cbn [fst snd]. rewrite forallb_forall in Hnd. apply Hnd. exact Hcol. }
    assert (Hbefore : forall j p, j < i -> zip specs (rc_idx c) !! j = Some p -> usable T p.1 mv = false).
    { intros j [sj mj] Hj Hp. apply lookup_zip_with_Some in Hp as (sj' & mj' & Heq & Hsj & _). inversion Heq; subst sj' mj'.
      destruct (lookup_lt_is_Some_2 (t_indexes T) j) as [idxj Hidxj]; [apply lookup_lt_Some in Hidx; lia|].
      destruct (Hschema j idxj Hidxj) as (sj' & Hsj' & Hcolsj). rewrite Hsj in Hsj'. inversion Hsj'; subst sj'.
      cbn [fst]. unfold usable. rewrite Hcolsj. pose proof (Hfirst j idxj Hj Hidxj) as Hno.
      apply not_true_is_false. intros Hall.
      assert (Ht : forallb (col_nondefault T mv) idxj = true).
      { apply forallb_forall. intros col Hcol. rewrite forallb_forall in Hall. specialize (Hall (col, None)).
        apply Hall. apply in_map_iff. exists col. split; [reflexivity|exact Hcol]. }
      rewrite Ht in Hno. discriminate. }
    destruct (first_index_hit_some mv s mi _ i Hz Hzi Husable Hbefore Hk) as (us & Hus & Hne).
    rewrite Hus in He. cbn in He. apply Hne. set_solver.
Qed.

End NoHit.

(** * the generated operations affect exactly the rows List() reports *)
Definition sum_counts (rs : list result) : nat :=
  fold_right (fun r n => match r with RCount k => k + n | _ => n end) 0 rs.

Lemma sum_counts_repeat k n : sum_counts (repeat (RCount k) n) = n * k.
Proof. induction n as [|n IH]; [reflexivity|]. cbn [repeat]. unfold sum_counts in *. cbn [fold_right]. rewrite IH. reflexivity. Qed.

Lemma mapM_Forall2 {A B} (f : A -> option B) (l : list A) (k : list B) :
  mapM f l = Some k -> Forall2 (fun a b => f a = Some b) l k.
Proof.
  revert k. induction l as [|a l IH]; intros k H; cbn in H.
  - inversion H. constructor.
  - destruct (f a) as [b|] eqn:Hb; [|discriminate]. cbn in H.
    destruct (mapM f l) as [k'|] eqn:Hk; [|discriminate]. cbn in H. inversion H; subst. constructor; [exact Hb|]. apply IH. reflexivity.
Qed.

Section Main.
Variable S : schema.
Variable T : table.
Hypothesis HT : find_table S (t_name T) = Some T.
Variable specs : list ispec.
Variable c : rc.
Hypothesis HI : Inv T specs c.
Hypothesis Hschema : forall j idx, t_indexes T !! j = Some idx ->
  exists s, specs !! j = Some s /\ i_cols s = map (fun col => (col, None)) idx.
Hypothesis Hnouuid : find_col T ucol = None.
Variable d : dbstate.
Hypothesis Hsync : get_tbl d (t_name T) = rc_rows c.    (* the cache is synchronised with the database *)

(** without a cache hit the conditions that are sent select nothing *)
Lemma nohit_conditions_select_nothing cd conds :
  matches T specs c cd = ∅ -> generate T specs c cd = Some conds ->
  Forall (fun wh => filter_rows (rc_rows c) wh = ∅) conds.
Proof.
  intros He Hg. unfold generate in Hg. rewrite He in Hg. rewrite bool_decide_eq_true_2 in Hg by reflexivity.
  destruct cd as [ms|any|cs]; cbn [matches] in He.
  - apply foldl_rbm_empty in He; [|assumption..]. apply mapM_Forall2 in Hg.
    induction Hg as [|m wh ms' conds' Hm Hrest IH]; [constructor|].
    inversion He as [|? ? H0 Hr]; subst. constructor; [|apply IH; exact Hr].
    exact (model_nohit_selects_nothing T specs c HI Hschema Hnouuid m wh H0 Hm).
  - inversion Hg; subst conds. apply Forall_forall. intros cs Hcs.
    assert (Hz : rows_by_condition T specs c cs = ∅).
    { apply leibniz_equiv. apply equiv_empty. intros u Hu. assert (Hin : u ∈ ⋃ (rows_by_condition T specs c <$> any)).
      { apply elem_of_union_list. exists (rows_by_condition T specs c cs). split; [apply elem_of_list_fmap; eauto|exact Hu]. }
      rewrite He in Hin. set_solver. }
    rewrite (rows_by_condition_is_filter T specs c cs HI) in Hz. apply dom_empty_inv_L in Hz. exact Hz.
  - inversion Hg. constructor.
Qed.

Theorem api_affects_exactly_listed cd k conds d0 :
  generate T specs c cd = Some conds ->
  Forall (fun wh => conds_valid T wh = true) conds ->
  (forall u r, u ∈ matches T specs c cd -> rc_rows c !! u = Some r -> exists n, kind_f T k r = Ok n) ->
  exists rs d',
    exec_ops S d0 d (map (api_op T k) conds) = (rs, d', true) /\
    sum_counts rs = size (matches T specs c cd) /\
    (forall u, u ∉ matches T specs c cd -> get_tbl d' (t_name T) !! u = rc_rows c !! u) /\
    (forall u r n, u ∈ matches T specs c cd -> rc_rows c !! u = Some r -> kind_f T k r = Ok n ->
                   get_tbl d' (t_name T) !! u = n) /\
    (forall t', t' <> t_name T -> get_tbl d' t' = get_tbl d t').
Proof.
  intros Hg Hvalid Hok.
  destruct (decide (matches T specs c cd = ∅)) as [He|Hne].
  - (* no cache hit: the caller's conditions are sent and select nothing *)
    pose proof (nohit_conditions_select_nothing cd conds He Hg) as Hnone.
    exists (repeat (RCount 0) (length conds)), d. split.
    + apply exec_noops; [exact HT|]. rewrite Hsync. apply Forall_forall. intros wh Hwh.
      rewrite Forall_forall in Hvalid, Hnone. auto.
    + rewrite sum_counts_repeat, He, size_empty. split; [lia|]. split; [intros u _; rewrite Hsync; reflexivity|].
      split; [intros u r n Hu; set_solver|reflexivity].
  - (* cache hits: one operation per listed row, by uuid *)
    unfold generate in Hg. rewrite bool_decide_eq_false_2 in Hg by exact Hne. inversion Hg; subst conds. clear Hg.
    set (ms := matches T specs c cd) in *.
    destruct (exec_uuid_ops S T HT k (elements ms) d0 d) as (d' & He & Htb & Hot).
    { apply NoDup_elements. }
    { intros u Hu. apply elem_of_elements in Hu.
      assert (Hd : u ∈ dom (rc_rows c)) by (apply (matches_sub_dom T specs c HI cd); exact Hu).
      apply elem_of_dom in Hd as [r Hr]. destruct (Hok u r Hu Hr) as [n Hn]. exists r, n. rewrite Hsync. auto. }
    exists (repeat (RCount 1) (length (elements ms))), d'. split; [exact He|].
    rewrite sum_counts_repeat. split; [unfold size, set_size; cbn; lia|]. split; [|split; [|exact Hot]].
    + intros u Hu. rewrite Htb, after_rows_notin by (rewrite elem_of_elements; exact Hu). rewrite Hsync. reflexivity.
    + intros u r n Hu Hr Hn. rewrite Htb. eapply after_rows_in; eauto; [apply NoDup_elements|apply elem_of_elements; exact Hu|].
      rewrite Hsync. exact Hr.
Qed.

(** Delete: exactly the listed rows disappear *)
Corollary api_delete_exact cd conds d0 :
  generate T specs c cd = Some conds ->
  Forall (fun wh => conds_valid T wh = true) conds ->
  exists rs d',
    exec_ops S d0 d (map (api_op T ADelete) conds) = (rs, d', true) /\
    sum_counts rs = size (matches T specs c cd) /\
    forall u, get_tbl d' (t_name T) !! u = if decide (u ∈ matches T specs c cd) then None else rc_rows c !! u.
Proof.
  intros Hg Hv. destruct (api_affects_exactly_listed cd ADelete conds d0 Hg Hv) as (rs & d' & He & Hs & Hout & Hin & _).
  { intros u r _ _. exists None. reflexivity. }
  exists rs, d'. split; [exact He|]. split; [exact Hs|]. intros u. destruct (decide (u ∈ matches T specs c cd)) as [Hu|Hu].
  - assert (Hd : u ∈ dom (rc_rows c)) by (apply (matches_sub_dom T specs c HI cd); exact Hu).
    apply elem_of_dom in Hd as [r Hr]. apply (Hin u r None Hu Hr). reflexivity.
  - apply Hout. exact Hu.
Qed.

End Main.

(** * the premises are satisfiable: a table with a schema index, a cache
    holding two rows, conditionals with and without a cache hit *)
Section Example.
Definition exT : table :=
  mkTable 10 [mkCol 11 (mkColTy KAtom (mkBase TStr [] None) None 1 (Some 1)) true;
              mkCol 12 (mkColTy KAtom (mkBase TInt [] None) None 1 (Some 1)) true] [[11%N]] true.
Definition exS : schema := mkSchema [exT].
Definition exSpecs : list ispec := [mkISpec [(11%N, None)] true; mkISpec [(12%N, None)] false].
Definition exRow (name : sym) (n : Z) : row := {[ 11%N := VAtom (AStr name); 12%N := VAtom (AInt n) ]}.
Definition exC1 : rc := match rc_create exT exSpecs false (rc_empty exSpecs) 7%N (exRow 5 1) with COk c => c | CErr _ => rc_empty exSpecs end.
Definition exC : rc := match rc_create exT exSpecs false exC1 8%N (exRow 6 1) with COk c => c | CErr _ => exC1 end.
Definition exD : dbstate := {[ 10%N := rc_rows exC ]}.

Lemma exC_inv : Inv exT exSpecs exC.
Proof.
  assert (H1 : Inv exT exSpecs exC1).
  { eapply (create_inv exT exSpecs false (rc_empty exSpecs) 7%N (exRow 5 1)); [apply Inv_empty| |reflexivity].
    apply Forall_forall. intros s _ _ u' r' Hr'. cbn in Hr'. rewrite lookup_empty in Hr'. discriminate. }
  eapply (create_inv exT exSpecs false exC1 8%N (exRow 6 1)); [exact H1| |reflexivity].
  repeat constructor.
  - intros _ u' r' Hr' HK. change (rc_rows exC1) with (<[7%N := exRow 5 1]> (∅ : tbl)) in Hr'.
    apply lookup_insert_Some in Hr' as [[<- <-]|[_ Hr']]; [vm_compute in HK; discriminate|rewrite lookup_empty in Hr'; discriminate].
  - intros Hs. discriminate.
Qed.

Example premises_hold :
  find_table exS (t_name exT) = Some exT /\ Inv exT exSpecs exC /\
  (forall j idx, t_indexes exT !! j = Some idx -> exists s, exSpecs !! j = Some s /\ i_cols s = map (fun col => (col, None)) idx) /\
  find_col exT ucol = None /\ get_tbl exD (t_name exT) = rc_rows exC /\
  (* Where(model with the name of row 7): found through the schema index *)
  bool_decide (matches exT exSpecs exC (CModels [(None, exRow 5 0)]) = {[7%N]}) = true /\
  (* WhereAny(n == 1, name == 9): both rows *)
  bool_decide (matches exT exSpecs exC (CExplicit [[(12%N, CEq, VAtom (AInt 1))]; [(11%N, CEq, VAtom (AStr 9))]]) = {[7%N; 8%N]}) = true /\
  (* Where(model naming nothing cached): no hit, equality on the index is sent *)
  generate exT exSpecs exC (CModels [(None, exRow 9 0)]) = Some [[(11%N, CEq, VAtom (AStr 9))]].
Proof.
  split; [reflexivity|]. split; [exact exC_inv|]. split.
  { intros [|j] idx Hj; cbn in Hj; [|destruct j; discriminate]. inversion Hj; subst. exists (mkISpec [(11%N, None)] true). split; reflexivity. }
  split; [reflexivity|]. split; [reflexivity|]. split; [vm_compute; reflexivity|]. split; vm_compute; reflexivity.
Qed.
End Example.
