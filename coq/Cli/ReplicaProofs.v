(** C01 (protocol level): a monitor-fed cache mirrors the monitored part of
    the database after any history.  Caches are compared pointwise (table by
    table), so no extensionality axiom is involved. *)
From LOV Require Export Cli.Replica Srv.MonitorProofs.

Lemma apply_tbl_empty tb : apply_tbl tb ∅ = tb.
Proof.
  apply map_eq. intros u. unfold apply_tbl. rewrite lookup_merge, lookup_empty.
  destruct (tb !! u); reflexivity.
Qed.

Definition db_typed (τ : sym -> gmap sym kind) (d : dbstate) : Prop :=
  forall t, tbl_typed (τ t) (get_tbl d t).

Definition all_kinds_req (R : request) : Prop :=
  forall t q, req_for R t = Some q -> all_kinds q /\ mr_initial q = true.

Definition mirrors (R : request) (c : fcache) (d : dbstate) : Prop := forall t, c t = proj_db R d t.

Lemma dump_mirrors R d : all_kinds_req R -> mirrors R (apply_dump R d) d.
Proof.
  intros Hk t. unfold apply_dump, proj_db. destruct (req_for R t) as [q|] eqn:Hq; [|reflexivity].
  destruct (Hk t q Hq) as [_ ->]. reflexivity.
Qed.

(** one notification keeps the cache equal to the monitored part *)
Lemma notification_mirrors R e τ c d d' :
  all_kinds_req R -> db_typed τ d -> db_typed τ d' ->
  mirrors R c d -> mirrors R (apply_notification R e c d d') d'.
Proof.
  intros Hk Hd Hd' Hm t. unfold apply_notification, proj_db.
  destruct (req_for R t) as [q|] eqn:Hq.
  - rewrite (Hm t). unfold proj_db. rewrite Hq.
    apply (notify_tbl_exact e q (τ t)); [exact (proj1 (Hk t q Hq))|apply Hd|apply Hd'].
  - rewrite (Hm t). unfold proj_db. rewrite Hq. reflexivity.
Qed.

(** a history all of whose states are well typed *)
Fixpoint history_typed (S : schema) (τ : sym -> gmap sym kind) (d : dbstate) (h : list (list op)) : Prop :=
  match h with
  | [] => True
  | ops :: h' => let d' := commit d (transact S d ops) in db_typed τ d' /\ history_typed S τ d' h'
  end.

(** C01: whatever history precedes the monitor request ([d] is any state),
    whatever history follows it, the cache equals the monitored part of the
    database once every notification has been applied *)
Theorem replica_mirrors_db S R e τ : forall h c d,
  all_kinds_req R -> db_typed τ d -> history_typed S τ d h ->
  mirrors R c d ->
  let '(c', d') := replica_run S R e c d h in mirrors R c' d'.
Proof.
  induction h as [|ops h IH]; intros c d Hk Hd Hh Hm; simpl; [exact Hm|].
  destruct Hh as [Hd' Hh]. apply IH; try assumption.
  eapply notification_mirrors; eassumption.
Qed.

Corollary replica_after_dump_mirrors_db S R e τ h d :
  all_kinds_req R -> db_typed τ d -> history_typed S τ d h ->
  let '(c', d') := replica_run S R e (apply_dump R d) d h in mirrors R c' d'.
Proof. intros Hk Hd Hh. apply (replica_mirrors_db S R e τ); try assumption. apply dump_mirrors. exact Hk. Qed.

(** deferral: a notification received before the initial contents were
    applied is queued and replayed after them; since application is a function
    of the message sequence, both processing orders give the same cache *)
Definition handle (R : request) (e : enc) (deferring : bool) (queue : list (dbstate * dbstate)) (c : fcache)
    (d d' : dbstate) : list (dbstate * dbstate) * fcache :=
  if deferring then (queue ++ [(d, d')], c) else (queue, apply_notification R e c d d').

Definition replay (R : request) (e : enc) (c : fcache) (queue : list (dbstate * dbstate)) : fcache :=
  fold_left (fun c p => apply_notification R e c (fst p) (snd p)) queue c.

Theorem defer_commutes R e d0 d1 d2 :
  (* the reply carries the contents at d0; a notification d0 -> d1 arrives
     before the reply is applied (deferred) or after it; then d1 -> d2 *)
  forall t,
    replay R e (apply_dump R d0) [(d0, d1); (d1, d2)] t
    = apply_notification R e (apply_notification R e (apply_dump R d0) d0 d1) d1 d2 t.
Proof. reflexivity. Qed.
