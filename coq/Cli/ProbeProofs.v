From LOV Require Export Cli.Probe.
From Coq Require Import List Arith Bool Lia.
Import ListNotations.

Section ProbeProofs.
Variable T : nat.
Hypothesis HT : 1 <= T.

Notation step := (pstep T false).
Notation run := (prun T false).

Lemma run_dropped s es : dropped s = true -> dropped (run s es) = true.
Proof.
  revert s. induction es as [|e es IH]; intros s H; [exact H|]. cbn [prun fold_left]. apply IH.
  unfold pstep. rewrite H. exact H.
Qed.

(** with a silent peer the time until the connection is dropped is bounded: what is left of the current period, and
    one more period when no echo is outstanding yet *)
Definition budget (s : pstate) : nat := (T - elapsed s) + (if outstanding s then 0 else T).

Lemma silent_drops : forall es s,
  silent es -> elapsed s < T -> budget s <= elapses es -> dropped (run s es) = true.
Proof.
  induction es as [|e es IH]; intros s Hs He Hb.
  - unfold budget in Hb. cbn in Hb. lia.
  - inversion Hs as [|? ? [->| ->] Hs']; subst; cbn [prun fold_left].
    + (* Elapse *)
      destruct (dropped s) eqn:Hd; [apply run_dropped; unfold pstep; rewrite Hd; exact Hd|].
      unfold pstep at 2. rewrite Hd. cbn [elapses filter length] in Hb.
      destruct (Nat.leb T (S (elapsed s))) eqn:Hle.
      * apply Nat.leb_le in Hle. destruct (outstanding s) eqn:Ho.
        -- apply run_dropped. reflexivity.
        -- apply IH; [exact Hs'|cbn; lia|]. unfold budget in *. rewrite Ho in Hb. cbn. unfold elapses in *. lia.
      * apply Nat.leb_gt in Hle. apply IH; [exact Hs'|cbn; lia|].
        unfold budget in *. cbn [elapsed outstanding]. unfold elapses in *. destruct (outstanding s); lia.
    + (* AppDeadline: nothing happens *)
      destruct (dropped s) eqn:Hd; [apply run_dropped; unfold pstep; rewrite Hd; exact Hd|].
      unfold pstep at 2. rewrite Hd. apply IH; [exact Hs'|exact He|]. cbn [elapses filter] in Hb. exact Hb.
Qed.

(** a peer silent for two timeouts is dropped, whatever the application does meanwhile *)
Theorem silent_peer_is_dropped es :
  silent es -> 2 * T <= elapses es -> dropped (run pinit es) = true.
Proof.
  intros Hs Hn. apply silent_drops; [exact Hs|cbn; lia|]. unfold budget. cbn. lia.
Qed.

End ProbeProofs.

(** the variant in which a call that timed out counts as traffic never drops a silent peer whose application keeps
    calling: for every length there is a silent schedule with that many units of time and no drop *)
Fixpoint busy_schedule (n : nat) : list pev :=
  match n with 0 => [] | S n' => Elapse :: AppDeadline :: busy_schedule n' end.

Lemma busy_schedule_silent n : silent (busy_schedule n).
Proof. induction n; cbn; constructor; [left; reflexivity|]. constructor; [right; reflexivity|assumption]. Qed.

Lemma busy_schedule_elapses n : elapses (busy_schedule n) = n.
Proof. induction n; cbn; [reflexivity|]. unfold elapses in *. cbn. rewrite IHn. reflexivity. Qed.

Lemma busy_round T : 2 <= T -> pstep T true (pstep T true pinit Elapse) AppDeadline = pinit.
Proof.
  intros HT. unfold pstep, pinit. cbn [dropped elapsed outstanding].
  destruct (Nat.leb T 1) eqn:Hle; [apply Nat.leb_le in Hle; lia|]. reflexivity.
Qed.

Theorem deadline_as_traffic_refuted T : 2 <= T ->
  forall n, dropped (prun T true pinit (busy_schedule n)) = false.
Proof.
  intros HT n. assert (H : prun T true pinit (busy_schedule n) = pinit).
  { induction n as [|n IH]; [reflexivity|]. cbn [busy_schedule prun fold_left]. rewrite (busy_round T HT). exact IH. }
  rewrite H. reflexivity.
Qed.

Theorem deadline_as_traffic_refuted_full T : 2 <= T ->
  forall n, silent (busy_schedule n) /\ elapses (busy_schedule n) = n /\
            dropped (prun T true pinit (busy_schedule n)) = false.
Proof.
  intros HT n. split; [apply busy_schedule_silent|]. split; [apply busy_schedule_elapses|].
  exact (deadline_as_traffic_refuted T HT n).
Qed.
