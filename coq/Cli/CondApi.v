(** The client's conditional API (client/api.go: Where / WhereAll / WhereAny /
    WhereCache, then List / Delete / Update / Mutate; client/condition.go:
    equalityConditional, explicitConditional, predicateConditional;
    mapper.NewEqualityCondition with info.getValidIndexes;
    cache.RowCache.RowsByModels / RowsByCondition).

    A conditional is asked two things: [Matches] - the cached rows it selects,
    which is what List() reports - and [Generate] - one list of conditions per
    operation to send.  Generate looks at Matches first: with at least one
    cache hit the operations address the hit rows by [_uuid], one operation
    per row; without any hit the conditions the caller gave are sent (for
    models: equality on [_uuid] when set, otherwise on the columns of the
    first schema index all of whose columns hold non-default values). *)
From LOV Require Export Cache.Select Db.Txn.

Inductive conditional :=
| CModels (ms : list (option sym * row))   (* Where(models...): uuid ("" = None) and the fields of each model *)
| CExplicit (any : list (list cond))       (* WhereAll: one list; WhereAny: one singleton list per condition *)
| CPredicate (cs : list cond).             (* WhereCache: the predicate, given as the conditions it decides *)

Inductive akind :=
| ADelete
| AUpdate (explicit : bool) (w : row)   (* the fields named by the caller / all non-default fields of the model *)
| AMutate (ms : list mutation).

Definition uuid_cond (u : sym) : list cond := [(ucol, CEq, VAtom (AUuid u))].

Section CondApi.
Variable T : table.
Variable specs : list ispec.

(** info.getValidIndexes / NewEqualityCondition use [col_nondefault];
    RowCache.indexUsable is [usable] (Cache/Index.v) *)
Notation col_nondefault := (col_nondefault T).
Notation ck_usable := (ck_usable T).
Notation usable := (usable T).

Fixpoint first_usable_hit (mvals : row) (sm : list (ispec * idx1)) : option (gset sym) :=
  match sm with
  | [] => None
  | (s, m) :: sm' =>
      if usable s mvals then m !! K T s mvals     (* the first usable index decides *)
      else first_usable_hit mvals sm'
  end.

(** RowCache.rowsByModels (client indexes allowed), one model at a time into
    the accumulated result map: by UUID when the model has one (nothing when no
    such row is cached); otherwise through the first index that is usable for
    the model, whether it has an entry for the model's value or not *)
Definition rbm_step (c : rc) (acc : gset sym) (m : option sym * row) : gset sym :=
  let by_index := default ∅ (first_usable_hit m.2 (zip specs (rc_idx c))) in
  match m.1 with
  | Some u =>
      if bool_decide (is_Some (rc_rows c !! u)) then acc ∪ {[u]}
      else acc     (* a uuid stands for that row and for no other *)
  | None => acc ∪ by_index
  end.

Definition matches (c : rc) (cd : conditional) : gset sym :=
  match cd with
  | CModels ms => foldl (rbm_step c) ∅ ms
  | CExplicit any => ⋃ (rows_by_condition T specs c <$> any)
  | CPredicate cs => dom (filter_rows (rc_rows c) cs)
  end.

Definition model_eq_conds (m : option sym * row) : option (list cond) :=
  match m.1 with
  | Some u => Some (uuid_cond u)
  | None =>
      idx ← List.find (forallb (col_nondefault m.2)) (t_indexes T);
      mapM (fun col => v ← m.2 !! col; Some (col, CEq, v)) idx
  end.

(** Generate: None = error *)
Definition generate (c : rc) (cd : conditional) : option (list (list cond)) :=
  let ms := matches c cd in
  if bool_decide (ms = ∅) then
    match cd with
    | CModels l => mapM model_eq_conds l
    | CExplicit any => Some any
    | CPredicate _ => Some []
    end
  else Some (uuid_cond <$> elements ms).

Definition api_op (k : akind) (wh : list cond) : op :=
  match k with
  | ADelete => ODelete (t_name T) wh
  | AUpdate _ w => OUpdate (t_name T) wh w
  | AMutate ms => OMutate (t_name T) wh ms
  end.

(** api.Update: a field named by the caller must be mutable; the immutable
    columns are dropped from the row that is sent and an empty row is refused.
    api.Mutate refuses an empty mutation list. *)
Definition col_mutable (col : sym) : bool :=
  match find_col T col with Some C => c_mutable C | None => false end.
Definition mutable_part (w : row) : row := filter (fun kv => col_mutable kv.1 = true) w.

Definition api_ops (c : rc) (cd : conditional) (k : akind) : option (list op) :=
  match k with
  | AUpdate explicit w =>
      if explicit && negb (forallb col_mutable (elements (dom w))) then None
      else match generate c cd with
           | Some conds =>
               if bool_decide (mutable_part w = ∅) then None
               else Some (map (api_op (AUpdate explicit (mutable_part w))) conds)
           | None => None
           end
  | AMutate [] => None
  | _ => option_map (map (api_op k)) (generate c cd)
  end.

End CondApi.
