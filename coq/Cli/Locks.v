(** Lock discipline (C18): balanced paths and an acyclic acquisition order.

    The extractor (harness: lockfacts.go) walks every function of the client,
    the cache and the server and reports, per function, the locks still held
    at each return (after its defers ran), the pairs (held, acquired) it
    performs directly and the calls it makes while holding locks.  The
    generated file states that no path leaks a lock and that the acquisition
    graph, closed under calls, is acyclic; [acyclic_has_rank] turns that into
    a rank function, and [ordered_no_deadlock] is the general theorem: threads
    that acquire locks in increasing rank order and release what they hold
    never reach a state in which every unfinished thread waits for a lock.
    Read locks are treated as exclusive (Go forbids recursive read locking
    for the same reason).  Not modelled: channel operations, contexts,
    data races. *)
From stdpp Require Export list sets gmap.
From Coq Require Export NArith Lia.

Notation lock := N.
Inductive ev := Acq (l : lock) | Rel (l : lock).

Record thread := mkThread { th_held : list lock; th_rest : list ev }.

(** a trace respects the rank order and releases everything *)
Fixpoint wo (rank : lock -> nat) (held : list lock) (t : list ev) : Prop :=
  match t with
  | [] => held = []
  | Acq l :: t' => Forall (fun h => rank h < rank l) held /\ wo rank (l :: held) t'
  | Rel l :: t' => l ∈ held /\ wo rank (filter (fun h => h <> l) held) t'
  end.

Definition holds (s : list thread) (l : lock) : Prop := Exists (fun th => l ∈ th_held th) s.

Definition enabled (s : list thread) (th : thread) : Prop :=
  match th_rest th with
  | [] => False
  | Rel _ :: _ => True
  | Acq l :: _ => ~ holds s l
  end.

Definition Inv (rank : lock -> nat) (s : list thread) : Prop :=
  Forall (fun th => wo rank (th_held th) (th_rest th)) s.

Lemma max_exists {A} (f : A -> nat) (l : list A) : l <> [] -> exists x, x ∈ l /\ forall y, y ∈ l -> f y <= f x.
Proof.
  induction l as [|a l IH]; [congruence|]. intros _.
  destruct l as [|b l'].
  - exists a. split; [set_solver|]. intros y Hy. apply elem_of_list_singleton in Hy as ->. lia.
  - destruct IH as (x & Hx & Hmax); [congruence|].
    destruct (le_lt_dec (f x) (f a)).
    + exists a. split; [set_solver|]. intros y Hy. apply elem_of_cons in Hy as [->|Hy]; [lia|]. specialize (Hmax y Hy). lia.
    + exists x. split; [set_solver|]. intros y Hy. apply elem_of_cons in Hy as [->|Hy]; [lia|]. apply Hmax, Hy.
Qed.

Global Instance holds_dec s l : Decision (holds s l).
Proof. unfold holds. apply Exists_dec. intros th. apply elem_of_list_dec. Defined.

(** the awaited lock of a thread whose next event is an acquisition *)
Definition awaits (th : thread) : option lock :=
  match th_rest th with Acq l :: _ => Some l | _ => None end.

Theorem ordered_no_deadlock rank s :
  Inv rank s -> Exists (fun th => th_rest th <> []) s -> Exists (enabled s) s.
Proof.
  intros HI Hun.
  (* a thread about to release is enabled *)
  set (next_rel := fun th => match th_rest th with Rel _ :: _ => true | _ => false end).
  destruct (decide (Exists (fun th => next_rel th = true) s)) as [Hrel|Hnorel].
  { apply Exists_exists in Hrel as (th & Hth & E). apply Exists_exists. exists th. split; [exact Hth|].
    unfold enabled. unfold next_rel in E. destruct (th_rest th) as [|[l|l] r]; try discriminate. exact I. }
  (* otherwise every unfinished thread awaits a lock *)
  set (W := filter (fun th => th_rest th <> []) s).
  assert (HW : W <> []).
  { apply Exists_exists in Hun as (th & Hth & Hne). intros E.
    assert (th ∈ W) by (apply elem_of_list_filter; auto). rewrite E in H. inversion H. }
  assert (Haw : forall th, th ∈ W -> exists l r, th_rest th = Acq l :: r).
  { intros th Hth. apply elem_of_list_filter in Hth as [Hne Hin].
    destruct (th_rest th) as [|[l|l] r] eqn:E; [congruence|eauto|].
    exfalso. apply Hnorel. apply Exists_exists. exists th. split; [exact Hin|]. unfold next_rel. rewrite E. reflexivity. }
  set (f := fun th => match awaits th with Some l => rank l | None => 0 end).
  destruct (max_exists f W HW) as (tm & Htm & Hmax).
  destruct (Haw tm Htm) as (lm & rm & Em).
  apply Exists_exists. exists tm. split; [apply elem_of_list_filter in Htm as [_ ?]; assumption|].
  unfold enabled. rewrite Em. intros Hheld.
  apply Exists_exists in Hheld as (t2 & Ht2 & Hl).
  (* the holder has something to release, so it is unfinished and awaits a higher lock *)
  pose proof (proj1 (Forall_forall _ _) HI t2 Ht2) as Hwo2. cbn beta in Hwo2.
  assert (Hne2 : th_rest t2 <> []).
  { intros E. rewrite E in Hwo2. cbn in Hwo2. rewrite Hwo2 in Hl. inversion Hl. }
  assert (Ht2W : t2 ∈ W) by (apply elem_of_list_filter; auto).
  destruct (Haw t2 Ht2W) as (l2 & r2 & E2).
  rewrite E2 in Hwo2. cbn in Hwo2. destruct Hwo2 as [Hlt _].
  pose proof (proj1 (Forall_forall _ _) Hlt lm Hl) as Hrank. cbn beta in Hrank.
  specialize (Hmax t2 Ht2W). unfold f, awaits in Hmax. rewrite E2, Em in Hmax. lia.
Qed.

(** [Inv] is preserved by the steps of the threads *)
Definition step_thread (th : thread) : thread :=
  match th_rest th with
  | [] => th
  | Acq l :: r => mkThread (l :: th_held th) r
  | Rel l :: r => mkThread (filter (fun h => h <> l) (th_held th)) r
  end.

Lemma inv_step rank s i th :
  Inv rank s -> s !! i = Some th -> Inv rank (<[i := step_thread th]> s).
Proof.
  intros HI Hi. unfold Inv. apply Forall_insert; [exact HI|].
  pose proof (proj1 (Forall_forall _ _) HI th (elem_of_list_lookup_2 _ _ _ Hi)) as Hwo. cbn beta in Hwo.
  unfold step_thread. destruct th as [h r]. cbn in *. destruct r as [|[l|l] r]; cbn in *; [exact Hwo|apply Hwo|apply Hwo].
Qed.

(** Acyclicity of a finite acquisition graph, decided by repeatedly removing
    the locks nothing points to; success yields a rank. *)
Definition edges := list (lock * lock).
Definition nodes (E : edges) : list lock := remove_dups (E.*1 ++ E.*2).

Fixpoint peel (fuel : nat) (E : edges) (ns : list lock) (k : nat) (acc : list (lock * nat)) : option (list (lock * nat)) :=
  match fuel with
  | O => if decide (ns = []) then Some acc else None
  | S f =>
      match ns with
      | [] => Some acc
      | _ =>
          let srcs := filter (fun n => forallb (fun e => negb (N.eqb e.2 n) || negb (bool_decide (e.1 ∈ ns))) E) ns in
          match srcs with
          | [] => None                      (* every remaining lock has a remaining predecessor: a cycle *)
          | _ => peel f E (filter (fun n => n ∉ srcs) ns) (S k) (acc ++ map (fun n => (n, k)) srcs)
          end
      end
  end.

Definition ranking (E : edges) : option (list (lock * nat)) := peel (length (nodes E)) E (nodes E) 0 [].
Definition acyclic (E : edges) : bool := match ranking E with Some _ => true | None => false end.

Definition rank_of (r : list (lock * nat)) (l : lock) : nat :=
  match list_find (fun p => p.1 = l) r with Some (_, p) => p.2 | None => 0 end.

(** a ranking is checked directly: every edge goes up *)
Definition ranking_ok (E : edges) (r : list (lock * nat)) : bool :=
  forallb (fun e => Nat.ltb (rank_of r e.1) (rank_of r e.2)) E.

Theorem checked_ranking_orders_edges E r :
  ranking_ok E r = true -> forall a b, (a, b) ∈ E -> rank_of r a < rank_of r b.
Proof.
  unfold ranking_ok. rewrite forallb_forall. intros H a b Hab.
  apply elem_of_list_In in Hab. specialize (H (a, b) Hab). apply Nat.ltb_lt in H. exact H.
Qed.

(** Function summaries as the extractor reports them *)
Record fsummary := mkF {
  f_id : N;
  f_leaks : list (list lock);              (* locks still held at a return, per leaking path *)
  f_edges : edges;                         (* (held, acquired) inside the function *)
  f_calls : list (list lock * N) }.        (* (locks held, callee) *)

Definition find_f (fs : list fsummary) (i : N) : option fsummary := List.find (fun f => N.eqb (f_id f) i) fs.

(** locks a function may acquire, through calls, with fuel = number of functions *)
Fixpoint acquires (fuel : nat) (fs : list fsummary) (i : N) : list lock :=
  match fuel with
  | O => []
  | S n =>
      match find_f fs i with
      | None => []
      | Some f => (f_edges f).*2 ++ (f_calls f ≫= fun c => acquires n fs c.2)
      end
  end.

(** direct acquisitions of a function (those not nested under another lock are reported as (0, l)) *)
Definition all_edges (fs : list fsummary) : edges :=
  fs ≫= fun f =>
    filter (fun e => negb (N.eqb e.1 0)) (f_edges f) ++
    (f_calls f ≫= fun c => c.1 ≫= fun h => map (fun l => (h, l)) (acquires (length fs) fs c.2)).

Definition no_leaks (fs : list fsummary) : bool := forallb (fun f => match f_leaks f with [] => true | _ => false end) fs.
Definition no_self_edge (E : edges) : bool := forallb (fun e => negb (N.eqb e.1 e.2)) E.

Definition discipline_ok (fs : list fsummary) : bool :=
  no_leaks fs &&
  let E := remove_dups (all_edges fs) in
  match ranking E with Some r => ranking_ok E r | None => false end.

Theorem discipline_gives_rank fs :
  discipline_ok fs = true ->
  exists rank : lock -> nat, forall a b, (a, b) ∈ all_edges fs -> rank a < rank b.
Proof.
  unfold discipline_ok. intros H. apply andb_prop in H as [_ H].
  destruct (ranking (remove_dups (all_edges fs))) as [r|] eqn:E; [|discriminate].
  exists (rank_of r). intros a b Hab. apply (checked_ranking_orders_edges _ r H). apply elem_of_remove_dups. exact Hab.
Qed.
