(** Resynchronisation after a lost connection (client/client.go: connect with
    reconnect=true, monitor()).  The cache is table-wise; the client has a
    list of monitors, each with the tables it watches.  On reconnect every
    monitor is re-established, in an arbitrary order (Go map iteration), and
    answers with the complete current contents of its tables.
    [reconnect_fixed] purges once before the monitors are restarted when
    there are several (and per monitor when there is one, unless the server
    knew its last transaction); [reconnect_pinned] is the rule of the pinned
    tree: every re-established monitor purges the whole cache when the client
    has more than one. *)
From LOV Require Export Base.Schema.

Notation tcachef := (sym -> gmap sym (gmap sym value)).
Notation monitor_tables := (list sym).

Definition dump_into (d : tcachef) (c : tcachef) (ts : monitor_tables) : tcachef :=
  fun t => if bool_decide (t ∈ ts) then d t else c t.
Definition purged : tcachef := fun _ => ∅.

Definition reconnect_fixed (d : tcachef) (c : tcachef) (order : list monitor_tables) : tcachef :=
  fold_left (dump_into d) order purged.

Definition reconnect_pinned (d : tcachef) (c : tcachef) (order : list monitor_tables) : tcachef :=
  fold_left (fun c ts => dump_into d (if Nat.ltb 1 (length order) then purged else c) ts) order c.

(** what the cache should be: the monitored part of the database *)
Definition monitored (d : tcachef) (ms : list monitor_tables) : tcachef :=
  fun t => if bool_decide (Exists (fun ts => t ∈ ts) ms) then d t else ∅.

Lemma fold_dump_notin d c order t :
  Forall (fun ts => t ∉ ts) order -> fold_left (dump_into d) order c t = c t.
Proof.
  revert c. induction order as [|ts order IH]; intros c H; [reflexivity|].
  inversion H as [|? ? Hts Hrest]; subst. cbn. rewrite IH by exact Hrest.
  unfold dump_into. rewrite bool_decide_eq_false_2 by exact Hts. reflexivity.
Qed.

Lemma fold_dump_in d c order t :
  Exists (fun ts => t ∈ ts) order -> fold_left (dump_into d) order c t = d t.
Proof.
  revert c. induction order as [|ts order IH]; intros c H; [inversion H|]. cbn.
  destruct (decide (Exists (fun ts => t ∈ ts) order)) as [He|Hne]; [apply IH, He|].
  inversion H as [? ? Hin|? ? Hin]; subst; [|contradiction].
  rewrite fold_dump_notin.
  - unfold dump_into. rewrite bool_decide_eq_true_2 by exact Hin. reflexivity.
  - apply Forall_forall. intros ts' Hts' Ht. apply Hne. apply Exists_exists. exists ts'. auto.
Qed.

(** after the repaired reconnect the cache is exactly the monitored part of the database, whatever it held
    before, for any number of monitors and any order in which they are restarted *)
Theorem reconnect_resynchronises d c ms order :
  order ≡ₚ ms -> forall t, reconnect_fixed d c order t = monitored d ms t.
Proof.
  intros Hp t. unfold reconnect_fixed, monitored.
  destruct (decide (Exists (fun ts => t ∈ ts) ms)) as [He|Hne].
  - rewrite bool_decide_eq_true_2 by exact He. apply fold_dump_in.
    apply Exists_exists in He as (ts & Hts & Ht). apply Exists_exists. exists ts. split; [|exact Ht]. rewrite Hp. exact Hts.
  - rewrite bool_decide_eq_false_2 by exact Hne. rewrite fold_dump_notin; [reflexivity|].
    apply Forall_forall. intros ts Hts Ht. apply Hne. apply Exists_exists. exists ts. split; [|exact Ht]. rewrite <- Hp. exact Hts.
Qed.

(** rows deleted while the client was away do not survive; no monitored row is missing *)
Corollary no_stale_row_survives d c ms order t u :
  order ≡ₚ ms -> Exists (fun ts => t ∈ ts) ms -> reconnect_fixed d c order t !! u = d t !! u.
Proof.
  intros Hp He. rewrite (reconnect_resynchronises d c ms order Hp).
  unfold monitored. rewrite bool_decide_eq_true_2 by exact He. reflexivity.
Qed.

(** the pinned rule loses the tables of every monitor but the last one restarted *)
Lemma reconnect_pinned_refuted :
  exists (d c : tcachef) ms, forall order, order ≡ₚ ms ->
    exists t, reconnect_pinned d c order t <> monitored d ms t.
Proof.
  set (r := ({[ 9%N := ({[ 1%N := VAtom (AInt 1) ]} : gmap sym value) ]} : gmap sym (gmap sym value))).
  exists (fun _ => r), purged, [[1%N]; [2%N]]. intros order Hp.
  assert (Hlen : length order = 2%nat) by (rewrite Hp; reflexivity).
  destruct order as [|a [|b [|x y]]]; try discriminate.
  assert (Hcases : (a = [1%N] /\ b = [2%N]) \/ (a = [2%N] /\ b = [1%N])).
  { assert (Ha : a ∈ [[1%N]; [2%N]]) by (rewrite <- Hp; set_solver).
    assert (Hb : b ∈ [[1%N]; [2%N]]) by (rewrite <- Hp; set_solver).
    assert (Hnd : NoDup [a; b]) by (rewrite Hp; repeat constructor; set_solver).
    apply NoDup_cons in Hnd as [Hab _].
    apply elem_of_cons in Ha as [->|Ha]; apply elem_of_cons in Hb as [->|Hb];
      try (apply elem_of_list_singleton in Ha as ->); try (apply elem_of_list_singleton in Hb as ->); auto; set_solver. }
  destruct Hcases as [[-> ->]|[-> ->]].
  - exists 1%N. vm_compute. intros H. discriminate.
  - exists 2%N. vm_compute. intros H. discriminate.
Qed.
