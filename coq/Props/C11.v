(** C11 — aggregating successive updates equals the single net update.
    Statements only; proofs in Upd/MergeProofs.v. *)
From LOV Require Import Upd.MergeProofs.

(** For every sequence of row states s0 -> s1 -> ... -> sk produced by
    insert/update/mutate/delete operations on one row (any length, any column
    kinds; all rows of the same table type [τ]), accumulating the per-step
    updates with merge.go's algorithm yields exactly the single net update from
    s0 to sk.  The one sequence merge.go rejects — deleting a row that existed
    before and inserting it again — is excluded (and shown rejected below). *)
Theorem C11_merge_chain_is_net : forall τ s0 chain,
  typed τ s0 -> Forall (typed τ) chain ->
  (is_Some s0 -> no_reinsert s0 chain) ->
  add_chain None s0 chain = Ok (net s0 (List.last chain s0)).
Proof. exact merge_chain_is_net. Qed.
Print Assumptions C11_merge_chain_is_net.

Theorem C11_reinsert_rejected : forall o n,
  add_step (net (Some o) None) None (Some n) = Err EOther.
Proof. exact add_step_reinsert_rejected. Qed.
Print Assumptions C11_reinsert_rejected.

(** the net update has the first old value and the last new value *)
Theorem C11_first_old_last_new : forall o n u,
  net o n = Some u -> mu_old u = o /\ mu_new u = n.
Proof. exact net_first_old_last_new. Qed.
Print Assumptions C11_first_old_last_new.

(** its modify difference applied to the first old value gives the last new value *)
Theorem C11_modify_applies : forall τ o n d,
  typed τ (Some o) -> typed τ (Some n) ->
  option_map mu_ru (net (Some o) (Some n)) = Some (KMod d) -> row_apply o d = n.
Proof. exact net_modify_applies. Qed.
Print Assumptions C11_modify_applies.

(** it disappears exactly when the row ends as it began (which includes
    insert followed by delete: None = None) *)
Theorem C11_vanishes_iff_unchanged : forall τ o n,
  typed τ o -> typed τ n -> (net o n = None <-> o = n).
Proof. exact net_vanishes_iff. Qed.
Print Assumptions C11_vanishes_iff_unchanged.

Theorem C11_insert_then_changes_is_one_insert : forall n,
  option_map mu_ru (net None (Some n)) = Some KIns /\ (net None (Some n) ≫= mu_new) = Some n.
Proof. exact insert_then_changes_is_insert. Qed.
Print Assumptions C11_insert_then_changes_is_one_insert.

Theorem C11_change_then_delete_is_one_delete : forall o,
  option_map mu_ru (net (Some o) None) = Some KDel /\ (net (Some o) None ≫= mu_old) = Some o.
Proof. exact change_then_delete_is_delete. Qed.
Print Assumptions C11_change_then_delete_is_one_delete.

(** the column-wise law behind it: merging the differences o->m and m->n with
    respect to o is the difference o->n, for sets, maps and atoms alike *)
Theorem C11_merge_of_differences : forall o m n : value,
  same_kind o m -> same_kind m n -> vmerge o (vdiff o m) (vdiff m n) = vdiff o n.
Proof. exact vmerge_vdiff. Qed.
Print Assumptions C11_merge_of_differences.

(** Non-vacuity: a three-step chain (change a set, change it further, restore)
    meets the hypotheses and its aggregate vanishes. *)
Example C11_nonvacuous :
  let r0 : row := {[ 1%N := VSet {[AInt 1]} ]} in
  let r1 : row := {[ 1%N := VSet {[AInt 1; AInt 2]} ]} in
  let r2 : row := {[ 1%N := VSet {[AInt 2]} ]} in
  match add_chain None (Some r0) [Some r1; Some r2; Some r0] with Ok None => True | _ => False end
  /\ match net (Some r0) (Some r2) with Some _ => True | None => False end.
Proof. cbv zeta. split; vm_compute; exact I. Qed.
