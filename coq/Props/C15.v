(** C15 — named UUIDs resolve consistently within a transaction.
    Statements only; proofs in Db/NamedUUIDProofs.v.  The engine then runs the
    expanded operations ([transact_named]), so "the UUID reported for the
    insert is the UUID the row is stored under" is C03's insert law applied to
    the expanded insert, whose UUID expansion leaves unchanged
    ([C15_insert_keeps_its_uuid]). *)
From LOV Require Import Db.NamedUUIDProofs Db.TxnProofs.

(** every use of a defined name in a UUID atom — in any row, condition or
    mutation of any operation, before or after the defining insert, since the
    substitution is computed first and applied to all operations — becomes the
    UUID of the insert that carries the name *)
Theorem C15_name_resolves_to_inserted_row : forall l σ t u w nm,
  name_map ∅ l = Ok σ -> mkNop (OInsert t u w) (Some nm) ∈ l ->
  subst_atom σ (AUuid nm) = AUuid u.
Proof. exact name_resolves. Qed.
Print Assumptions C15_name_resolves_to_inserted_row.

(** text equal to a name in a non-UUID position is left untouched *)
Theorem C15_text_untouched : forall σ a, (forall s, a <> AUuid s) -> subst_atom σ a = a.
Proof. exact subst_atom_non_uuid. Qed.
Print Assumptions C15_text_untouched.

Theorem C15_real_uuids_untouched : forall σ s, σ !! s = None -> subst_atom σ (AUuid s) = AUuid s.
Proof. exact subst_atom_not_name. Qed.
Print Assumptions C15_real_uuids_untouched.

(** two inserts claiming the same name with different UUIDs are rejected *)
Theorem C15_conflict_rejected : forall l1 l2 σ t1 u1 w1 t2 u2 w2 nm,
  u1 <> u2 ->
  name_map σ (l1 ++ mkNop (OInsert t1 u1 w1) (Some nm) :: l2) = Err EOther \/
  forall σ1, name_map σ (l1 ++ [mkNop (OInsert t1 u1 w1) (Some nm)]) = Ok σ1 ->
    name_map σ1 (mkNop (OInsert t2 u2 w2) (Some nm) :: l2) = Err EOther.
Proof. exact conflict_rejected. Qed.
Print Assumptions C15_conflict_rejected.

(** expansion keeps every insert at its position under its own UUID *)
Theorem C15_insert_keeps_its_uuid : forall l ops i t u w nm,
  expand l = Ok ops -> l !! i = Some (mkNop (OInsert t u w) nm) ->
  exists w', ops !! i = Some (OInsert t u w').
Proof. exact expand_insert_uuid. Qed.
Print Assumptions C15_insert_keeps_its_uuid.

(** ... and that UUID is the one reported and the one the row is stored under *)
Theorem C15_reported_uuid_is_stored_uuid : forall S d0 d t u w T d' x,
  find_table S t = Some T -> exec_op S d0 d (OInsert t u w) = (RUuid x, d') ->
  x = u /\ get_tbl d t !! u = None /\
  exists r, row_insert T w = Ok r /\ get_tbl d' t !! u = Some r /\
            (forall u', u' <> u -> get_tbl d' t !! u' = get_tbl d t !! u') /\
            (forall t', t' <> t -> get_tbl d' t' = get_tbl d t').
Proof. exact insert_spec. Qed.
Print Assumptions C15_reported_uuid_is_stored_uuid.

Theorem C15_unresolvable_names_fail_the_transaction : forall S d l,
  (forall ops, expand l <> Ok ops) -> snd (transact_named S d l) = None.
Proof. exact unresolved_names_fail. Qed.
Print Assumptions C15_unresolvable_names_fail_the_transaction.

(** the client API's Create: the insert generated for each model carries that
    model's own identity, whatever the other models of the call hold *)
Theorem C15_create_identities : forall ms i m,
  nth_error ms i = Some m -> nth_error (map create_ids ms) i = Some (create_ids m).
Proof. exact create_ids_pointwise. Qed.
Print Assumptions C15_create_identities.
