(** C12 — wire encoding round-trips every protocol value.
    Statements only; proofs in Wire/RoundTrip.v and Wire/SchemaCodecRT.v.
    [vu] (is this string a well-formed uuid?) only selects the tag written
    ("uuid" / "named-uuid"); the theorems hold for every such predicate.
    Values are in notation normal form (a singleton set *is* its element on
    the wire, RFC 7047 5.1); [set_roundtrip] covers singleton sets decoded
    as sets.  Operations (all kinds, every optional member present or absent,
    the select rule for "where") are modelled field by field with
    encoding/json's omitempty rules: [C12_operation_roundtrip].  Results,
    table updates, monitor requests/replies and whole schemas are further
    struct-tag records of the same values; they are covered by the driver's
    round-trip oracle on the implementation only (see DESIGN.md). *)
From LOV Require Import Wire.Decode Wire.Encode Wire.RoundTrip Wire.SchemaCodec Wire.SchemaCodecProofs Wire.SchemaCodecRT Wire.Operation Wire.OperationProofs.

Theorem C12_value_roundtrip : forall vu f v,
  wf_value v = true -> notation (5 + f) (enc_value vu v) = Ok v.
Proof. exact value_roundtrip. Qed.
Print Assumptions C12_value_roundtrip.

Theorem C12_set_roundtrip : forall vu f l,
  wf_set l = true -> dec_set (2 + f) (enc_set vu l) = Ok (GSet l).
Proof. exact set_roundtrip. Qed.
Print Assumptions C12_set_roundtrip.

Theorem C12_map_roundtrip : forall vu f l,
  wf_value (GMap l) = true -> dec_map (4 + f) (enc_value vu (GMap l)) = Ok (GMap l).
Proof. exact map_roundtrip. Qed.
Print Assumptions C12_map_roundtrip.

Theorem C12_uuid_roundtrip : forall vu s, dec_uuid (enc_atom vu (GUuid s)) = Ok (GUuid s).
Proof. exact uuid_roundtrip. Qed.
Print Assumptions C12_uuid_roundtrip.

Theorem C12_row_roundtrip : forall vu f r,
  forallb (fun kv => wf_value kv.2) r = true -> dec_row (5 + f) (enc_row vu r) = Ok r.
Proof. exact row_roundtrip. Qed.
Print Assumptions C12_row_roundtrip.

Theorem C12_condition_roundtrip : forall vu f c fn v,
  is_function fn = true -> wf_value v = true ->
  dec_condition (5 + f) (enc_triple vu (c, fn, v)) = Ok (c, fn, v).
Proof. intros vu. exact (triple_roundtrip vu is_function). Qed.
Print Assumptions C12_condition_roundtrip.

Theorem C12_mutation_roundtrip : forall vu f c m v,
  is_mutator m = true -> wf_value v = true ->
  dec_mutation (5 + f) (enc_triple vu (c, m, v)) = Ok (c, m, v).
Proof. intros vu. exact (triple_roundtrip vu is_mutator). Qed.
Print Assumptions C12_mutation_roundtrip.

(** schemas: every base-type constraint, min/max/unlimited, ephemeral, mutable *)
Theorem C12_base_type_roundtrip : forall b, wf_base b = true -> dec_base (enc_base b) = Ok b.
Proof. exact base_roundtrip. Qed.
Print Assumptions C12_base_type_roundtrip.

Theorem C12_column_type_roundtrip : forall c, wf_colty c = true -> dec_colty (enc_colty c) = Ok c.
Proof. exact colty_roundtrip. Qed.
Print Assumptions C12_column_type_roundtrip.

Theorem C12_column_roundtrip : forall c, wf_column c = true -> dec_column (enc_column c) = Ok c.
Proof. exact column_roundtrip. Qed.
Print Assumptions C12_column_roundtrip.

(** non-vacuity *)
Theorem C12_hypotheses_satisfiable :
  wf_value (GMap [(GStr 50%N, GSet [GUuid 51%N; GUuid 52%N]); (GNum 3 1, GUuid 53%N)]) = true
  /\ wf_value (GSet []) = true /\ wf_value (GSet [GNum 1 2; GNum 3 1]) = true.
Proof. exact wf_example. Qed.
Print Assumptions C12_hypotheses_satisfiable.

(** the pinned base-type codec lost minLength (repaired; see known_findings.txt) *)
Theorem C12_pinned_base_type_refuted :
  exists b, wf_base b = true /\ pinned_len_roundtrip b <> (wb_minLen b, wb_maxLen b).
Proof. exact pinned_base_refuted. Qed.
Print Assumptions C12_pinned_base_type_refuted.

Theorem C12_operation_roundtrip : forall vu f w, wf_op w = true -> dec_op (5 + f) (enc_op vu w) = Ok w.
Proof. exact operation_roundtrip. Qed.
Print Assumptions C12_operation_roundtrip.

Theorem C12_select_keeps_where : forall vu w,
  o_op w = s_select -> assoc (enc_op_fields vu w) s_where = Some (GArr (map (enc_triple vu) (o_where w))).
Proof. exact select_keeps_where. Qed.
Print Assumptions C12_select_keeps_where.
