(** C12 — wire encoding round-trips every protocol value.
    Statements only; proofs in Wire/RoundTrip.v and Wire/SchemaCodecRT.v.
    [vu] (is this string a well-formed uuid?) only selects the tag written
    ("uuid" / "named-uuid"); the theorems hold for every such predicate.
    Values are in notation normal form (a singleton set *is* its element on
    the wire, RFC 7047 5.1); [set_roundtrip] covers singleton sets decoded
    as sets.  Operations (all kinds, every optional member present or absent,
    the select rule for "where") are modelled field by field with
    encoding/json's omitempty rules: [C12_operation_roundtrip].  So are
    operation results, table updates in both formats (rows that are nil,
    present but empty, or filled; nil row updates), monitor requests (columns
    absent / empty / listed, select with any subset of its members) and
    monitor_cond_since replies (Wire/Messages.v).  Whole schemas (the map of
    tables around the modelled columns), errors and the JSON-RPC envelopes are
    covered by the driver's round-trip oracle on the implementation only
    (see DESIGN.md). *)
From LOV Require Import Wire.Decode Wire.Encode Wire.RoundTrip Wire.SchemaCodec Wire.SchemaCodecProofs Wire.SchemaCodecRT Wire.Operation Wire.OperationProofs Wire.Messages Wire.MessagesProofs.

Theorem C12_value_roundtrip : forall vu f v,
  wf_value v = true -> notation (5 + f) (enc_value vu v) = Ok v.
Proof. exact value_roundtrip. Qed.
Print Assumptions C12_value_roundtrip.

Theorem C12_set_roundtrip : forall vu f l,
  wf_set l = true -> dec_set (2 + f) (enc_set vu l) = Ok (GSet l).
Proof. exact set_roundtrip. Qed.
Print Assumptions C12_set_roundtrip.

Theorem C12_map_roundtrip : forall vu f l,
  wf_value (GMap l) = true -> dec_map (4 + f) (enc_value vu (GMap l)) = Ok (GMap l).
Proof. exact map_roundtrip. Qed.
Print Assumptions C12_map_roundtrip.

Theorem C12_uuid_roundtrip : forall vu s, dec_uuid (enc_atom vu (GUuid s)) = Ok (GUuid s).
Proof. exact uuid_roundtrip. Qed.
Print Assumptions C12_uuid_roundtrip.

Theorem C12_row_roundtrip : forall vu f r,
  forallb (fun kv => wf_value kv.2) r = true -> dec_row (5 + f) (enc_row vu r) = Ok r.
Proof. exact row_roundtrip. Qed.
Print Assumptions C12_row_roundtrip.

Theorem C12_condition_roundtrip : forall vu f c fn v,
  is_function fn = true -> wf_value v = true ->
  dec_condition (5 + f) (enc_triple vu (c, fn, v)) = Ok (c, fn, v).
Proof. intros vu. exact (triple_roundtrip vu is_function). Qed.
Print Assumptions C12_condition_roundtrip.

Theorem C12_mutation_roundtrip : forall vu f c m v,
  is_mutator m = true -> wf_value v = true ->
  dec_mutation (5 + f) (enc_triple vu (c, m, v)) = Ok (c, m, v).
Proof. intros vu. exact (triple_roundtrip vu is_mutator). Qed.
Print Assumptions C12_mutation_roundtrip.

(** schemas: every base-type constraint, min/max/unlimited, ephemeral, mutable *)
Theorem C12_base_type_roundtrip : forall b, wf_base b = true -> dec_base (enc_base b) = Ok b.
Proof. exact base_roundtrip. Qed.
Print Assumptions C12_base_type_roundtrip.

Theorem C12_column_type_roundtrip : forall c, wf_colty c = true -> dec_colty (enc_colty c) = Ok c.
Proof. exact colty_roundtrip. Qed.
Print Assumptions C12_column_type_roundtrip.

Theorem C12_column_roundtrip : forall c, wf_column c = true -> dec_column (enc_column c) = Ok c.
Proof. exact column_roundtrip. Qed.
Print Assumptions C12_column_roundtrip.

(** non-vacuity *)
Theorem C12_hypotheses_satisfiable :
  wf_value (GMap [(GStr 50%N, GSet [GUuid 51%N; GUuid 52%N]); (GNum 3 1, GUuid 53%N)]) = true
  /\ wf_value (GSet []) = true /\ wf_value (GSet [GNum 1 2; GNum 3 1]) = true.
Proof. exact wf_example. Qed.
Print Assumptions C12_hypotheses_satisfiable.

(** the pinned base-type codec lost minLength (repaired; see known_findings.txt) *)
Theorem C12_pinned_base_type_refuted :
  exists b, wf_base b = true /\ pinned_len_roundtrip b <> (wb_minLen b, wb_maxLen b).
Proof. exact pinned_base_refuted. Qed.
Print Assumptions C12_pinned_base_type_refuted.

Theorem C12_operation_roundtrip : forall vu f w, wf_op w = true -> dec_op (5 + f) (enc_op vu w) = Ok w.
Proof. exact operation_roundtrip. Qed.
Print Assumptions C12_operation_roundtrip.

Theorem C12_select_keeps_where : forall vu w,
  o_op w = s_select -> assoc (enc_op_fields vu w) s_where = Some (GArr (map (enc_triple vu) (o_where w))).
Proof. exact select_keeps_where. Qed.
Print Assumptions C12_select_keeps_where.

(** ---- messages (Wire/Messages.v) ---- *)
Theorem C12_table_updates_roundtrip : forall vu f t,
  wf_tables wf_ru t = true -> dec_tables (dec_ru (5 + f)) (enc_tables (enc_ru vu) t) = Ok t.
Proof. exact table_updates_roundtrip. Qed.
Print Assumptions C12_table_updates_roundtrip.

Theorem C12_table_updates2_roundtrip : forall vu f t,
  wf_tables wf_ru2 t = true -> dec_tables (dec_ru2 (5 + f)) (enc_tables (enc_ru2 vu) t) = Ok t.
Proof. exact table_updates2_roundtrip. Qed.
Print Assumptions C12_table_updates2_roundtrip.

Theorem C12_result_roundtrip : forall vu f r, wf_result r = true -> dec_result (5 + f) (enc_result vu r) = Ok r.
Proof. exact result_roundtrip. Qed.
Print Assumptions C12_result_roundtrip.

Theorem C12_monitor_request_roundtrip : forall vu f m, wf_monreq m = true -> dec_monreq (5 + f) (enc_monreq vu m) = Ok m.
Proof. exact monreq_roundtrip. Qed.
Print Assumptions C12_monitor_request_roundtrip.

Theorem C12_monitor_select_roundtrip : forall s, dec_select (enc_select s) = Ok s.
Proof. exact select_roundtrip. Qed.
Print Assumptions C12_monitor_select_roundtrip.

Theorem C12_monitor_cond_since_reply_roundtrip : forall vu f s, wf_since s = true -> dec_since (5 + f) (enc_since vu s) = Ok s.
Proof. exact since_roundtrip. Qed.
Print Assumptions C12_monitor_cond_since_reply_roundtrip.

(** the hand-written rules on top of the struct codecs *)
Theorem C12_monitor_request_keeps_empty_columns : forall vu m,
  mr_columns m = Some [] -> assoc (enc_monreq_fields vu m) s_columns = Some (GArr []).
Proof. exact monreq_keeps_empty_columns. Qed.
Print Assumptions C12_monitor_request_keeps_empty_columns.

Theorem C12_null_delete_is_a_deletion : forall fuel o,
  obj_get o s_del = Some GNull -> forall r, dec_ru2 fuel (GObj o) = Ok r -> r2_delete r = Some [].
Proof. exact ru2_null_delete_is_delete. Qed.
Print Assumptions C12_null_delete_is_a_deletion.

Theorem C12_pinned_row_update2_refuted :
  exists v r, dec_ru2_pinned 8 v = Ok r /\ r2_delete r = None /\
              exists r', dec_ru2 8 v = Ok r' /\ r2_delete r' = Some [].
Proof. exact ru2_pinned_refuted. Qed.
Print Assumptions C12_pinned_row_update2_refuted.

(** what a decoded monitor request selects: absent members (and an absent select) stand for "yes" *)
Theorem C12_request_without_select_selects_every_kind : forall fuel o m,
  obj_get o s_select = None -> dec_monreq fuel (GObj o) = Ok m -> sel_kinds (mr_select m) = (true, true, true, true).
Proof. exact monreq_without_select_selects_all. Qed.
Print Assumptions C12_request_without_select_selects_every_kind.

Theorem C12_select_member_decides_its_kind : forall o s,
  dec_select (GObj o) = Ok s ->
  (forall b, obj_get o s_initial = Some (GBool b) -> sel_flag (ms_initial s) = b) /\
  (obj_get o s_initial = None -> sel_flag (ms_initial s) = true) /\
  (forall b, obj_get o s_modify = Some (GBool b) -> sel_flag (ms_modify s) = b) /\
  (obj_get o s_modify = None -> sel_flag (ms_modify s) = true).
Proof. exact select_member_decides_its_kind. Qed.
Print Assumptions C12_select_member_decides_its_kind.

Theorem C12_message_hypotheses_satisfiable :
  wf_tables wf_ru [(70%N, [(71%N, Some (mkWRu (Some [(72%N, GSet [GUuid 73%N; GUuid 74%N])]) (Some [(72%N, GSet [])]))); (75%N, None)])] = true
  /\ wf_tables wf_ru2 [(70%N, [(71%N, Some (mkWRu2 None None (Some [(72%N, GMap [(GStr 76%N, GNum 3 1)])]) None)); (75%N, Some (mkWRu2 None None None (Some [])))])] = true
  /\ wf_result (mkWRes 2 s_empty s_empty s_empty [[(72%N, GNum 1 2)]]) = true
  /\ wf_monreq (mkWMon (Some []) [(72%N, 6%N, GSet [])] (Some (mkWSel (Some false) None None (Some true)))) = true.
Proof. exact wf_messages_example. Qed.
Print Assumptions C12_message_hypotheses_satisfiable.
