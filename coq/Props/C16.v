(** C16 — after losing its connection the client resynchronises completely.
    Statements only; proofs in Cli/Reconnect.v.  On reconnect every monitor
    is re-established, in an arbitrary order, and answers with the complete
    contents of its tables; the repaired client purges the cache once before
    restarting several monitors.  [C16_reconnect_resynchronises]: whatever
    the cache held before (rows deleted meanwhile, rows missing), for any
    number of monitors and any restart order, the cache is afterwards exactly
    the monitored part of the database; the pinned rule (each restarted
    monitor purges everything) is refuted for two monitors.  What the model
    cannot show — cutting the connection at every message boundary, the
    inactivity probe, leader election, and that a Transact that returned
    results was applied exactly once — is exercised by the driver through a
    fault-injecting proxy; notifications that arrive while a monitor is being
    restarted are C01's deferral theorem. *)
From LOV Require Import Cli.Reconnect.

Theorem C16_reconnect_resynchronises : forall d c ms order,
  order ≡ₚ ms -> forall t, reconnect_fixed d c order t = monitored d ms t.
Proof. exact reconnect_resynchronises. Qed.
Print Assumptions C16_reconnect_resynchronises.

Theorem C16_no_stale_row_survives : forall d c ms order t u,
  order ≡ₚ ms -> Exists (fun ts => t ∈ ts) ms -> reconnect_fixed d c order t !! u = d t !! u.
Proof. exact no_stale_row_survives. Qed.
Print Assumptions C16_no_stale_row_survives.

Theorem C16_pinned_rule_refuted :
  exists (d c : tcachef) ms, forall order, order ≡ₚ ms ->
    exists t, reconnect_pinned d c order t <> monitored d ms t.
Proof. exact reconnect_pinned_refuted. Qed.
Print Assumptions C16_pinned_rule_refuted.
