(** C16 — after losing its connection the client resynchronises completely.
    Statements only; proofs in Cli/Reconnect.v.  On reconnect every monitor
    is re-established, in an arbitrary order, and answers with the complete
    contents of its tables; the repaired client purges the cache once before
    restarting several monitors.  [C16_reconnect_resynchronises]: whatever
    the cache held before (rows deleted meanwhile, rows missing), for any
    number of monitors and any restart order, the cache is afterwards exactly
    the monitored part of the database; the pinned rule (each restarted
    monitor purges everything) is refuted for two monitors.  What the model
    cannot show — cutting the connection at every message boundary, the
    inactivity probe, leader election, and that a Transact that returned
    results was applied exactly once — is exercised by the driver through a
    fault-injecting proxy; notifications that arrive while a monitor is being
    restarted are C01's deferral theorem. *)
From LOV Require Import Cli.Reconnect Cli.Since Cli.SinceProofs Srv.MonitorProofs Cli.Leader Cli.LeaderProofs.
From Coq Require Import Permutation.

Theorem C16_reconnect_resynchronises : forall d c ms order,
  order ≡ₚ ms -> forall t, reconnect_fixed d c order t = monitored d ms t.
Proof. exact reconnect_resynchronises. Qed.
Print Assumptions C16_reconnect_resynchronises.

Theorem C16_no_stale_row_survives : forall d c ms order t u,
  order ≡ₚ ms -> Exists (fun ts => t ∈ ts) ms -> reconnect_fixed d c order t !! u = d t !! u.
Proof. exact no_stale_row_survives. Qed.
Print Assumptions C16_no_stale_row_survives.

Theorem C16_pinned_rule_refuted :
  exists (d c : tcachef) ms, forall order, order ≡ₚ ms ->
    exists t, reconnect_pinned d c order t <> monitored d ms t.
Proof. exact reconnect_pinned_refuted. Qed.
Print Assumptions C16_pinned_rule_refuted.

(** * a single monitor_cond_since monitor and a server that knows past
    transaction ids (the last-transaction-id known or unknown to the server)

    A client that is good for the current state - its cache is the monitored
    part of it, and the server logged nothing else under the client's id -
    stays so through any session of update3 notifications and reconnections,
    whether or not the answering server finds the id; in particular after
    every reconnection its cache is the monitored part of the database. *)
Theorem C16_since_reply_resynchronises : forall q, all_kinds q -> forall τ h s st known cur_id cur,
  good q h s st ->
  (forall old, hist_get h (cs_last s) = Some old -> tbl_typed τ old) -> tbl_typed τ cur ->
  hist_get h cur_id = Some cur ->
  good q h (on_reply_fixed s (since_reply q h known (cs_last s) cur_id cur)) cur.
Proof. exact reply_resynchronises. Qed.
Print Assumptions C16_since_reply_resynchronises.

Theorem C16_since_session : forall q, all_kinds q -> forall τ h es s st,
  (forall id old, hist_get h id = Some old -> tbl_typed τ old) ->
  good q h s st -> tbl_typed τ st -> Forall (logged τ h) es ->
  let x := fold_left (step q h) es (s, st) in good q h x.1 x.2 /\ cs_cache x.1 = pc q <$> x.2.
Proof. exact session_keeps_client_synchronised. Qed.
Print Assumptions C16_since_session.

(** the pinned client kept its old id after found = false: a later found = true for that id diverges *)
Theorem C16_pinned_since_refuted :
  let q := default_req in
  let s0 := mkCS (pc q <$> ex_A) 1%N in
  good q ex_h s0 ex_A /\
  let s1 := on_reply_pinned s0 (since_reply q ex_h false (cs_last s0) 2%N ex_B) in
  let s2 := on_reply_pinned s1 (since_reply q ex_h true (cs_last s1) 2%N ex_B) in
  cs_cache s2 <> pc q <$> ex_B /\
  let t1 := on_reply_fixed s0 (since_reply q ex_h false (cs_last s0) 2%N ex_B) in
  let t2 := on_reply_fixed t1 (since_reply q ex_h true (cs_last t1) 2%N ex_B) in
  cs_cache t2 = pc q <$> ex_B.
Proof. exact pinned_since_refuted. Qed.
Print Assumptions C16_pinned_since_refuted.

(** * leader-only mode: the endpoint the client attaches to never reports
    "clustered and not the leader" for its database, in whatever order the
    server lists its databases; a follower is refused; no endpoint is chosen
    exactly when all are refused; an endpoint that announced the loss of
    leadership is not chosen again while it keeps saying so *)
Theorem C16_chosen_endpoint_is_not_a_follower : forall db eps k rows,
  choose_endpoint db eps = Some k -> nth_error eps k = Some rows -> one_row_per_db db rows ->
  ~ reports_not_leader db rows.
Proof. exact chosen_endpoint_is_not_a_follower. Qed.
Print Assumptions C16_chosen_endpoint_is_not_a_follower.

Theorem C16_follower_is_refused : forall db rows,
  one_row_per_db db rows -> reports_not_leader db rows -> accepts db rows = false.
Proof. exact follower_is_refused. Qed.
Print Assumptions C16_follower_is_refused.

Theorem C16_row_order_irrelevant : forall db rows rows',
  Permutation rows rows' -> one_row_per_db db rows -> accepts db rows = accepts db rows'.
Proof. exact accepts_order_irrelevant. Qed.
Print Assumptions C16_row_order_irrelevant.

Theorem C16_none_chosen_iff_all_refused : forall db eps,
  choose_endpoint db eps = None <-> Forall (fun rows => accepts db rows = false) eps.
Proof. exact no_endpoint_chosen_iff_all_refused. Qed.
Print Assumptions C16_none_chosen_iff_all_refused.

Theorem C16_lost_leader_not_chosen_again : forall db rows eps k,
  one_row_per_db db rows -> reports_not_leader db rows ->
  choose_endpoint db (rotate (rows :: eps)) = Some k -> k < length eps.
Proof. exact lost_leader_not_chosen_again. Qed.
Print Assumptions C16_lost_leader_not_chosen_again.

(** "silent peer detected by the inactivity probe" (Cli/Probe.v): a peer from
    which nothing comes for two inactivity timeouts is dropped - whatever the
    application does meanwhile, in particular however many of its calls run
    into their own deadlines.  In the variant where such a call counts as
    traffic from the peer a busy application keeps a silent peer for ever
    (the variant is what a generated fact about client.go: transact excludes
    on every run). *)
From LOV Require Import Cli.ProbeProofs.

Theorem C16_silent_peer_is_dropped : forall T, 1 <= T -> forall es,
  silent es -> 2 * T <= elapses es -> dropped (prun T false pinit es) = true.
Proof. exact silent_peer_is_dropped. Qed.
Print Assumptions C16_silent_peer_is_dropped.

Theorem C16_deadline_as_traffic_refuted : forall T, 2 <= T ->
  forall n, silent (busy_schedule n) /\ elapses (busy_schedule n) = n /\
            dropped (prun T true pinit (busy_schedule n)) = false.
Proof. exact deadline_as_traffic_refuted_full. Qed.
Print Assumptions C16_deadline_as_traffic_refuted.

(** the premises are met, and traffic does postpone the drop *)
Example C16_probe_runs :
  dropped (prun 3 false pinit [Elapse; AppDeadline; Elapse; Elapse; AppDeadline; Elapse; Elapse; Elapse]) = true /\
  dropped (prun 3 false pinit [Elapse; Elapse; Traffic; Elapse; Elapse; Traffic; Elapse; Elapse; EchoReply; Elapse; Elapse]) = false.
Proof. split; vm_compute; reflexivity. Qed.
