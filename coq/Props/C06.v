(** C06 — unique indexes are enforced at commit, and only at commit.
    Statements only; proofs in Db/TxnProofs.v. *)
From LOV Require Import Db.TxnProofs.

(** after every committed transaction, and hence after every history, no two
    rows of a table agree on all columns of a schema index *)
Theorem C06_unique_after_commit : forall S d ops,
  db_unique S d = true -> db_unique S (commit d (transact S d ops)) = true.
Proof. exact unique_after_commit. Qed.
Print Assumptions C06_unique_after_commit.

Theorem C06_unique_after_every_history : forall S h d,
  db_unique S d = true -> db_unique S (run_history S d h) = true.
Proof. exact unique_history. Qed.
Print Assumptions C06_unique_after_every_history.

(** a transaction whose final state contains a duplicate is rejected with a
    constraint violation appended to the operation results *)
Theorem C06_duplicate_rejected : forall S d ops rs w w',
  exec_ops S d d ops = (rs, w, true) -> w <> d -> process_refs S w = Ok w' -> db_unique S w' = false ->
  transact S d ops = (rs ++ [RErr EConstraint], None).
Proof. exact duplicate_rejected. Qed.
Print Assumptions C06_duplicate_rejected.

(** acceptance depends on the final state only: whatever duplicates existed
    between operations (swap, delete + insert), a transaction all of whose
    operations succeed commits iff its final state passes integrity processing
    and is unique *)
Theorem C06_only_final_state_matters : forall S d ops rs w,
  exec_ops S d d ops = (rs, w, true) -> w <> d ->
  (is_Some (snd (transact S d ops)) <-> exists w', process_refs S w = Ok w' /\ db_unique S w' = true).
Proof. exact accepted_iff_final_state_ok. Qed.
Print Assumptions C06_only_final_state_matters.

(** which declared index may stand for which other: uniqueness on some
    columns carries over to every index that contains them, never the other
    way round - an implementation must not leave out an index because its
    columns lie within another one *)
From LOV Require Import Db.IndexCover.

Theorem C06_unique_on_fewer_columns_suffices : forall small large tb,
  (forall c, c ∈ small -> c ∈ large) -> rows_unique small tb -> rows_unique large tb.
Proof. exact unique_on_fewer_columns_suffices. Qed.
Print Assumptions C06_unique_on_fewer_columns_suffices.

Theorem C06_unique_on_more_columns_does_not_suffice_refuted :
  exists (tb : gmap sym (gmap sym value)), rows_unique [1%N; 2%N] tb /\ ~ rows_unique [1%N] tb.
Proof. exact unique_on_more_columns_does_not_suffice_refuted. Qed.
Print Assumptions C06_unique_on_more_columns_does_not_suffice_refuted.
