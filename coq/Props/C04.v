(** C04 — referential integrity after every commit.  Statements only; proofs
    in Db/RefsProofs.v.

    In the model a database *is* its rows: references, "is strongly
    referenced", "exists" are all recomputed from the rows by Db/Refs.v, so
    every decision of [transact] depends only on the rows currently stored.
    That the implementation's incrementally maintained reference index equals
    the recomputed one after every transaction is the correspondence check
    (observable t_refs) and the Go oracle. *)
From LOV Require Import Db.RefsProofs Db.RefsStrong.

(** a transaction whose candidate state has a dangling strong reference is
    rejected with a referential integrity violation *)
Theorem C04_dangling_strong_rejected : forall S w,
  dangling_strong S w = true -> process_refs S w = Err ERefInt.
Proof. exact dangling_rejected. Qed.
Print Assumptions C04_dangling_strong_rejected.

(** the committed state is stable: one more round of collecting unreferenced
    non-root rows and pruning weak references to missing rows (with the
    minimum-size check) changes nothing and raises no error — i.e. every
    non-root row left is strongly referenced and no weak reference points to a
    missing row *)
Theorem C04_committed_state_is_stable : forall S w d',
  process_refs S w = Ok d' -> prune_weak S (gc1 S d') = Some d'.
Proof. exact process_refs_fixpoint. Qed.
Print Assumptions C04_committed_state_is_stable.

(** ... after every committed transaction, hence after every history *)
Theorem C04_stable_after_every_history : forall S h d,
  stable S d -> stable S (run_history S d h).
Proof. exact stable_history. Qed.
Print Assumptions C04_stable_after_every_history.

Theorem C04_empty_database_stable : forall S, stable S ∅.
Proof. exact stable_empty. Qed.
Print Assumptions C04_empty_database_stable.

(** the only rejections reference processing produces are the two the
    property names (plus the never-observed fuel exhaustion of the model) *)
Theorem C04_rejection_classes : forall S w e,
  process_refs S w = Err e -> e = ERefInt \/ e = EConstraint \/ e = EOther.
Proof. exact process_refs_errors. Qed.
Print Assumptions C04_rejection_classes.

(** no strong reference to a missing row: garbage collection removes only
    rows nobody strongly references and pruning weak references neither
    removes rows nor adds references, so what the candidate-state check
    established survives all rounds ... *)
Theorem C04_no_dangling_strong_reference_after_processing : forall S w d',
  process_refs S w = Ok d' -> dangling_strong S d' = false.
Proof. exact process_refs_no_dangling. Qed.
Print Assumptions C04_no_dangling_strong_reference_after_processing.

(** ... in every committed state, after every history from the empty database *)
Theorem C04_no_dangling_strong_reference_after_every_history : forall S h d,
  dangling_strong S d = false -> dangling_strong S (run_history S d h) = false.
Proof. exact no_dangling_after_history. Qed.
Print Assumptions C04_no_dangling_strong_reference_after_every_history.

Theorem C04_empty_database_has_no_dangling_reference : forall S, dangling_strong S ∅ = false.
Proof. exact no_dangling_empty. Qed.
Print Assumptions C04_empty_database_has_no_dangling_reference.
