(** C17 — concurrent transactions are serialisable and observed in one order.
    Statements only; proofs in Srv/SerialProofs.v.  Each transact request is
    a thread performing the critical actions of OvsdbServer.Transact in the
    order read off the source on every run (the generated fact
    [body_serial extracted_body = true]); a schedule is an arbitrary sequence
    of thread ids.  [C17_serialisable]: under every schedule, whenever no
    request is inside Transact, the database, the outcome every finished
    request received and the order in which monitors were notified are those
    of executing the requests one after another in the order in which they
    took the lock.  Counter increments are never lost and of several inserts
    competing for a unique value exactly one commits because that is what
    serial execution of the engine model (C03, C06) gives.  Not modelled: the
    goroutines of rpc2 and that the lock is a fair Go mutex; the driver runs
    real concurrent clients. *)
From LOV Require Import Srv.Serial Srv.SerialProofs.

Theorem C17_serialisable : forall S txn d0 sch,
  let w := wrun S txn canonical_body (init_world d0) sch in
  quiescent w ->
  serial S txn d0 (w_acq w) = (w_db w, w_done w) /\
  w_notified w = notified_of (w_done w) /\
  (forall t, t ∈ w_acq w -> w_pc w t = 5%nat) /\
  (forall t, t ∉ w_acq w -> w_pc w t = 0%nat).
Proof. exact serialisable. Qed.
Print Assumptions C17_serialisable.

Theorem C17_mutual_exclusion : forall S txn d0 sch t1 t2,
  let w := wrun S txn canonical_body (init_world d0) sch in
  (0 < w_pc w t1 < 5)%nat -> (0 < w_pc w t2 < 5)%nat -> t1 = t2.
Proof. exact mutual_exclusion. Qed.
Print Assumptions C17_mutual_exclusion.

Theorem C17_extracted_body_serialisable : forall S txn body d0 sch,
  body_serial body = true ->
  let w := wrun S txn body (init_world d0) sch in
  quiescent w ->
  serial S txn d0 (w_acq w) = (w_db w, w_done w) /\ w_notified w = notified_of (w_done w).
Proof. exact extracted_body_serialisable. Qed.
Print Assumptions C17_extracted_body_serialisable.

(** without the lock two increments can lose one: the final counter is that of neither serial order *)
Theorem C17_unlocked_body_refuted :
  let w := wrun ctr_schema ctr_incr unlocked_body (init_world ctr_db) [0; 1; 0; 0; 1; 1]%nat in
  w_pc w 0%nat = 3%nat /\ w_pc w 1%nat = 3%nat /\ w_notified w = [0; 1]%nat /\
  bool_decide (w_db w = (serial ctr_schema ctr_incr ctr_db [0; 1]%nat).1) = false /\
  bool_decide (w_db w = (serial ctr_schema ctr_incr ctr_db [1; 0]%nat).1) = false.
Proof. exact unlocked_body_refuted. Qed.
Print Assumptions C17_unlocked_body_refuted.
