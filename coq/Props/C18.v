(** C18 — client and cache are safe and live under concurrent use.
    Statements only; proofs in Cli/Locks.v.  The part of the property that is
    logic is the lock discipline: the extractor reads, on every run, for
    every function of client, cache, server and in-memory database the locks
    held at each return and the (held, acquired) pairs, also through calls;
    the generated fact [discipline_ok extracted_summaries = true] says no path
    leaks a lock and the acquisition order is acyclic.  [C18_discipline_gives_rank]
    turns that into a rank; [C18_ordered_no_deadlock]: threads that acquire in
    increasing rank and release what they hold never reach a state where every
    unfinished thread waits for a lock, and that invariant is preserved by
    every step.  Data races, rows mixing two versions, blocking on channels,
    contexts and the network are runtime behaviour no executable model here
    exhibits: the driver runs the race detector and deadline watchdogs on
    concurrent API use with connection cuts (partial). *)
From LOV Require Import Cli.Locks.

Theorem C18_ordered_no_deadlock : forall rank s,
  Inv rank s -> Exists (fun th => th_rest th <> []) s -> Exists (enabled s) s.
Proof. exact ordered_no_deadlock. Qed.
Print Assumptions C18_ordered_no_deadlock.

Theorem C18_invariant_preserved : forall rank s i th,
  Inv rank s -> s !! i = Some th -> Inv rank (<[i := step_thread th]> s).
Proof. exact inv_step. Qed.
Print Assumptions C18_invariant_preserved.

Theorem C18_discipline_gives_rank : forall fs,
  discipline_ok fs = true ->
  exists rank : lock -> nat, forall a b, (a, b) ∈ all_edges fs -> rank a < rank b.
Proof. exact discipline_gives_rank. Qed.
Print Assumptions C18_discipline_gives_rank.

(** non-vacuity: two threads taking two locks in the same order satisfy the invariant; in opposite orders they
    can reach a state where both wait *)
Theorem C18_example_ordered :
  Inv (fun l => N.to_nat l) [mkThread [] [Acq 1; Acq 2; Rel 2; Rel 1]; mkThread [] [Acq 1; Acq 2; Rel 2; Rel 1]]%N.
Proof. repeat constructor; cbn; auto; try set_solver. Qed.
Print Assumptions C18_example_ordered.

Theorem C18_example_inverted_deadlocks :
  let s := [mkThread [1%N] [Acq 2; Rel 2; Rel 1]; mkThread [2%N] [Acq 1; Rel 1; Rel 2]]%N in
  ~ Exists (enabled s) s.
Proof.
  intros s H. apply Exists_exists in H as (th & Hth & He).
  apply elem_of_cons in Hth as [->|Hth].
  - apply He. apply Exists_cons_tl, Exists_cons_hd. set_solver.
  - apply elem_of_list_singleton in Hth as ->. apply He. apply Exists_cons_hd. set_solver.
Qed.
Print Assumptions C18_example_inverted_deadlocks.
