(** C10 — a modify difference, applied to the old value, gives the new value.
    Statements only; proofs live in Upd/DiffProofs.v and Upd/DiffListProofs.v. *)
From LOV Require Import Upd.DiffProofs Upd.DiffListProofs.

(** The difference is empty exactly when the values are equal (sets compared
    as sets: [value] carries [gset]/[gmap], so [=] is extensional). *)
Theorem C10_diff_empty_iff_equal : forall a b : value,
  same_kind a b -> (vdiff a b = None <-> a = b).
Proof. exact vdiff_none_iff. Qed.
Print Assumptions C10_diff_empty_iff_equal.

(** Applying the computed difference to the old value yields the new value. *)
Theorem C10_apply_diff_gives_new : forall a b : value,
  same_kind a b -> vapply a (vdiff a b) = b.
Proof. exact vapply_vdiff. Qed.
Print Assumptions C10_apply_diff_gives_new.

(** update2 rules for a difference received from a peer. *)
Theorem C10_peer_set_elements_toggle : forall (v d : gset atom) (x : atom),
  x ∈ match vapply (VSet v) (Some (VSet d)) with VSet r => r | _ => ∅ end
  <-> (x ∈ v /\ x ∉ d) \/ (x ∈ d /\ x ∉ v).
Proof. exact vapply_set_toggle. Qed.
Print Assumptions C10_peer_set_elements_toggle.

Theorem C10_peer_map_pairs_add_replace_remove : forall (v d : gmap atom atom) (k : atom),
  match vapply (VMap v) (Some (VMap d)) with VMap r => r | _ => ∅ end !! k =
  match d !! k with
  | None => v !! k
  | Some dv => if decide (v !! k = Some dv) then None else Some dv
  end.
Proof. exact vapply_map_rule. Qed.
Print Assumptions C10_peer_map_pairs_add_replace_remove.

Theorem C10_peer_other_columns_overwritten : forall v dv : value,
  kind_of_value v <> KSet -> kind_of_value v <> KMap -> vapply v (Some dv) = dv.
Proof. exact vapply_other_overwrites. Qed.
Print Assumptions C10_peer_other_columns_overwritten.

Theorem C10_absent_column_untouched : forall v : value, vapply v None = v.
Proof. exact vapply_none. Qed.
Print Assumptions C10_absent_column_untouched.

(** The in-place swap-removal algorithm of difference.go:setDifference,
    transcribed on lists, computes the same modify entry as the canonical
    definition for every duplicate-free [a] in every element order. *)
Theorem C10_list_algorithm_refines : forall a b : lvalue,
  match a with LSet x => NoDup x | _ => True end ->
  kind_of_value (canon a) = kind_of_value (canon b) ->
  option_map canon (lv_diff a b) = vdiff (canon a) (canon b).
Proof. exact lv_diff_refines. Qed.
Print Assumptions C10_list_algorithm_refines.

(** ... and the duplicate-free guard is necessary (kept visible). *)
Theorem C10_list_algorithm_needs_nodup :
  exists a b, (list_to_set (set_difference_list a b) : gset atom)
              <> sdiff (list_to_set a) (list_to_set b).
Proof. exact set_difference_list_dup_refuted. Qed.
Print Assumptions C10_list_algorithm_needs_nodup.

(** Non-vacuity: the hypotheses are met by concrete non-trivial values. *)
Example C10_nonvacuous :
  let a := VSet {[AInt 1; AInt 2]} in let b := VSet {[AInt 2; AInt 3]} in
  same_kind a b /\ vdiff a b = Some (VSet {[AInt 1; AInt 3]}) /\ a <> b.
Proof.
  cbv zeta. split; [reflexivity|]. split.
  - apply (bool_decide_unpack _). vm_compute. exact I.
  - intros H. apply (bool_decide_eq_true_2 _) in H. vm_compute in H. discriminate H.
Qed.
