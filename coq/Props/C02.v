(** C02 — transactions are all-or-nothing.  Statements only; proofs in
    Db/TxnProofs.v. *)
From LOV Require Import Db.TxnProofs.

(** the reply has one of three shapes: all operations succeeded (one result
    each); or results up to and including the failing operation, the rest not
    executed; or all operation results plus one extra error (commit-time
    rejection: referential integrity, weak-reference cardinality, unique index) *)
Theorem C02_reply_shape : forall S d ops rs r,
  transact S d ops = (rs, r) ->
  (Forall (fun x => is_err x = false) rs /\ length rs = length ops /\ is_Some r)
  \/ (r = None /\ length rs = length ops /\ exists i e, i < length ops /\
        Forall (fun x => is_err x = false) (take i rs) /\ rs !! i = Some (RErr e) /\
        drop (Datatypes.S i) rs = replicate (length ops - i - 1) RNull)
  \/ (r = None /\ exists rs0 e, rs = rs0 ++ [RErr e] /\ length rs0 = length ops /\
        Forall (fun x => is_err x = false) rs0).
Proof. exact reply_shape. Qed.
Print Assumptions C02_reply_shape.

(** any error result => the database is exactly what it was *)
Theorem C02_failed_txn_no_effect : forall S d ops,
  has_error (fst (transact S d ops)) = true -> commit d (transact S d ops) = d.
Proof. exact failed_txn_no_effect. Qed.
Print Assumptions C02_failed_txn_no_effect.

(** ... and a later transaction behaves as if the failed one had never been submitted *)
Theorem C02_later_txn_unaffected : forall S d ops1 ops2,
  has_error (fst (transact S d ops1)) = true ->
  transact S (commit d (transact S d ops1)) ops2 = transact S d ops2.
Proof. exact later_txn_unaffected. Qed.
Print Assumptions C02_later_txn_unaffected.

(** the transaction commits exactly when no result carries an error (so a
    monitor, which is notified of committed transactions only, hears nothing
    of a failed one) *)
Theorem C02_commits_iff_no_error : forall S d ops,
  is_Some (snd (transact S d ops)) <-> has_error (fst (transact S d ops)) = false.
Proof. exact commits_iff_no_error. Qed.
Print Assumptions C02_commits_iff_no_error.

(** the same for what the server runs, a transaction whose values may name the
    rows it inserts ([transact_named]): when a name cannot be resolved (a
    uuid-name given to two rows) the operation at fault fails where it stands -
    the operations before it are executed and have their results, one of them
    failing first if it does, the operations after it have none *)
From LOV Require Import Db.NamedShape.

Theorem C02_named_reply_shape : forall S d l rs r,
  transact_named S d l = (rs, r) ->
  (Forall nonerr rs /\ length rs = length l /\ is_Some r)
  \/ (r = None /\ length rs = length l /\ exists i e, i < length l /\
        Forall nonerr (take i rs) /\ rs !! i = Some (RErr e) /\
        drop (Datatypes.S i) rs = replicate (length l - i - 1) RNull)
  \/ (r = None /\ exists rs0 e, rs = rs0 ++ [RErr e] /\ length rs0 = length l /\ Forall nonerr rs0).
Proof. exact named_reply_shape. Qed.
Print Assumptions C02_named_reply_shape.

Theorem C02_named_failed_txn_no_effect : forall S d l,
  has_error (fst (transact_named S d l)) = true -> commit d (transact_named S d l) = d.
Proof. exact named_failed_no_effect. Qed.
Print Assumptions C02_named_failed_txn_no_effect.

Theorem C02_named_commits_iff_no_error : forall S d l,
  is_Some (snd (transact_named S d l)) <-> has_error (fst (transact_named S d l)) = false.
Proof. exact named_commits_iff_no_error. Qed.
Print Assumptions C02_named_commits_iff_no_error.

(** the premises are met: two inserts under one name fail at the second, after the result of the first *)
Example C02_named_fails_at_the_fault :
  let S := mkSchema [mkTable 1%N [] [] true] in
  map (fun r => match r with RUuid u => (1, u) | RRows rs => (2, N.of_nat (length rs)) | RErr _ => (5, 0%N) | RNull => (6, 0%N) | _ => (0, 0%N) end)
      (fst (transact_named S ∅ [mkNop (OInsert 1%N 10%N ∅) (Some 5%N); mkNop (OSelect 1%N [] []) None;
                                mkNop (OInsert 1%N 11%N ∅) (Some 5%N); mkNop (OSelect 1%N [] []) None]))
  = [(1, 10%N); (2, 1%N); (5, 0%N); (6, 0%N)].
Proof. vm_compute. reflexivity. Qed.

(** the request as the server receives it ([server_transact]): an operation
    that cannot be decoded fails where it stands. The reply has one result
    per operation of the request, results, then one error - at the operation
    that cannot be decoded, with the class of a syntax error, when all before
    it succeeded, whatever the checks made at the end of a transaction would
    have said about them - then nothing; nothing is committed *)
From LOV Require Import Db.Request.

Theorem C02_request_decodable : forall S d args,
  length (decoded_prefix args) = length args ->
  server_transact S d args = transact_named S d (decoded_prefix args).
Proof. exact request_decodable. Qed.
Print Assumptions C02_request_decodable.

Theorem C02_request_reply_shape : forall S d args rs r,
  length (decoded_prefix args) < length args ->
  server_transact S d args = (rs, r) ->
  r = None /\ length rs = length args /\
  exists i e, i <= length (decoded_prefix args) /\
    Forall good (take i rs) /\ rs !! i = Some (RErr e) /\
    drop (Datatypes.S i) rs = replicate (length args - i - 1) RNull /\
    (i = length (decoded_prefix args) -> e = EOther).
Proof. exact request_reply_shape. Qed.
Print Assumptions C02_request_reply_shape.

Theorem C02_request_undecodable_has_error : forall S d args,
  length (decoded_prefix args) < length args ->
  has_error (fst (server_transact S d args)) = true /\ snd (server_transact S d args) = None.
Proof. exact request_undecodable_has_error. Qed.
Print Assumptions C02_request_undecodable_has_error.

(** the premises are met, on the input of the slip this model was extended for: two rows that collide in an index
    (the transaction of the two inserts alone ends with a constraint violation after its results), then an operation
    that cannot be decoded - the reply is [uuid; uuid; error], the error in third place *)
Example C02_request_syntax_error_not_commit_check :
  let S := mkSchema [mkTable 1%N [mkCol 2%N (mkColTy KAtom (mkBase TStr [] None) None 1 (Some 1)) true] [[2%N]] true] in
  let ins u := mkNop (OInsert 1%N u {[ 2%N := VAtom (AStr 7%N) ]}) None in
  (map (fun r => match r with RUuid u => (1, u) | RErr EConstraint => (4, 0%N) | RErr _ => (5, 0%N) | RNull => (6, 0%N) | _ => (0, 0%N) end)
       (fst (transact_named S ∅ [ins 10%N; ins 11%N])),
   map (fun r => match r with RUuid u => (1, u) | RErr EConstraint => (4, 0%N) | RErr _ => (5, 0%N) | RNull => (6, 0%N) | _ => (0, 0%N) end)
       (fst (server_transact S ∅ [Some (ins 10%N); Some (ins 11%N); None; Some (ins 12%N)])))
  = ([(1, 10%N); (1, 11%N); (4, 0%N)], [(1, 10%N); (1, 11%N); (5, 0%N); (6, 0%N)]).
Proof. vm_compute. reflexivity. Qed.
