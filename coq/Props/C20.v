(** C20 — generated models fit their schema.
    Statements only; proofs in Mgen/FieldType.v.  [C20_field_type_is_native]:
    for every column (any extended type, key and value types, min, max,
    with or without an enum, enum types switched on or off) the Go type the
    generator writes is, up to the generated enum aliases, the type the
    mapper's validation demands.  The generated deep copy treats exactly the
    fields the native type makes pointers, slices or maps
    ([C20_copied_fields_agree]); that such a copy is equal and shares no
    memory is C13's Clone theorem.  That the generated text compiles, is
    reproducible and validates, and that the generated Equals/DeepCopy agree
    with the generic ones on values, is decided by the driver on the real
    generator (go build of the generated package; see DESIGN.md). *)
From LOV Require Import Mgen.FieldType.

Theorem C20_field_type_is_native : forall enums c, resolve (field_type enums c) = native_type c.
Proof. exact field_type_is_native. Qed.
Print Assumptions C20_field_type_is_native.

Theorem C20_field_type_plain_is_native : forall c, field_type false c = native_type c.
Proof. exact field_type_plain_is_native. Qed.
Print Assumptions C20_field_type_plain_is_native.

Theorem C20_copied_fields_agree : forall enums c, is_reference (field_type enums c) = is_reference (native_type c).
Proof. exact copied_fields_agree. Qed.
Print Assumptions C20_copied_fields_agree.
