(** C01 — a monitor-fed cache mirrors the database it monitors.
    Statements only; proofs in Cli/ReplicaProofs.v (which rests on C07's
    exact-difference theorem and C10's difference laws).

    Protocol-level model: the server computes the initial contents / one
    notification per committed transaction (Srv/Monitor.v), the client stores
    the initial contents and applies each notification in arrival order
    (Cli/Replica.v).  What the model cannot exhibit — that the real client
    really processes a reply and the notifications that follow it in arrival
    order whatever the goroutine interleaving — is exercised with the pause
    point monitor.replyReceived by the correspondence check. *)
From LOV Require Import Cli.ReplicaProofs.

(** the initial contents mirror the database at the moment of the request,
    whatever history produced that state *)
Theorem C01_initial_contents_mirror : forall R d, all_kinds_req R -> mirrors R (apply_dump R d) d.
Proof. exact dump_mirrors. Qed.
Print Assumptions C01_initial_contents_mirror.

(** each notification keeps the cache equal to the monitored part — both
    encodings (V1: update; V2: update2/update3) *)
Theorem C01_notification_keeps_mirror : forall R e τ c d d',
  all_kinds_req R -> db_typed τ d -> db_typed τ d' ->
  mirrors R c d -> mirrors R (apply_notification R e c d d') d'.
Proof. exact notification_mirrors. Qed.
Print Assumptions C01_notification_keeps_mirror.

(** after any history (any length, committed and failed transactions,
    inserts, updates, mutations, deletes, garbage collection, weak pruning —
    whatever [transact] does) following the monitor request on any state [d],
    the cache is exactly the monitored part of the database *)
Theorem C01_replica_mirrors_database : forall S R e τ h d,
  all_kinds_req R -> db_typed τ d -> history_typed S τ d h ->
  let '(c', d') := replica_run S R e (apply_dump R d) d h in mirrors R c' d'.
Proof. exact replica_after_dump_mirrors_db. Qed.
Print Assumptions C01_replica_mirrors_database.

(** a notification that arrives before the initial contents have been
    applied is queued and replayed after them: the cache is the same as if it
    had arrived afterwards *)
Theorem C01_deferred_notification_same_cache : forall R e d0 d1 d2 t,
  replay R e (apply_dump R d0) [(d0, d1); (d1, d2)] t
  = apply_notification R e (apply_notification R e (apply_dump R d0) d0 d1) d1 d2 t.
Proof. exact defer_commutes. Qed.
Print Assumptions C01_deferred_notification_same_cache.
