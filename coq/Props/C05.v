(** C05 — cache indexes agree with cache contents.
    Statements only; proofs in Cache/IndexProofs.v. *)
From LOV Require Import Cache.IndexProofs Cache.IndexPinned Cache.IndexBatch.

(** [Inv]: every index map is exactly the grouping of the cached rows by the
    index key and has no empty entry.  It holds of the empty cache ... *)
Theorem C05_inv_initially : forall T specs, Inv T specs (rc_empty specs).
Proof. exact Inv_empty. Qed.
Print Assumptions C05_inv_initially.

(** ... is preserved by any batch (any length) applied in an order in which no
    step creates a transient duplicate on a schema index ... *)
Theorem C05_batch_preserves_inv : forall T specs b c c',
  Inv T specs c -> Forall (ch_ok (rc_rows c)) b -> NoDup (ch_uuid <$> b) ->
  batch_fresh T specs (rc_rows c) b ->
  apply_batch T specs c b = COk c' -> Inv T specs c'.
Proof. exact apply_batch_inv. Qed.
Print Assumptions C05_batch_preserves_inv.

(** ... and a batch of changes to distinct rows applies in every order with
    the same resulting rows; the invariant holds afterwards for every such
    order. *)
Theorem C05_batch_any_order_partial : forall T specs c b,
  Inv T specs c -> NoDup (ch_uuid <$> b) -> Forall (ch_ok (rc_rows c)) b ->
  forall p, p ≡ₚ b -> batch_fresh T specs (rc_rows c) p ->
  exists c', apply_batch T specs c p = COk c' /\ Inv T specs c' /\ rc_rows c' = rows_after (rc_rows c) b.
Proof. exact batch_any_order_inv_partial. Qed.
Print Assumptions C05_batch_any_order_partial.

(** The full statement: without [batch_fresh].  The rows are unique under
    every schema index before and after the batch (what the server guarantees
    of every committed state, C06); inside the batch a schema-indexed value may
    be handed from one row to another, and the taker may be applied before the
    giver.  In EVERY order the batch applies, ends in the same rows, and every
    index - schema or client - is exactly the grouping of those rows by key.
    (Proof: Cache/IndexBatch.v, through an invariant of the middle of a batch:
    a schema-index entry points at the last writer of its key, and an entry
    pointing at a row not yet applied means no applied row holds the key.) *)
Theorem C05_batch_any_order : forall T specs c b,
  Inv T specs c -> schema_unique T specs (rc_rows c) ->
  NoDup (ch_uuid <$> b) -> Forall (ch_ok (rc_rows c)) b ->
  schema_unique T specs (rows_after (rc_rows c) b) ->
  forall p, p ≡ₚ b ->
  exists c', apply_batch T specs c p = COk c' /\ Inv T specs c' /\ rc_rows c' = rows_after (rc_rows c) b.
Proof. exact batch_any_order_inv. Qed.
Print Assumptions C05_batch_any_order.

(** With client indexes only, every order of every batch is covered. *)
Theorem C05_batch_any_order_client_indexes : forall T specs c b,
  Forall (fun s => i_schema s = false) specs ->
  Inv T specs c -> NoDup (ch_uuid <$> b) -> Forall (ch_ok (rc_rows c)) b ->
  forall p, p ≡ₚ b ->
  exists c', apply_batch T specs c p = COk c' /\ Inv T specs c' /\ rc_rows c' = rows_after (rc_rows c) b.
Proof. exact batch_any_order_client. Qed.
Print Assumptions C05_batch_any_order_client_indexes.

(** Under the invariant a lookup through any index is a scan of the rows. *)
Theorem C05_lookup_is_scan : forall T specs c i s m k,
  Inv T specs c -> specs !! i = Some s -> rc_idx c !! i = Some m ->
  i_get m k = scan T s (rc_rows c) k.
Proof. exact index_lookup_is_scan. Qed.
Print Assumptions C05_lookup_is_scan.

(** No index entry without a row having that value, and every value some row
    has is indexed (Index(cols...) dumps exactly the values present). *)
Theorem C05_entry_iff_some_row : forall T specs c i s m k,
  Inv T specs c -> specs !! i = Some s -> rc_idx c !! i = Some m ->
  (is_Some (m !! k) <-> exists u r, rc_rows c !! u = Some r /\ K T s r = k).
Proof. exact index_entry_iff. Qed.
Print Assumptions C05_entry_iff_some_row.

(** The duplicate check (IndexExists / Create / Update with checking on) says
    exactly "another row has the same value on some schema index". *)
Theorem C05_conflict_check_exact : forall T specs c u r,
  Inv T specs c ->
  conflicts T specs (rc_idx c) u r = true <->
  exists i s, specs !! i = Some s /\ i_schema s = true /\
              exists u' r', u' <> u /\ rc_rows c !! u' = Some r' /\ K T s r' = K T s r.
Proof. exact conflicts_iff. Qed.
Print Assumptions C05_conflict_check_exact.

(** The hand-over witness: two rows swap a schema-indexed value in one batch.
    On the repaired model both application orders index "b" correctly; the
    pinned tree's Update loses the entry (the defect fixed in /repo). *)
Theorem C05_handover_witness :
  (match apply_batch wT wspecs wstart wbatch with COk c => lookup_b c | _ => [] end) = [10%N] /\
  (match apply_batch wT wspecs wstart (rev wbatch) with COk c => lookup_b c | _ => [] end) = [10%N] /\
  lookup_b (update_pinned wT wspecs (update_pinned wT wspecs wstart 10%N (wrow 6%N)) 11%N (wrow 5%N)) = [].
Proof. repeat split; vm_compute; reflexivity. Qed.
Print Assumptions C05_handover_witness.

(** the key of an index over several columns tells an unset optional column
    from its neighbour's value; the pinned encoding did not *)
Theorem C05_multi_column_key_pinned_refuted :
  let r1 := krow None (Some (AStr 5)) in
  let r2 := krow (Some (AStr 5)) None in
  K_pinned kT kspec r1 = K_pinned kT kspec r2 /\ K kT kspec r1 <> K kT kspec r2.
Proof. exact K_pinned_refuted. Qed.
Print Assumptions C05_multi_column_key_pinned_refuted.

(** what the hypothesis "unique rows" of the batch theorem excludes is reachable
    in a client cache: a schema index over a column the client does not monitor
    (every cached row holds the default value; Populate creates rows without
    the duplicate check).  The single-valued schema entry then holds the last
    row only while a scan finds both (recorded finding C05 class 31, shown on
    the code by a scenario test of C05) *)
Theorem C05_schema_index_over_projected_column_refuted :
  exists c, two_projected = COk c /\
    (match rc_idx c with m :: _ => i_get m (K kT pspec (krow None None)) | [] => ∅ end) = {[11%N]} /\
    scan kT pspec (rc_rows c) (K kT pspec (krow None None)) = {[10%N; 11%N]}.
Proof. exact schema_index_projected_refuted. Qed.
Print Assumptions C05_schema_index_over_projected_column_refuted.

(** ... and for every reachable state: any number of batches and purges
    (TableCache.Purge: the empty cache again), each batch applied in any order.
    After every session that is well-formed - the batches change distinct
    rows, fit the rows cached when they arrive and leave them unique under the
    schema indexes - every step succeeds, the invariant holds and the cached
    rows are the ones the session describes. *)
From LOV Require Import Cache.IndexSession.

Theorem C05_sessions_preserve_inv : forall T specs l c,
  Inv T specs c -> schema_unique T specs (rc_rows c) -> session_ok T specs (rc_rows c) l ->
  exists c', run_session T specs c l = COk c' /\ Inv T specs c' /\ schema_unique T specs (rc_rows c') /\
             rc_rows c' = session_rows (rc_rows c) l.
Proof. exact session_inv. Qed.
Print Assumptions C05_sessions_preserve_inv.

Theorem C05_sessions_from_the_empty_cache : forall T specs l,
  session_ok T specs ∅ l ->
  exists c', run_session T specs (rc_empty specs) l = COk c' /\ Inv T specs c' /\ rc_rows c' = session_rows ∅ l.
Proof. exact session_from_empty. Qed.
Print Assumptions C05_sessions_from_the_empty_cache.

(** a session that runs: two rows, a hand-over of the indexed value applied taker first, a purge, one row again -
    one row is cached at the end, found under its value and under no other *)
Example C05_session_runs :
  let ins u s := mkChange u None (Some (wrow s)) in
  let upd u s s' := mkChange u (Some (wrow s)) (Some (wrow s')) in
  let l := [SBatchOf [ins 10%N 5%N; ins 11%N 6%N] [ins 11%N 6%N; ins 10%N 5%N];
            SBatchOf [upd 10%N 5%N 7%N; upd 11%N 6%N 5%N] [upd 11%N 6%N 5%N; upd 10%N 5%N 7%N];
            SPurgeAll;
            SBatchOf [ins 12%N 5%N] [ins 12%N 5%N]] in
  match run_session wT wspecs (rc_empty wspecs) l with
  | COk c => (bool_decide (rc_rows c = session_rows ∅ l), size (rc_rows c),
              (fun m => (i_get m [Some (AStr 5%N)], i_get m [Some (AStr 6%N)])) <$> rc_idx c)
  | CErr _ => (false, 0, [])
  end = (true, 1, [({[ 12%N ]}, ∅)]).
Proof. vm_compute. reflexivity. Qed.
