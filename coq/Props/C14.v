(** C14 — cache events form a faithful, ordered change log.
    Statements only; proofs in Cache/EventsProofs.v.  The model applies the
    rows of each notification one at a time, as Populate/Populate2 +
    ApplyCacheUpdate do, enqueuing one event per applied change into a
    bounded FIFO that a second goroutine drains towards every handler.
    [C14_drained_log_reproduces_cache] is the property: for every history of
    notifications, every interleaving [acts] of enqueue and dequeue steps in
    which nothing was dropped, once the buffer is drained each handler's log,
    replayed on the empty table set, is legal at every step (an add meets no
    row, an update or delete meets exactly the row state it names as old) and
    ends in the cache contents.  What the model cannot show: that the Go
    event carries copies rather than aliases (C13) and data races (C18). *)
From LOV Require Import Cache.Events Cache.EventsProofs.

Theorem C14_notification_events_replay : forall c l c' es ok,
  apply_rows c l = (c', es, ok) -> replay c es = Some c'.
Proof. exact apply_rows_replay. Qed.
Print Assumptions C14_notification_events_replay.

Theorem C14_history_log_replays : forall c h c' es,
  apply_history c h = (c', es) -> replay c es = Some c'.
Proof. exact history_replay. Qed.
Print Assumptions C14_history_log_replays.

Theorem C14_events_are_applied_changes : forall c ch c' es e,
  apply_row c ch = Some (c', es) -> e ∈ es ->
  match e with
  | EvAdd t u n => tc_get c t !! u = None /\ tc_get c' t !! u = Some n
  | EvUpd t u o n => tc_get c t !! u = Some o /\ tc_get c' t !! u = Some n /\ o <> n
  | EvDel t u o => tc_get c t !! u = Some o /\ tc_get c' t !! u = None
  end.
Proof. exact events_are_changes. Qed.
Print Assumptions C14_events_are_applied_changes.

Theorem C14_no_event_without_change : forall c t u r,
  tc_get c t !! u = Some r -> apply_row c (t, u, false, Some r) = Some (c, []).
Proof. exact no_event_without_change. Qed.
Print Assumptions C14_no_event_without_change.

Theorem C14_buffer_is_fifo : forall cap acts,
  q_dropped (qrun cap acts) = 0%nat ->
  q_delivered (qrun cap acts) ++ q_buf (qrun cap acts) = enqueued acts.
Proof. exact fifo_no_overflow. Qed.
Print Assumptions C14_buffer_is_fifo.

Theorem C14_no_drop_below_capacity : forall cap s e,
  (length (q_buf s) < cap)%nat -> q_dropped (qstep cap s (Enq e)) = q_dropped s.
Proof. exact no_drop_below_capacity. Qed.
Print Assumptions C14_no_drop_below_capacity.

Theorem C14_handlers_agree : forall n s l1 l2,
  l1 ∈ handler_logs n s -> l2 ∈ handler_logs n s -> l1 = l2.
Proof. exact handlers_agree. Qed.
Print Assumptions C14_handlers_agree.

Theorem C14_drained_log_reproduces_cache : forall cap h c es acts l n,
  apply_history ∅ h = (c, es) -> enqueued acts = es ->
  q_dropped (qrun cap acts) = 0%nat -> q_buf (qrun cap acts) = [] ->
  l ∈ handler_logs n (qrun cap acts) -> replay ∅ l = Some c.
Proof. exact drained_log_reproduces_cache. Qed.
Print Assumptions C14_drained_log_reproduces_cache.

(** Sessions with reconnections.  The quantifier of C14 is over notification
    histories; a reconnect purges the cache between two of them.  The code
    purges without events: the log of such a session does not replay to the
    cache, and is not even a legal sequence once the rows come back as adds
    (recorded finding C14 class 31, demonstrated on the code by the scenario
    tests of C14).  Without a purge a session is a history and replays. *)
From LOV Require Import Cache.EventsPurge.

Theorem C14_purge_without_events_refuted :
  exists h, let '(c, es) := apply_session ∅ h in replay ∅ es <> Some c.
Proof. exact purge_refuted. Qed.
Print Assumptions C14_purge_without_events_refuted.

Theorem C14_purge_then_adds_is_illegal :
  exists h, let '(c, es) := apply_session ∅ h in replay ∅ es = None.
Proof. exact purge_readd_illegal. Qed.
Print Assumptions C14_purge_then_adds_is_illegal.

Theorem C14_session_without_purge_replays : forall h ns c c' es,
  notifications h = Some ns -> apply_session c h = (c', es) -> replay c es = Some c'.
Proof. exact session_without_purge_replays. Qed.
Print Assumptions C14_session_without_purge_replays.
