(** C13 — cached models are isolated copies.
    Statements only; proofs in Iso/HeapProofs.v.  Go models are modelled on
    a heap: a struct held by value whose pointer, slice and map fields refer
    to cells; two models alias when they share a cell.  The cache copies on
    every read and on every write ([clone]).  [C13_isolation_over_histories]:
    from any state in which no cell is shared between a cached model and a
    model the caller holds (true initially, preserved by every step), no
    sequence of reads, field overwrites, writes through pointers / slice
    elements / map entries of models the caller holds, or writes of other
    rows changes what the cache returns for a row.  [C13_clone_*] is Clone's
    contract; [C13_shallow_copy_refuted] shows the property fails for a copy
    that shares cells.  Equal's laws and whether each Go read path really
    clones are what the correspondence and the driver's oracle check: the
    model asserts clone-on-read, the harness verifies it path by path. *)
From LOV Require Import Iso.Heap Iso.HeapProofs.

Theorem C13_clone_equal_and_disjoint : forall h m h' m',
  clone h m = (h', m') -> (forall x, x ∈ locs m -> is_Some (h !! x)) ->
  deref h' m' = deref h m /\ deref h' m = deref h m /\ (forall x, x ∈ locs m' -> x ∉ locs m).
Proof. exact clone_equal_and_disjoint. Qed.
Print Assumptions C13_clone_equal_and_disjoint.

Theorem C13_invariant_initially : Inv (mkSys ∅ ∅ []).
Proof. exact inv_init. Qed.
Print Assumptions C13_invariant_initially.

Theorem C13_invariant_preserved : forall s o, Inv s -> Inv (step clone s o).
Proof. exact inv_preserved. Qed.
Print Assumptions C13_invariant_preserved.

Theorem C13_caller_cannot_change_cache : forall s o u,
  Inv s -> is_put o u = false -> visible (step clone s o) u = visible s u.
Proof. exact caller_cannot_change_cache. Qed.
Print Assumptions C13_caller_cannot_change_cache.

Theorem C13_isolation_over_histories : forall s ops u,
  Inv s -> forallb (fun o => negb (is_put o u)) ops = true ->
  visible (fold_left (step clone) ops s) u = visible s u /\ Inv (fold_left (step clone) ops s).
Proof. exact isolation_over_histories. Qed.
Print Assumptions C13_isolation_over_histories.

Theorem C13_model_handed_over_is_copied : forall s u i o,
  Inv s -> is_put o u = false ->
  visible (step clone (step clone s (CPut u i)) o) u = visible (step clone s (CPut u i)) u.
Proof. exact put_then_mutate. Qed.
Print Assumptions C13_model_handed_over_is_copied.

Theorem C13_shallow_copy_refuted :
  exists s o, Inv s /\ (forall u, is_put o u = false) /\
    visible (step shallow (step shallow s (CGet 7%N)) o) 7%N <> visible s 7%N.
Proof. exact shallow_copy_refuted. Qed.
Print Assumptions C13_shallow_copy_refuted.
