(** C08 — selecting rows by condition is exact, with or without indexes.
    Statements only; proofs in Cache/SelectProofs.v and Upd/CondProofs.v. *)
From LOV Require Import Cache.SelectProofs Upd.CondProofs Cli.CondApi Cli.CondApiProofs Cache.IndexProofs.

(** RowsByCondition — the pre-filter through every schema / client index
    (power set of indexable conditions, intersections, early exits) followed by
    the explicit evaluation — returns exactly the rows for which every
    condition is true, for every cache state satisfying the index invariant
    (C05), every index configuration, every list of conditions. *)
Theorem C08_rows_by_condition_is_filter : forall T specs c cs,
  Inv T specs c -> rows_by_condition T specs c cs = dom (filter_rows (rc_rows c) cs).
Proof. exact rows_by_condition_is_filter. Qed.
Print Assumptions C08_rows_by_condition_is_filter.

Theorem C08_index_config_irrelevant : forall T specs1 specs2 c1 c2 cs,
  Inv T specs1 c1 -> Inv T specs2 c2 -> rc_rows c1 = rc_rows c2 ->
  rows_by_condition T specs1 c1 cs = rows_by_condition T specs2 c2 cs.
Proof. exact index_config_irrelevant. Qed.
Print Assumptions C08_index_config_irrelevant.

(** the pre-filter alone never loses a matching row *)
Theorem C08_prefilter_superset : forall T specs c cs,
  Inv T specs c -> superset c cs (prefilter T specs c cs).
Proof. exact prefilter_superset. Qed.
Print Assumptions C08_prefilter_superset.

(** the condition functions are RFC 7047's *)
Theorem C08_eq : forall v arg, eval_fun v CEq arg = true <-> v = arg.
Proof. exact eval_eq. Qed.
Print Assumptions C08_eq.
Theorem C08_ne : forall v arg, eval_fun v CNe arg = true <-> v <> arg.
Proof. exact eval_ne. Qed.
Print Assumptions C08_ne.
Theorem C08_includes_set : forall s t, eval_fun (VSet s) CIncludes (VSet t) = true <-> t ⊆ s.
Proof. exact eval_includes_set. Qed.
Print Assumptions C08_includes_set.
Theorem C08_excludes_set : forall s t, eval_fun (VSet s) CExcludes (VSet t) = true <-> s ## t.
Proof. exact eval_excludes_set. Qed.
Print Assumptions C08_excludes_set.
Theorem C08_includes_map : forall m n, eval_fun (VMap m) CIncludes (VMap n) = true <-> n ⊆ m.
Proof. exact eval_includes_map. Qed.
Print Assumptions C08_includes_map.
Theorem C08_excludes_map : forall m n,
  eval_fun (VMap m) CExcludes (VMap n) = true <-> (forall k x, n !! k = Some x -> m !! k <> Some x).
Proof. exact eval_excludes_map. Qed.
Print Assumptions C08_excludes_map.
Theorem C08_includes_optional : forall a b, eval_fun (VOpt a) CIncludes (VOpt b) = true <-> (b = None \/ a = b).
Proof. exact eval_includes_opt. Qed.
Print Assumptions C08_includes_optional.
Theorem C08_int_lt : forall x y, eval_fun (VAtom (AInt x)) CLt (VAtom (AInt y)) = true <-> (x < y)%Z.
Proof. exact eval_int_lt. Qed.
Print Assumptions C08_int_lt.
Theorem C08_int_le : forall x y, eval_fun (VAtom (AInt x)) CLe (VAtom (AInt y)) = true <-> (x <= y)%Z.
Proof. exact eval_int_le. Qed.
Print Assumptions C08_int_le.
Theorem C08_int_gt : forall x y, eval_fun (VAtom (AInt x)) CGt (VAtom (AInt y)) = true <-> (x > y)%Z.
Proof. exact eval_int_gt. Qed.
Print Assumptions C08_int_gt.
Theorem C08_int_ge : forall x y, eval_fun (VAtom (AInt x)) CGe (VAtom (AInt y)) = true <-> (x >= y)%Z.
Proof. exact eval_int_ge. Qed.
Print Assumptions C08_int_ge.

(** * the conditional API (client/api.go, client/condition.go)

    What List() reports: WhereAll - the rows satisfying every condition;
    WhereAny - the rows satisfying some condition; for every cache state with
    the index invariant and every index configuration. *)
Theorem C08_where_all_means_all : forall T specs c, Inv T specs c -> forall cs u,
  u ∈ matches T specs c (CExplicit [cs]) <->
  exists r, rc_rows c !! u = Some r /\ Forall (fun cd => eval_cond_row u r cd = true) cs.
Proof. exact where_all_is_all. Qed.
Print Assumptions C08_where_all_means_all.

Theorem C08_where_any_means_any : forall T specs c, Inv T specs c -> forall cs u,
  u ∈ matches T specs c (CExplicit (map (fun cd => [cd]) cs)) <->
  exists r cd, rc_rows c !! u = Some r /\ cd ∈ cs /\ eval_cond_row u r cd = true.
Proof. exact where_any_is_any. Qed.
Print Assumptions C08_where_any_means_any.

(** Where(model) without a cache hit sends equality on [_uuid] or on the first
    schema index all of whose columns are set in the model; on a synchronised
    cache those conditions select no row (so List() = {} is what executes) *)
Theorem C08_where_model_without_hit : forall T specs c,
  Inv T specs c ->
  (forall j idx, t_indexes T !! j = Some idx -> exists s, specs !! j = Some s /\ i_cols s = map (fun col => (col, None)) idx) ->
  find_col T ucol = None ->
  forall m cs, rbm_step T specs c ∅ m = ∅ -> model_eq_conds T m = Some cs -> filter_rows (rc_rows c) cs = ∅.
Proof. exact model_nohit_selects_nothing. Qed.
Print Assumptions C08_where_model_without_hit.

(** Where(model) with cache hits: a row selected for a model without uuid agrees
    with the model on every column of an index for which the model holds a
    value in every column (a key of a map column: the key is present) - the
    fields a model leaves unset select nothing *)
Theorem C08_where_model_uses_usable_index : forall T specs c,
  Inv T specs c -> forall mvals u,
  u ∈ rbm_step T specs c ∅ (None, mvals) ->
  exists s r, s ∈ specs /\ usable T s mvals = true /\ rc_rows c !! u = Some r /\ K T s r = K T s mvals.
Proof. exact where_model_uses_usable_index. Qed.
Print Assumptions C08_where_model_uses_usable_index.

(** The operations a conditional generates (Delete / Update / Mutate), executed
    by the transaction engine on a database the cache is synchronised with,
    affect exactly the rows List() reports: the counts add up to their number,
    every listed row is transformed by the row operation, every other row and
    every other table is left as it was - for models, explicit conditions and
    predicates, with or without cache hits. *)
Theorem C08_api_affects_exactly_listed : forall S T,
  find_table S (t_name T) = Some T -> forall specs c,
  Inv T specs c ->
  (forall j idx, t_indexes T !! j = Some idx -> exists s, specs !! j = Some s /\ i_cols s = map (fun col => (col, None)) idx) ->
  find_col T ucol = None -> forall d,
  get_tbl d (t_name T) = rc_rows c ->
  forall cd k conds d0,
  generate T specs c cd = Some conds ->
  Forall (fun wh => conds_valid T wh = true) conds ->
  (forall u r, u ∈ matches T specs c cd -> rc_rows c !! u = Some r -> exists n, kind_f T k r = Ok n) ->
  exists rs d',
    exec_ops S d0 d (map (api_op T k) conds) = (rs, d', true) /\
    sum_counts rs = size (matches T specs c cd) /\
    (forall u, u ∉ matches T specs c cd -> get_tbl d' (t_name T) !! u = rc_rows c !! u) /\
    (forall u r n, u ∈ matches T specs c cd -> rc_rows c !! u = Some r -> kind_f T k r = Ok n ->
                   get_tbl d' (t_name T) !! u = n) /\
    (forall t', t' <> t_name T -> get_tbl d' t' = get_tbl d t').
Proof. exact api_affects_exactly_listed. Qed.
Print Assumptions C08_api_affects_exactly_listed.

Theorem C08_api_delete_exact : forall S T,
  find_table S (t_name T) = Some T -> forall specs c,
  Inv T specs c ->
  (forall j idx, t_indexes T !! j = Some idx -> exists s, specs !! j = Some s /\ i_cols s = map (fun col => (col, None)) idx) ->
  find_col T ucol = None -> forall d,
  get_tbl d (t_name T) = rc_rows c ->
  forall cd conds d0,
  generate T specs c cd = Some conds ->
  Forall (fun wh => conds_valid T wh = true) conds ->
  exists rs d',
    exec_ops S d0 d (map (api_op T ADelete) conds) = (rs, d', true) /\
    sum_counts rs = size (matches T specs c cd) /\
    forall u, get_tbl d' (t_name T) !! u = if decide (u ∈ matches T specs c cd) then None else rc_rows c !! u.
Proof. exact api_delete_exact. Qed.
Print Assumptions C08_api_delete_exact.
