(** C08 — selecting rows by condition is exact, with or without indexes.
    Statements only; proofs in Cache/SelectProofs.v and Upd/CondProofs.v. *)
From LOV Require Import Cache.SelectProofs Upd.CondProofs.

(** RowsByCondition — the pre-filter through every schema / client index
    (power set of indexable conditions, intersections, early exits) followed by
    the explicit evaluation — returns exactly the rows for which every
    condition is true, for every cache state satisfying the index invariant
    (C05), every index configuration, every list of conditions. *)
Theorem C08_rows_by_condition_is_filter : forall T specs c cs,
  Inv T specs c -> rows_by_condition T specs c cs = dom (filter_rows (rc_rows c) cs).
Proof. exact rows_by_condition_is_filter. Qed.
Print Assumptions C08_rows_by_condition_is_filter.

Theorem C08_index_config_irrelevant : forall T specs1 specs2 c1 c2 cs,
  Inv T specs1 c1 -> Inv T specs2 c2 -> rc_rows c1 = rc_rows c2 ->
  rows_by_condition T specs1 c1 cs = rows_by_condition T specs2 c2 cs.
Proof. exact index_config_irrelevant. Qed.
Print Assumptions C08_index_config_irrelevant.

(** the pre-filter alone never loses a matching row *)
Theorem C08_prefilter_superset : forall T specs c cs,
  Inv T specs c -> superset c cs (prefilter T specs c cs).
Proof. exact prefilter_superset. Qed.
Print Assumptions C08_prefilter_superset.

(** the condition functions are RFC 7047's *)
Theorem C08_eq : forall v arg, eval_fun v CEq arg = true <-> v = arg.
Proof. exact eval_eq. Qed.
Print Assumptions C08_eq.
Theorem C08_ne : forall v arg, eval_fun v CNe arg = true <-> v <> arg.
Proof. exact eval_ne. Qed.
Print Assumptions C08_ne.
Theorem C08_includes_set : forall s t, eval_fun (VSet s) CIncludes (VSet t) = true <-> t ⊆ s.
Proof. exact eval_includes_set. Qed.
Print Assumptions C08_includes_set.
Theorem C08_excludes_set : forall s t, eval_fun (VSet s) CExcludes (VSet t) = true <-> s ## t.
Proof. exact eval_excludes_set. Qed.
Print Assumptions C08_excludes_set.
Theorem C08_includes_map : forall m n, eval_fun (VMap m) CIncludes (VMap n) = true <-> n ⊆ m.
Proof. exact eval_includes_map. Qed.
Print Assumptions C08_includes_map.
Theorem C08_excludes_map : forall m n,
  eval_fun (VMap m) CExcludes (VMap n) = true <-> (forall k x, n !! k = Some x -> m !! k <> Some x).
Proof. exact eval_excludes_map. Qed.
Print Assumptions C08_excludes_map.
Theorem C08_includes_optional : forall a b, eval_fun (VOpt a) CIncludes (VOpt b) = true <-> (b = None \/ a = b).
Proof. exact eval_includes_opt. Qed.
Print Assumptions C08_includes_optional.
Theorem C08_int_lt : forall x y, eval_fun (VAtom (AInt x)) CLt (VAtom (AInt y)) = true <-> (x < y)%Z.
Proof. exact eval_int_lt. Qed.
Print Assumptions C08_int_lt.
Theorem C08_int_le : forall x y, eval_fun (VAtom (AInt x)) CLe (VAtom (AInt y)) = true <-> (x <= y)%Z.
Proof. exact eval_int_le. Qed.
Print Assumptions C08_int_le.
Theorem C08_int_gt : forall x y, eval_fun (VAtom (AInt x)) CGt (VAtom (AInt y)) = true <-> (x > y)%Z.
Proof. exact eval_int_gt. Qed.
Print Assumptions C08_int_gt.
Theorem C08_int_ge : forall x y, eval_fun (VAtom (AInt x)) CGe (VAtom (AInt y)) = true <-> (x >= y)%Z.
Proof. exact eval_int_ge. Qed.
Print Assumptions C08_int_ge.
