(** C07 — notifications are the exact difference made by the transaction.
    Statements only; proofs in Srv/MonitorProofs.v. *)
From LOV Require Import Srv.MonitorProofs.

(** applied to the monitored part of a table as it was before the
    transaction, the notification yields the monitored part as it is after it
    — both encodings, any column selection, all kinds of change selected; this
    covers rows inserted, changed, deleted, garbage-collected and weak-pruned
    alike, because the notification is computed from the two database states *)
Theorem C07_notification_is_exact_difference : forall e q τ tb tb',
  all_kinds q -> tbl_typed τ tb -> tbl_typed τ tb' ->
  apply_tbl (pc q <$> tb) (notify_tbl e q tb tb') = pc q <$> tb'.
Proof. exact notify_tbl_exact. Qed.
Print Assumptions C07_notification_is_exact_difference.

(** nothing for a row whose monitored columns did not change *)
Theorem C07_entry_iff_monitored_part_changed : forall e q o n,
  all_kinds q ->
  match o, n with Some a, Some b => compat a b | _, _ => True end ->
  (nkey e q o n = None <-> pc q <$> o = pc q <$> n).
Proof. exact nkey_none_iff. Qed.
Print Assumptions C07_entry_iff_monitored_part_changed.

(** a modify entry carries exactly the monitored columns that changed *)
Theorem C07_modify_carries_changed_columns : forall q a b df c,
  compat a b -> nkey V2 q (Some a) (Some b) = Some (EModify df) ->
  (is_Some (df !! c) <-> (pc q a) !! c <> (pc q b) !! c).
Proof. exact modify_carries_changed_columns. Qed.
Print Assumptions C07_modify_carries_changed_columns.

(** nothing at all for a transaction with no net effect *)
Theorem C07_nothing_when_no_net_effect : forall S R e d, notify S R e d d = None.
Proof. exact notify_nothing_when_unchanged. Qed.
Print Assumptions C07_nothing_when_no_net_effect.

(** only the kinds of change and the columns the monitor selected *)
Theorem C07_only_selected_kinds : forall e q o n en,
  nkey e q o n = Some en ->
  match o, n with
  | None, Some _ => mr_insert q = true
  | Some _, None => mr_delete q = true
  | Some _, Some _ => mr_modify q = true
  | None, None => False
  end.
Proof. exact only_selected_kinds. Qed.
Print Assumptions C07_only_selected_kinds.

Theorem C07_only_selected_columns : forall q r c,
  mr_cols q <> [] -> is_Some (pc q r !! c) -> c ∈ mr_cols q.
Proof. exact only_selected_columns. Qed.
Print Assumptions C07_only_selected_columns.

(** one slot per transaction, in commit order; failed transactions send nothing *)
Theorem C07_one_notification_per_transaction : forall S R e h d,
  length (monitored_run S R e d h) = length h.
Proof. exact one_slot_per_transaction. Qed.
Print Assumptions C07_one_notification_per_transaction.

Theorem C07_failed_transaction_sends_nothing : forall S R e d ops h,
  has_error (fst (transact S d ops)) = true ->
  monitored_run S R e d (ops :: h) = None :: monitored_run S R e d h.
Proof. exact failed_transaction_sends_nothing. Qed.
Print Assumptions C07_failed_transaction_sends_nothing.
