(** C19 — no input can crash the library.
    Statements only; proofs in Wire/DecodeProofs.v, Wire/SchemaCodecProofs.v and
    Db/TotalProofs.v.  Every Go slice index and unchecked type assertion of the
    hand-written decoders is, in the model, a primitive that yields [Panic]
    when out of range / of the wrong dynamic type; the theorems say that no
    generic JSON tree and no recursion depth reaches one.  What is modelled
    rather than proved: encoding/json's scanner and struct-tag decoding
    (inputs are generic trees), and the transaction engine below the row
    operations; both are exercised by the driver on corrupted inputs. *)
From LOV Require Import Wire.Decode Wire.DecodeProofs Wire.SchemaCodecProofs Wire.SchemaCodec Wire.Operation Wire.OperationProofs Wire.Messages Wire.MessagesProofs Db.TotalProofs Upd.Merge.

Theorem C19_notation_total : forall fuel v, is_panic (notation fuel v) = false.
Proof. exact notation_never_panics. Qed.
Print Assumptions C19_notation_total.

Theorem C19_set_total : forall fuel v, is_panic (dec_set fuel v) = false.
Proof. exact dec_set_never_panics. Qed.
Print Assumptions C19_set_total.

Theorem C19_map_total : forall fuel v, is_panic (dec_map fuel v) = false.
Proof. exact dec_map_never_panics. Qed.
Print Assumptions C19_map_total.

Theorem C19_uuid_total : forall v, is_panic (dec_uuid v) = false.
Proof. exact dec_uuid_np. Qed.
Print Assumptions C19_uuid_total.

Theorem C19_row_total : forall fuel v, is_panic (dec_row fuel v) = false.
Proof. exact dec_row_never_panics. Qed.
Print Assumptions C19_row_total.

Theorem C19_condition_total : forall fuel v, is_panic (dec_condition fuel v) = false.
Proof. exact (dec_triple_never_panics is_function). Qed.
Print Assumptions C19_condition_total.

Theorem C19_mutation_total : forall fuel v, is_panic (dec_mutation fuel v) = false.
Proof. exact (dec_triple_never_panics is_mutator). Qed.
Print Assumptions C19_mutation_total.

Theorem C19_base_type_total : forall v, is_panic (dec_base v) = false.
Proof. exact dec_base_never_panics. Qed.
Print Assumptions C19_base_type_total.

Theorem C19_column_type_total : forall v, is_panic (dec_colty v) = false.
Proof. exact dec_colty_never_panics. Qed.
Print Assumptions C19_column_type_total.

Theorem C19_column_total : forall v, is_panic (dec_column v) = false.
Proof. exact dec_column_never_panics. Qed.
Print Assumptions C19_column_total.

Theorem C19_operation_total : forall fuel v, is_panic (dec_op fuel v) = false.
Proof. exact dec_op_never_panics. Qed.
Print Assumptions C19_operation_total.

(** table updates of both formats, monitor replies (a table-updates object, or
    the monitor_cond_since triple), operation results and monitor requests *)
Theorem C19_table_updates_total : forall fuel v, is_panic (dec_tables (dec_ru fuel) v) = false.
Proof. intros fuel v. apply dec_tables_never_panics, dec_ru_never_panics. Qed.
Print Assumptions C19_table_updates_total.

Theorem C19_table_updates2_total : forall fuel v, is_panic (dec_tables (dec_ru2 fuel) v) = false.
Proof. intros fuel v. apply dec_tables_never_panics, dec_ru2_never_panics. Qed.
Print Assumptions C19_table_updates2_total.

Theorem C19_monitor_cond_since_reply_total : forall fuel v, is_panic (dec_since fuel v) = false.
Proof. exact dec_since_never_panics. Qed.
Print Assumptions C19_monitor_cond_since_reply_total.

Theorem C19_result_total : forall fuel v, is_panic (dec_result fuel v) = false.
Proof. exact dec_result_never_panics. Qed.
Print Assumptions C19_result_total.

Theorem C19_monitor_request_total : forall fuel v, is_panic (dec_monreq fuel v) = false.
Proof. exact dec_monreq_never_panics. Qed.
Print Assumptions C19_monitor_request_total.

(** the row operations of the engine answer every argument with a row or an error *)
Theorem C19_row_operations_total : forall T cur op, is_panic (rop_apply T cur op) = false.
Proof. exact rop_apply_never_panics. Qed.
Print Assumptions C19_row_operations_total.

Theorem C19_division_by_zero_is_a_domain_error : forall T r c C x m,
  find_col T c = Some C -> r !! c = Some (VAtom (AInt x)) ->
  c_mutable C = true -> ct_kind (c_ty C) = KAtom -> bt_enum (ct_key (c_ty C)) = [] ->
  atom_ok (ct_key (c_ty C)) (AInt 0) = true ->
  m = MDiv \/ m = MMod ->
  row_mutate T r [(c, m, VAtom (AInt 0))] = Err EDomain.
Proof. exact degenerate_arithmetic_is_a_domain_error. Qed.
Print Assumptions C19_division_by_zero_is_a_domain_error.

(** The pinned decoders did panic (the repaired defects; replayed on the
    implementation by the driver's corpus): [\["uuid"\]] as a UUID, [\[\]] and
    [\["set",1\]] as a set, [\[1,"==",1\]] as a condition. *)
Theorem C19_pinned_uuid_refuted : exists v, is_json v = true /\ dec_uuid_pinned v = Panic.
Proof. exact dec_uuid_pinned_refuted. Qed.
Print Assumptions C19_pinned_uuid_refuted.
Theorem C19_pinned_set_refuted : exists v1 v2, is_json v1 = true /\ is_json v2 = true /\
    dec_set_pinned_head v1 = Panic /\ dec_set_pinned_head v2 = Panic.
Proof. exact dec_set_pinned_refuted. Qed.
Print Assumptions C19_pinned_set_refuted.
Theorem C19_pinned_condition_refuted : exists v, is_json v = true /\ dec_condition_pinned v = Panic.
Proof. exact dec_condition_pinned_refuted. Qed.
Print Assumptions C19_pinned_condition_refuted.
