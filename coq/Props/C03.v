(** C03 — operation results and effects follow RFC 7047 5.1-5.2.
    The engine model of Db/Txn.v *is* the executable reference model the
    property speaks of; the theorems below show that it says what the RFC
    says.  Statements only. *)
From LOV Require Import Db.TxnProofs Upd.MutateProofs Upd.CondProofs.

(** select returns exactly the rows satisfying the conditions, reduced to the requested columns
    (the whole row when "columns" is omitted) *)
Theorem C03_select : forall S d0 d t wh cols T,
  find_table S t = Some T -> conds_valid T wh = true -> cols_valid T cols = true ->
  exists rs, exec_op S d0 d (OSelect t wh cols) = (RRows rs, d) /\
             (list_to_map rs : gmap sym (gmap sym value)) = select_row cols <$> filter_rows (get_tbl d t) wh.
Proof. exact select_spec. Qed.
Print Assumptions C03_select.

(** update / mutate / delete: every matching row is transformed by the
    row-level operation, every other row and table is untouched, and the count
    is the number of matching rows *)
Theorem C03_update_mutate_delete : forall S d0 d o t wh T f r' d',
  (o = OUpdate t wh r' /\ f = (fun r => x <- row_update T r r' ;; Ok (Some x))) \/
  (exists ms, o = OMutate t wh ms /\ f = (fun r => x <- row_mutate T r ms ;; Ok (Some x))) \/
  (o = ODelete t wh /\ f = (fun _ => Ok None)) ->
  find_table S t = Some T -> t_name T = t -> conds_valid T wh = true ->
  forall n, exec_op S d0 d o = (RCount n, d') ->
  n = size (filter_rows (get_tbl d t) wh) /\
  (forall t', t' <> t -> get_tbl d' t' = get_tbl d t') /\
  (forall u, get_tbl d' t !! u =
             match get_tbl d t !! u with
             | Some r => if row_matches u r wh then res_get (f r) else Some r
             | None => None
             end).
Proof. exact modify_spec. Qed.
Print Assumptions C03_update_mutate_delete.

(** insert stores the row, defaults filled in, under the reported uuid *)
Theorem C03_insert : forall S d0 d t u w T d' x,
  find_table S t = Some T -> exec_op S d0 d (OInsert t u w) = (RUuid x, d') ->
  x = u /\ get_tbl d t !! u = None /\
  exists r, row_insert T w = Ok r /\ get_tbl d' t !! u = Some r /\
            (forall u', u' <> u -> get_tbl d' t !! u' = get_tbl d t !! u') /\
            (forall t', t' <> t -> get_tbl d' t' = get_tbl d t').
Proof. exact insert_spec. Qed.
Print Assumptions C03_insert.

(** later operations of a transaction observe the effects of earlier ones:
    running ops1 ++ ops2 is running ops2 on the state ops1 leaves *)
Theorem C03_later_operations_see_earlier : forall S d0 ops1 ops2 d,
  exec_ops S d0 d (ops1 ++ ops2) =
  let '(rs1, d1, ok1) := exec_ops S d0 d ops1 in
  if ok1 then let '(rs2, d2, ok2) := exec_ops S d0 d1 ops2 in (rs1 ++ rs2, d2, ok2)
  else (rs1 ++ map (fun _ => RNull) ops2, d1, false).
Proof. exact exec_ops_app. Qed.
Print Assumptions C03_later_operations_see_earlier.

(** mutators: integers are 64-bit; the exact result when it is representable, the RFC's range error otherwise *)
Theorem C03_int_add : forall x y, in_int64 (x + y) = true -> mutate_atom (AInt x) MAdd (AInt y) = MOk (VAtom (AInt (x + y))).
Proof. exact mutate_int_add. Qed.
Print Assumptions C03_int_add.
Theorem C03_int_sub : forall x y, in_int64 (x - y) = true -> mutate_atom (AInt x) MSub (AInt y) = MOk (VAtom (AInt (x - y))).
Proof. exact mutate_int_sub. Qed.
Print Assumptions C03_int_sub.
Theorem C03_int_mul : forall x y, in_int64 (x * y) = true -> mutate_atom (AInt x) MMul (AInt y) = MOk (VAtom (AInt (x * y))).
Proof. exact mutate_int_mul. Qed.
Print Assumptions C03_int_mul.
Theorem C03_int_div : forall x y, y <> 0%Z -> in_int64 (Z.quot x y) = true -> mutate_atom (AInt x) MDiv (AInt y) = MOk (VAtom (AInt (Z.quot x y))).
Proof. exact mutate_int_div. Qed.
Print Assumptions C03_int_div.
Theorem C03_int_mod : forall x y, y <> 0%Z -> mutate_atom (AInt x) MMod (AInt y) = MOk (VAtom (AInt (Z.rem x y))).
Proof. exact mutate_int_mod. Qed.
Print Assumptions C03_int_mod.
Theorem C03_unrepresentable_result_is_a_range_error : forall x y m,
  mutate_atom (AInt x) m (AInt y) = MRange <->
  match m with
  | MAdd => in_int64 (x + y) = false
  | MSub => in_int64 (x - y) = false
  | MMul => in_int64 (x * y) = false
  | MDiv => y <> 0%Z /\ in_int64 (Z.quot x y) = false
  | _ => False
  end.
Proof. exact mutate_int_range. Qed.
Print Assumptions C03_unrepresentable_result_is_a_range_error.
(** non-vacuity: both cases occur at the ends of the range *)
Theorem C03_range_examples :
  mutate_atom (AInt 5) MSub (AInt (-9223372036854775808)) = MRange /\
  mutate_atom (AInt (-1)) MSub (AInt (-9223372036854775808)) = MOk (VAtom (AInt 9223372036854775807)) /\
  mutate_atom (AInt (-9223372036854775808)) MDiv (AInt (-1)) = MRange.
Proof. repeat split; reflexivity. Qed.
Print Assumptions C03_range_examples.
Theorem C03_division_by_zero_is_a_domain_error : forall x,
  mutate_atom (AInt x) MDiv (AInt 0) = MDomain /\ mutate_atom (AInt x) MMod (AInt 0) = MDomain.
Proof. intros x. split; [exact (mutate_int_div0 x)|exact (mutate_int_mod0 x)]. Qed.
Print Assumptions C03_division_by_zero_is_a_domain_error.
Theorem C03_set_insert_is_union : forall ct s x,
  ct_kind ct = KSet -> value_ok ct (VSet x) = true ->
  mutate1 ct true (VSet s) MInsert (VSet x) = MOk (VSet (s ∪ x)).
Proof. exact mutate_set_insert. Qed.
Print Assumptions C03_set_insert_is_union.
Theorem C03_set_delete_is_difference : forall ct s x,
  ct_kind ct = KSet -> value_ok ct (VSet x) = true ->
  mutate1 ct true (VSet s) MDelete (VSet x) = MOk (VSet (s ∖ x)).
Proof. exact mutate_set_delete. Qed.
Print Assumptions C03_set_delete_is_difference.
Theorem C03_map_insert_adds_absent_keys_only : forall ct m x,
  ct_kind ct = KMap -> value_ok ct (VMap x) = true ->
  exists m', mutate1 ct true (VMap m) MInsert (VMap x) = MOk (VMap m') /\
    forall k, m' !! k = match m !! k with Some v => Some v | None => x !! k end.
Proof. exact mutate_map_insert. Qed.
Print Assumptions C03_map_insert_adds_absent_keys_only.
Theorem C03_map_delete_by_keys : forall ct m ks,
  ct_kind ct = KMap -> forallb (atom_ok (ct_key ct)) (elements ks) = true ->
  exists m', mutate1 ct true (VMap m) MDelete (VSet ks) = MOk (VMap m') /\
    forall k, m' !! k = if decide (k ∈ ks) then None else m !! k.
Proof. exact mutate_map_delete_keys. Qed.
Print Assumptions C03_map_delete_by_keys.
Theorem C03_map_delete_by_pairs : forall ct m x,
  ct_kind ct = KMap -> value_ok ct (VMap x) = true ->
  exists m', mutate1 ct true (VMap m) MDelete (VMap x) = MOk (VMap m') /\
    forall k, m' !! k = match m !! k with
                        | Some v => if decide (x !! k = Some v) then None else Some v
                        | None => None
                        end.
Proof. exact mutate_map_delete_pairs. Qed.
Print Assumptions C03_map_delete_by_pairs.

(** immutable columns: an accepted update or mutation never changes them *)
Theorem C03_immutable_update : forall T r w r' C,
  row_update T r w = Ok r' -> find_col T (c_name C) = Some C -> c_mutable C = false ->
  is_Some (r !! c_name C) -> r' !! c_name C = r !! c_name C.
Proof. exact row_update_immutable. Qed.
Print Assumptions C03_immutable_update.
Theorem C03_immutable_mutate : forall T C, find_col T (c_name C) = Some C -> c_mutable C = false ->
  forall ms r r', row_mutate T r ms = Ok r' -> r' !! c_name C = r !! c_name C.
Proof. exact row_mutate_immutable. Qed.
Print Assumptions C03_immutable_mutate.

(** wait (RFC 7047 5.2.6): a selected row matches an expected row exactly when
    it holds, in every compared column, the value the expected row stands for
    there - what it says, or the column's default when the operation names no
    columns and the row leaves the column out.  A guard that leaves a column
    out is therefore not vacuous (the compare-and-swap of C17 relies on it). *)
Theorem C03_wait_matches : forall T all cols found expected,
  wait_matches T all cols found expected = true <->
  forall c, c ∈ cols -> forall v, expected_value T all expected c = Some v -> found !! c = v.
Proof. exact wait_matches_spec. Qed.
Print Assumptions C03_wait_matches.

Theorem C03_wait_left_out_column_is_its_default : forall T cols found expected c C v,
  c ∈ cols -> expected !! c = None -> find_col T c = Some C ->
  found !! c = Some v -> v <> default_value (c_ty C) ->
  wait_matches T true cols found expected = false.
Proof. exact wait_all_columns_left_out_is_default. Qed.
Print Assumptions C03_wait_left_out_column_is_its_default.
