(** C09 — model <-> row mapping is lossless for every column type.
    Statements only; proofs in Map/NativeOvsProofs.v (on top of the wire
    round-trip theorems of C12).  [column_value_roundtrip] is the property
    for one mapped field: the native value, converted with NativeToOvs,
    written as JSON, read back through the row decoder and converted with
    OvsToNative, is the value itself — for atoms, enums, UUIDs, optional
    values, sets of any size (a one-element set travels as its element) and
    maps with pairwise different keys.  [C09_model_roundtrip] composes it over
    all columns of a model: NewRow (leaving out default values), the JSON
    trip of the row and GetRowData into a fresh model give back every field;
    the "untouched" clause is [C09_absent_column_untouched].  Integers are
    unbounded in the model and the all-zero uuid is excluded (the two known
    findings). *)
From LOV Require Import Map.NativeOvs Map.NativeOvsProofs.

Theorem C09_column_value_roundtrip : forall vu f ct v,
  native_has_type ct v = true -> native_wf v = true ->
  (g <- native_to_ovs ct v ;; g' <- notation (5 + f) (enc_value vu g) ;; ovs_to_native ct g') = Ok v.
Proof. exact column_value_roundtrip. Qed.
Print Assumptions C09_column_value_roundtrip.

Theorem C09_mismatch_rejected : forall ct v,
  native_has_type ct v = false -> native_to_ovs ct v = Err EOther.
Proof. exact mismatch_rejected. Qed.
Print Assumptions C09_mismatch_rejected.

Theorem C09_accepted_atom_is_typed : forall ct g a,
  ct_kind ct = KAtom -> ovs_to_native ct g = Ok (LAtom a) -> atom_ok (ct_key ct) a = true /\ atom_to_g a = g.
Proof. exact accepted_atom_is_typed. Qed.
Print Assumptions C09_accepted_atom_is_typed.

Theorem C09_absent_column_untouched : forall T r m m' c,
  obj_get r c = None -> get_row_data T r m = Ok m' -> nm_get m' c = nm_get m c.
Proof. exact absent_column_untouched. Qed.
Print Assumptions C09_absent_column_untouched.

Theorem C09_hypotheses_satisfiable :
  let ct := mkColTy KMap (mkBase TStr [] None) (Some (mkBase TUuid [] None)) 0 None in
  let v := LMap [(AStr 50%N, AUuid 60%N); (AStr 51%N, AUuid 61%N)] in
  native_has_type ct v = true /\ native_wf v = true.
Proof. exact roundtrip_example. Qed.
Print Assumptions C09_hypotheses_satisfiable.

Theorem C09_model_roundtrip : forall vu f T m r r' m',
  NoDup (map c_name (t_cols T)) -> typed_model (t_cols T) m ->
  new_row T m = Ok r -> through_json vu (5 + f) r = Ok r' ->
  get_row_data T r' (fresh_model (t_cols T)) = Ok m' ->
  forall C v, C ∈ t_cols T -> nm_get m (c_name C) = Some v -> nm_get m' (c_name C) = Some v.
Proof. exact model_roundtrip. Qed.
Print Assumptions C09_model_roundtrip.

Theorem C09_new_row_is : forall T m, typed_model (t_cols T) m -> new_row T m = Ok (t_cols T ≫= row_entry m).
Proof. exact new_row_is. Qed.
Print Assumptions C09_new_row_is.
