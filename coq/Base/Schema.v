(** Schemas, rows and databases of the model.

    A [row] maps column symbols to canonical values.  Rows stored in a
    database are total over their table's columns; wire rows (operation
    arguments, update rows) are partial.  Tables map row UUID symbols to rows,
    a database maps table symbols to tables. *)
From LOV Require Export Base.Atoms.

Inductive reftype := Strong | Weak.
Global Instance reftype_eq_dec : EqDecision reftype.
Proof. solve_decision. Defined.

Record basety := mkBase {
  bt_ty : atype;
  bt_enum : list atom;                 (* [] = no enum *)
  bt_ref : option (sym * reftype)      (* refTable, refType *)
}.

Record colty := mkColTy {
  ct_kind : kind;
  ct_key : basety;
  ct_val : option basety;              (* Some for maps *)
  ct_min : nat;
  ct_max : option nat                  (* None = unlimited *)
}.

Record column := mkCol { c_name : sym; c_ty : colty; c_mutable : bool }.

Record table := mkTable {
  t_name : sym;
  t_cols : list column;
  t_indexes : list (list sym);
  t_root : bool
}.

Record schema := mkSchema { s_tables : list table }.

Notation row := (gmap sym value).
Notation tbl := (gmap sym (gmap sym value)).
Notation dbstate := (gmap sym (gmap sym (gmap sym value))).

Definition find_table (S : schema) (t : sym) : option table :=
  List.find (fun T => N.eqb (t_name T) t) (s_tables S).
Definition find_col (T : table) (c : sym) : option column :=
  List.find (fun C => N.eqb (c_name C) c) (t_cols T).

(** RFC 7047: if no table is marked root, every table is a root table. *)
Definition any_root (S : schema) : bool := existsb t_root (s_tables S).
Definition is_root_table (S : schema) (T : table) : bool :=
  if any_root S then t_root T else true.

Definition default_value (ct : colty) : value :=
  match ct_kind ct with
  | KAtom => VAtom (atom_zero (bt_ty (ct_key ct)))
  | KOpt => VOpt None
  | KSet => VSet ∅
  | KMap => VMap ∅
  end.

Definition default_row (T : table) : row :=
  list_to_map (map (fun C => (c_name C, default_value (c_ty C))) (t_cols T)).

(** wire row -> stored row: absent columns take their default *)
Definition fill_row (T : table) (w : row) : row := w ∪ default_row T.

(** restrict a row to the table's columns (unknown columns are ignored by the
    mapper) *)
Definition known_cols (T : table) (w : row) : row :=
  filter (fun kv => bool_decide (is_Some (find_col T (fst kv)))) w.

(** value well-typedness w.r.t. a column type (kind and atomic types only;
    enum membership and min/max are separate checks) *)
Definition atom_ok (b : basety) (a : atom) : bool :=
  match bt_ty b, a with
  | TInt, AInt _ | TReal, AReal _ _ | TBool, ABool _ | TStr, AStr _ | TUuid, AUuid _ => true
  | _, _ => false
  end.

Definition value_ok (ct : colty) (v : value) : bool :=
  match ct_kind ct, v with
  | KAtom, VAtom a => atom_ok (ct_key ct) a
  | KOpt, VOpt None => true
  | KOpt, VOpt (Some a) => atom_ok (ct_key ct) a
  | KSet, VSet s => forallb (atom_ok (ct_key ct)) (elements s)
  | KMap, VMap m =>
      match ct_val ct with
      | Some vt => forallb (fun kv => atom_ok (ct_key ct) (fst kv) && atom_ok vt (snd kv)) (map_to_list m)
      | None => false
      end
  | _, _ => false
  end.

Definition row_ok (T : table) (r : row) : bool :=
  forallb (fun C => match r !! c_name C with Some v => value_ok (c_ty C) v | None => false end) (t_cols T)
  && bool_decide (size r = length (t_cols T)).
