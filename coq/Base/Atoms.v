(** Atoms and values of the OVSDB data model (RFC 7047 section 5.1).

    Strings, UUIDs, table and column names are interned by the harness into
    [N] symbols (see DESIGN.md section 4); the text-level layers (Wire/) use
    Coq strings instead.  Reals are canonical fractions [num/den] (the harness
    emits reduced fractions of exactly representable float64 values). *)
From stdpp Require Export gmap.
From Coq Require Export ZArith.

Notation sym := N.

Inductive atom :=
| AInt (z : Z)
| AReal (n : Z) (d : positive)
| ABool (b : bool)
| AStr (s : sym)
| AUuid (u : sym).

Global Instance atom_eq_dec : EqDecision atom.
Proof. solve_decision. Defined.

Definition atom_enc (a : atom) : Z + (Z * positive) + bool + N + N :=
  match a with
  | AInt z => inl (inl (inl (inl z)))
  | AReal n d => inl (inl (inl (inr (n, d))))
  | ABool b => inl (inl (inr b))
  | AStr s => inl (inr s)
  | AUuid u => inr u
  end.
Definition atom_dec (x : Z + (Z * positive) + bool + N + N) : atom :=
  match x with
  | inl (inl (inl (inl z))) => AInt z
  | inl (inl (inl (inr (n, d)))) => AReal n d
  | inl (inl (inr b)) => ABool b
  | inl (inr s) => AStr s
  | inr u => AUuid u
  end.
Lemma atom_dec_enc a : atom_dec (atom_enc a) = a.
Proof. destruct a; reflexivity. Qed.
Global Instance atom_countable : Countable atom := inj_countable' atom_enc atom_dec atom_dec_enc.

(** Atomic types. *)
Inductive atype := TInt | TReal | TBool | TStr | TUuid.
Global Instance atype_eq_dec : EqDecision atype.
Proof. solve_decision. Defined.

Definition atom_type (a : atom) : atype :=
  match a with
  | AInt _ => TInt | AReal _ _ => TReal | ABool _ => TBool
  | AStr _ => TStr | AUuid _ => TUuid
  end.

(** The zero value Go gives a native field of that atomic type; the symbol 0
    is reserved by the harness for the empty string (also the zero value of a uuid-typed Go field). *)
Definition atom_zero (t : atype) : atom :=
  match t with
  | TInt => AInt 0 | TReal => AReal 0 1 | TBool => ABool false
  | TStr => AStr 0%N | TUuid => AUuid 0%N
  end.

(** Canonical values: extensional equality is Leibniz equality. *)
Inductive value :=
| VAtom (a : atom)
| VOpt (o : option atom)
| VSet (s : gset atom)
| VMap (m : gmap atom atom).

Global Instance value_eq_dec : EqDecision value.
Proof. solve_decision. Defined.

(** List-layer values mirror Go slices / maps including element order. *)
Inductive lvalue :=
| LAtom (a : atom)
| LOpt (o : option atom)
| LSet (l : list atom)
| LMap (l : list (atom * atom)).

Global Instance lvalue_eq_dec : EqDecision lvalue.
Proof. solve_decision. Defined.

Definition canon (v : lvalue) : value :=
  match v with
  | LAtom a => VAtom a
  | LOpt o => VOpt o
  | LSet l => VSet (list_to_set l)
  | LMap l => VMap (list_to_map l)
  end.

(** Column kinds, as [ovsdb.ColumnSchema] classifies a column type
    (schema.go: atomic when min = max = 1 and no value type; optional when
    min = 0 and max = 1; set otherwise; map when a value type is present). *)
Inductive kind := KAtom | KOpt | KSet | KMap.
Global Instance kind_eq_dec : EqDecision kind.
Proof. solve_decision. Defined.

Definition kind_of_value (v : value) : kind :=
  match v with VAtom _ => KAtom | VOpt _ => KOpt | VSet _ => KSet | VMap _ => KMap end.

Definition value_eqb (a b : value) : bool := bool_decide (a = b).
Lemma value_eqb_eq a b : value_eqb a b = true <-> a = b.
Proof. unfold value_eqb. rewrite bool_decide_eq_true. reflexivity. Qed.
