(** Outcomes of modelled Go code: a value, an error of a class (the small
    enum derived from ovsdb/error.go; message texts are never compared), or a
    panic (index out of range, failed type assertion, nil dereference,
    integer division by zero). *)
Inductive errcls := ERefInt | EConstraint | EDomain | ETimedOut | ENotSupported | EDupName | EOther.

Inductive res (A : Type) := Ok (a : A) | Err (e : errcls) | Panic.
Arguments Ok {A} a.
Arguments Err {A} e.
Arguments Panic {A}.

Definition rbind {A B} (x : res A) (f : A -> res B) : res B :=
  match x with Ok a => f a | Err e => Err e | Panic => Panic end.
Notation "x <- e1 ;; e2" := (rbind e1 (fun x => e2))
  (at level 100, e1 at next level, right associativity).
Notation "' p <- e1 ;; e2" := (rbind e1 (fun x => match x with p => e2 end))
  (at level 100, p pattern, e1 at next level, right associativity).

Definition errcls_eqb (a b : errcls) : bool :=
  match a, b with
  | ERefInt, ERefInt | EConstraint, EConstraint | EDomain, EDomain | ETimedOut, ETimedOut
  | ENotSupported, ENotSupported | EDupName, EDupName | EOther, EOther => true
  | _, _ => false
  end.

Definition is_ok {A} (r : res A) : bool := match r with Ok _ => true | _ => false end.
Definition is_panic {A} (r : res A) : bool := match r with Panic => true | _ => false end.

Fixpoint rmapM {A B} (f : A -> res B) (l : list A) : res (list B) :=
  match l with
  | nil => Ok nil
  | cons x l' => y <- f x ;; ys <- rmapM f l' ;; Ok (cons y ys)
  end.

Fixpoint rfold {A B} (f : B -> A -> res B) (l : list A) (b : B) : res B :=
  match l with
  | nil => Ok b
  | cons x l' => b' <- f b x ;; rfold f l' b'
  end.
