(** The Go type the model generator gives a column's field (modelgen/table.go:
    fieldType) against the type the mapper expects (ovsdb/bindings.go:
    NativeType, compared by mapper/info.go with reflect type identity).
    A column is described by what both functions read: the extended type
    inferred by the schema decoder, the atomic key/value types, min, max,
    and whether the key carries an enum.  Enum types are generated as type
    aliases (type X = string), identical to their underlying type. *)
From LOV Require Export Wire.SchemaCodec.

Inductive gotype :=
| TyInt | TyFloat | TyBool | TyString
| TyPtr (t : gotype) | TySlice (t : gotype) | TyMap (k v : gotype)
| TyAlias (u : gotype)       (* a generated enum alias of u *)
| TyInvalid.

Definition atomic_go (s : sym) : gotype :=
  if N.eqb s s_integer then TyInt
  else if N.eqb s s_real then TyFloat
  else if N.eqb s s_boolean then TyBool
  else if N.eqb s s_string then TyString
  else if N.eqb s s_uuid then TyString
  else TyInvalid.

Record mcol := mkMCol { m_ext : exttype; m_key : sym; m_val : sym; m_min : Z; m_max : Z; m_enum : bool }.

(** ovsdb.NativeType *)
Definition native_type (c : mcol) : gotype :=
  match m_ext c with
  | XAtomic s => atomic_go s
  | XEnum => atomic_go (m_key c)
  | XMap => TyMap (atomic_go (m_key c)) (atomic_go (m_val c))
  | XSet =>
      if Z.eqb (m_min c) 0 && Z.eqb (m_max c) 1 then TyPtr (atomic_go (m_key c))
      else if Z.eqb (m_min c) 1 && Z.eqb (m_max c) 1 then atomic_go (m_key c)
      else TySlice (atomic_go (m_key c))
  end.

(** modelgen fieldType *)
Definition field_type (enums : bool) (c : mcol) : gotype :=
  let k := atomic_go (m_key c) in
  let ek := if enums && m_enum c then TyAlias k else k in
  match m_ext c with
  | XEnum => if enums then TyAlias k else k
  | XMap => TyMap k (atomic_go (m_val c))
  | XSet =>
      if Z.eqb (m_min c) 0 && Z.eqb (m_max c) 1 then TyPtr ek
      else if Z.eqb (m_min c) 1 && Z.eqb (m_max c) 1 then ek
      else TySlice ek
  | XAtomic s => atomic_go s
  end.

(** type identity in Go: an alias is its underlying type *)
Fixpoint resolve (t : gotype) : gotype :=
  match t with
  | TyAlias u => resolve u
  | TyPtr u => TyPtr (resolve u)
  | TySlice u => TySlice (resolve u)
  | TyMap k v => TyMap (resolve k) (resolve v)
  | _ => t
  end.

(** which fields the extended generation deep-copies: pointers, slices and maps *)
Definition is_reference (t : gotype) : bool :=
  match resolve t with TyPtr _ | TySlice _ | TyMap _ _ => true | _ => false end.

Lemma resolve_atomic s : resolve (atomic_go s) = atomic_go s.
Proof. unfold atomic_go. repeat (destruct (N.eqb _ _); [reflexivity|]). reflexivity. Qed.

Theorem field_type_is_native enums c : resolve (field_type enums c) = native_type c.
Proof.
  unfold field_type, native_type. destruct (m_ext c); cbn.
  - rewrite !resolve_atomic. reflexivity.
  - destruct (_ && _); [|destruct (_ && _)]; destruct (enums && m_enum c); cbn; rewrite resolve_atomic; reflexivity.
  - destruct enums; cbn; rewrite resolve_atomic; reflexivity.
  - apply resolve_atomic.
Qed.

Theorem field_type_plain_is_native c : field_type false c = native_type c.
Proof.
  unfold field_type, native_type. destruct (m_ext c); cbn; try reflexivity.
Qed.

(** what is deep-copied is decided on the generated type exactly as on the native type *)
Theorem copied_fields_agree enums c : is_reference (field_type enums c) = is_reference (native_type c).
Proof.
  unfold is_reference. rewrite field_type_is_native.
  assert (H : resolve (native_type c) = native_type c).
  { unfold native_type. destruct (m_ext c); cbn; rewrite ?resolve_atomic; try reflexivity.
    destruct (_ && _); [|destruct (_ && _)]; cbn; rewrite resolve_atomic; reflexivity. }
  rewrite H. reflexivity.
Qed.

(** the description of a decoded column *)
Definition mcol_of (c : wcolumn) : mcol :=
  let ty := wc_type c in
  mkMCol (wc_ext c) (wb_type (ct_key ty))
         (match ct_value ty with Some v => wb_type v | None => s_empty end)
         (ct_min_eff ty) (ct_max_eff ty)
         (match wb_enum (ct_key ty) with Some _ => true | None => false end).
