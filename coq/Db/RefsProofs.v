(** C04: what the commit-time reference processing guarantees. *)
From LOV Require Export Db.Refs Db.TxnProofs.

(** a dangling strong reference in the candidate state rejects the transaction *)
Lemma dangling_rejected S w : dangling_strong S w = true -> process_refs S w = Err ERefInt.
Proof. intros H. unfold process_refs. rewrite H. reflexivity. Qed.

(** what comes out of the processing is stable: collecting unreferenced
    non-root rows and pruning weak references of the survivors changes
    nothing any more *)
Lemma ref_loop_fixpoint S : forall fuel d d', ref_loop fuel S d = Ok d' -> prune_weak S (gc1 S d') = Some d'.
Proof.
  induction fuel as [|f IH]; intros d d'; simpl; [discriminate|].
  destruct (prune_weak S (gc1 S d)) as [d2|] eqn:Hp; [|discriminate].
  case_decide as Heq.
  - intros [= <-]. subst d2. exact Hp.
  - apply IH.
Qed.

Theorem process_refs_fixpoint S w d' : process_refs S w = Ok d' -> prune_weak S (gc1 S d') = Some d'.
Proof.
  unfold process_refs. destruct (dangling_strong S w); [discriminate|]. apply ref_loop_fixpoint.
Qed.

(** a weak reference whose removal would leave a column below its minimum
    rejects the transaction with a constraint violation; nothing else does *)
Lemma ref_loop_errors S : forall fuel d e, ref_loop fuel S d = Err e -> e = EConstraint \/ e = EOther.
Proof.
  induction fuel as [|f IH]; intros d e; simpl; [intros [= <-]; auto|].
  destruct (prune_weak S (gc1 S d)) as [d2|]; [|intros [= <-]; auto].
  case_decide; [discriminate|apply IH].
Qed.

Lemma process_refs_errors S w e : process_refs S w = Err e -> e = ERefInt \/ e = EConstraint \/ e = EOther.
Proof.
  unfold process_refs. destruct (dangling_strong S w); [intros [= <-]; auto|].
  intros H. destruct (ref_loop_errors S _ _ _ H); auto.
Qed.

(** a committed transaction's new state went through the processing *)
Theorem commit_state_processed S d ops w' :
  snd (transact S d ops) = Some w' -> w' = d \/ prune_weak S (gc1 S w') = Some w'.
Proof.
  unfold transact. destruct (exec_ops S d d ops) as [[rs w] ok]. destruct ok; simpl; [|discriminate].
  destruct (bool_decide (w = d)); simpl; [intros [= <-]; auto|].
  destruct (process_refs S w) as [w1| |] eqn:Hp; simpl; try discriminate.
  destruct (db_unique S w1); simpl; [|discriminate]. intros [= <-]. right. eapply process_refs_fixpoint. exact Hp.
Qed.

(** the state after any history is stable under the processing, provided the
    initial state is *)
Definition stable (S : schema) (d : dbstate) : Prop := prune_weak S (gc1 S d) = Some d.

Theorem stable_after_commit S d ops : stable S d -> stable S (commit d (transact S d ops)).
Proof.
  intros Hs. unfold commit. destruct (snd (transact S d ops)) as [w'|] eqn:Ht; [|exact Hs].
  destruct (commit_state_processed S d ops w' Ht) as [->|H]; [exact Hs|exact H].
Qed.

Theorem stable_history S : forall h d, stable S d -> stable S (run_history S d h).
Proof. induction h as [|ops h IH]; intros d Hd; simpl; [exact Hd|]. apply IH. apply stable_after_commit. exact Hd. Qed.

Lemma stable_empty S : stable S ∅.
Proof.
  unfold stable. assert (Hg : gc1 S ∅ = ∅) by (unfold gc1; apply map_eq; intros t; rewrite map_lookup_imap, lookup_empty; reflexivity).
  rewrite Hg. unfold prune_weak. induction (s_tables S) as [|T l IH]; simpl; [reflexivity|].
  rewrite IH. simpl. rewrite lookup_empty. reflexivity.
Qed.
