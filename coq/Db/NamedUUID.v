(** Named UUIDs (RFC 7047 5.2.1 "uuid-name", ovsdb/named_uuid.go).  A name is
    a symbol that is not a UUID; it occurs in values as [AUuid name].  Pass 1
    maps the names of the inserts to their UUIDs (two inserts under one name
    with different UUIDs are a conflict); pass 2 substitutes the names in every
    UUID atom of every operation — conditions, mutations, rows — before or
    after the insert that defines the name.  Non-UUID atoms are never touched. *)
From LOV Require Export Db.Txn.

Record nop := mkNop { n_op : op; n_name : option sym }.

Notation nmap := (gmap sym sym).

Fixpoint name_map (σ : nmap) (l : list nop) : res nmap :=
  match l with
  | [] => Ok σ
  | mkNop (OInsert t u w) (Some nm) :: l' =>
      match σ !! nm with
      | Some u' => if N.eqb u u' then name_map σ l' else Err EOther
      | None => name_map (<[nm := u]> σ) l'
      end
  | _ :: l' => name_map σ l'
  end.

Definition subst_atom (σ : nmap) (a : atom) : atom :=
  match a with
  | AUuid s => AUuid (default s (σ !! s))
  | _ => a
  end.

Definition subst_value (σ : nmap) (v : value) : value :=
  match v with
  | VAtom a => VAtom (subst_atom σ a)
  | VOpt o => VOpt (subst_atom σ <$> o)
  | VSet s => VSet (set_map (subst_atom σ) s)
  | VMap m => VMap (list_to_map ((fun kv => (subst_atom σ (fst kv), subst_atom σ (snd kv))) <$> map_to_list m))
  end.

Definition subst_row (σ : nmap) (r : row) : row := subst_value σ <$> r.
Definition subst_cond (σ : nmap) (c : cond) : cond := let '(col, f, v) := c in (col, f, subst_value σ v).
Definition subst_mut (σ : nmap) (m : mutation) : mutation := let '(c, mu, v) := m in (c, mu, subst_value σ v).

Definition subst_op (σ : nmap) (o : op) : op :=
  match o with
  | OInsert t u w => OInsert t u (subst_row σ w)
  | OSelect t wh cols => OSelect t (subst_cond σ <$> wh) cols
  | OUpdate t wh w => OUpdate t (subst_cond σ <$> wh) (subst_row σ w)
  | OMutate t wh ms => OMutate t (subst_cond σ <$> wh) (subst_mut σ <$> ms)
  | ODelete t wh => ODelete t (subst_cond σ <$> wh)
  | OWait t wh cols u rows => OWait t (subst_cond σ <$> wh) cols u (subst_row σ <$> rows)
  | OOther => OOther
  end.

Definition expand (l : list nop) : res (list op) :=
  σ <- name_map ∅ l ;; Ok (subst_op σ <$> (n_op <$> l)).

(** the lenient pass 1 behind a failing expansion: an insert whose name is
    taken by another UUID is left out of the map, the others keep their names;
    the index of the first such insert is where the transaction fails *)
Fixpoint name_map_lenient (σ : nmap) (i : nat) (l : list nop) : nmap * option nat :=
  match l with
  | [] => (σ, None)
  | mkNop (OInsert t u w) (Some nm) :: l' =>
      match σ !! nm with
      | Some u' => if N.eqb u u' then name_map_lenient σ (S i) l'
                   else (fst (name_map_lenient σ (S i) l'), Some i)
      | None => name_map_lenient (<[nm := u]> σ) (S i) l'
      end
  | _ :: l' => name_map_lenient σ (S i) l'
  end.

(** a failing expansion fails the transaction at the operation at fault: the
    operations before it are executed and have their results (one of them may
    fail first), the operations after it have none *)
Definition transact_named (S : schema) (d : dbstate) (l : list nop) : list result * option dbstate :=
  match expand l with
  | Ok ops => transact S d ops
  | _ =>
      let '(σ, k) := name_map_lenient ∅ 0 l in
      let k := default 0 k in
      let '(rs, _, ok) := exec_ops S d d (subst_op σ <$> (n_op <$> take k l)) in
      if ok then (rs ++ RErr EOther :: map (fun _ => RNull) (drop (Datatypes.S k) l), None)
      else (rs ++ map (fun _ => RNull) (drop k l), None)
  end.

(** a "transact" request as the server receives it (server/server.go Transact): an operation that cannot be decoded
    ([None]) fails where it stands. The operations before it are executed; the checks made at the end of a transaction
    do not apply to one that stops at an operation, so only the results of the operations themselves are kept; the
    syntax error follows when none of them failed; nothing is committed. *)
Fixpoint decoded_prefix (args : list (option nop)) : list nop :=
  match args with
  | Some o :: r => o :: decoded_prefix r
  | _ => []
  end.

Definition failed_result (r : result) : bool := match r with RErr _ | RNull => true | _ => false end.

Definition server_transact (S : schema) (d : dbstate) (args : list (option nop)) : list result * option dbstate :=
  let pre := decoded_prefix args in
  if Nat.eqb (length pre) (length args) then transact_named S d pre
  else
    let rs := take (length pre) (fst (transact_named S d pre)) in
    let rs := if existsb failed_result rs then rs else rs ++ [RErr EOther] in
    (rs ++ replicate (length args - length rs) RNull, None).

(** the client API's Create: the insert generated for a model carries the model's own identity and nothing else - its
    _uuid field as "uuid" when it is a well-formed uuid, as "uuid-name" when it is a well-formed name, neither otherwise *)
Definition create_ids (m : sym * bool * bool) : sym * sym :=
  let '(u, valid, named) := m in
  (if valid then u else 0%N, if named && negb valid then u else 0%N).
