(** The row operations of the engine model never reach a panic outcome: every
    ill-typed, unknown or arithmetically degenerate argument is an error result. *)
From LOV Require Import Upd.Merge Wire.DecodeProofs.

Lemma row_insert_np T w : is_panic (row_insert T w) = false.
Proof.
  unfold row_insert. apply rbind_np; [|reflexivity].
  apply rmapM_np. intros kv. destruct (find_col T kv.1); [|reflexivity].
  destruct (value_ok _ _); reflexivity.
Qed.

Lemma row_update_np T r w : is_panic (row_update T r w) = false.
Proof.
  unfold row_update. apply rbind_np; [|reflexivity].
  apply rmapM_np. intros kv. unfold check_update_col.
  destruct (find_col T kv.1); [|reflexivity].
  destruct (negb (value_ok _ _)); [reflexivity|].
  destruct (r !! kv.1); [|reflexivity].
  destruct (_ && _); reflexivity.
Qed.

Lemma row_mutate_np T r ms : is_panic (row_mutate T r ms) = false.
Proof.
  unfold row_mutate. apply rfold_np. intros r' [[c m] arg]. unfold row_mutate1.
  destruct (find_col T c); [|reflexivity]. destruct (r' !! c); [|reflexivity].
  apply rbind_np; [|reflexivity]. destruct (mutate1 _ _ _ _ _); reflexivity.
Qed.

Theorem rop_apply_never_panics T cur op : is_panic (rop_apply T cur op) = false.
Proof.
  destruct op, cur; try reflexivity; cbn [rop_apply];
    (apply rbind_np; [first [apply row_insert_np|apply row_update_np|apply row_mutate_np]|reflexivity]).
Qed.

(** division and modulo by zero are domain errors of the operation *)
Theorem degenerate_arithmetic_is_a_domain_error T r c C x m :
  find_col T c = Some C -> r !! c = Some (VAtom (AInt x)) ->
  c_mutable C = true -> ct_kind (c_ty C) = KAtom -> bt_enum (ct_key (c_ty C)) = [] ->
  atom_ok (ct_key (c_ty C)) (AInt 0) = true ->
  m = MDiv \/ m = MMod ->
  row_mutate T r [(c, m, VAtom (AInt 0))] = Err EDomain.
Proof.
  intros Hc Hr Hm Hk He Hok Hmm. unfold row_mutate. cbn [rfold]. unfold row_mutate1.
  rewrite Hc, Hr. unfold mutate1. rewrite Hm, Hk, He, Hok. cbn.
  destruct Hmm as [-> | ->]; reflexivity.
Qed.
