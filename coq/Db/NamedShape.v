(** The reply of a transaction with named UUIDs ([transact_named], what the
    server runs): whether or not the names can be resolved it has one of the
    three shapes of C02, it changes nothing when it carries an error, and it
    commits exactly when it carries none. *)
From LOV Require Export Db.NamedUUIDProofs Db.TxnProofs.
From Coq Require Import Lia.

(** pass 1 fails exactly when the lenient pass names an operation at fault,
    and that operation is one of the list *)
Lemma name_map_lenient_fault : forall l σ i,
  (forall σ', name_map σ l <> Ok σ') ->
  exists k, snd (name_map_lenient σ i l) = Some k /\ i <= k < i + length l.
Proof.
  induction l as [|[o nm] l IH]; intros σ i Hf.
  - exfalso. apply (Hf σ). reflexivity.
  - assert (Hgen : (forall σ', name_map σ l <> Ok σ') ->
                   name_map σ (mkNop o nm :: l) = name_map σ l ->
                   name_map_lenient σ i (mkNop o nm :: l) = name_map_lenient σ (S i) l ->
                   exists k, snd (name_map_lenient σ i (mkNop o nm :: l)) = Some k /\ i <= k < i + length (mkNop o nm :: l)).
    { intros Hf' _ Hl. destruct (IH σ (S i) Hf') as (k & Hk & Hr). exists k. rewrite Hl. split; [exact Hk|]. cbn [length]. lia. }
    destruct o as [t u w| | | | | |]; destruct nm as [nm|];
      try (apply Hgen; [exact Hf|reflexivity|reflexivity]).
    cbn [name_map name_map_lenient] in *. destruct (σ !! nm) as [u'|] eqn:Hs.
    + destruct (N.eqb u u') eqn:He.
      * destruct (IH σ (S i) Hf) as (k & Hk & Hr). exists k. split; [exact Hk|]. cbn [length]. lia.
      * exists i. split; [reflexivity|]. cbn [length]. lia.
    + destruct (IH (<[nm := u]> σ) (S i) Hf) as (k & Hk & Hr). exists k. split; [exact Hk|]. cbn [length]. lia.
Qed.

Lemma expand_fails_name_map l : (forall ops, expand l <> Ok ops) -> forall σ', name_map ∅ l <> Ok σ'.
Proof.
  intros H σ' Hm. unfold expand in H. rewrite Hm in H. cbn in H. eapply H. reflexivity.
Qed.

Definition nonerr (r : result) : Prop := is_err r = false.

Definition shape (n : nat) (rs : list result) (r : option dbstate) : Prop :=
  (Forall nonerr rs /\ length rs = n /\ is_Some r)
  \/ (r = None /\ length rs = n /\ exists i e, i < n /\
        Forall nonerr (take i rs) /\ rs !! i = Some (RErr e) /\
        drop (Datatypes.S i) rs = replicate (n - i - 1) RNull)
  \/ (r = None /\ exists rs0 e, rs = rs0 ++ [RErr e] /\ length rs0 = n /\ Forall nonerr rs0).

Lemma replicate_app_len {A} (x : A) a b c : a + b = c -> replicate a x ++ replicate b x = replicate c x.
Proof. intros <-. symmetry. apply replicate_add. Qed.

(** one result per operation up to and including the failing one, the rest
    not executed; or every result and one more error; or every result *)
Theorem named_reply_shape S d l rs r :
  transact_named S d l = (rs, r) -> shape (length l) rs r.
Proof.
  unfold transact_named. destruct (expand l) as [ops|e0|] eqn:He.
  { intros Ht. rewrite <- (expand_length l ops He). apply reply_shape in Ht. exact Ht. }
  (* names cannot be resolved *)
    all: assert (Hfail : forall ops, expand l <> Ok ops) by (intros ops; rewrite He; discriminate).
    all: pose proof (name_map_lenient_fault l ∅ 0 (expand_fails_name_map l Hfail)) as (k & Hk & Hlt).
    all: destruct (name_map_lenient ∅ 0 l) as [σ ko]; cbn [snd] in Hk; subst ko; cbn [default from_option id].
    all: destruct (exec_ops S d d (subst_op σ <$> (n_op <$> take k l))) as [[rs' w] ok] eqn:Hx.
    all: pose proof (exec_ops_shape S d _ _ _ _ _ Hx) as (Hlen & Hok & Hbad).
    all: rewrite !fmap_length, take_length in Hlen; replace (k `min` length l) with k in Hlen by lia.
    all: destruct ok; cbv iota; intros [= <- <-]; right; left; (split; [reflexivity|]).
    all: rewrite ?app_length, ?map_length, ?drop_length; cbn [length]; rewrite ?map_length, ?drop_length.
    all: try (split; [lia|]).
    1,3: exists k, EOther; split; [lia|]; split;
         [rewrite take_app_alt by (symmetry; exact Hlen); apply Hok; reflexivity|];
         split; [rewrite lookup_app_r by lia; replace (k - length rs') with 0 by lia; reflexivity|];
         rewrite drop_app_ge by lia; replace (Datatypes.S k - length rs') with 1 by lia; cbn [drop];
         rewrite map_const_replicate, drop_length, drop_0; f_equal; lia.
    all: destruct (Hbad eq_refl) as (i & e & Hi & Htk & Hlk & Hdr).
    all: rewrite !fmap_length, take_length in Hi; replace (k `min` length l) with k in Hi by lia.
    all: rewrite !fmap_length, take_length in Hdr; replace (k `min` length l) with k in Hdr by lia.
    all: exists i, e; split; [lia|]; split; [rewrite take_app_le by lia; exact Htk|];
         split; [rewrite lookup_app_l by lia; exact Hlk|];
         rewrite drop_app_le by lia; rewrite Hdr, map_const_replicate, drop_length;
         apply replicate_app_len; lia.
Qed.

(** a reply that carries an error changes nothing *)
Theorem named_failed_no_effect S d l :
  has_error (fst (transact_named S d l)) = true -> commit d (transact_named S d l) = d.
Proof.
  unfold transact_named. destruct (expand l) as [ops|e0|]; [apply failed_txn_no_effect| |];
    intros _; destruct (name_map_lenient ∅ 0 l) as [σ k]; destruct (exec_ops _ _ _ _) as [[rs w] ok]; destruct ok; reflexivity.
Qed.

Lemma has_error_app a b : has_error (a ++ b) = has_error a || has_error b.
Proof. unfold has_error. apply existsb_app. Qed.

(** it commits exactly when no result carries an error *)
Theorem named_commits_iff_no_error S d l :
  is_Some (snd (transact_named S d l)) <-> has_error (fst (transact_named S d l)) = false.
Proof.
  unfold transact_named. destruct (expand l) as [ops|e0|] eqn:He; [apply commits_iff_no_error| |].
  all: assert (Hfail : forall ops, expand l <> Ok ops) by (intros ops; rewrite He; discriminate).
  all: pose proof (name_map_lenient_fault l ∅ 0 (expand_fails_name_map l Hfail)) as (k & Hk & Hlt).
  all: destruct (name_map_lenient ∅ 0 l) as [σ ko]; cbn [snd] in Hk; subst ko; cbn [default from_option id].
  all: destruct (exec_ops S d d (subst_op σ <$> (n_op <$> take k l))) as [[rs' w] ok] eqn:Hx.
  all: pose proof (exec_ops_shape S d _ _ _ _ _ Hx) as (Hlen & Hok & Hbad).
  all: destruct ok; cbn [fst snd]; (split; [intros [x Hx']; discriminate|]).
  1,3: rewrite has_error_app; cbn; rewrite orb_true_r; discriminate.
  all: destruct (Hbad eq_refl) as (i & e & Hi & _ & Hlk & _).
  all: rewrite has_error_app; intros Hn; apply orb_false_elim in Hn as [Hn _].
  all: unfold has_error in Hn; exfalso.
  all: assert (Hex : existsb is_err rs' = true) by (apply existsb_exists; exists (RErr e); split; [apply elem_of_list_In; eapply elem_of_list_lookup_2; exact Hlk|reflexivity]).
  all: rewrite Hex in Hn; discriminate.
Qed.
