(** Which schema index makes which other one redundant.  An index whose
    columns include those of a unique index is unique too (so the larger one
    could be left out); the converse fails: rows that differ in [(a, b)] may
    agree on [a].  An implementation may therefore never drop an index because
    its columns lie within another one. *)
From LOV Require Export Db.Txn.

Definition rows_unique (cols : list sym) (tb : gmap sym (gmap sym value)) : Prop :=
  NoDup ((fun ur => index_key (snd ur) cols) <$> map_to_list tb).

Lemma index_key_sub (r1 r2 : row) (small large : list sym) :
  (forall c, c ∈ small -> c ∈ large) ->
  index_key r1 large = index_key r2 large -> index_key r1 small = index_key r2 small.
Proof.
  intros Hsub Heq. unfold index_key in *. apply list_eq. intros i.
  rewrite !list_lookup_fmap. destruct (small !! i) as [c|] eqn:Hc; cbn; [|reflexivity].
  f_equal. assert (Hin : c ∈ large) by (apply Hsub; eapply elem_of_list_lookup_2; exact Hc).
  apply elem_of_list_lookup_1 in Hin as [j Hj].
  assert (H : ((fun c => r1 !! c) <$> large) !! j = ((fun c => r2 !! c) <$> large) !! j) by (rewrite Heq; reflexivity).
  rewrite !list_lookup_fmap, Hj in H. cbn in H. injection H as H. exact H.
Qed.

Lemma NoDup_fmap_finer {A B C} (f : A -> B) (g : A -> C) (l : list A) :
  (forall x y, g x = g y -> f x = f y) -> NoDup (f <$> l) -> NoDup (g <$> l).
Proof.
  intros Hfg. induction l as [|a l IH]; cbn; intros Hnd; [constructor|].
  apply NoDup_cons in Hnd as [Hni Hnd]. apply NoDup_cons. split; [|apply IH; exact Hnd].
  intros Hin. apply Hni. apply elem_of_list_fmap in Hin as (y & Hy & Hyl).
  apply elem_of_list_fmap. exists y. split; [apply Hfg; exact Hy|exact Hyl].
Qed.

(** uniqueness on some columns carries over to every index that contains them *)
Theorem unique_on_fewer_columns_suffices small large tb :
  (forall c, c ∈ small -> c ∈ large) -> rows_unique small tb -> rows_unique large tb.
Proof.
  intros Hsub. unfold rows_unique. apply NoDup_fmap_finer. intros x y Heq.
  eapply index_key_sub; [exact Hsub|exact Heq].
Qed.

(** ... and not the other way round: two rows that differ in the second column *)
Theorem unique_on_more_columns_does_not_suffice_refuted :
  exists (tb : gmap sym (gmap sym value)),
    rows_unique [1%N; 2%N] tb /\ ~ rows_unique [1%N] tb.
Proof.
  exists {[ 10%N := {[ 1%N := VAtom (AStr 7%N); 2%N := VAtom (AStr 8%N) ]};
            11%N := {[ 1%N := VAtom (AStr 7%N); 2%N := VAtom (AStr 9%N) ]} ]}.
  split.
  - unfold rows_unique. eapply bool_decide_unpack. vm_compute. reflexivity.
  - unfold rows_unique. intros H.
    assert (Hb : bool_decide (NoDup ((fun ur : sym * gmap sym value => index_key (snd ur) [1%N]) <$>
              map_to_list ({[ 10%N := {[ 1%N := VAtom (AStr 7%N); 2%N := VAtom (AStr 8%N) ]};
                             11%N := {[ 1%N := VAtom (AStr 7%N); 2%N := VAtom (AStr 9%N) ]} ]} : gmap sym (gmap sym value)))) = true)
      by (apply bool_decide_eq_true; exact H).
    vm_compute in Hb. discriminate.
Qed.

(** so a table that declares both must check both: the index on the fewer
    columns is the one that rejects these rows *)
Example nested_indexes_both_checked :
  let tb : gmap sym (gmap sym value) :=
    {[ 10%N := {[ 1%N := VAtom (AStr 7%N); 2%N := VAtom (AStr 8%N) ]};
       11%N := {[ 1%N := VAtom (AStr 7%N); 2%N := VAtom (AStr 9%N) ]} ]} in
  (table_unique (mkTable 1%N [] [[1%N; 2%N]] true) tb, table_unique (mkTable 1%N [] [[1%N; 2%N]; [1%N]] true) tb) = (true, false).
Proof. vm_compute. reflexivity. Qed.
