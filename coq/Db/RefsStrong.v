(** No dangling strong reference survives commit-time processing: garbage
    collection removes only rows nobody strongly references, and pruning weak
    references neither removes rows nor adds references. *)
From LOV Require Import Db.Refs.

Notation tbl_of d t := (default (∅ : gmap sym (gmap sym value)) (d !! t)).

Lemma elem_of_db_refs S d ft fu c e :
  (ft, fu, c, e) ∈ db_refs S d <->
  exists T r, T ∈ s_tables S /\ t_name T = ft /\ tbl_of d ft !! fu = Some r /\ (c, e) ∈ row_refs T r.
Proof.
  unfold db_refs. rewrite elem_of_list_bind. split.
  - intros (T & Hin & HT). apply elem_of_list_bind in Hin as ([u r] & Hin & Hur).
    apply elem_of_list_fmap in Hin as ([c' e'] & Heq & Hce). cbn in Heq. injection Heq as -> -> -> ->.
    apply elem_of_map_to_list in Hur. exists T, r. auto.
  - intros (T & r & HT & <- & Hr & Hce). exists T. split; [|exact HT].
    apply elem_of_list_bind. exists (fu, r). split; [|apply elem_of_map_to_list; exact Hr].
    apply elem_of_list_fmap. exists (c, e). auto.
Qed.

Definition strong_ok (S : schema) (d : dbstate) : Prop :=
  forall ft fu c isv t u, (ft, fu, c, (isv, t, Strong, u)) ∈ db_refs S d -> row_exists d t u = true.

Lemma dangling_false_iff S d : dangling_strong S d = false <-> strong_ok S d.
Proof.
  unfold dangling_strong, strong_ok. split.
  - intros H ft fu c isv t u Hin. destruct (row_exists d t u) eqn:E; [reflexivity|].
    exfalso. apply not_true_iff_false in H. apply H. apply existsb_exists.
    exists (ft, fu, c, (isv, t, Strong, u)). split; [apply elem_of_list_In, Hin|]. cbn. rewrite E. reflexivity.
  - intros H. apply not_true_iff_false. intros Hex. apply existsb_exists in Hex as ([[[ft fu] c] [[[isv t] rt] u]] & Hin & Hb).
    destruct rt; [|discriminate]. apply elem_of_list_In in Hin. rewrite (H _ _ _ _ _ _ Hin) in Hb. discriminate.
Qed.

Lemma elem_of_strongly_referenced S d t u :
  (t, u) ∈ strongly_referenced S d <-> exists ft fu c isv, (ft, fu, c, (isv, t, Strong, u)) ∈ db_refs S d.
Proof.
  unfold strongly_referenced. rewrite elem_of_list_to_set, elem_of_list_omap. split.
  - intros ([[[ft fu] c] [[[isv t'] rt] u']] & Hin & Heq). destruct rt; [|discriminate]. injection Heq as -> ->. eauto.
  - intros (ft & fu & c & isv & Hin). exists (ft, fu, c, (isv, t, Strong, u)). split; [exact Hin|reflexivity].
Qed.

Lemma row_exists_iff d t u : row_exists d t u = true <-> is_Some (tbl_of d t !! u).
Proof.
  unfold row_exists. destruct (d !! t) as [tb|]; cbn.
  - rewrite bool_decide_eq_true. reflexivity.
  - rewrite lookup_empty. split; [discriminate|intros [? ?]; discriminate].
Qed.

(** rows of the collected state are rows of the state *)
Lemma gc1_lookup S d t u r : tbl_of (gc1 S d) t !! u = Some r -> tbl_of d t !! u = Some r.
Proof.
  unfold gc1. rewrite map_lookup_imap. destruct (d !! t) as [tb|] eqn:E; cbn; [|rewrite lookup_empty; discriminate].
  destruct (find_table S t) as [T|]; [|auto].
  destruct (is_root_table S T); cbn; [auto|].
  intros H. apply map_filter_lookup_Some in H as [H _]. exact H.
Qed.

(** a strongly referenced row survives collection *)
Lemma gc1_keeps S d t u r :
  tbl_of d t !! u = Some r -> (t, u) ∈ strongly_referenced S d -> tbl_of (gc1 S d) t !! u = Some r.
Proof.
  intros Hr Href. unfold gc1. rewrite map_lookup_imap. destruct (d !! t) as [tb|] eqn:E; cbn in *; [|rewrite lookup_empty in Hr; discriminate].
  destruct (find_table S t) as [T|]; [|exact Hr].
  destruct (is_root_table S T); cbn; [exact Hr|].
  apply map_filter_lookup_Some. split; [exact Hr|exact Href].
Qed.

Theorem gc1_preserves_strong_ok S d : strong_ok S d -> strong_ok S (gc1 S d).
Proof.
  intros H ft fu c isv t u Hin.
  apply elem_of_db_refs in Hin as (T & r & HT & Hn & Hr & Hce).
  pose proof (gc1_lookup S d ft fu r Hr) as Hr'.
  assert (Hin' : (ft, fu, c, (isv, t, Strong, u)) ∈ db_refs S d).
  { apply elem_of_db_refs. exists T, r. auto. }
  pose proof (H _ _ _ _ _ _ Hin') as Hex. apply row_exists_iff in Hex as [r' Hr2].
  apply row_exists_iff. exists r'. apply gc1_keeps; [exact Hr2|].
  apply elem_of_strongly_referenced. eauto.
Qed.

(** ** pruning weak references *)
Lemma value_refs_prune d ct ct' v e : e ∈ value_refs ct' (prune_value d ct v) -> e ∈ value_refs ct' v.
Proof.
  destruct v as [a|[a|]|s|m]; cbn [prune_value]; try (intros H; exact H).
  - destruct (prune_atom d false (ct_key ct) a); [intros H; exact H|cbn; intros H; inversion H].
  - cbn [value_refs]. rewrite !elem_of_list_bind. intros (a & He & Ha). exists a. split; [exact He|].
    apply elem_of_elements in Ha. apply elem_of_filter in Ha as [_ Ha]. apply elem_of_elements. exact Ha.
  - cbn [value_refs]. rewrite !elem_of_list_bind. intros ([k x] & He & Hkx). exists (k, x). split; [exact He|].
    apply elem_of_map_to_list in Hkx. apply map_filter_lookup_Some in Hkx as [Hkx _]. apply elem_of_map_to_list. exact Hkx.
Qed.

Definition refs_le (r' r : row) : Prop := forall T c e, (c, e) ∈ row_refs T r' -> (c, e) ∈ row_refs T r.

Lemma refs_le_refl r : refs_le r r.
Proof. intros T c e H. exact H. Qed.
Lemma refs_le_trans a b c : refs_le a b -> refs_le b c -> refs_le a c.
Proof. intros H1 H2 T k e H. apply H2, H1, H. Qed.

Lemma elem_of_row_refs T r c e :
  (c, e) ∈ row_refs T r <-> exists C v, C ∈ t_cols T /\ c_name C = c /\ r !! c = Some v /\ e ∈ value_refs (c_ty C) v.
Proof.
  unfold row_refs. rewrite elem_of_list_bind. split.
  - intros (C & Hin & HC). destruct (r !! c_name C) as [v|] eqn:E; [|inversion Hin].
    apply elem_of_list_fmap in Hin as (e' & Heq & He). injection Heq as -> ->. exists C, v. auto.
  - intros (C & v & HC & <- & Hv & He). exists C. split; [|exact HC]. rewrite Hv.
    apply elem_of_list_fmap. exists e. auto.
Qed.

Lemma refs_le_insert d ct r k v :
  r !! k = Some v -> refs_le (<[k := prune_value d ct v]> r) r.
Proof.
  intros Hk T c e H. apply elem_of_row_refs in H as (C & v' & HC & Hn & Hv & He).
  apply elem_of_row_refs. destruct (decide (c = k)) as [->|Hne].
  - rewrite lookup_insert in Hv. injection Hv as <-. exists C, v. split; [exact HC|]. split; [exact Hn|]. split; [exact Hk|].
    apply (value_refs_prune d ct _ v e He).
  - rewrite lookup_insert_ne in Hv by congruence. exists C, v'. auto.
Qed.

Lemma prune_row_refs d T r r' : prune_row d T r = Some r' -> refs_le r' r.
Proof.
  unfold prune_row. revert r'. induction (t_cols T) as [|C cols IH]; intros r'; cbn.
  - intros [= <-]. apply refs_le_refl.
  - destruct (foldr _ (Some r) cols) as [acc|] eqn:E; cbn; [|discriminate].
    specialize (IH acc eq_refl).
    destruct (acc !! c_name C) as [v|] eqn:Ev; [|intros [= <-]; exact IH].
    destruct (weak_atom_dangling d (c_ty C) v); [discriminate|].
    match goal with |- context [if ?b then Some acc else _] => destruct b end; [intros [= <-]; exact IH|].
    match goal with |- context [if ?b then None else _] => destruct b end; [discriminate|]. intros [= <-].
    eapply refs_le_trans; [apply (refs_le_insert d (c_ty C) acc (c_name C) v Ev)|exact IH].
Qed.

(** the relation between a state and what pruning makes of it: the same rows exist, and every row holds a
    subset of the references it held *)
Definition pruned_of (d d' : dbstate) : Prop :=
  forall t u, match tbl_of d' t !! u with
              | Some r' => exists r, tbl_of d t !! u = Some r /\ refs_le r' r
              | None => tbl_of d t !! u = None
              end.

Lemma pruned_of_refl d : pruned_of d d.
Proof. intros t u. destruct (tbl_of d t !! u) as [r|] eqn:E; [exists r; split; [reflexivity|apply refs_le_refl]|reflexivity]. Qed.

Lemma pruned_of_trans a b c : pruned_of a b -> pruned_of b c -> pruned_of a c.
Proof.
  intros H1 H2 t u. specialize (H1 t u). specialize (H2 t u).
  destruct (tbl_of c t !! u) as [rc|].
  - destruct H2 as (rb & Hb & Hle). rewrite Hb in H1. destruct H1 as (ra & Ha & Hle'). exists ra. split; [exact Ha|].
    eapply refs_le_trans; eassumption.
  - rewrite H2 in H1. exact H1.
Qed.

Lemma mapM_prune_rows d T (l : list (sym * row)) l' :
  mapM (fun ur => option_map (fun r' => (ur.1, r')) (prune_row d T ur.2)) l = Some l' ->
  Forall2 (fun ur ur' => ur'.1 = ur.1 /\ refs_le ur'.2 ur.2) l l'.
Proof.
  intros H. apply mapM_Some_1 in H. induction H as [|[u r] [u' r'] l l' Hx _ IH]; [constructor|].
  constructor; [|exact IH]. cbn in Hx. destruct (prune_row d T r) as [r2|] eqn:E; [|discriminate].
  cbn in Hx. injection Hx as <- <-. split; [reflexivity|apply (prune_row_refs d T r r2 E)].
Qed.

Lemma pruned_table (tb : gmap sym row) l' :
  Forall2 (fun ur ur' => ur'.1 = ur.1 /\ refs_le ur'.2 ur.2) (map_to_list tb) l' ->
  forall u, match (list_to_map l' : gmap sym row) !! u with
            | Some r' => exists r, tb !! u = Some r /\ refs_le r' r
            | None => tb !! u = None
            end.
Proof.
  intros HF u.
  assert (Hkeys : l'.*1 = (map_to_list tb).*1).
  { clear u. induction HF as [|x y l1 l2 [Hk _] _ IH]; [reflexivity|]. cbn. rewrite Hk, IH. reflexivity. }
  assert (Hnd : NoDup l'.*1) by (rewrite Hkeys; apply NoDup_fst_map_to_list).
  destruct (list_to_map l' !! u) as [r'|] eqn:E.
  - apply elem_of_list_to_map in E; [|exact Hnd].
    apply elem_of_list_lookup in E as [i Hi].
    destruct (Forall2_lookup_r _ _ _ _ _ HF Hi) as ([u0 r0] & Hi0 & Hk & Hle). cbn in Hk, Hle. subst u0.
    exists r0. split; [|exact Hle]. apply elem_of_map_to_list. eapply elem_of_list_lookup_2. exact Hi0.
  - apply not_elem_of_list_to_map in E. destruct (tb !! u) as [r|] eqn:Er; [|reflexivity].
    exfalso. apply E. rewrite Hkeys. apply elem_of_list_fmap. exists (u, r). split; [reflexivity|]. apply elem_of_map_to_list. exact Er.
Qed.

Lemma prune_weak_pruned_of S d d2 : prune_weak S d = Some d2 -> pruned_of d d2.
Proof.
  unfold prune_weak. revert d2. induction (s_tables S) as [|T ts IH]; intros d2; cbn.
  - intros [= <-]. apply pruned_of_refl.
  - destruct (foldr _ (Some d) ts) as [acc|] eqn:E; cbn; [|discriminate]. specialize (IH acc eq_refl).
    destruct (acc !! t_name T) as [tb|] eqn:Et; [|intros [= <-]; exact IH].
    destruct (mapM _ (map_to_list tb)) as [l|] eqn:El; [|discriminate]. intros [= <-].
    eapply pruned_of_trans; [exact IH|].
    intros t u. destruct (decide (t = t_name T)) as [->|Hne].
    + rewrite lookup_insert. cbn. rewrite Et. cbn.
      apply (pruned_table tb l (mapM_prune_rows d T _ _ El) u).
    + rewrite lookup_insert_ne by congruence.
      destruct (tbl_of acc t !! u) as [r|] eqn:Er; [exists r; split; [reflexivity|apply refs_le_refl]|reflexivity].
Qed.

Theorem pruned_preserves_strong_ok S d d2 : pruned_of d d2 -> strong_ok S d -> strong_ok S d2.
Proof.
  intros Hp H ft fu c isv t u Hin.
  apply elem_of_db_refs in Hin as (T & r' & HT & Hn & Hr & Hce).
  pose proof (Hp ft fu) as Hrow. rewrite Hr in Hrow. destruct Hrow as (r & Hr0 & Hle).
  assert (Hin' : (ft, fu, c, (isv, t, Strong, u)) ∈ db_refs S d).
  { apply elem_of_db_refs. exists T, r. split; [exact HT|]. split; [exact Hn|]. split; [exact Hr0|]. apply Hle, Hce. }
  pose proof (H _ _ _ _ _ _ Hin') as Hex. apply row_exists_iff in Hex as [x Hx].
  apply row_exists_iff. pose proof (Hp t u) as Ht. rewrite Hx in Ht.
  destruct (tbl_of d2 t !! u) as [y|]; [eauto|discriminate].
Qed.

(** ** the loop, and the commit-time processing as a whole *)
Lemma ref_loop_strong_ok S : forall fuel d d', strong_ok S d -> ref_loop fuel S d = Ok d' -> strong_ok S d'.
Proof.
  induction fuel as [|f IH]; intros d d' H; cbn; [discriminate|].
  destruct (prune_weak S (gc1 S d)) as [d2|] eqn:E; [|discriminate].
  destruct (decide (d2 = d)) as [->|Hne]; [intros [= <-]; exact H|].
  apply IH. apply (pruned_preserves_strong_ok S (gc1 S d) d2 (prune_weak_pruned_of _ _ _ E)).
  apply gc1_preserves_strong_ok, H.
Qed.

Theorem process_refs_no_dangling S w d' : process_refs S w = Ok d' -> dangling_strong S d' = false.
Proof.
  unfold process_refs. destruct (dangling_strong S w) eqn:E; [discriminate|]. intros H.
  apply dangling_false_iff. apply (ref_loop_strong_ok S (db_size w + 2) w d'); [apply dangling_false_iff, E|exact H].
Qed.

(** ** every committed state, after every history *)
From LOV Require Import Db.Txn.

Theorem no_dangling_after_commit S d ops :
  dangling_strong S d = false -> dangling_strong S (commit d (transact S d ops)) = false.
Proof.
  intros Hd. unfold commit, transact. destruct (exec_ops S d d ops) as [[rs w] ok]. destruct ok; cbn; [|exact Hd].
  destruct (bool_decide (w = d)); cbn; [exact Hd|].
  destruct (process_refs S w) as [w1| |] eqn:Hp; cbn; try exact Hd.
  destruct (db_unique S w1); cbn; [|exact Hd]. apply (process_refs_no_dangling S w w1 Hp).
Qed.

Theorem no_dangling_after_history S : forall h d,
  dangling_strong S d = false -> dangling_strong S (run_history S d h) = false.
Proof. induction h as [|ops h IH]; intros d Hd; cbn; [exact Hd|]. apply IH, no_dangling_after_commit, Hd. Qed.

Lemma no_dangling_empty S : dangling_strong S ∅ = false.
Proof.
  apply dangling_false_iff. intros ft fu c isv t u Hin.
  apply elem_of_db_refs in Hin as (T & r & _ & _ & Hr & _). rewrite lookup_empty in Hr. cbn in Hr. rewrite lookup_empty in Hr. discriminate.
Qed.
