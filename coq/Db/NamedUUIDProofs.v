From LOV Require Export Db.NamedUUID.

(** text is never touched: only UUID atoms can change *)
Lemma subst_atom_non_uuid σ a : (forall s, a <> AUuid s) -> subst_atom σ a = a.
Proof. destruct a; intros H; try reflexivity. exfalso. eapply H. reflexivity. Qed.

Lemma subst_atom_type σ a : atom_type (subst_atom σ a) = atom_type a.
Proof. destruct a; reflexivity. Qed.

(** a name that was given a UUID is replaced by it, everywhere *)
Lemma subst_atom_name σ nm u : σ !! nm = Some u -> subst_atom σ (AUuid nm) = AUuid u.
Proof. intros H. simpl. rewrite H. reflexivity. Qed.

(** a UUID atom that is not a name stays *)
Lemma subst_atom_not_name σ s : σ !! s = None -> subst_atom σ (AUuid s) = AUuid s.
Proof. intros H. simpl. rewrite H. reflexivity. Qed.

(** pass 1 *)
Lemma name_map_extends : forall l σ σ', name_map σ l = Ok σ' -> σ ⊆ σ'.
Proof.
  induction l as [|[o nm] l IH]; intros σ σ'; simpl.
  - intros [= <-]. reflexivity.
  - destruct o; try apply IH. destruct nm as [nm|]; [|apply IH].
    destruct (σ !! nm) as [u'|] eqn:Hs.
    + destruct (N.eqb u u'); [apply IH|discriminate].
    + intros H. etrans; [|apply (IH _ _ H)]. apply insert_subseteq. exact Hs.
Qed.

(** the insert that carries a name defines it: the name maps to the UUID the
    row is inserted under (and reported with) *)
Theorem name_defined_by_insert : forall l σ σ' t u w nm,
  name_map σ l = Ok σ' -> mkNop (OInsert t u w) (Some nm) ∈ l -> σ' !! nm = Some u.
Proof.
  induction l as [|[o n] l IH]; intros σ σ' t u w nm Hm Hin; [inversion Hin|].
  apply elem_of_cons in Hin as [Heq|Hin].
  - injection Heq as <- <-. simpl in Hm.
    destruct (σ !! nm) as [u'|] eqn:Hs.
    + destruct (N.eqb u u') eqn:He; [|discriminate]. apply N.eqb_eq in He. subst u'.
      eapply lookup_weaken; [exact Hs|]. eapply name_map_extends. exact Hm.
    + eapply lookup_weaken; [apply lookup_insert|]. eapply name_map_extends. exact Hm.
  - simpl in Hm. destruct o; try (eapply IH; eassumption).
    destruct n as [n|]; [|eapply IH; eassumption].
    destruct (σ !! n) as [u'|]; [destruct (N.eqb u0 u'); [eapply IH; eassumption|discriminate]|eapply IH; eassumption].
Qed.

(** two inserts claiming one name with different UUIDs are rejected *)
Theorem conflict_rejected : forall l1 l2 σ t1 u1 w1 t2 u2 w2 nm,
  u1 <> u2 ->
  name_map σ (l1 ++ mkNop (OInsert t1 u1 w1) (Some nm) :: l2) = Err EOther \/
  forall σ1, name_map σ (l1 ++ [mkNop (OInsert t1 u1 w1) (Some nm)]) = Ok σ1 ->
    name_map σ1 (mkNop (OInsert t2 u2 w2) (Some nm) :: l2) = Err EOther.
Proof.
  intros l1 l2 σ t1 u1 w1 t2 u2 w2 nm Hne. right. intros σ1 H1.
  assert (Hnm : σ1 !! nm = Some u1).
  { eapply name_defined_by_insert; [exact H1|]. apply elem_of_app. right. left. }
  cbn. rewrite Hnm. destruct (N.eqb u2 u1) eqn:He; [|reflexivity].
  apply N.eqb_eq in He. congruence.
Qed.

Theorem name_resolves l σ t u w nm :
  name_map ∅ l = Ok σ -> mkNop (OInsert t u w) (Some nm) ∈ l -> subst_atom σ (AUuid nm) = AUuid u.
Proof. intros Hm Hin. apply subst_atom_name. eapply name_defined_by_insert; eassumption. Qed.

(** expansion keeps the operations in place and only rewrites their values *)
Theorem expand_length l ops : expand l = Ok ops -> length ops = length l.
Proof.
  unfold expand. destruct (name_map ∅ l); simpl; try discriminate.
  intros [= <-]. rewrite !fmap_length. reflexivity.
Qed.

Theorem expand_insert_uuid l ops i t u w nm :
  expand l = Ok ops -> l !! i = Some (mkNop (OInsert t u w) nm) ->
  exists w', ops !! i = Some (OInsert t u w').
Proof.
  unfold expand. destruct (name_map ∅ l) as [σ| |]; simpl; try discriminate.
  intros [= <-] Hi. rewrite !list_lookup_fmap, Hi. simpl. eauto.
Qed.

(** a transaction whose names cannot be resolved fails and changes nothing *)
Theorem unresolved_names_fail S d l :
  (forall ops, expand l <> Ok ops) -> snd (transact_named S d l) = None.
Proof.
  intros H. unfold transact_named. destruct (expand l) as [ops| |]; [exfalso; eapply H; reflexivity| |];
    destruct (name_map_lenient ∅ 0 l) as [σ k]; destruct (exec_ops _ _ _ _) as [[rs w] ok]; destruct ok; reflexivity.
Qed.

Lemma create_ids_pointwise (ms : list (sym * bool * bool)) i m :
  nth_error ms i = Some m -> nth_error (map create_ids ms) i = Some (create_ids m).
Proof. intros H. apply map_nth_error. exact H. Qed.
