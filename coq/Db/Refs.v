(** Referential integrity (RFC 7047 3.2 / 4.1.3), specification level: the
    references of a database are *recomputed from its rows*; garbage
    collection of unreferenced non-root rows is iterated to a fixpoint; then
    strong references are checked and weak references to missing rows pruned.
    The implementation (updates/references.go) tracks all this incrementally;
    the correspondence check compares its results with these definitions. *)
From LOV Require Export Base.Res Base.Schema.

(** a reference held by a value: (is map value, target table, type, target uuid) *)
Notation refent := (bool * sym * reftype * sym)%type.

Definition atom_ref (isval : bool) (b : basety) (a : atom) : list refent :=
  match bt_ref b, a with
  | Some (t, rt), AUuid u => if N.eqb u 0 then [] else [(isval, t, rt, u)]
  | _, _ => []
  end.

Definition value_refs (ct : colty) (v : value) : list refent :=
  match v with
  | VAtom a => atom_ref false (ct_key ct) a
  | VOpt (Some a) => atom_ref false (ct_key ct) a
  | VOpt None => []
  | VSet s => elements s ≫= atom_ref false (ct_key ct)
  | VMap m =>
      map_to_list m ≫= (fun kv =>
        atom_ref false (ct_key ct) (fst kv) ++
        match ct_val ct with Some vt => atom_ref true vt (snd kv) | None => [] end)
  end.

Definition row_refs (T : table) (r : row) : list (sym * refent) :=
  t_cols T ≫= (fun C => match r !! c_name C with
                        | Some v => (fun e => (c_name C, e)) <$> value_refs (c_ty C) v
                        | None => []
                        end).

(** all references of a database: (from table, from uuid, column, entry) *)
Definition db_refs (S : schema) (d : dbstate) : list (sym * sym * sym * refent) :=
  s_tables S ≫= (fun T =>
    map_to_list (default ∅ (d !! t_name T)) ≫= (fun ur =>
      (fun ce => (t_name T, fst ur, fst ce, snd ce)) <$> row_refs T (snd ur))).

Definition row_exists (d : dbstate) (t u : sym) : bool :=
  match d !! t with Some tb => bool_decide (is_Some (tb !! u)) | None => false end.

(** * strong references *)
Definition strongly_referenced (S : schema) (d : dbstate) : gset (sym * sym) :=
  list_to_set (omap (fun x => let '(_, _, _, (_, t, rt, u)) := x in
                              match rt with Strong => Some (t, u) | Weak => None end) (db_refs S d)).

Definition dangling_strong (S : schema) (d : dbstate) : bool :=
  existsb (fun x => let '(_, _, _, (_, t, rt, u)) := x in
             match rt with Strong => negb (row_exists d t u) | Weak => false end) (db_refs S d).

(** one garbage collection pass: drop rows of non-root tables that no row
    strongly references *)
Definition gc1 (S : schema) (d : dbstate) : dbstate :=
  let refd := strongly_referenced S d in
  map_imap (fun t tb =>
    match find_table S t with
    | Some T =>
        if is_root_table S T then Some tb
        else Some (filter (fun ur => (t, fst ur) ∈ refd) tb)
    | None => Some tb
    end) d.

Definition db_size (d : dbstate) : nat := map_fold (fun _ tb n => size tb + n) 0 d.

Fixpoint gc (fuel : nat) (S : schema) (d : dbstate) : dbstate :=
  match fuel with
  | O => d
  | S f => let d' := gc1 S d in if decide (d' = d) then d else gc f S d'
  end.

(** * weak references *)
Definition prune_atom (d : dbstate) (isval : bool) (b : basety) (a : atom) : bool :=
  (* keep? *)
  match bt_ref b, a with
  | Some (t, Weak), AUuid u => N.eqb u 0 || row_exists d t u
  | _, _ => true
  end.

Definition prune_value (d : dbstate) (ct : colty) (v : value) : value :=
  match v with
  | VAtom a => VAtom a     (* an atom cannot be emptied; see [weak_atom_dangling] *)
  | VOpt (Some a) => if prune_atom d false (ct_key ct) a then v else VOpt None
  | VOpt None => v
  | VSet s => VSet (filter (fun a => prune_atom d false (ct_key ct) a = true) s)
  | VMap m => VMap (filter (fun kv => prune_atom d false (ct_key ct) (fst kv) &&
                                        match ct_val ct with Some vt => prune_atom d true vt (snd kv) | None => true end
                                        = true) m)
  end.

Definition value_size (v : value) : nat :=
  match v with VAtom _ => 1 | VOpt (Some _) => 1 | VOpt None => 0 | VSet s => size s | VMap m => size m end.

Definition weak_atom_dangling (d : dbstate) (ct : colty) (v : value) : bool :=
  match v with VAtom a => negb (prune_atom d false (ct_key ct) a) | _ => false end.

(** prune a row; [None] if a column would end up below its minimum size *)
Definition prune_row (d : dbstate) (T : table) (r : row) : option row :=
  foldr (fun C acc =>
           acc ≫= (fun r' =>
             match r' !! c_name C with
             | None => Some r'
             | Some v =>
                 if weak_atom_dangling d (c_ty C) v then None
                 else let v' := prune_value d (c_ty C) v in
                      if bool_decide (v' = v) then Some r'
                      else if Nat.ltb (value_size v') (ct_min (c_ty C)) then None
                      else Some (<[c_name C := v']> r')
             end))
        (Some r) (t_cols T).

Definition prune_weak (S : schema) (d : dbstate) : option dbstate :=
  foldr (fun T acc =>
           acc ≫= (fun d' =>
             match d' !! t_name T with
             | None => Some d'
             | Some tb =>
                 match mapM (fun ur => option_map (fun r' => (fst ur, r')) (prune_row d T (snd ur))) (map_to_list tb) with
                 | Some l => Some (<[t_name T := list_to_map l]> d')
                 | None => None
                 end
             end))
        (Some d) (s_tables S).

(** the whole commit-time processing of a candidate state.  As in ovsdb-server
    (update_ref_counts before collect_garbage), strong references are checked
    on the candidate state *before* garbage collection: a dangling strong
    reference is an error even when the row holding it would be collected.
    Collection never creates a dangling strong reference (only rows nobody
    strongly references are removed).  Like updates/references.go, each round
    collects one level of unreferenced rows and then prunes weak references of
    the surviving rows (checking their minimum); rounds repeat until nothing
    changes. *)
Fixpoint ref_loop (fuel : nat) (S : schema) (d : dbstate) : res dbstate :=
  match fuel with
  | O => Err EOther   (* out of fuel: excluded by [ref_loop_fuel_enough]-style hypotheses, never observed *)
  | Datatypes.S f =>
    let d1 := gc1 S d in
    match prune_weak S d1 with
    | None => Err EConstraint
    | Some d2 => if decide (d2 = d) then Ok d else ref_loop f S d2
    end
  end.

Definition process_refs (S : schema) (d : dbstate) : res dbstate :=
  if dangling_strong S d then Err ERefInt
  else ref_loop (db_size d + 2) S d.

(** the integrity predicate of C04 *)
Definition RI (S : schema) (d : dbstate) : Prop :=
  dangling_strong S d = false /\ gc1 S d = d /\ prune_weak S d = Some d.
