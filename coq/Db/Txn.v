(** The transaction engine (database/transaction/transaction.go), as RFC
    7047 5.2 prescribes it: operations run in order against a working copy
    (later operations see earlier ones); the first failing operation stops the
    transaction; afterwards referential integrity is processed (Db/Refs.v) and
    the schema indexes are checked on the final state; only then the working
    copy becomes the database. *)
From LOV Require Export Base.Res Base.Schema Upd.Cond Upd.Merge Db.Refs.

Inductive op :=
| OInsert (t : sym) (u : sym) (w : row)
| OSelect (t : sym) (wh : list cond) (cols : list sym)
| OUpdate (t : sym) (wh : list cond) (w : row)
| OMutate (t : sym) (wh : list cond) (ms : list mutation)
| ODelete (t : sym) (wh : list cond)
| OWait (t : sym) (wh : list cond) (cols : list sym) (until_eq : bool) (rows : list (gmap sym value))
| OOther.    (* commit / abort / comment / assert / unknown: not supported *)

Inductive result :=
| RUuid (u : sym)
| RRows (rs : list (sym * gmap sym value))
| RCount (n : nat)
| REmpty
| RErr (e : errcls)
| RNull.     (* operation not executed *)

Definition is_err (r : result) : bool := match r with RErr _ => true | _ => false end.

Definition get_tbl (d : dbstate) (t : sym) : gmap sym (gmap sym value) := default ∅ (d !! t).

(** rows of table [t] selected by [wh] *)
Definition select_uuids (d : dbstate) (t : sym) (wh : list cond) : list (sym * gmap sym value) :=
  map_to_list (filter_rows (get_tbl d t) wh).

Definition project (cols : list sym) (r : row) : row :=
  filter (fun kv => fst kv ∈ cols) r.

(** the columns a select or wait names exist ([_uuid] is one) *)
Definition cols_valid (T : table) (cols : list sym) : bool :=
  forallb (fun c => N.eqb c ucol || bool_decide (is_Some (find_col T c))) cols.

(** select: the result rows hold the requested columns ([] = "columns" omitted: the whole row) *)
Definition select_row (cols : list sym) (r : row) : row := match cols with [] => r | _ => project cols r end.
Definition select_project (cols : list sym) (sel : list (sym * gmap sym value)) : list (sym * gmap sym value) :=
  map (fun ur => (fst ur, select_row cols (snd ur))) sel.

(** apply a row operation to every selected row *)
Definition apply_rows (T : table) (d : dbstate) (sel : list (sym * gmap sym value)) (f : row -> res (option row)) : res dbstate :=
  rfold (fun d' ur =>
           n <- f (snd ur) ;;
           let tb := get_tbl d' (t_name T) in
           Ok (<[t_name T := match n with Some r' => <[fst ur := r']> tb | None => delete (fst ur) tb end]> d'))
        sel d.

(** wait: a selected row matches an expected row if they agree on every
    requested column the expected row provides; the selected rows equal the
    expected rows if every selected row matches some expected row and every
    expected row is matched by some selected row *)
Definition wait_matches (T : table) (all : bool) (cols : list sym) (found : row) (expected : row) : bool :=
  forallb (fun c => match expected !! c with
                    | Some x => bool_decide (found !! c = Some x)
                    | None =>
                        (* without "columns" a column the expected row leaves out has its default value there;
                           with "columns" it is not compared *)
                        if all then match find_col T c with
                                    | Some C => bool_decide (found !! c = Some (default_value (c_ty C)))
                                    | None => true
                                    end
                        else true
                    end) cols.

Definition wait_rows_equal (T : table) (all : bool) (cols : list sym) (sel : list (sym * gmap sym value)) (rows : list (gmap sym value)) : bool :=
  forallb (fun ur => existsb (wait_matches T all cols (snd ur)) rows) sel
  && forallb (fun e => existsb (fun ur => wait_matches T all cols (snd ur) e) sel) rows.

Definition exec_op (S : schema) (d0 d : dbstate) (o : op) : result * dbstate :=
  let with_table t (k : table -> result * dbstate) :=
    match find_table S t with Some T => k T | None => (RErr EOther, d) end in
  match o with
  | OInsert t u w =>
      with_table t (fun T =>
        if row_exists d t u then (RErr EConstraint, d)
        else if row_exists d0 t u then (RErr EOther, d)   (* deleted and re-inserted: merge.go rejects the sequence *)
        else match row_insert T w with
             | Ok r => (RUuid u, <[t := <[u := r]> (get_tbl d t)]> d)
             | Err e => (RErr e, d)
             | Panic => (RErr EOther, d)
             end)
  | OSelect t wh cols =>
      with_table t (fun T =>
        if negb (conds_valid T wh) then (RErr EOther, d)
        else if negb (cols_valid T cols) then (RErr EOther, d)
        else (RRows (select_project cols (select_uuids d t wh)), d))
  | OUpdate t wh w =>
      with_table t (fun T =>
        if negb (conds_valid T wh) then (RErr EOther, d)
        else let sel := select_uuids d t wh in
             match apply_rows T d sel (fun r => r' <- row_update T r w ;; Ok (Some r')) with
             | Ok d' => (RCount (length sel), d')
             | Err e => (RErr e, d)
             | Panic => (RErr EOther, d)
             end)
  | OMutate t wh ms =>
      with_table t (fun T =>
        if negb (conds_valid T wh) then (RErr EOther, d)
        else let sel := select_uuids d t wh in
             match apply_rows T d sel (fun r => r' <- row_mutate T r ms ;; Ok (Some r')) with
             | Ok d' => (RCount (length sel), d')
             | Err e => (RErr e, d)
             | Panic => (RErr EOther, d)
             end)
  | ODelete t wh =>
      with_table t (fun T =>
        if negb (conds_valid T wh) then (RErr EOther, d)
        else let sel := select_uuids d t wh in
             match apply_rows T d sel (fun _ => Ok None) with
             | Ok d' => (RCount (length sel), d')
             | _ => (RErr EOther, d)
             end)
  | OWait t wh cols until_eq rows =>
      with_table t (fun T =>
        if negb (conds_valid T wh) then (RErr EOther, d)
        else let cols' := match cols with [] => map c_name (t_cols T) | _ => cols end in   (* omitted: every column *)
             let same := wait_rows_equal T (match cols with [] => true | _ => false end) cols' (select_uuids d t wh) rows in
             if Bool.eqb same until_eq then (REmpty, d) else (RErr ETimedOut, d))
  | OOther => (RErr ENotSupported, d)
  end.

(** run the operations; stop at the first error, padding with [RNull] *)
Fixpoint exec_ops (S : schema) (d0 d : dbstate) (ops : list op) : list result * dbstate * bool :=
  match ops with
  | [] => ([], d, true)
  | o :: ops' =>
    let '(r, d') := exec_op S d0 d o in
    if is_err r then (r :: map (fun _ => RNull) ops', d, false)
    else let '(rs, d'', ok) := exec_ops S d0 d' ops' in (r :: rs, d'', ok)
  end.

(** uniqueness of every schema index *)
Definition index_key (r : row) (cols : list sym) : list (option value) := (fun c => r !! c) <$> cols.

Definition table_unique (T : table) (tb : gmap sym (gmap sym value)) : bool :=
  forallb (fun cols => bool_decide (NoDup ((fun ur => index_key (snd ur) cols) <$> map_to_list tb))) (t_indexes T).

Definition db_unique (S : schema) (d : dbstate) : bool :=
  forallb (fun T => table_unique T (get_tbl d (t_name T))) (s_tables S).

(** the whole transaction: results, and the new database if it commits *)
Definition transact (S : schema) (d : dbstate) (ops : list op) : list result * option dbstate :=
  let '(rs, w, ok) := exec_ops S d d ops in
  if negb ok then (rs, None)
  else if bool_decide (w = d) then (rs, Some d)
  else match process_refs S w with
       | Ok w' => if db_unique S w' then (rs, Some w') else (rs ++ [RErr EConstraint], None)
       | Err e => (rs ++ [RErr e], None)
       | Panic => (rs ++ [RErr EOther], None)
       end.

Definition commit (d : dbstate) (r : list result * option dbstate) : dbstate :=
  match snd r with Some d' => d' | None => d end.

(** a history of transactions *)
Fixpoint run_history (S : schema) (d : dbstate) (h : list (list op)) : dbstate :=
  match h with
  | [] => d
  | ops :: h' => run_history S (commit d (transact S d ops)) h'
  end.
