(** The reply to a "transact" request some operation of which cannot be
    decoded ([server_transact]): it has the second of the three shapes of C02
    - results up to and including one error, the rest not executed - with the
    error at or before the operation that cannot be decoded, it never has the
    third (an error after all results), and nothing is committed. *)
From LOV Require Export Db.NamedShape.
From Coq Require Import Lia.

Definition good (r : result) : Prop := failed_result r = false.

Lemma good_nonerr r : good r -> nonerr r.
Proof. destruct r; cbv; congruence. Qed.

(** an operation that is executed has a result or an error *)
Lemma exec_op_not_null S d0 d o r d' : exec_op S d0 d o = (r, d') -> r <> RNull.
Proof.
  unfold exec_op. intros H Hn. subst r.
  destruct o; try destruct (find_table S t); repeat case_match; simplify_eq.
Qed.

(** the results of the operations: all good, or good up to one error and
    [RNull] after it *)
Definition op_results (n : nat) (rs : list result) : Prop :=
  length rs = n /\
  (Forall good rs \/
   exists i e, i < n /\ Forall good (take i rs) /\ rs !! i = Some (RErr e) /\
     drop (Datatypes.S i) rs = replicate (n - i - 1) RNull).

Lemma exec_ops_results S d0 : forall ops d rs w ok,
  exec_ops S d0 d ops = (rs, w, ok) ->
  length rs = length ops /\
  (ok = true -> Forall good rs) /\
  (ok = false -> exists i e, i < length ops /\ Forall good (take i rs) /\
      rs !! i = Some (RErr e) /\ drop (Datatypes.S i) rs = replicate (length ops - i - 1) RNull).
Proof.
  induction ops as [|o ops IH]; intros d rs w ok; simpl.
  - intros [= <- <- <-]. split; [reflexivity|]. split; [constructor|discriminate].
  - destruct (exec_op S d0 d o) as [r d'] eqn:Ho. destruct (is_err r) eqn:He.
    + intros [= <- <- <-]. split; [simpl; rewrite map_length; reflexivity|]. split; [discriminate|].
      intros _. destruct r; try discriminate. exists 0, e. split; [lia|]. split; [constructor|]. split; [reflexivity|].
      simpl. rewrite Nat.sub_0_r. apply map_const_replicate.
    + assert (Hg : good r).
      { pose proof (exec_op_not_null _ _ _ _ _ _ Ho) as Hn. destruct r; try reflexivity; [discriminate|congruence]. }
      destruct (exec_ops S d0 d' ops) as [[rs' w'] ok'] eqn:Hrec. intros [= <- <- <-].
      destruct (IH _ _ _ _ Hrec) as (Hlen & Hok & Hfail). split; [simpl; lia|]. split.
      * intros Hk. constructor; [exact Hg|auto].
      * intros Hk. destruct (Hfail Hk) as (i & e & Hi & Htake & Hnth & Hdrop).
        exists (Datatypes.S i), e. split; [lia|]. split; [simpl; constructor; assumption|]. split; [exact Hnth|].
        simpl. rewrite Hdrop. reflexivity.
Qed.

Lemma transact_op_results S d ops :
  op_results (length ops) (take (length ops) (fst (transact S d ops))).
Proof.
  unfold transact. destruct (exec_ops S d d ops) as [[rs0 w] ok] eqn:He.
  destruct (exec_ops_results S d ops d rs0 w ok He) as (Hlen & Hok & Hfail).
  assert (Hres : forall x, take (length ops) (rs0 ++ x) = rs0) by (intros x; rewrite <- Hlen; apply take_app).
  assert (Hres0 : take (length ops) rs0 = rs0) by (rewrite <- Hlen; apply firstn_all).
  destruct ok; cbn [negb].
  - specialize (Hok eq_refl).
    assert (Hgoal : op_results (length ops) rs0) by (split; [exact Hlen|left; exact Hok]).
    destruct (bool_decide (w = d)); cbn [fst]; [rewrite Hres0; exact Hgoal|].
    destruct (process_refs S w) as [w'| |]; [destruct (db_unique S w')|..]; cbn [fst]; rewrite ?Hres, ?Hres0; exact Hgoal.
  - cbn [fst]. rewrite Hres0. split; [exact Hlen|right]. exact (Hfail eq_refl).
Qed.

Lemma named_op_results S d l :
  op_results (length l) (take (length l) (fst (transact_named S d l))).
Proof.
  unfold transact_named. destruct (expand l) as [ops|e0|] eqn:He.
  { rewrite <- (expand_length l ops He). apply transact_op_results. }
  all: assert (Hfail : forall ops, expand l <> Ok ops) by (intros ops; rewrite He; discriminate).
  all: pose proof (name_map_lenient_fault l ∅ 0 (expand_fails_name_map l Hfail)) as (k & Hk & Hlt).
  all: destruct (name_map_lenient ∅ 0 l) as [σ ko]; cbn [snd] in Hk; subst ko; cbn [default from_option id].
  all: destruct (exec_ops S d d (subst_op σ <$> (n_op <$> take k l))) as [[rs' w] ok] eqn:Hx.
  all: pose proof (exec_ops_results S d _ _ _ _ _ Hx) as (Hlen & Hok & Hbad).
  all: rewrite !fmap_length, take_length in Hlen; replace (k `min` length l) with k in Hlen by lia.
  all: destruct ok; cbv iota; cbn [fst].
  all: match goal with |- op_results _ (take _ ?x) =>
         assert (Hl : length x = length l)
           by (rewrite ?app_length; cbn [length]; rewrite ?map_length, ?drop_length; lia);
         replace (take (length l) x) with x by (symmetry; rewrite <- Hl; apply firstn_all);
         split; [exact Hl|right] end.
  1,3: exists k, EOther; split; [lia|]; split;
       [rewrite take_app_alt by (symmetry; exact Hlen); apply Hok; reflexivity|];
       split; [rewrite lookup_app_r by lia; replace (k - length rs') with 0 by lia; reflexivity|];
       rewrite drop_app_ge by lia; replace (Datatypes.S k - length rs') with 1 by lia; cbn [drop];
       rewrite map_const_replicate, drop_length, drop_0; f_equal; lia.
  all: destruct (Hbad eq_refl) as (i & e & Hi & Htk & Hlk & Hdr).
  all: rewrite !fmap_length, take_length in Hi; replace (k `min` length l) with k in Hi by lia.
  all: rewrite !fmap_length, take_length in Hdr; replace (k `min` length l) with k in Hdr by lia.
  all: exists i, e; split; [lia|]; split; [rewrite take_app_le by lia; exact Htk|];
       split; [rewrite lookup_app_l by lia; exact Hlk|];
       rewrite drop_app_le by lia; rewrite Hdr, map_const_replicate, drop_length;
       apply replicate_app_len; lia.
Qed.

Lemma decoded_prefix_length args : length (decoded_prefix args) <= length args.
Proof. induction args as [|[o|] r IH]; cbn [decoded_prefix length]; lia. Qed.

Lemma existsb_failed_good rs : Forall good rs -> existsb failed_result rs = false.
Proof. induction 1 as [|r rs Hr _ IH]; [reflexivity|]. cbn. rewrite Hr, IH. reflexivity. Qed.

Lemma existsb_failed_at rs i e : rs !! i = Some (RErr e) -> existsb failed_result rs = true.
Proof.
  intros H. apply existsb_exists. exists (RErr e). split; [|reflexivity].
  apply elem_of_list_In. eapply elem_of_list_lookup_2. exact H.
Qed.

(** every operation decodes: the request is the transaction *)
Theorem request_decodable S d args :
  length (decoded_prefix args) = length args ->
  server_transact S d args = transact_named S d (decoded_prefix args).
Proof. intros H. unfold server_transact. rewrite H, Nat.eqb_refl. reflexivity. Qed.

(** some operation does not: one result per operation of the request; good
    results, then one error - at the operation that cannot be decoded when
    every operation before it succeeded (whatever the checks at the end of a
    transaction would have said), earlier otherwise -, then nothing; and
    nothing is committed *)
Theorem request_reply_shape S d args rs r :
  length (decoded_prefix args) < length args ->
  server_transact S d args = (rs, r) ->
  r = None /\ length rs = length args /\
  exists i e, i <= length (decoded_prefix args) /\
    Forall good (take i rs) /\ rs !! i = Some (RErr e) /\
    drop (Datatypes.S i) rs = replicate (length args - i - 1) RNull /\
    (i = length (decoded_prefix args) -> e = EOther).
Proof.
  intros Hlt. unfold server_transact.
  destruct (Nat.eqb_spec (length (decoded_prefix args)) (length args)) as [Heq|_]; [lia|].
  set (pre := decoded_prefix args) in *. set (n := length pre) in *.
  destruct (named_op_results S d pre) as (Hlen & Hcases). fold n in Hlen, Hcases.
  set (rs1 := take n (fst (transact_named S d pre))) in *.
  destruct Hcases as [Hgood|(i & e & Hi & Htk & Hlk & Hdr)].
  - rewrite (existsb_failed_good _ Hgood). intros [= <- <-]. split; [reflexivity|].
    rewrite !app_length, replicate_length. cbn [length]. split; [lia|].
    exists n, EOther. split; [lia|]. split.
    { rewrite <- app_assoc, take_app_alt by (symmetry; exact Hlen). exact Hgood. }
    split.
    { rewrite <- app_assoc, lookup_app_r by lia. replace (n - length rs1) with 0 by lia. reflexivity. }
    split; [|reflexivity].
    rewrite <- app_assoc, drop_app_ge by lia. replace (Datatypes.S n - length rs1) with 1 by lia.
    cbn [app drop]. rewrite drop_0. f_equal. rewrite Hlen. cbn [length]. lia.
  - rewrite (existsb_failed_at _ _ _ Hlk). intros [= <- <-]. split; [reflexivity|].
    rewrite app_length, replicate_length. split; [lia|].
    exists i, e. split; [lia|]. split; [rewrite take_app_le by lia; exact Htk|].
    split; [rewrite lookup_app_l by lia; exact Hlk|]. split; [|lia].
    rewrite drop_app_le by lia. rewrite Hdr. apply replicate_app_len. lia.
Qed.

(** in particular the reply always carries an error, so the client is never
    told that such a request was committed *)
Corollary request_undecodable_has_error S d args :
  length (decoded_prefix args) < length args ->
  has_error (fst (server_transact S d args)) = true /\ snd (server_transact S d args) = None.
Proof.
  intros Hlt. destruct (server_transact S d args) as [rs r] eqn:Hs.
  destruct (request_reply_shape S d args rs r Hlt Hs) as (-> & _ & i & e & _ & _ & Hlk & _).
  split; [|reflexivity]. cbn [fst]. unfold has_error. apply existsb_exists. exists (RErr e).
  split; [|reflexivity]. apply elem_of_list_In. eapply elem_of_list_lookup_2. exact Hlk.
Qed.
