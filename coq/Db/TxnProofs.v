(** Laws of the transaction engine (C03, C02, C06). *)
From LOV Require Export Db.Txn Upd.CondProofs.
From Coq Require Import Lia.

(** * apply_rows *)
Definition res_get {A} (x : res (option A)) : option A := match x with Ok n => n | _ => None end.

Lemma get_tbl_insert d t tb t' :
  get_tbl (<[t := tb]> d) t' = if decide (t = t') then tb else get_tbl d t'.
Proof.
  unfold get_tbl. case_decide as H.
  - subst. rewrite lookup_insert. reflexivity.
  - rewrite lookup_insert_ne by exact H. reflexivity.
Qed.

Lemma apply_rows_spec T f : forall sel d d',
  NoDup (fst <$> sel) -> apply_rows T d sel f = Ok d' ->
  (forall t, t <> t_name T -> get_tbl d' t = get_tbl d t) /\
  (forall u r, (u, r) ∈ sel -> exists n, f r = Ok n) /\
  (forall u, get_tbl d' (t_name T) !! u =
             match (list_to_map sel : gmap sym (gmap sym value)) !! u with
             | Some r => res_get (f r)
             | None => get_tbl d (t_name T) !! u
             end).
Proof.
  unfold apply_rows. induction sel as [|[u0 r0] sel IH]; intros d d' Hnd; simpl.
  - intros [= <-]. split; [auto|]. split; [intros u r H; inversion H|]. intros u. rewrite lookup_empty. reflexivity.
  - apply NoDup_cons in Hnd as [Hu0 Hnd].
    destruct (f r0) as [n0| |] eqn:Hf; simpl; try discriminate.
    intros Hrest. destruct (IH _ _ Hnd Hrest) as (H1 & H2 & H3). split; [|split].
    + intros t Ht. rewrite H1 by exact Ht. rewrite get_tbl_insert. rewrite decide_False by congruence. reflexivity.
    + intros u r Hin. apply elem_of_cons in Hin as [[= -> ->]|Hin]; eauto.
    + intros u. rewrite H3. rewrite get_tbl_insert, decide_True by reflexivity.
      destruct (decide (u = u0)) as [->|Hne].
      * rewrite lookup_insert. rewrite (not_elem_of_list_to_map_1 _ u0) by exact Hu0.
        rewrite Hf. simpl. destruct n0; [apply lookup_insert|apply lookup_delete].
      * rewrite lookup_insert_ne by congruence.
        destruct (list_to_map sel !! u); [reflexivity|].
        destruct n0; [rewrite lookup_insert_ne by congruence|rewrite lookup_delete_ne by congruence]; reflexivity.
Qed.

Lemma select_uuids_nodup d t wh : NoDup (fst <$> select_uuids d t wh).
Proof. unfold select_uuids. apply NoDup_fst_map_to_list. Qed.

Lemma select_uuids_lookup d t wh u :
  (list_to_map (select_uuids d t wh) : gmap sym (gmap sym value)) !! u = filter_rows (get_tbl d t) wh !! u.
Proof. unfold select_uuids. rewrite list_to_map_to_list. reflexivity. Qed.

Lemma filter_rows_lookup rows wh u :
  filter_rows rows wh !! u = match rows !! u with
                             | Some r => if row_matches u r wh then Some r else None
                             | None => None
                             end.
Proof.
  unfold filter_rows. destruct (rows !! u) as [r|] eqn:Hr.
  - destruct (row_matches u r wh) eqn:Hm.
    + apply map_filter_lookup_Some. auto.
    + apply map_filter_lookup_None. right. intros r' Hr'. simpl. congruence.
  - apply map_filter_lookup_None. left. exact Hr.
Qed.

(** * per-operation specifications (RFC 7047 5.2) *)

Lemma ltm_map_snd (f : gmap sym value -> gmap sym value) (l : list (sym * gmap sym value)) :
  (list_to_map (map (fun ur => (ur.1, f ur.2)) l) : gmap sym (gmap sym value)) = f <$> list_to_map l.
Proof.
  induction l as [|[u r] l IH]; cbn [map list_to_map foldr fst snd]; [rewrite fmap_empty; reflexivity|].
  rewrite fmap_insert. cbn. rewrite IH. reflexivity.
Qed.

(** select: exactly the rows satisfying the conditions, each reduced to the requested columns *)
Theorem select_spec S d0 d t wh cols T :
  find_table S t = Some T -> conds_valid T wh = true -> cols_valid T cols = true ->
  exists rs, exec_op S d0 d (OSelect t wh cols) = (RRows rs, d) /\
             (list_to_map rs : gmap sym (gmap sym value)) = select_row cols <$> filter_rows (get_tbl d t) wh.
Proof.
  intros HT Hv Hc. unfold exec_op. rewrite HT, Hv, Hc. simpl. eexists. split; [reflexivity|].
  unfold select_uuids, select_project. rewrite ltm_map_snd, list_to_map_to_list. reflexivity.
Qed.

(** update / mutate / delete: the matching rows are transformed, nothing else
    changes, the count is the number of matching rows *)
Theorem modify_spec S d0 d o t wh T f r' d' :
  (o = OUpdate t wh r' /\ f = (fun r => x <- row_update T r r' ;; Ok (Some x))) \/
  (exists ms, o = OMutate t wh ms /\ f = (fun r => x <- row_mutate T r ms ;; Ok (Some x))) \/
  (o = ODelete t wh /\ f = (fun _ => Ok None)) ->
  find_table S t = Some T -> t_name T = t -> conds_valid T wh = true ->
  forall n, exec_op S d0 d o = (RCount n, d') ->
  n = size (filter_rows (get_tbl d t) wh) /\
  (forall t', t' <> t -> get_tbl d' t' = get_tbl d t') /\
  (forall u, get_tbl d' t !! u =
             match get_tbl d t !! u with
             | Some r => if row_matches u r wh then res_get (f r) else Some r
             | None => None
             end).
Proof.
  intros Hcase HT Hname Hv n. unfold exec_op.
  assert (Hgen : forall g, (match apply_rows T d (select_uuids d t wh) g with
                 | Ok d1 => (RCount (length (select_uuids d t wh)), d1)
                 | Err e => (RErr e, d) | Panic => (RErr EOther, d) end) = (RCount n, d') ->
                 n = size (filter_rows (get_tbl d t) wh) /\
                 (forall t', t' <> t -> get_tbl d' t' = get_tbl d t') /\
                 (forall u, get_tbl d' t !! u = match get_tbl d t !! u with
                    | Some r => if row_matches u r wh then res_get (g r) else Some r | None => None end)).
  { intros g. destruct (apply_rows T d (select_uuids d t wh) g) as [d1| |] eqn:Ha; try discriminate.
    intros [= <- <-]. destruct (apply_rows_spec T g _ _ _ (select_uuids_nodup d t wh) Ha) as (H1 & _ & H3).
    rewrite Hname in *. split; [|split].
    - unfold select_uuids. reflexivity.
    - exact H1.
    - intros u. rewrite H3, select_uuids_lookup, filter_rows_lookup.
      destruct (get_tbl d t !! u) as [r|]; [|reflexivity]. destruct (row_matches u r wh); reflexivity. }
  destruct Hcase as [[-> ->]|[(ms & -> & ->)|[-> ->]]]; rewrite HT, Hv; simpl.
  - apply Hgen.
  - apply Hgen.
  - intros H. apply (Hgen (fun _ => Ok None)). destruct (apply_rows T d (select_uuids d t wh) (fun _ => Ok None)); [exact H|discriminate H|discriminate H].
Qed.

(** insert: the row is stored under the reported uuid, absent columns take
    their default *)
Theorem insert_spec S d0 d t u w T d' x :
  find_table S t = Some T -> exec_op S d0 d (OInsert t u w) = (RUuid x, d') ->
  x = u /\ get_tbl d t !! u = None /\
  exists r, row_insert T w = Ok r /\ get_tbl d' t !! u = Some r /\
            (forall u', u' <> u -> get_tbl d' t !! u' = get_tbl d t !! u') /\
            (forall t', t' <> t -> get_tbl d' t' = get_tbl d t').
Proof.
  intros HT. unfold exec_op. rewrite HT.
  destruct (row_exists d t u) eqn:Hex; [discriminate|].
  destruct (row_exists d0 t u); [discriminate|].
  destruct (row_insert T w) as [r| |] eqn:Hr; try discriminate. intros [= <- <-].
  split; [reflexivity|]. split.
  - unfold row_exists, get_tbl in *. destruct (d !! t) as [tb|]; simpl; [|apply lookup_empty].
    apply bool_decide_eq_false in Hex. destruct (tb !! u); [exfalso; eauto|reflexivity].
  - exists r. split; [reflexivity|]. split; [|split].
    + rewrite get_tbl_insert, decide_True by reflexivity. apply lookup_insert.
    + intros u' Hne. rewrite get_tbl_insert, decide_True by reflexivity. apply lookup_insert_ne. congruence.
    + intros t' Hne. rewrite get_tbl_insert, decide_False by congruence. reflexivity.
Qed.

(** * sequencing: later operations observe earlier ones *)
Theorem exec_ops_app S d0 : forall ops1 ops2 d,
  exec_ops S d0 d (ops1 ++ ops2) =
  let '(rs1, d1, ok1) := exec_ops S d0 d ops1 in
  if ok1 then let '(rs2, d2, ok2) := exec_ops S d0 d1 ops2 in (rs1 ++ rs2, d2, ok2)
  else (rs1 ++ map (fun _ => RNull) ops2, d1, false).
Proof.
  induction ops1 as [|o ops1 IH]; intros ops2 d; simpl.
  - destruct (exec_ops S d0 d ops2) as [[rs2 d2] ok2]. reflexivity.
  - destruct (exec_op S d0 d o) as [r d'] eqn:Ho. destruct (is_err r).
    + simpl. rewrite map_app. reflexivity.
    + rewrite IH. destruct (exec_ops S d0 d' ops1) as [[rs1 d1] ok1]. destruct ok1.
      * destruct (exec_ops S d0 d1 ops2) as [[rs2 d2] ok2]. reflexivity.
      * reflexivity.
Qed.

(** * reply shape and all-or-nothing (C02) *)
Definition no_err (rs : list result) : Prop := Forall (fun r => is_err r = false /\ r <> RNull) rs.

Lemma map_const_replicate {A B} (x : B) (l : list A) : map (fun _ => x) l = replicate (length l) x.
Proof. induction l; simpl; [reflexivity|]. f_equal. assumption. Qed.

Lemma exec_ops_shape S d0 : forall ops d rs w ok,
  exec_ops S d0 d ops = (rs, w, ok) ->
  length rs = length ops /\
  (ok = true -> Forall (fun r => is_err r = false) rs) /\
  (ok = false -> exists i e, i < length ops /\
      Forall (fun r => is_err r = false) (take i rs) /\
      rs !! i = Some (RErr e) /\ drop (Datatypes.S i) rs = replicate (length ops - i - 1) RNull).
Proof.
  induction ops as [|o ops IH]; intros d rs w ok; simpl.
  - intros [= <- <- <-]. split; [reflexivity|]. split; [constructor|discriminate].
  - destruct (exec_op S d0 d o) as [r d'] eqn:Ho. destruct (is_err r) eqn:He.
    + intros [= <- <- <-]. split; [simpl; rewrite map_length; reflexivity|]. split; [discriminate|].
      intros _. destruct r; try discriminate. exists 0, e. split; [lia|]. split; [constructor|]. split; [reflexivity|].
      simpl. rewrite Nat.sub_0_r. apply map_const_replicate.
    + destruct (exec_ops S d0 d' ops) as [[rs' w'] ok'] eqn:Hrec. intros [= <- <- <-].
      destruct (IH _ _ _ _ Hrec) as (Hlen & Hok & Hfail). split; [simpl; lia|]. split.
      * intros Hk. constructor; [exact He|auto].
      * intros Hk. destruct (Hfail Hk) as (i & e & Hi & Htake & Hnth & Hdrop).
        exists (Datatypes.S i), e. split; [lia|]. split; [simpl; constructor; assumption|]. split; [exact Hnth|].
        simpl. rewrite Hdrop. reflexivity.
Qed.

(** the reply: one non-error result per operation; or results up to and
    including the failing operation (the rest not executed); or all operation
    results plus one extra error for a commit-time rejection *)
Theorem reply_shape S d ops rs r :
  transact S d ops = (rs, r) ->
  (Forall (fun x => is_err x = false) rs /\ length rs = length ops /\ is_Some r)
  \/ (r = None /\ length rs = length ops /\ exists i e, i < length ops /\
        Forall (fun x => is_err x = false) (take i rs) /\ rs !! i = Some (RErr e) /\
        drop (Datatypes.S i) rs = replicate (length ops - i - 1) RNull)
  \/ (r = None /\ exists rs0 e, rs = rs0 ++ [RErr e] /\ length rs0 = length ops /\
        Forall (fun x => is_err x = false) rs0).
Proof.
  unfold transact. destruct (exec_ops S d d ops) as [[rs0 w] ok] eqn:He.
  destruct (exec_ops_shape S d ops d rs0 w ok He) as (Hlen & Hok & Hfail).
  destruct ok; simpl.
  - specialize (Hok eq_refl). destruct (bool_decide (w = d)).
    + intros [= <- <-]. left. eauto.
    + destruct (process_refs S w) as [w'| |].
      * destruct (db_unique S w'); intros [= <- <-]; [left; eauto|right; right; eauto 10].
      * intros [= <- <-]. right; right; eauto 10.
      * intros [= <- <-]. right; right; eauto 10.
  - intros [= <- <-]. right; left. destruct (Hfail eq_refl) as (i & e & H). eauto 10.
Qed.

Definition has_error (rs : list result) : bool := existsb is_err rs.

(** a transaction with an error result leaves the database as it was, and a
    later transaction behaves as if it had never been submitted *)
Theorem failed_txn_no_effect S d ops :
  has_error (fst (transact S d ops)) = true -> commit d (transact S d ops) = d.
Proof.
  intros Herr. destruct (transact S d ops) as [rs r] eqn:Ht. simpl in *.
  destruct (reply_shape S d ops rs r Ht) as [(Hall & _ & _)|[(-> & _)|(-> & _)]]; try reflexivity.
  exfalso. unfold has_error in Herr. apply existsb_exists in Herr as (x & Hx & Hex).
  rewrite Forall_forall in Hall. apply elem_of_list_In in Hx. rewrite (Hall x Hx) in Hex. discriminate.
Qed.

Corollary later_txn_unaffected S d ops1 ops2 :
  has_error (fst (transact S d ops1)) = true ->
  transact S (commit d (transact S d ops1)) ops2 = transact S d ops2.
Proof. intros H. rewrite failed_txn_no_effect by exact H. reflexivity. Qed.

(** no error result <=> the transaction commits *)
Theorem commits_iff_no_error S d ops :
  is_Some (snd (transact S d ops)) <-> has_error (fst (transact S d ops)) = false.
Proof.
  destruct (transact S d ops) as [rs r] eqn:Ht. simpl.
  destruct (reply_shape S d ops rs r Ht) as [(Hall & _ & Hs)|[(-> & _ & i & e & _ & _ & Hi & _)|(-> & rs0 & e & -> & _)]].
  - split; [|auto]. intros _. unfold has_error. apply not_true_iff_false. intros H.
    apply existsb_exists in H as (x & Hx & Hex). rewrite Forall_forall in Hall.
    apply elem_of_list_In in Hx. rewrite (Hall x Hx) in Hex. discriminate.
  - split; [intros [? ?]; discriminate|]. intros H. exfalso. unfold has_error in H.
    apply not_true_iff_false in H. apply H. apply existsb_exists. exists (RErr e). split; [|reflexivity].
    apply elem_of_list_In. eapply elem_of_list_lookup_2. exact Hi.
  - split; [intros [? ?]; discriminate|]. intros H. exfalso. unfold has_error in H.
    rewrite existsb_app in H. simpl in H. rewrite orb_true_r in H. discriminate.
Qed.

(** * unique indexes (C06) *)
Theorem unique_after_commit S d ops :
  db_unique S d = true -> db_unique S (commit d (transact S d ops)) = true.
Proof.
  intros Hu. unfold commit, transact. destruct (exec_ops S d d ops) as [[rs w] ok].
  destruct ok; simpl; [|exact Hu]. destruct (bool_decide (w = d)); simpl; [exact Hu|].
  destruct (process_refs S w) as [w'| |]; simpl; try exact Hu.
  destruct (db_unique S w') eqn:Hw; simpl; [exact Hw|exact Hu].
Qed.

Theorem unique_history S : forall h d, db_unique S d = true -> db_unique S (run_history S d h) = true.
Proof. induction h as [|ops h IH]; intros d Hd; simpl; [exact Hd|]. apply IH. apply unique_after_commit. exact Hd. Qed.

(** a transaction whose final state has a duplicate is rejected with a
    constraint violation; acceptance depends on the final state only *)
Theorem duplicate_rejected S d ops rs w w' :
  exec_ops S d d ops = (rs, w, true) -> w <> d -> process_refs S w = Ok w' -> db_unique S w' = false ->
  transact S d ops = (rs ++ [RErr EConstraint], None).
Proof.
  intros He Hne Hp Hu. unfold transact. rewrite He. simpl.
  rewrite bool_decide_eq_false_2 by exact Hne. rewrite Hp, Hu. reflexivity.
Qed.

Theorem accepted_iff_final_state_ok S d ops rs w :
  exec_ops S d d ops = (rs, w, true) -> w <> d ->
  (is_Some (snd (transact S d ops)) <-> exists w', process_refs S w = Ok w' /\ db_unique S w' = true).
Proof.
  intros He Hne. unfold transact. rewrite He. simpl. rewrite bool_decide_eq_false_2 by exact Hne.
  destruct (process_refs S w) as [w'| |]; simpl.
  - destruct (db_unique S w') eqn:Hu; simpl; split; eauto.
    + intros [? ?]; discriminate.
    + intros (w'' & [= <-] & Hu'). congruence.
  - split; [intros [? ?]; discriminate|intros (? & ? & _); discriminate].
  - split; [intros [? ?]; discriminate|intros (? & ? & _); discriminate].
Qed.

(** * wait: what "the selected rows equal the expected rows" compares *)

(** the value an expected row stands for in a column: what it says, or - when
    the operation names no columns - the default of the column *)
Definition expected_value (T : table) (all : bool) (expected : row) (c : sym) : option (option value) :=
  match expected !! c with
  | Some x => Some (Some x)
  | None => if all then match find_col T c with
                         | Some C => Some (Some (default_value (c_ty C)))
                         | None => None
                         end
            else None
  end.

(** a selected row matches an expected row exactly when it holds, in every
    compared column, the value the expected row stands for there; a column
    for which it stands for nothing (left out, with "columns" given) is not
    compared *)
Theorem wait_matches_spec T all cols found expected :
  wait_matches T all cols found expected = true <->
  forall c, c ∈ cols -> forall v, expected_value T all expected c = Some v -> found !! c = v.
Proof.
  unfold wait_matches, expected_value. rewrite forallb_forall. split.
  - intros H c Hc v Hv. specialize (H c). rewrite <- elem_of_list_In in H. specialize (H Hc).
    destruct (expected !! c) as [x|].
    + inversion Hv; subst. apply bool_decide_eq_true in H. exact H.
    + destruct all; [|discriminate]. destruct (find_col T c) as [C|]; [|discriminate].
      inversion Hv; subst. apply bool_decide_eq_true in H. exact H.
  - intros H c Hc. apply elem_of_list_In in Hc. specialize (H c Hc).
    destruct (expected !! c) as [x|].
    + apply bool_decide_eq_true. apply H. reflexivity.
    + destruct all; [|reflexivity]. destruct (find_col T c) as [C|]; [|reflexivity].
      apply bool_decide_eq_true. apply H. reflexivity.
Qed.

(** so a compare-and-swap guard that leaves a column out is not vacuous: a row
    whose value in that column is not the default does not match *)
Corollary wait_all_columns_left_out_is_default T cols found expected c C v :
  c ∈ cols -> expected !! c = None -> find_col T c = Some C ->
  found !! c = Some v -> v <> default_value (c_ty C) ->
  wait_matches T true cols found expected = false.
Proof.
  intros Hc He HC Hf Hv. apply not_true_is_false. intros H.
  apply (proj1 (wait_matches_spec T true cols found expected)) with (c := c) (v := Some (default_value (c_ty C))) in H; [|exact Hc|].
  - rewrite Hf in H. inversion H; subst. apply Hv. reflexivity.
  - unfold expected_value. rewrite He, HC. reflexivity.
Qed.
