(** Model of the model <-> row mapping: ovsdb/bindings.go (NativeToOvs,
    OvsToNative, IsDefaultValue) and mapper/mapper.go (NewRow, GetRowData).
    Native field values are list-layer values ([lvalue]: a Go scalar, pointer,
    slice or map); OVS-side values are the generic values of the wire model.
    Go's reflect.Type comparison is the constructor/atomic-type check
    [native_has_type] (an empty slice or map carries its Go type invisibly;
    the model accepts it for any element type). Integers are unbounded here:
    what float64 does to integers beyond 2^53 is outside the model. *)
From LOV Require Export Base.Schema Wire.Decode Wire.Encode.

Definition atom_to_g (a : atom) : gval :=
  match a with
  | AInt z => GNum z 1
  | AReal n d => GNum n d
  | ABool b => GBool b
  | AStr s => GStr s
  | AUuid u => GUuid u
  end.

(** OvsToNativeAtomic *)
Definition g_to_atom (t : atype) (g : gval) : res atom :=
  match t, g with
  | TInt, GNum n 1 => Ok (AInt n)
  | TReal, GNum n d => Ok (AReal n d)
  | TBool, GBool b => Ok (ABool b)
  | TStr, GStr s => Ok (AStr s)
  | TUuid, GUuid u => Ok (AUuid u)
  | _, _ => Err EOther
  end.

Definition native_has_type (ct : colty) (v : lvalue) : bool :=
  match ct_kind ct, v with
  | KAtom, LAtom a => atom_ok (ct_key ct) a
  | KOpt, LOpt None => true
  | KOpt, LOpt (Some a) => atom_ok (ct_key ct) a
  | KSet, LSet l => forallb (atom_ok (ct_key ct)) l
  | KMap, LMap l =>
      match ct_val ct with
      | Some vt => forallb (fun kv => atom_ok (ct_key ct) kv.1 && atom_ok vt kv.2) l
      | None => false
      end
  | _, _ => false
  end.

(** NativeToOvs *)
Definition native_to_ovs (ct : colty) (v : lvalue) : res gval :=
  if negb (native_has_type ct v) then Err EOther
  else match v with
       | LAtom a => Ok (atom_to_g a)
       | LOpt None => Ok (GSet [])
       | LOpt (Some a) => Ok (GSet [atom_to_g a])
       | LSet l => Ok (GSet (map atom_to_g l))
       | LMap l => Ok (GMap (map (fun kv => (atom_to_g kv.1, atom_to_g kv.2)) l))
       end.

(** a Go map keeps one entry per key: later pairs overwrite *)
Fixpoint lmap_put (m : list (atom * atom)) (k v : atom) : list (atom * atom) :=
  match m with
  | [] => [(k, v)]
  | (k', v') :: m' => if bool_decide (k' = k) then (k', v) :: m' else (k', v') :: lmap_put m' k v
  end.

(** OvsToNative *)
Definition ovs_to_native (ct : colty) (g : gval) : res lvalue :=
  let kt := bt_ty (ct_key ct) in
  match ct_kind ct with
  | KAtom => a <- g_to_atom kt g ;; Ok (LAtom a)
  | KOpt =>
      match g with
      | GSet [] => Ok (LOpt None)
      | GSet [x] => a <- g_to_atom kt x ;; Ok (LOpt (Some a))
      | GSet _ => Err EOther
      | _ => a <- g_to_atom kt g ;; Ok (LOpt (Some a))
      end
  | KSet =>
      match g with
      | GSet l => l' <- rmapM (g_to_atom kt) l ;; Ok (LSet l')
      | _ => a <- g_to_atom kt g ;; Ok (LSet [a])
      end
  | KMap =>
      match g, ct_val ct with
      | GMap l, Some vt =>
          m <- rfold (fun m kv => k <- g_to_atom kt kv.1 ;; x <- g_to_atom (bt_ty vt) kv.2 ;; Ok (lmap_put m k x)) l [] ;;
          Ok (LMap m)
      | _, _ => Err EOther
      end
  end.

(** IsDefaultValue (native side) *)
Definition s_zero_uuid : sym := 26%N.   (* "00000000-0000-0000-0000-000000000000" *)
Definition native_is_default (ct : colty) (v : lvalue) : bool :=
  match v with
  | LAtom (ABool _) => false      (* a boolean is never left out *)
  | LAtom (AUuid u) => N.eqb u s_empty || N.eqb u s_zero_uuid
  | LAtom a => bool_decide (a = atom_zero (bt_ty (ct_key ct)))
  | LOpt None => true
  | LOpt (Some _) => false
  | LSet l => Nat.eqb (length l) 0
  | LMap l => Nat.eqb (length l) 0
  end.

(** A model: one native value per column of the table, in column order;
    the _uuid field is handled separately by the callers. *)
Notation nmodel := (list (sym * lvalue)).

Fixpoint nm_get (m : nmodel) (c : sym) : option lvalue :=
  match m with [] => None | (c', v) :: m' => if N.eqb c' c then Some v else nm_get m' c end.
Fixpoint nm_set (m : nmodel) (c : sym) (v : lvalue) : nmodel :=
  match m with
  | [] => []
  | (c', v') :: m' => if N.eqb c' c then (c', v) :: m' else (c', v') :: nm_set m' c v
  end.

(** Mapper.NewRow without explicit fields: default values are left out *)
Definition new_row (T : table) (m : nmodel) : res (list (sym * gval)) :=
  rfold (fun r C =>
           match nm_get m (c_name C) with
           | None => Ok r
           | Some v =>
               if native_is_default (c_ty C) v then Ok r
               else g <- native_to_ovs (c_ty C) v ;; Ok (r ++ [(c_name C, g)])
           end) (t_cols T) [].

(** Mapper.NewRow with explicit fields: exactly the named columns, default values included *)
Definition new_row_fields (T : table) (m : nmodel) (fs : list sym) : res (list (sym * gval)) :=
  rfold (fun r C =>
           match nm_get m (c_name C) with
           | None => Ok r
           | Some v =>
               if negb (existsb (N.eqb (c_name C)) fs) then Ok r
               else g <- native_to_ovs (c_ty C) v ;; Ok (r ++ [(c_name C, g)])
           end) (t_cols T) [].

(** Mapper.GetRowData: columns missing from the row leave the field untouched *)
Definition get_row_data (T : table) (r : list (sym * gval)) (m : nmodel) : res nmodel :=
  rfold (fun m C =>
           match nm_get m (c_name C), obj_get r (c_name C) with
           | Some _, Some g => v <- ovs_to_native (c_ty C) g ;; Ok (nm_set m (c_name C) v)
           | _, _ => Ok m
           end) (t_cols T) m.

(** what a row value looks like after a trip through JSON: a singleton set is its element *)
Definition wire_nf (g : gval) : gval := match g with GSet [x] => x | _ => g end.

(** the whole path of the property: model -> row -> JSON -> row -> model *)
Definition through_json (vu : sym -> bool) (fuel : nat) (r : list (sym * gval)) : res (list (sym * gval)) :=
  dec_row fuel (enc_row vu r).
