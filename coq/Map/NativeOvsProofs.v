From LOV Require Import Map.NativeOvs Wire.RoundTrip Wire.DecodeProofs.

Lemma g_to_atom_to_g b a : atom_ok b a = true -> g_to_atom (bt_ty b) (atom_to_g a) = Ok a.
Proof. unfold atom_ok. destruct (bt_ty b), a; try discriminate; reflexivity. Qed.

Lemma atom_to_g_atomv a : is_atomv (atom_to_g a) = true.
Proof. destruct a; reflexivity. Qed.

Lemma gkey_eqb_refl a : gkey_eqb (atom_to_g a) (atom_to_g a) = true.
Proof.
  destruct a; cbn; auto using Z.eqb_refl, N.eqb_refl. destruct b; reflexivity.
Qed.

Lemma rmapM_g_to_atom b l :
  forallb (atom_ok b) l = true -> rmapM (g_to_atom (bt_ty b)) (map atom_to_g l) = Ok l.
Proof.
  induction l as [|a l IH]; [reflexivity|]. cbn [forallb map rmapM]. intros H.
  apply andb_prop in H as [Ha Hl]. rewrite (g_to_atom_to_g b a Ha). cbn [rbind].
  rewrite (IH Hl). reflexivity.
Qed.

(** map keys pairwise different as Go compares them *)
Definition lkeys_distinct (l : list (atom * atom)) : bool :=
  keys_distinct (map (fun kv => (atom_to_g kv.1, atom_to_g kv.2)) l).

Definition native_wf (v : lvalue) : bool :=
  match v with LMap l => lkeys_distinct l | _ => true end.

Lemma lmap_put_fresh m k v :
  forallb (fun q => negb (gkey_eqb (atom_to_g q.1) (atom_to_g k))) m = true ->
  lmap_put m k v = m ++ [(k, v)].
Proof.
  induction m as [|[k' v'] m IH]; [reflexivity|]. cbn. intros H.
  apply andb_prop in H as [H1 H2].
  destruct (bool_decide (k' = k)) eqn:E.
  - apply bool_decide_eq_true in E. subst. rewrite gkey_eqb_refl in H1. discriminate.
  - rewrite (IH H2). reflexivity.
Qed.

Lemma map_back kb vb l m0 :
  forallb (fun kv => atom_ok kb kv.1 && atom_ok vb kv.2) l = true ->
  lkeys_distinct l = true ->
  forallb (fun p => forallb (fun q => negb (gkey_eqb (atom_to_g p.1) (atom_to_g q.1))) l) m0 = true ->
  rfold (fun m kv => k <- g_to_atom (bt_ty kb) kv.1 ;; x <- g_to_atom (bt_ty vb) kv.2 ;; Ok (lmap_put m k x))
        (map (fun kv => (atom_to_g kv.1, atom_to_g kv.2)) l) m0 = Ok (m0 ++ l).
Proof.
  revert m0. induction l as [|[k v] l IH]; intros m0 Hty Hd Hm0.
  - cbn. rewrite app_nil_r. reflexivity.
  - cbn [map rfold fst snd]. cbn in Hty. apply andb_prop in Hty as [Hkv Hl].
    apply andb_prop in Hkv as [Hk Hv].
    unfold lkeys_distinct in Hd. cbn in Hd. apply andb_prop in Hd as [Hd1 Hd2].
    rewrite (g_to_atom_to_g kb k Hk). cbn [rbind]. rewrite (g_to_atom_to_g vb v Hv). cbn [rbind].
    rewrite lmap_put_fresh.
    2:{ rewrite forallb_forall in Hm0 |- *. intros q Hq. specialize (Hm0 q Hq).
        cbn in Hm0. apply andb_prop in Hm0 as [H _]. exact H. }
    rewrite IH; [rewrite <- app_assoc; reflexivity|exact Hl|exact Hd2|].
    rewrite forallb_app. apply andb_true_intro. split.
    + rewrite forallb_forall in Hm0 |- *. intros q Hq. specialize (Hm0 q Hq).
      cbn in Hm0. apply andb_prop in Hm0 as [_ H]. exact H.
    + cbn. rewrite andb_true_r.
      rewrite forallb_forall in Hd1 |- *. intros q Hq.
      apply (Hd1 (atom_to_g q.1, atom_to_g q.2)).
      apply in_map_iff. exists q. split; [reflexivity|exact Hq].
Qed.

(** what JSON does to the OVS-side value of a column *)
Lemma json_trip vu f ct v g :
  native_to_ovs ct v = Ok g -> native_wf v = true ->
  notation (5 + f) (enc_value vu g) = Ok (wire_nf g).
Proof.
  unfold native_to_ovs. destruct (native_has_type ct v) eqn:Hty; [|discriminate]. cbn [negb].
  destruct v as [a|[a|]|l|l]; intros [= <-] Hwf.
  - cbn [wire_nf]. destruct a; try reflexivity. apply (notation_atom vu). reflexivity.
  - cbn [wire_nf]. unfold enc_value, enc_set. apply (notation_atom vu). apply atom_to_g_atomv.
  - reflexivity.
  - destruct l as [|a [|b r]].
    + reflexivity.
    + cbn [map wire_nf]. unfold enc_value, enc_set. apply (notation_atom vu). apply atom_to_g_atomv.
    + cbn [wire_nf]. apply (value_roundtrip vu). cbn [wf_value].
      apply andb_true_intro. split; [|reflexivity].
      unfold wf_set. rewrite forallb_forall. intros x Hx. apply in_map_iff in Hx as (y & <- & _).
      apply atom_to_g_atomv.
  - cbn [wire_nf]. apply (value_roundtrip vu). cbn [wf_value].
    apply andb_true_intro. split; [|exact Hwf].
    rewrite forallb_forall. intros x Hx. apply in_map_iff in Hx as (y & <- & _). cbn.
    rewrite atom_to_g_atomv. destruct (y.2); reflexivity.
Qed.

Lemma atom_to_g_not_set a : forall l, atom_to_g a <> GSet l.
Proof. destruct a; discriminate. Qed.

Lemma wire_nf_atom a : wire_nf (atom_to_g a) = atom_to_g a.
Proof. destruct a; reflexivity. Qed.

Lemma opt_branch t a b : g_to_atom t (atom_to_g a) = Ok b ->
  match atom_to_g a with
  | GSet [] => Ok (LOpt None)
  | GSet [x] => a' <- g_to_atom t x ;; Ok (LOpt (Some a'))
  | GSet _ => Err EOther
  | _ => a' <- g_to_atom t (atom_to_g a) ;; Ok (LOpt (Some a'))
  end = Ok (LOpt (Some b)).
Proof. intros H. destruct a; cbn [atom_to_g] in *; rewrite H; reflexivity. Qed.

Lemma set_branch t a b : g_to_atom t (atom_to_g a) = Ok b ->
  match atom_to_g a with
  | GSet l => l' <- rmapM (g_to_atom t) l ;; Ok (LSet l')
  | _ => a' <- g_to_atom t (atom_to_g a) ;; Ok (LSet [a'])
  end = Ok (LSet [b]).
Proof. intros H. destruct a; cbn [atom_to_g] in *; rewrite H; reflexivity. Qed.

Lemma native_back ct v g :
  native_to_ovs ct v = Ok g -> native_wf v = true -> ovs_to_native ct (wire_nf g) = Ok v.
Proof.
  unfold native_to_ovs. destruct (native_has_type ct v) eqn:Hty; [|discriminate]. cbn [negb].
  unfold native_has_type in Hty. unfold ovs_to_native.
  destruct (ct_kind ct), v as [a|[a|]|l|l]; try discriminate; intros [= <-] Hwf.
  - rewrite wire_nf_atom, (g_to_atom_to_g _ _ Hty). reflexivity.
  - cbn [wire_nf]. apply opt_branch. apply g_to_atom_to_g. exact Hty.
  - reflexivity.
  - destruct l as [|a [|b r]].
    + reflexivity.
    + cbn [map wire_nf]. cbn in Hty. rewrite andb_true_r in Hty.
      apply set_branch. apply g_to_atom_to_g. exact Hty.
    + change (wire_nf (GSet (map atom_to_g (a :: b :: r)))) with (GSet (map atom_to_g (a :: b :: r))).
      cbv iota beta. rewrite (rmapM_g_to_atom _ _ Hty). reflexivity.
  - cbn [wire_nf]. destruct (ct_val ct) as [vt|]; [|discriminate].
    rewrite (map_back (ct_key ct) vt l [] Hty Hwf eq_refl). reflexivity.
Qed.

(** the value-level round trip of the property *)
Theorem column_value_roundtrip vu f ct v :
  native_has_type ct v = true -> native_wf v = true ->
  (g <- native_to_ovs ct v ;; g' <- notation (5 + f) (enc_value vu g) ;; ovs_to_native ct g') = Ok v.
Proof.
  intros Hty Hwf. destruct (native_to_ovs ct v) as [g| |] eqn:E.
  - cbn [rbind]. rewrite (json_trip vu f ct v g E Hwf). cbn [rbind]. exact (native_back ct v g E Hwf).
  - unfold native_to_ovs in E. rewrite Hty in E. destruct v as [|[]| |]; discriminate.
  - unfold native_to_ovs in E. rewrite Hty in E. destruct v as [|[]| |]; discriminate.
Qed.

(** a value of the wrong Go type is rejected, not converted *)
Theorem mismatch_rejected ct v : native_has_type ct v = false -> native_to_ovs ct v = Err EOther.
Proof. unfold native_to_ovs. intros ->. reflexivity. Qed.

Lemma g_to_atom_typed b g a : g_to_atom (bt_ty b) g = Ok a -> atom_ok b a = true /\ atom_to_g a = g.
Proof.
  unfold atom_ok. destruct (bt_ty b), g; try discriminate; cbn.
  - destruct d; try discriminate. intros [= <-]. split; reflexivity.
  - intros [= <-]. split; reflexivity.
  - intros [= <-]. split; reflexivity.
  - intros [= <-]. split; reflexivity.
  - intros [= <-]. split; reflexivity.
Qed.

(** whatever OvsToNative accepts for an atomic / optional / set column is a value of the column's type that
    denotes the same OVS value: nothing is converted *)
Theorem accepted_atom_is_typed ct g a :
  ct_kind ct = KAtom -> ovs_to_native ct g = Ok (LAtom a) -> atom_ok (ct_key ct) a = true /\ atom_to_g a = g.
Proof.
  unfold ovs_to_native. intros ->. destruct (g_to_atom _ g) eqn:E; try discriminate.
  cbn. intros [= <-]. exact (g_to_atom_typed _ _ _ E).
Qed.

(** columns absent from the row leave the field untouched *)
Lemma nm_get_set_other m c c' v : c' <> c -> nm_get (nm_set m c v) c' = nm_get m c'.
Proof.
  intros Hne. induction m as [|[k x] m IH]; [reflexivity|]. cbn.
  destruct (N.eqb_spec k c) as [->|Hk]; cbn.
  - destruct (N.eqb_spec c c'); [congruence|]. reflexivity.
  - destruct (N.eqb_spec k c'); [reflexivity|exact IH].
Qed.

Theorem absent_column_untouched T r m m' c :
  obj_get r c = None -> get_row_data T r m = Ok m' -> nm_get m' c = nm_get m c.
Proof.
  unfold get_row_data. revert m. induction (t_cols T) as [|C cols IH]; intros m Habs.
  - cbn. intros [= <-]. reflexivity.
  - cbn [rfold]. destruct (nm_get m (c_name C)) eqn:Eg; [|cbn [rbind]; apply IH; exact Habs].
    destruct (obj_get r (c_name C)) eqn:Er; [|cbn [rbind]; apply IH; exact Habs].
    destruct (ovs_to_native (c_ty C) g) as [v| |]; cbn [rbind]; try discriminate.
    intros H. rewrite (IH _ Habs H). apply nm_get_set_other.
    intros ->. rewrite Habs in Er. discriminate.
Qed.

(** non-vacuity: a map column value meeting the hypotheses *)
Example roundtrip_example :
  let ct := mkColTy KMap (mkBase TStr [] None) (Some (mkBase TUuid [] None)) 0 None in
  let v := LMap [(AStr 50%N, AUuid 60%N); (AStr 51%N, AUuid 61%N)] in
  native_has_type ct v = true /\ native_wf v = true.
Proof. split; reflexivity. Qed.

(** ** The whole model: NewRow, JSON, GetRowData into a fresh model *)

Definition default_native (ct : colty) : lvalue :=
  match ct_kind ct with
  | KAtom => LAtom (atom_zero (bt_ty (ct_key ct)))
  | KOpt => LOpt None
  | KSet => LSet []
  | KMap => LMap []
  end.

(** a model: one value per column, in column order *)
Definition model_of (cols : list column) (vals : list lvalue) : nmodel := zip (map c_name cols) vals.
Definition fresh_model (cols : list column) : nmodel := map (fun C => (c_name C, default_native (c_ty C))) cols.

(** the all-zero uuid is a recorded finding: it is treated as default and comes back as "" *)
Definition not_zero_uuid (v : lvalue) : bool :=
  match v with LAtom (AUuid u) => negb (N.eqb u s_zero_uuid) | _ => true end.

Lemma default_is_default ct v :
  native_has_type ct v = true -> not_zero_uuid v = true -> native_is_default ct v = true -> v = default_native ct.
Proof.
  unfold native_has_type, default_native. destruct (ct_kind ct), v as [a|[a|]|l|l]; try discriminate; intros Hty Hz Hd.
  - cbn in Hd. destruct a; try discriminate.
    + apply bool_decide_eq_true in Hd. exact (f_equal LAtom Hd).
    + apply bool_decide_eq_true in Hd. exact (f_equal LAtom Hd).
    + apply bool_decide_eq_true in Hd. exact (f_equal LAtom Hd).
    + cbn in Hz, Hty. unfold atom_ok in Hty. destruct (bt_ty (ct_key ct)); try discriminate.
      apply orb_prop in Hd as [Hd|Hd]; apply N.eqb_eq in Hd; subst; [reflexivity|]. rewrite N.eqb_refl in Hz. discriminate.
  - reflexivity.
  - cbn in Hd. destruct l; [reflexivity|discriminate].
  - cbn in Hd. destruct l; [reflexivity|discriminate].
Qed.

(** one column of the path: what GetRowData stores for it *)
Definition column_back (vu : sym -> bool) (f : nat) (ct : colty) (v : lvalue) : res lvalue :=
  if native_is_default ct v then Ok (default_native ct)
  else g <- native_to_ovs ct v ;; g' <- notation (5 + f) (enc_value vu g) ;; ovs_to_native ct g'.

(** every field comes back: the per-column statement behind the whole-model round trip *)
Theorem model_field_roundtrip vu f ct v :
  native_has_type ct v = true -> native_wf v = true -> not_zero_uuid v = true ->
  column_back vu f ct v = Ok v.
Proof.
  intros Hty Hwf Hz. unfold column_back. destruct (native_is_default ct v) eqn:Hd.
  - rewrite <- (default_is_default ct v Hty Hz Hd). reflexivity.
  - apply column_value_roundtrip; assumption.
Qed.

(** *** NewRow as a whole *)
Definition row_entry (m : nmodel) (C : column) : list (sym * gval) :=
  match nm_get m (c_name C) with
  | Some v => if native_is_default (c_ty C) v then []
              else match native_to_ovs (c_ty C) v with Ok g => [(c_name C, g)] | _ => [] end
  | None => []
  end.

Definition typed_model (cols : list column) (m : nmodel) : Prop :=
  forall C v, C ∈ cols -> nm_get m (c_name C) = Some v ->
    native_has_type (c_ty C) v = true /\ native_wf v = true /\ not_zero_uuid v = true.

Lemma native_to_ovs_typed ct v : native_has_type ct v = true -> exists g, native_to_ovs ct v = Ok g.
Proof. intros H. unfold native_to_ovs. rewrite H. destruct v as [|[]| |]; eauto. Qed.

Lemma new_row_acc m cols acc :
  typed_model cols m ->
  rfold (fun r C =>
           match nm_get m (c_name C) with
           | None => Ok r
           | Some v =>
               if native_is_default (c_ty C) v then Ok r
               else g <- native_to_ovs (c_ty C) v ;; Ok (r ++ [(c_name C, g)])
           end) cols acc = Ok (acc ++ (cols ≫= row_entry m)).
Proof.
  revert acc. induction cols as [|C cols IH]; intros acc Hty; cbn.
  - rewrite app_nil_r. reflexivity.
  - assert (Hty' : typed_model cols m) by (intros C' v HC; apply Hty; set_solver).
    unfold row_entry at 1. destruct (nm_get m (c_name C)) as [v|] eqn:E.
    + destruct (native_is_default (c_ty C) v); cbn.
      * apply IH, Hty'.
      * destruct (Hty C v) as (Ht & _); [set_solver|exact E|]. destruct (native_to_ovs_typed _ _ Ht) as [g Eg].
        rewrite Eg. cbn. rewrite IH by exact Hty'. rewrite <- app_assoc. reflexivity.
    + cbn. apply IH, Hty'.
Qed.

Theorem new_row_is T m : typed_model (t_cols T) m -> new_row T m = Ok (t_cols T ≫= row_entry m).
Proof. intros H. unfold new_row. rewrite (new_row_acc m (t_cols T) [] H). reflexivity. Qed.

(** *** the row through JSON *)
Definition from_native (g : gval) : Prop := exists ct v, native_to_ovs ct v = Ok g /\ native_wf v = true.

Lemma row_through_json vu f r :
  Forall (fun kv => from_native kv.2) r ->
  through_json vu (5 + f) r = Ok (map (fun kv => (kv.1, wire_nf kv.2)) r).
Proof.
  unfold through_json, enc_row, dec_row. induction r as [|[k g] r IH]; intros H; [reflexivity|].
  inversion H as [|? ? (ct & v & Eg & Hwf) Hr]; subst. cbn [map rmapM fst snd].
  rewrite (json_trip vu f ct v g Eg Hwf). cbn [rbind]. rewrite (IH Hr). reflexivity.
Qed.

(** *** GetRowData as a whole, field by field *)
Lemma nm_get_set_same m c v x : nm_get m c = Some x -> nm_get (nm_set m c v) c = Some v.
Proof.
  induction m as [|[k y] m IH]; cbn; [discriminate|].
  destruct (N.eqb_spec k c) as [->|Hk]; cbn.
  - intros _. rewrite N.eqb_refl. reflexivity.
  - intros H. destruct (N.eqb_spec k c); [congruence|]. apply IH, H.
Qed.

Lemma get_row_data_field cols r m m' c :
  NoDup (map c_name cols) ->
  rfold (fun m C =>
           match nm_get m (c_name C), obj_get r (c_name C) with
           | Some _, Some g => v <- ovs_to_native (c_ty C) g ;; Ok (nm_set m (c_name C) v)
           | _, _ => Ok m
           end) cols m = Ok m' ->
  forall C, C ∈ cols -> c_name C = c ->
    match nm_get m c, obj_get r c with
    | Some _, Some g => exists v, ovs_to_native (c_ty C) g = Ok v /\ nm_get m' c = Some v
    | _, _ => nm_get m' c = nm_get m c
    end.
Proof.
  revert m. induction cols as [|D cols IH]; intros m Hnd Hrun C HC Hc; [inversion HC|].
  cbn in Hnd. apply NoDup_cons in Hnd as [Hnotin Hnd]. cbn [rfold] in Hrun.
  set (stepD := match nm_get m (c_name D), obj_get r (c_name D) with
                | Some _, Some g => v <- ovs_to_native (c_ty D) g ;; Ok (nm_set m (c_name D) v)
                | _, _ => Ok m end) in Hrun.
  destruct stepD as [m1| |] eqn:E1; try discriminate. cbn [rbind] in Hrun.
  (* the rest of the columns does not touch a name that is not among them *)
  assert (Hrest : forall n, n ∉ map c_name cols -> nm_get m' n = nm_get m1 n).
  { clear -Hrun. revert m1 Hrun. induction cols as [|E cols IH2]; intros m1 Hrun n Hn; cbn in Hrun.
    - injection Hrun as <-. reflexivity.
    - destruct (nm_get m1 (c_name E)) eqn:G1; [destruct (obj_get r (c_name E)) eqn:G2|].
      + destruct (ovs_to_native (c_ty E) g) as [v| |]; try discriminate. cbn in Hrun.
        rewrite (IH2 _ Hrun n) by set_solver. apply nm_get_set_other. set_solver.
      + apply (IH2 _ Hrun). set_solver.
      + apply (IH2 _ Hrun). set_solver. }
  apply elem_of_cons in HC as [->|HC].
  - (* the column processed now *)
    subst c. rewrite (Hrest _ Hnotin). unfold stepD in E1.
    destruct (nm_get m (c_name D)) as [x|] eqn:G1; [destruct (obj_get r (c_name D)) as [g|] eqn:G2|].
    + destruct (ovs_to_native (c_ty D) g) as [v| |] eqn:Ev; try discriminate. injection E1 as <-.
      exists v. split; [reflexivity|]. apply (nm_get_set_same _ _ _ x G1).
    + injection E1 as <-. exact G1.
    + injection E1 as <-. exact G1.
  - (* a later column: the first step does not touch it *)
    assert (Hne : c_name D <> c).
    { intros Heq. apply Hnotin. rewrite Heq, <- Hc. apply elem_of_list_fmap. exists C. auto. }
    assert (Hm1 : nm_get m1 c = nm_get m c).
    { unfold stepD in E1. destruct (nm_get m (c_name D)); [destruct (obj_get r (c_name D))|]; try (injection E1 as <-; reflexivity).
      destruct (ovs_to_native (c_ty D) g) as [v| |]; try discriminate. injection E1 as <-. apply nm_get_set_other. congruence. }
    specialize (IH m1 Hnd Hrun C HC Hc). rewrite Hm1 in IH. exact IH.
Qed.

Lemma row_entry_names m C kv : kv ∈ row_entry m C -> kv.1 = c_name C.
Proof.
  unfold row_entry. destruct (nm_get m (c_name C)); [|intros H; inversion H].
  destruct (native_is_default _ _); [intros H; inversion H|].
  destruct (native_to_ovs _ _); try (intros H; inversion H; fail).
  intros H. apply elem_of_list_singleton in H as ->. reflexivity.
Qed.

Lemma obj_get_skip (l1 l2 : list (sym * gval)) k :
  (forall kv, kv ∈ l1 -> kv.1 <> k) -> obj_get (l1 ++ l2) k = obj_get l2 k.
Proof.
  induction l1 as [|[k' g] l1 IH]; intros H; [reflexivity|]. cbn.
  destruct (N.eqb_spec k' k) as [->|_]; [exfalso; apply (H (k, g)); [set_solver|reflexivity]|].
  apply IH. intros kv Hkv. apply H. set_solver.
Qed.

Lemma obj_get_none (l : list (sym * gval)) k : (forall kv, kv ∈ l -> kv.1 <> k) -> obj_get l k = None.
Proof. intros H. rewrite <- (app_nil_r l). rewrite obj_get_skip by exact H. reflexivity. Qed.

Lemma obj_get_row m cols C :
  NoDup (map c_name cols) -> C ∈ cols ->
  obj_get (map (fun kv => (kv.1, wire_nf kv.2)) (cols ≫= row_entry m)) (c_name C)
  = match row_entry m C with (_, g) :: _ => Some (wire_nf g) | [] => None end.
Proof.
  induction cols as [|D cols IH]; intros Hnd HC; [inversion HC|].
  cbn in Hnd. apply NoDup_cons in Hnd as [Hnotin Hnd]. cbn [mbind list_bind]. rewrite map_app.
  apply elem_of_cons in HC as [->|HC].
  - destruct (row_entry m D) as [|[k g] rest] eqn:E.
    + cbn. apply obj_get_none. intros kv Hkv. apply elem_of_list_fmap in Hkv as ([k g] & -> & Hin). cbn.
      apply elem_of_list_bind in Hin as (E' & Hkg & HE'). pose proof (row_entry_names m E' (k, g) Hkg) as Hn. cbn in Hn. subst k.
      intros Heq. apply Hnotin. rewrite <- Heq. apply elem_of_list_fmap. exists E'. auto.
    + assert (k = c_name D) by (apply (row_entry_names m D (k, g)); rewrite E; set_solver). subst k.
      cbn. rewrite N.eqb_refl. reflexivity.
  - rewrite obj_get_skip; [apply IH; assumption|].
    intros kv Hkv. apply elem_of_list_fmap in Hkv as ([k g] & -> & Hin). cbn.
    pose proof (row_entry_names m D (k, g) Hin) as Hn. cbn in Hn. subst k. intros Heq. apply Hnotin. rewrite Heq.
    apply elem_of_list_fmap. exists C. auto.
Qed.

Lemma nm_get_fresh cols C :
  NoDup (map c_name cols) -> C ∈ cols -> nm_get (fresh_model cols) (c_name C) = Some (default_native (c_ty C)).
Proof.
  induction cols as [|D cols IH]; intros Hnd HC; [inversion HC|].
  cbn in Hnd. apply NoDup_cons in Hnd as [Hnotin Hnd]. cbn.
  apply elem_of_cons in HC as [->|HC]; [rewrite N.eqb_refl; reflexivity|].
  destruct (N.eqb_spec (c_name D) (c_name C)) as [Heq|_]; [|apply IH; assumption].
  exfalso. apply Hnotin. rewrite Heq. apply elem_of_list_fmap. exists C. auto.
Qed.

Lemma row_from_native m cols :
  typed_model cols m -> Forall (fun kv => from_native kv.2) (cols ≫= row_entry m).
Proof.
  intros Hty. apply Forall_forall. intros [k g] Hin.
  apply elem_of_list_bind in Hin as (C & Hkg & HC). unfold row_entry in Hkg.
  destruct (nm_get m (c_name C)) as [v|] eqn:E; [|inversion Hkg].
  destruct (native_is_default _ _); [inversion Hkg|].
  destruct (native_to_ovs (c_ty C) v) as [g'| |] eqn:Eg; try (inversion Hkg; fail).
  apply elem_of_list_singleton in Hkg. injection Hkg as -> ->.
  destruct (Hty C v HC E) as (_ & Hwf & _). exists (c_ty C), v. auto.
Qed.

(** The property for a whole model: a model converted with NewRow, sent through JSON and read back with
    GetRowData into a fresh model has the same value in every mapped field. *)
Theorem model_roundtrip vu f T m r r' m' :
  NoDup (map c_name (t_cols T)) -> typed_model (t_cols T) m ->
  new_row T m = Ok r -> through_json vu (5 + f) r = Ok r' ->
  get_row_data T r' (fresh_model (t_cols T)) = Ok m' ->
  forall C v, C ∈ t_cols T -> nm_get m (c_name C) = Some v -> nm_get m' (c_name C) = Some v.
Proof.
  intros Hnd Hty Hr Hj Hg C v HC Hv.
  rewrite (new_row_is T m Hty) in Hr. injection Hr as <-.
  rewrite (row_through_json vu f _ (row_from_native m _ Hty)) in Hj. injection Hj as <-.
  pose proof (get_row_data_field (t_cols T) _ _ _ (c_name C) Hnd Hg C HC eq_refl) as H.
  rewrite (nm_get_fresh _ C Hnd HC), (obj_get_row m _ C Hnd HC) in H.
  destruct (Hty C v HC Hv) as (Ht & Hwf & Hz).
  unfold row_entry in H. rewrite Hv in H.
  destruct (native_is_default (c_ty C) v) eqn:Hd.
  - rewrite H. f_equal. symmetry. apply default_is_default; assumption.
  - destruct (native_to_ovs_typed _ _ Ht) as [g Eg]. rewrite Eg in H.
    destruct H as (v' & Ev' & Hm'). rewrite (native_back (c_ty C) v g Eg Hwf) in Ev'. injection Ev' as <-. exact Hm'.
Qed.
