From LOV Require Import Map.NativeOvs Wire.RoundTrip Wire.DecodeProofs.

Lemma g_to_atom_to_g b a : atom_ok b a = true -> g_to_atom (bt_ty b) (atom_to_g a) = Ok a.
Proof. unfold atom_ok. destruct (bt_ty b), a; try discriminate; reflexivity. Qed.

Lemma atom_to_g_atomv a : is_atomv (atom_to_g a) = true.
Proof. destruct a; reflexivity. Qed.

Lemma gkey_eqb_refl a : gkey_eqb (atom_to_g a) (atom_to_g a) = true.
Proof.
  destruct a; cbn; auto using Z.eqb_refl, N.eqb_refl. destruct b; reflexivity.
Qed.

Lemma rmapM_g_to_atom b l :
  forallb (atom_ok b) l = true -> rmapM (g_to_atom (bt_ty b)) (map atom_to_g l) = Ok l.
Proof.
  induction l as [|a l IH]; [reflexivity|]. cbn [forallb map rmapM]. intros H.
  apply andb_prop in H as [Ha Hl]. rewrite (g_to_atom_to_g b a Ha). cbn [rbind].
  rewrite (IH Hl). reflexivity.
Qed.

(** map keys pairwise different as Go compares them *)
Definition lkeys_distinct (l : list (atom * atom)) : bool :=
  keys_distinct (map (fun kv => (atom_to_g kv.1, atom_to_g kv.2)) l).

Definition native_wf (v : lvalue) : bool :=
  match v with LMap l => lkeys_distinct l | _ => true end.

Lemma lmap_put_fresh m k v :
  forallb (fun q => negb (gkey_eqb (atom_to_g q.1) (atom_to_g k))) m = true ->
  lmap_put m k v = m ++ [(k, v)].
Proof.
  induction m as [|[k' v'] m IH]; [reflexivity|]. cbn. intros H.
  apply andb_prop in H as [H1 H2].
  destruct (bool_decide (k' = k)) eqn:E.
  - apply bool_decide_eq_true in E. subst. rewrite gkey_eqb_refl in H1. discriminate.
  - rewrite (IH H2). reflexivity.
Qed.

Lemma map_back kb vb l m0 :
  forallb (fun kv => atom_ok kb kv.1 && atom_ok vb kv.2) l = true ->
  lkeys_distinct l = true ->
  forallb (fun p => forallb (fun q => negb (gkey_eqb (atom_to_g p.1) (atom_to_g q.1))) l) m0 = true ->
  rfold (fun m kv => k <- g_to_atom (bt_ty kb) kv.1 ;; x <- g_to_atom (bt_ty vb) kv.2 ;; Ok (lmap_put m k x))
        (map (fun kv => (atom_to_g kv.1, atom_to_g kv.2)) l) m0 = Ok (m0 ++ l).
Proof.
  revert m0. induction l as [|[k v] l IH]; intros m0 Hty Hd Hm0.
  - cbn. rewrite app_nil_r. reflexivity.
  - cbn [map rfold fst snd]. cbn in Hty. apply andb_prop in Hty as [Hkv Hl].
    apply andb_prop in Hkv as [Hk Hv].
    unfold lkeys_distinct in Hd. cbn in Hd. apply andb_prop in Hd as [Hd1 Hd2].
    rewrite (g_to_atom_to_g kb k Hk). cbn [rbind]. rewrite (g_to_atom_to_g vb v Hv). cbn [rbind].
    rewrite lmap_put_fresh.
    2:{ rewrite forallb_forall in Hm0 |- *. intros q Hq. specialize (Hm0 q Hq).
        cbn in Hm0. apply andb_prop in Hm0 as [H _]. exact H. }
    rewrite IH; [rewrite <- app_assoc; reflexivity|exact Hl|exact Hd2|].
    rewrite forallb_app. apply andb_true_intro. split.
    + rewrite forallb_forall in Hm0 |- *. intros q Hq. specialize (Hm0 q Hq).
      cbn in Hm0. apply andb_prop in Hm0 as [_ H]. exact H.
    + cbn. rewrite andb_true_r.
      rewrite forallb_forall in Hd1 |- *. intros q Hq.
      apply (Hd1 (atom_to_g q.1, atom_to_g q.2)).
      apply in_map_iff. exists q. split; [reflexivity|exact Hq].
Qed.

(** what JSON does to the OVS-side value of a column *)
Lemma json_trip vu f ct v g :
  native_to_ovs ct v = Ok g -> native_wf v = true ->
  notation (5 + f) (enc_value vu g) = Ok (wire_nf g).
Proof.
  unfold native_to_ovs. destruct (native_has_type ct v) eqn:Hty; [|discriminate]. cbn [negb].
  destruct v as [a|[a|]|l|l]; intros [= <-] Hwf.
  - cbn [wire_nf]. destruct a; try reflexivity. apply (notation_atom vu). reflexivity.
  - cbn [wire_nf]. unfold enc_value, enc_set. apply (notation_atom vu). apply atom_to_g_atomv.
  - reflexivity.
  - destruct l as [|a [|b r]].
    + reflexivity.
    + cbn [map wire_nf]. unfold enc_value, enc_set. apply (notation_atom vu). apply atom_to_g_atomv.
    + cbn [wire_nf]. apply (value_roundtrip vu). cbn [wf_value].
      apply andb_true_intro. split; [|reflexivity].
      unfold wf_set. rewrite forallb_forall. intros x Hx. apply in_map_iff in Hx as (y & <- & _).
      apply atom_to_g_atomv.
  - cbn [wire_nf]. apply (value_roundtrip vu). cbn [wf_value].
    apply andb_true_intro. split; [|exact Hwf].
    rewrite forallb_forall. intros x Hx. apply in_map_iff in Hx as (y & <- & _). cbn.
    rewrite atom_to_g_atomv. destruct (y.2); reflexivity.
Qed.

Lemma atom_to_g_not_set a : forall l, atom_to_g a <> GSet l.
Proof. destruct a; discriminate. Qed.

Lemma wire_nf_atom a : wire_nf (atom_to_g a) = atom_to_g a.
Proof. destruct a; reflexivity. Qed.

Lemma opt_branch t a b : g_to_atom t (atom_to_g a) = Ok b ->
  match atom_to_g a with
  | GSet [] => Ok (LOpt None)
  | GSet [x] => a' <- g_to_atom t x ;; Ok (LOpt (Some a'))
  | GSet _ => Err EOther
  | _ => a' <- g_to_atom t (atom_to_g a) ;; Ok (LOpt (Some a'))
  end = Ok (LOpt (Some b)).
Proof. intros H. destruct a; cbn [atom_to_g] in *; rewrite H; reflexivity. Qed.

Lemma set_branch t a b : g_to_atom t (atom_to_g a) = Ok b ->
  match atom_to_g a with
  | GSet l => l' <- rmapM (g_to_atom t) l ;; Ok (LSet l')
  | _ => a' <- g_to_atom t (atom_to_g a) ;; Ok (LSet [a'])
  end = Ok (LSet [b]).
Proof. intros H. destruct a; cbn [atom_to_g] in *; rewrite H; reflexivity. Qed.

Lemma native_back ct v g :
  native_to_ovs ct v = Ok g -> native_wf v = true -> ovs_to_native ct (wire_nf g) = Ok v.
Proof.
  unfold native_to_ovs. destruct (native_has_type ct v) eqn:Hty; [|discriminate]. cbn [negb].
  unfold native_has_type in Hty. unfold ovs_to_native.
  destruct (ct_kind ct), v as [a|[a|]|l|l]; try discriminate; intros [= <-] Hwf.
  - rewrite wire_nf_atom, (g_to_atom_to_g _ _ Hty). reflexivity.
  - cbn [wire_nf]. apply opt_branch. apply g_to_atom_to_g. exact Hty.
  - reflexivity.
  - destruct l as [|a [|b r]].
    + reflexivity.
    + cbn [map wire_nf]. cbn in Hty. rewrite andb_true_r in Hty.
      apply set_branch. apply g_to_atom_to_g. exact Hty.
    + change (wire_nf (GSet (map atom_to_g (a :: b :: r)))) with (GSet (map atom_to_g (a :: b :: r))).
      cbv iota beta. rewrite (rmapM_g_to_atom _ _ Hty). reflexivity.
  - cbn [wire_nf]. destruct (ct_val ct) as [vt|]; [|discriminate].
    rewrite (map_back (ct_key ct) vt l [] Hty Hwf eq_refl). reflexivity.
Qed.

(** the value-level round trip of the property *)
Theorem column_value_roundtrip vu f ct v :
  native_has_type ct v = true -> native_wf v = true ->
  (g <- native_to_ovs ct v ;; g' <- notation (5 + f) (enc_value vu g) ;; ovs_to_native ct g') = Ok v.
Proof.
  intros Hty Hwf. destruct (native_to_ovs ct v) as [g| |] eqn:E.
  - cbn [rbind]. rewrite (json_trip vu f ct v g E Hwf). cbn [rbind]. exact (native_back ct v g E Hwf).
  - unfold native_to_ovs in E. rewrite Hty in E. destruct v as [|[]| |]; discriminate.
  - unfold native_to_ovs in E. rewrite Hty in E. destruct v as [|[]| |]; discriminate.
Qed.

(** a value of the wrong Go type is rejected, not converted *)
Theorem mismatch_rejected ct v : native_has_type ct v = false -> native_to_ovs ct v = Err EOther.
Proof. unfold native_to_ovs. intros ->. reflexivity. Qed.

Lemma g_to_atom_typed b g a : g_to_atom (bt_ty b) g = Ok a -> atom_ok b a = true /\ atom_to_g a = g.
Proof.
  unfold atom_ok. destruct (bt_ty b), g; try discriminate; cbn.
  - destruct d; try discriminate. intros [= <-]. split; reflexivity.
  - intros [= <-]. split; reflexivity.
  - intros [= <-]. split; reflexivity.
  - intros [= <-]. split; reflexivity.
  - intros [= <-]. split; reflexivity.
Qed.

(** whatever OvsToNative accepts for an atomic / optional / set column is a value of the column's type that
    denotes the same OVS value: nothing is converted *)
Theorem accepted_atom_is_typed ct g a :
  ct_kind ct = KAtom -> ovs_to_native ct g = Ok (LAtom a) -> atom_ok (ct_key ct) a = true /\ atom_to_g a = g.
Proof.
  unfold ovs_to_native. intros ->. destruct (g_to_atom _ g) eqn:E; try discriminate.
  cbn. intros [= <-]. exact (g_to_atom_typed _ _ _ E).
Qed.

(** columns absent from the row leave the field untouched *)
Lemma nm_get_set_other m c c' v : c' <> c -> nm_get (nm_set m c v) c' = nm_get m c'.
Proof.
  intros Hne. induction m as [|[k x] m IH]; [reflexivity|]. cbn.
  destruct (N.eqb_spec k c) as [->|Hk]; cbn.
  - destruct (N.eqb_spec c c'); [congruence|]. reflexivity.
  - destruct (N.eqb_spec k c'); [reflexivity|exact IH].
Qed.

Theorem absent_column_untouched T r m m' c :
  obj_get r c = None -> get_row_data T r m = Ok m' -> nm_get m' c = nm_get m c.
Proof.
  unfold get_row_data. revert m. induction (t_cols T) as [|C cols IH]; intros m Habs.
  - cbn. intros [= <-]. reflexivity.
  - cbn [rfold]. destruct (nm_get m (c_name C)) eqn:Eg; [|cbn [rbind]; apply IH; exact Habs].
    destruct (obj_get r (c_name C)) eqn:Er; [|cbn [rbind]; apply IH; exact Habs].
    destruct (ovs_to_native (c_ty C) g) as [v| |]; cbn [rbind]; try discriminate.
    intros H. rewrite (IH _ Habs H). apply nm_get_set_other.
    intros ->. rewrite Habs in Er. discriminate.
Qed.

(** non-vacuity: a map column value meeting the hypotheses *)
Example roundtrip_example :
  let ct := mkColTy KMap (mkBase TStr [] None) (Some (mkBase TUuid [] None)) 0 None in
  let v := LMap [(AStr 50%N, AUuid 60%N); (AStr 51%N, AUuid 61%N)] in
  native_has_type ct v = true /\ native_wf v = true.
Proof. split; reflexivity. Qed.
