(** C11: aggregating successive updates of one row equals the single net
    update. *)
From LOV Require Export Upd.Merge Upd.DiffProofs.

Definition row_ty (r : row) : gmap sym kind := kind_of_value <$> r.
Definition compat (a b : row) : Prop := row_ty a = row_ty b.

Lemma compat_lookup a b c : compat a b ->
  match a !! c, b !! c with
  | Some x, Some y => same_kind x y
  | None, None => True
  | _, _ => False
  end.
Proof.
  unfold compat, row_ty. intros H.
  assert (Hc : (kind_of_value <$> a) !! c = (kind_of_value <$> b) !! c) by (rewrite H; reflexivity).
  rewrite !lookup_fmap in Hc.
  revert Hc. destruct (a !! c), (b !! c); intros Hc; simplify_eq/=; auto.
Qed.

Lemma lookup_row_diff o n c :
  row_diff o n !! c = match o !! c, n !! c with Some x, Some y => vdiff x y | _, _ => None end.
Proof. unfold row_diff. rewrite lookup_merge. destruct (o !! c), (n !! c); reflexivity. Qed.

Lemma row_diff_empty_iff o n : compat o n -> (row_diff o n = ∅ <-> o = n).
Proof.
  intros Hc. split.
  - intros H. apply map_eq. intros c.
    assert (Hk : row_diff o n !! c = None) by (rewrite H; apply lookup_empty).
    rewrite lookup_row_diff in Hk. pose proof (compat_lookup _ _ c Hc) as Hl.
    destruct (o !! c) as [x|], (n !! c) as [y|]; try tauto.
    f_equal. apply (proj1 (vdiff_none_iff x y Hl)). exact Hk.
  - intros ->. apply map_eq. intros c. rewrite lookup_row_diff, lookup_empty.
    destruct (n !! c) as [x|]; [|reflexivity].
    apply vdiff_none_iff; reflexivity.
Qed.

Lemma lookup_row_apply r d c :
  row_apply r d !! c = match r !! c with Some x => Some (vapply x (d !! c)) | None => None end.
Proof. unfold row_apply. rewrite lookup_merge. destruct (r !! c), (d !! c); reflexivity. Qed.

Lemma row_apply_diff o n : compat o n -> row_apply o (row_diff o n) = n.
Proof.
  intros Hc. apply map_eq. intros c. rewrite lookup_row_apply, lookup_row_diff.
  pose proof (compat_lookup _ _ c Hc) as Hl.
  destruct (o !! c) as [x|], (n !! c) as [y|]; try tauto.
  f_equal. apply vapply_vdiff. exact Hl.
Qed.

Lemma lookup_merge_mod o a b c :
  merge_mod o a b !! c =
  match o !! c with
  | Some o' => vmerge o' (a !! c) (b !! c)
  | None => match b !! c with Some _ => b !! c | None => a !! c end
  end.
Proof. unfold merge_mod. rewrite lookup_merge3 by reflexivity. reflexivity. Qed.

Lemma merge_mod_diff o m n : compat o m -> compat m n ->
  merge_mod o (row_diff o m) (row_diff m n) = row_diff o n.
Proof.
  intros H1 H2. apply map_eq. intros c.
  rewrite lookup_merge_mod, !lookup_row_diff.
  pose proof (compat_lookup _ _ c H1) as L1. pose proof (compat_lookup _ _ c H2) as L2.
  destruct (o !! c) as [x|], (m !! c) as [y|], (n !! c) as [z|]; try tauto.
  apply vmerge_vdiff; assumption.
Qed.

Definition typed (τ : gmap sym kind) (s : option row) : Prop :=
  match s with Some r => row_ty r = τ | None => True end.

Lemma typed_compat τ a b : typed τ (Some a) -> typed τ (Some b) -> compat a b.
Proof. unfold typed, compat. congruence. Qed.

(** one more step *)
Lemma add_step_net τ s0 s1 s2 :
  typed τ s0 -> typed τ s1 -> typed τ s2 ->
  ~ (is_Some s0 /\ s1 = None /\ is_Some s2) ->
  add_step (net s0 s1) s1 s2 = Ok (net s0 s2).
Proof.
  intros T0 T1 T2 Hre. unfold add_step.
  destruct s1 as [m|], s2 as [n|]; simpl.
  - (* m -> n *)
    pose proof (typed_compat _ _ _ T1 T2) as Cmn.
    destruct (decide (row_diff m n = ∅)) as [Hd|Hd].
    { apply (proj1 (row_diff_empty_iff _ _ Cmn)) in Hd. subst. reflexivity. }
    destruct s0 as [o|]; simpl.
    + pose proof (typed_compat _ _ _ T0 T1) as Com.
      pose proof (typed_compat _ _ _ T0 T2) as Con.
      destruct (decide (row_diff o m = ∅)) as [Hd1|Hd1].
      * apply (proj1 (row_diff_empty_iff _ _ Com)) in Hd1. subst.
        rewrite decide_False by exact Hd. reflexivity.
      * unfold merge_upd. simpl. rewrite merge_mod_diff by assumption.
        destruct (decide (row_diff o n = ∅)); reflexivity.
    + reflexivity.
  - (* m -> deleted *)
    destruct s0 as [o|]; simpl.
    + pose proof (typed_compat _ _ _ T0 T1) as Com.
      destruct (decide (row_diff o m = ∅)) as [Hd1|Hd1].
      * apply (proj1 (row_diff_empty_iff _ _ Com)) in Hd1. subst. reflexivity.
      * reflexivity.
    + reflexivity.
  - (* absent -> n *)
    destruct s0 as [o|]; simpl.
    + exfalso. apply Hre. split; [eexists; reflexivity|]. split; [reflexivity|eexists; reflexivity].
    + reflexivity.
  - (* absent -> absent *)
    destruct s0; reflexivity.
Qed.

(** merge.go rejects exactly the delete-then-reinsert of a row that existed
    before the accumulation started *)
Lemma add_step_reinsert_rejected o n :
  add_step (net (Some o) None) None (Some n) = Err EOther.
Proof. reflexivity. Qed.

Fixpoint no_reinsert (s : option row) (l : list (option row)) : Prop :=
  match l with
  | [] => True
  | s' :: l' => ~ (s = None /\ is_Some s') /\ no_reinsert s' l'
  end.

Lemma last_cons {A} (l : list A) : forall x d, List.last (x :: l) d = List.last l x.
Proof. induction l as [|y l IH]; intros x d; [reflexivity|]. change (List.last (x :: y :: l) d) with (List.last (y :: l) d). rewrite !IH. reflexivity. Qed.

Lemma add_chain_net τ s0 : forall chain s,
  typed τ s0 -> typed τ s -> Forall (typed τ) chain ->
  (is_Some s0 -> no_reinsert s chain) ->
  add_chain (net s0 s) s chain = Ok (net s0 (List.last chain s)).
Proof.
  induction chain as [|s' chain IH]; intros s T0 Ts Tc Hre; [reflexivity|].
  apply Forall_cons in Tc as [Ts' Tc].
  cbn [add_chain]. rewrite (add_step_net τ) by
    (try assumption; intros (H0 & H1 & H2); destruct (Hre H0) as [Hn _]; apply Hn; split; assumption).
  cbn [rbind]. rewrite IH; try assumption.
  - rewrite last_cons. reflexivity.
  - intros H0. exact (proj2 (Hre H0)).
Qed.

Lemma net_self s : net s s = None.
Proof.
  destruct s as [r|]; simpl; [|reflexivity].
  rewrite decide_True; [reflexivity|]. apply row_diff_empty_iff; reflexivity.
Qed.

(** The aggregate of any legal sequence of changes to one row is the single
    net update from the first old state to the last new state. *)
Theorem merge_chain_is_net τ s0 chain :
  typed τ s0 -> Forall (typed τ) chain ->
  (is_Some s0 -> no_reinsert s0 chain) ->
  add_chain None s0 chain = Ok (net s0 (List.last chain s0)).
Proof.
  intros T0 Tc Hre. rewrite <- (net_self s0) at 1. apply (add_chain_net τ); assumption.
Qed.

(** Corollaries in the words of the property. *)
Corollary net_first_old_last_new o n u :
  net o n = Some u -> mu_old u = o /\ mu_new u = n.
Proof.
  destruct o as [r|], n as [r'|]; simpl; try discriminate.
  - case_decide; [discriminate|]. intros [= <-]. auto.
  - intros [= <-]. auto.
  - intros [= <-]. auto.
Qed.

Corollary net_modify_applies τ o n d :
  typed τ (Some o) -> typed τ (Some n) ->
  option_map mu_ru (net (Some o) (Some n)) = Some (KMod d) -> row_apply o d = n.
Proof.
  intros To Tn. simpl. case_decide; simpl; [discriminate|]. intros [= <-].
  apply row_apply_diff. eapply typed_compat; eassumption.
Qed.

Corollary net_vanishes_iff τ o n :
  typed τ o -> typed τ n -> (net o n = None <-> o = n).
Proof.
  intros To Tn. destruct o as [r|], n as [r'|]; simpl; try (split; congruence).
  case_decide as Hd.
  - apply (proj1 (row_diff_empty_iff _ _ (typed_compat _ _ _ To Tn))) in Hd. subst. tauto.
  - split; [discriminate|]. intros [= ->]. exfalso. apply Hd. apply row_diff_empty_iff; reflexivity.
Qed.

Corollary insert_then_changes_is_insert n :
  option_map mu_ru (net None (Some n)) = Some KIns /\ (net None (Some n) ≫= mu_new) = Some n.
Proof. split; reflexivity. Qed.

Corollary change_then_delete_is_delete o :
  option_map mu_ru (net (Some o) None) = Some KDel /\ (net (Some o) None ≫= mu_old) = Some o.
Proof. split; reflexivity. Qed.

Corollary insert_then_delete_vanishes : net None None = None.
Proof. reflexivity. Qed.
