(** Laws of the canonical difference (C10) and of the merge of differences
    (used by C11). *)
From LOV Require Export Upd.Diff.

(** * Per-key laws *)

Lemma dkey_none_iff x y : dkey x y = None <-> x = y.
Proof. destruct x, y; simpl; try case_decide; split; congruence. Qed.

Lemma dkey_apply x y : dkey x (dkey x y) = y.
Proof. destruct x, y; simpl; repeat (case_decide; simpl); congruence. Qed.

Lemma dkey_self x : dkey x x = None.
Proof. apply dkey_none_iff; reflexivity. Qed.

Lemma dkey_None_l y : dkey None y = y.
Proof. reflexivity. Qed.

Lemma dkey_None_r x : dkey x None = x.
Proof. destruct x; reflexivity. Qed.

(** the mergeMapDifference law: merging the differences o->m and m->n
    with respect to o gives the difference o->n. *)
Lemma mkey_dkey o m n : mkey o (dkey o m) (dkey m n) = dkey o n.
Proof.
  destruct o, m, n; simpl; repeat (case_decide; simpl; subst); congruence.
Qed.

(** * Sets *)

Lemma elem_of_sdiff x (a b : gset atom) : x ∈ sdiff a b <-> (x ∈ a /\ x ∉ b) \/ (x ∈ b /\ x ∉ a).
Proof. unfold sdiff. set_solver. Qed.

Lemma sdiff_empty_iff (a b : gset atom) : sdiff a b = ∅ <-> a = b.
Proof.
  split.
  - intros H. apply set_eq. intros x.
    assert (Hx : x ∉ sdiff a b) by (rewrite H; set_solver).
    rewrite elem_of_sdiff in Hx.
    destruct (decide (x ∈ a)), (decide (x ∈ b)); tauto.
  - intros ->. unfold sdiff. set_solver.
Qed.

Lemma sdiff_apply (a b : gset atom) : sdiff a (sdiff a b) = b.
Proof.
  apply set_eq. intros x. rewrite !elem_of_sdiff.
  destruct (decide (x ∈ a)), (decide (x ∈ b)); tauto.
Qed.

Lemma sdiff_comm (a b : gset atom) : sdiff a b = sdiff b a.
Proof. unfold sdiff. set_solver. Qed.

Lemma sdiff_trans (o m n : gset atom) : sdiff (sdiff o m) (sdiff m n) = sdiff o n.
Proof.
  apply set_eq. intros x. rewrite !elem_of_sdiff.
  destruct (decide (x ∈ o)), (decide (x ∈ m)), (decide (x ∈ n)); tauto.
Qed.

Lemma sdiff_empty_r (a : gset atom) : sdiff a ∅ = a.
Proof. unfold sdiff. set_solver. Qed.
Lemma sdiff_empty_l (a : gset atom) : sdiff ∅ a = a.
Proof. unfold sdiff. set_solver. Qed.

(** * Maps *)

Lemma lookup_mdiff a b k : mdiff a b !! k = dkey (a !! k) (b !! k).
Proof. unfold mdiff. rewrite lookup_merge. destruct (a !! k), (b !! k); reflexivity. Qed.

Lemma mdiff_empty_iff a b : mdiff a b = ∅ <-> a = b.
Proof.
  split.
  - intros H. apply map_eq. intros k.
    assert (Hk : mdiff a b !! k = None) by (rewrite H; apply lookup_empty).
    rewrite lookup_mdiff in Hk. exact (proj1 (dkey_none_iff _ _) Hk).
  - intros ->. apply map_eq. intros k. rewrite lookup_mdiff, lookup_empty. apply dkey_self.
Qed.

Lemma mdiff_apply a b : mdiff a (mdiff a b) = b.
Proof. apply map_eq. intros k. rewrite !lookup_mdiff. apply dkey_apply. Qed.

Lemma mdiff_empty_r a : mdiff a ∅ = a.
Proof. apply map_eq. intros k. rewrite lookup_mdiff, lookup_empty. apply dkey_None_r. Qed.
Lemma mdiff_empty_l a : mdiff ∅ a = a.
Proof. apply map_eq. intros k. rewrite lookup_mdiff, lookup_empty. reflexivity. Qed.

Lemma lookup_merge3 {A} `{Countable K} (f : option A -> option A -> option A -> option A)
    (o a b : gmap K A) k :
  f None None None = None ->
  merge3 f o a b !! k = f (o !! k) (a !! k) (b !! k).
Proof.
  intros Hf. unfold merge3. rewrite !lookup_merge.
  destruct (o !! k), (a !! k), (b !! k); simpl; auto.
Qed.

Lemma lookup_mmerge o a b k : mmerge o a b !! k = mkey (o !! k) (a !! k) (b !! k).
Proof. apply lookup_merge3. reflexivity. Qed.

Lemma mmerge_mdiff o m n : mmerge o (mdiff o m) (mdiff m n) = mdiff o n.
Proof. apply map_eq. intros k. rewrite lookup_mmerge, !lookup_mdiff. apply mkey_dkey. Qed.

(** * Values *)

Definition same_kind (a b : value) : Prop := kind_of_value a = kind_of_value b.

Theorem vdiff_none_iff a b : same_kind a b -> (vdiff a b = None <-> a = b).
Proof.
  unfold same_kind.
  destruct a as [x|x|x|x], b as [y|y|y|y]; simpl; intros Hk; try discriminate Hk;
    try (case_decide; split; congruence).
  - case_decide as Hd.
    + apply (proj1 (sdiff_empty_iff _ _)) in Hd. subst. tauto.
    + split; [discriminate|]. intros [= ->]. exfalso. apply Hd. apply sdiff_empty_iff. reflexivity.
  - case_decide as Hd.
    + apply (proj1 (mdiff_empty_iff _ _)) in Hd. subst. tauto.
    + split; [discriminate|]. intros [= ->]. exfalso. apply Hd. apply mdiff_empty_iff. reflexivity.
Qed.

Theorem vapply_vdiff a b : same_kind a b -> vapply a (vdiff a b) = b.
Proof.
  unfold same_kind.
  destruct a as [x|x|x|x], b as [y|y|y|y]; simpl; intros Hk; try discriminate Hk;
    try (case_decide; simpl; congruence).
  - case_decide as Hd; simpl.
    + apply (proj1 (sdiff_empty_iff _ _)) in Hd. congruence.
    + f_equal. apply sdiff_apply.
  - case_decide as Hd; simpl.
    + apply (proj1 (mdiff_empty_iff _ _)) in Hd. congruence.
    + f_equal. apply mdiff_apply.
Qed.

(** update2 rules for a difference received from a peer (not necessarily one
    the library computed). *)
Theorem vapply_set_toggle (v d : gset atom) x :
  x ∈ match vapply (VSet v) (Some (VSet d)) with VSet r => r | _ => ∅ end
  <-> (x ∈ v /\ x ∉ d) \/ (x ∈ d /\ x ∉ v).
Proof. simpl. apply elem_of_sdiff. Qed.

Theorem vapply_map_rule (v d : gmap atom atom) k :
  match vapply (VMap v) (Some (VMap d)) with VMap r => r | _ => ∅ end !! k =
  match d !! k with
  | None => v !! k
  | Some dv => if decide (v !! k = Some dv) then None else Some dv
  end.
Proof.
  simpl. rewrite lookup_mdiff.
  destruct (v !! k) as [x|], (d !! k) as [y|]; simpl; repeat case_decide; congruence.
Qed.

Theorem vapply_other_overwrites v dv :
  kind_of_value v <> KSet -> kind_of_value v <> KMap -> vapply v (Some dv) = dv.
Proof. destruct v, dv; simpl; congruence. Qed.

Theorem vapply_none v : vapply v None = v.
Proof. reflexivity. Qed.

(** [changed] as reported by applyDifference agrees with "the value differs",
    for differences the library itself computes. *)
Theorem vapply_changed_vdiff a b : same_kind a b ->
  vapply_changed a (vdiff a b) = negb (bool_decide (a = b)).
Proof.
  unfold same_kind.
  destruct a as [x|x|x|x], b as [y|y|y|y]; simpl; intros Hk; try discriminate Hk.
  1,2: case_decide as Hd; simpl;
    [ rewrite bool_decide_eq_true_2 by congruence; reflexivity
    | rewrite !bool_decide_eq_false_2 by congruence; reflexivity ].
  - case_decide as Hd; simpl.
    + apply (proj1 (sdiff_empty_iff _ _)) in Hd. subst. rewrite bool_decide_eq_true_2; reflexivity.
    + rewrite bool_decide_eq_false_2 by exact Hd.
      rewrite bool_decide_eq_false_2; [reflexivity|].
      intros [= ->]. apply Hd. apply sdiff_empty_iff. reflexivity.
  - case_decide as Hd; simpl.
    + apply (proj1 (mdiff_empty_iff _ _)) in Hd. subst. rewrite bool_decide_eq_true_2; reflexivity.
    + rewrite bool_decide_eq_false_2 by exact Hd.
      rewrite bool_decide_eq_false_2; [reflexivity|].
      intros [= ->]. apply Hd. apply mdiff_empty_iff. reflexivity.
Qed.

(** * Merge of differences (for C11) *)

Theorem vmerge_vdiff o m n : same_kind o m -> same_kind m n ->
  vmerge o (vdiff o m) (vdiff m n) = vdiff o n.
Proof.
  unfold same_kind.
  destruct o as [x|x|x|x], m as [y|y|y|y], n as [z|z|z|z]; simpl;
    intros H1 H2; try discriminate H1; try discriminate H2.
  1,2: repeat (case_decide; simpl; subst); congruence.
  - destruct (decide (sdiff x y = ∅)) as [Hxy|Hxy]; simpl.
    + apply (proj1 (sdiff_empty_iff _ _)) in Hxy. subst. reflexivity.
    + destruct (decide (sdiff y z = ∅)) as [Hyz|Hyz]; simpl.
      * apply (proj1 (sdiff_empty_iff _ _)) in Hyz. subst. rewrite decide_False by exact Hxy. reflexivity.
      * rewrite sdiff_trans. reflexivity.
  - destruct (decide (mdiff x y = ∅)) as [Hxy|Hxy]; simpl.
    + apply (proj1 (mdiff_empty_iff _ _)) in Hxy. subst. reflexivity.
    + destruct (decide (mdiff y z = ∅)) as [Hyz|Hyz]; simpl.
      * apply (proj1 (mdiff_empty_iff _ _)) in Hyz. subst. rewrite decide_False by exact Hxy. reflexivity.
      * rewrite mmerge_mdiff. reflexivity.
Qed.
