(** Canonical-layer model of updates/difference.go: the update2 "modify"
    difference, its application, and the merge of two consecutive
    differences with respect to an original value.

    Sets and maps are treated per element / per key:
      - the difference of two sets is their symmetric difference;
      - the difference of two maps is [merge dkey]: a key present on one side
        only is kept with its value, a key present on both sides with different
        values carries the new value, identical pairs vanish;
      - any other column carries the new value.
    Applying a difference uses the same algorithm (difference.go:16-40). *)
From LOV Require Export Base.Atoms.

Definition dkey (x y : option atom) : option atom :=
  match x, y with
  | Some a, Some b => if decide (a = b) then None else Some b
  | Some a, None => Some a
  | None, y => y
  end.

Definition sdiff (a b : gset atom) : gset atom := (a ∖ b) ∪ (b ∖ a).
Definition mdiff (a b : gmap atom atom) : gmap atom atom := merge dkey a b.

(** [vdiff a b]: the "modify" entry for a column changing from [a] to [b];
    [None] means the column is absent from the modify row. *)
Definition vdiff (a b : value) : option value :=
  match a, b with
  | VSet x, VSet y => let d := sdiff x y in if decide (d = ∅) then None else Some (VSet d)
  | VMap x, VMap y => let d := mdiff x y in if decide (d = ∅) then None else Some (VMap d)
  | _, _ => if decide (a = b) then None else Some b
  end.

(** [vapply v d]: what a peer computes from a column value and a received
    modify entry (updates.go updateOrModifyModel with isModify). *)
Definition vapply (v : value) (d : option value) : value :=
  match d with
  | None => v
  | Some dv =>
    match v, dv with
    | VSet x, VSet y => VSet (sdiff x y)
    | VMap x, VMap y => VMap (mdiff x y)
    | _, _ => dv
    end
  end.

(** Did applying [d] to [v] change [v]?  (the [changed] result of
    applyDifference, difference.go:16-40). *)
Definition vapply_changed (v : value) (d : option value) : bool :=
  match d with
  | None => false
  | Some dv =>
    match v, dv with
    | VSet _, VSet y => negb (bool_decide (y = ∅))
    | VMap _, VMap y => negb (bool_decide (y = ∅))
    | _, _ => negb (bool_decide (v = dv))
    end
  end.

(** Merging two consecutive differences [a] then [b] w.r.t. original [o]
    (mergeDifference / mergeMapDifference / mergeAtomicDifference). *)
Definition mkey (o a b : option atom) : option atom :=
  match b with
  | None => a
  | Some bv =>
    match o, a with
    | Some ov, Some av =>
        if decide (ov = bv) then None
        else if decide (av = bv) then Some ov
        else Some bv
    | _, Some av => if decide (av = bv) then None else Some bv
    | _, None => Some bv
    end
  end.

Definition merge3 {A} `{Countable K} (f : option A -> option A -> option A -> option A)
    (o a b : gmap K A) : gmap K A :=
  merge (fun oa b => f (oa ≫= fst) (oa ≫= snd) b)
        (merge (fun o a => match o, a with None, None => None | _, _ => Some (o, a) end) o a) b.

Definition mmerge (o a b : gmap atom atom) : gmap atom atom := merge3 mkey o a b.

Definition vmerge (o : value) (a b : option value) : option value :=
  match a, b with
  | None, _ => b
  | _, None => a
  | Some av, Some bv =>
    match o, av, bv with
    | VSet _, VSet x, VSet y => let d := sdiff x y in if decide (d = ∅) then None else Some (VSet d)
    | VMap ov, VMap x, VMap y => let d := mmerge ov x y in if decide (d = ∅) then None else Some (VMap d)
    | _, _, _ => if decide (o = bv) then None else Some bv
    end
  end.
