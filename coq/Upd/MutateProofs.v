(** The mutators have their RFC 7047 5.1 effect; immutable columns. *)
From LOV Require Export Upd.Mutate Upd.Merge.

Lemma mutate_int_add x y : in_int64 (x + y) = true -> mutate_atom (AInt x) MAdd (AInt y) = MOk (VAtom (AInt (x + y))).
Proof. intros H. cbn. unfold int_res. rewrite H. reflexivity. Qed.
Lemma mutate_int_sub x y : in_int64 (x - y) = true -> mutate_atom (AInt x) MSub (AInt y) = MOk (VAtom (AInt (x - y))).
Proof. intros H. cbn. unfold int_res. rewrite H. reflexivity. Qed.
Lemma mutate_int_mul x y : in_int64 (x * y) = true -> mutate_atom (AInt x) MMul (AInt y) = MOk (VAtom (AInt (x * y))).
Proof. intros H. cbn. unfold int_res. rewrite H. reflexivity. Qed.
Lemma mutate_int_div x y : y <> 0%Z -> in_int64 (Z.quot x y) = true ->
  mutate_atom (AInt x) MDiv (AInt y) = MOk (VAtom (AInt (Z.quot x y))).
Proof. intros H Hr. cbn. rewrite (proj2 (Z.eqb_neq y 0) H). unfold int_res. rewrite Hr. reflexivity. Qed.
Lemma mutate_int_mod x y : y <> 0%Z -> mutate_atom (AInt x) MMod (AInt y) = MOk (VAtom (AInt (Z.rem x y))).
Proof. intros H. simpl. rewrite (proj2 (Z.eqb_neq y 0) H). reflexivity. Qed.
(** a result outside int64 is a range error for every arithmetic mutator, and the only way to get one *)
Lemma mutate_int_range x y m :
  mutate_atom (AInt x) m (AInt y) = MRange <->
  match m with
  | MAdd => in_int64 (x + y) = false
  | MSub => in_int64 (x - y) = false
  | MMul => in_int64 (x * y) = false
  | MDiv => y <> 0%Z /\ in_int64 (Z.quot x y) = false
  | _ => False
  end.
Proof.
  destruct m; cbn; unfold int_res; try (split; [discriminate|tauto]).
  - destruct (in_int64 (x + y)); split; congruence.
  - destruct (in_int64 (x - y)); split; congruence.
  - destruct (in_int64 (x * y)); split; congruence.
  - destruct (Z.eqb_spec y 0) as [->|Hn]; [split; [discriminate|intros [H _]; congruence]|].
    destruct (in_int64 (Z.quot x y)); split; [discriminate|intros [_ ?]; discriminate|intros _; split; [exact Hn|reflexivity]|reflexivity].
  - destruct (Z.eqb y 0); split; try discriminate; tauto.
Qed.
(** the one quotient of two int64 values that is not one *)
Lemma quot_min_by_minus_one :
  mutate_atom (AInt (-9223372036854775808)) MDiv (AInt (-1)) = MRange.
Proof. reflexivity. Qed.
Lemma mutate_int_div0 x : mutate_atom (AInt x) MDiv (AInt 0) = MDomain.
Proof. reflexivity. Qed.
Lemma mutate_int_mod0 x : mutate_atom (AInt x) MMod (AInt 0) = MDomain.
Proof. reflexivity. Qed.

Lemma mutate_set_insert ct s x :
  ct_kind ct = KSet -> value_ok ct (VSet x) = true ->
  mutate1 ct true (VSet s) MInsert (VSet x) = MOk (VSet (s ∪ x)).
Proof. intros Hk Hv. unfold mutate1. rewrite Hk. simpl. rewrite Hv. reflexivity. Qed.

Lemma mutate_set_delete ct s x :
  ct_kind ct = KSet -> value_ok ct (VSet x) = true ->
  mutate1 ct true (VSet s) MDelete (VSet x) = MOk (VSet (s ∖ x)).
Proof. intros Hk Hv. unfold mutate1. rewrite Hk. simpl. rewrite Hv. reflexivity. Qed.

(** map insert adds the pairs whose key is absent and leaves present keys alone *)
Lemma mutate_map_insert ct m x :
  ct_kind ct = KMap -> value_ok ct (VMap x) = true ->
  exists m', mutate1 ct true (VMap m) MInsert (VMap x) = MOk (VMap m') /\
    forall k, m' !! k = match m !! k with Some v => Some v | None => x !! k end.
Proof.
  intros Hk Hv. unfold mutate1. rewrite Hk. simpl. rewrite Hv. eexists. split; [reflexivity|].
  intros k. rewrite lookup_union. destruct (m !! k), (x !! k); reflexivity.
Qed.

(** map delete by keys removes exactly those keys *)
Lemma mutate_map_delete_keys ct m ks :
  ct_kind ct = KMap -> forallb (atom_ok (ct_key ct)) (elements ks) = true ->
  exists m', mutate1 ct true (VMap m) MDelete (VSet ks) = MOk (VMap m') /\
    forall k, m' !! k = if decide (k ∈ ks) then None else m !! k.
Proof.
  intros Hk Hv. unfold mutate1. rewrite Hk. simpl. rewrite Hv. eexists. split; [reflexivity|].
  intros k. case_decide as Hin.
  - apply map_filter_lookup_None. right. intros v _. simpl. auto.
  - destruct (m !! k) as [v|] eqn:Hm.
    + apply map_filter_lookup_Some. auto.
    + apply map_filter_lookup_None. left. exact Hm.
Qed.

(** map delete by pairs removes exactly the identical pairs *)
Lemma mutate_map_delete_pairs ct m x :
  ct_kind ct = KMap -> value_ok ct (VMap x) = true ->
  exists m', mutate1 ct true (VMap m) MDelete (VMap x) = MOk (VMap m') /\
    forall k, m' !! k = match m !! k with
                        | Some v => if decide (x !! k = Some v) then None else Some v
                        | None => None
                        end.
Proof.
  intros Hk Hv. unfold mutate1. rewrite Hk. simpl. rewrite Hv. eexists. split; [reflexivity|].
  intros k. destruct (m !! k) as [v|] eqn:Hm.
  - case_decide as Hx.
    + apply map_filter_lookup_None. right. intros v' Hv'. simpl. congruence.
    + apply map_filter_lookup_Some. auto.
  - apply map_filter_lookup_None. left. exact Hm.
Qed.

(** a non-mutable column rejects every mutation *)
Lemma mutate_immutable ct cur m arg : mutate1 ct false cur m arg = MErr.
Proof. reflexivity. Qed.

(** * immutable columns survive update and mutate *)
Lemma rmapM_ok_in {A B} (f : A -> res B) (l : list A) ys x :
  rmapM f l = Ok ys -> x ∈ l -> exists y, f x = Ok y.
Proof.
  revert ys. induction l as [|a l IH]; intros ys H Hin; [inversion Hin|].
  simpl in H. destruct (f a) as [y| |] eqn:Hf; try discriminate. simpl in H.
  destruct (rmapM f l) as [ys'| |] eqn:Hr; try discriminate.
  apply elem_of_cons in Hin as [->|Hin]; eauto.
Qed.

Lemma known_cols_lookup T w c : known_cols T w !! c = if decide (is_Some (find_col T c)) then w !! c else None.
Proof.
  unfold known_cols. case_decide as H.
  - destruct (w !! c) as [v|] eqn:Hw.
    + apply map_filter_lookup_Some. split; [exact Hw|]. simpl. apply bool_decide_pack. exact H.
    + apply map_filter_lookup_None. left. exact Hw.
  - apply map_filter_lookup_None. right. intros v _. simpl. intros Hb. apply bool_decide_unpack in Hb. auto.
Qed.

Theorem row_update_immutable T r w r' C :
  row_update T r w = Ok r' -> find_col T (c_name C) = Some C -> c_mutable C = false ->
  is_Some (r !! c_name C) -> r' !! c_name C = r !! c_name C.
Proof.
  unfold row_update. intros H HC Himm [cur Hcur].
  destruct (rmapM _ (map_to_list w)) as [us| |] eqn:Hm; try discriminate. simpl in H. injection H as <-.
  rewrite lookup_union, known_cols_lookup. rewrite decide_True by (rewrite HC; eauto).
  destruct (w !! c_name C) as [v|] eqn:Hw; [|rewrite Hcur; reflexivity].
  assert (Hin : (c_name C, v) ∈ map_to_list w) by (apply elem_of_map_to_list; exact Hw).
  destruct (rmapM_ok_in _ _ _ _ Hm Hin) as [y Hy]. simpl in Hy.
  unfold check_update_col in Hy. rewrite HC, Hcur, Himm in Hy.
  destruct (negb (value_ok (c_ty C) v)); [discriminate|]. simpl in Hy.
  destruct (value_eqb cur v) eqn:He; [|discriminate].
  apply value_eqb_eq in He. subst. rewrite Hcur. reflexivity.
Qed.

Lemma row_mutate1_immutable T r mu r' C :
  row_mutate1 T r mu = Ok r' -> find_col T (c_name C) = Some C -> c_mutable C = false ->
  r' !! c_name C = r !! c_name C.
Proof.
  destruct mu as [[c m] arg]. unfold row_mutate1. intros H HC Himm.
  destruct (find_col T c) as [C'|] eqn:HC'; [|injection H as <-; reflexivity].
  destruct (r !! c) as [cur|] eqn:Hc; [|injection H as <-; reflexivity].
  destruct (mutate1 (c_ty C') (c_mutable C') cur m arg) as [v| | |] eqn:Hm; simpl in H; try discriminate.
  injection H as <-. destruct (decide (c = c_name C)) as [->|Hne].
  - rewrite HC in HC'. injection HC' as <-. rewrite Himm in Hm. discriminate.
  - rewrite lookup_insert_ne by exact Hne. reflexivity.
Qed.

Theorem row_mutate_immutable T C : find_col T (c_name C) = Some C -> c_mutable C = false ->
  forall ms r r', row_mutate T r ms = Ok r' -> r' !! c_name C = r !! c_name C.
Proof.
  intros HC Himm. unfold row_mutate. induction ms as [|mu ms IH]; intros r r'; simpl.
  - intros [= <-]. reflexivity.
  - destruct (row_mutate1 T r mu) as [r1| |] eqn:H1; simpl; try discriminate.
    intros H. rewrite (IH _ _ H). eapply row_mutate1_immutable; eassumption.
Qed.
