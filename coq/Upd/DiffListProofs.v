From LOV Require Export Upd.DiffList Upd.DiffProofs.
From Coq Require Import Lia.

Lemma mem_spec x l : mem x l = true <-> x ∈ l.
Proof. unfold mem. apply bool_decide_eq_true. Qed.

Lemma elem_of_remove_all x y l : y ∈ remove_all x l <-> y ∈ l /\ y <> x.
Proof.
  unfold remove_all. rewrite elem_of_list_filter. tauto.
Qed.

Lemma list_to_set_remove_all x (l : list atom) :
  (list_to_set (remove_all x l) : gset atom) = list_to_set l ∖ {[x]}.
Proof.
  apply set_eq. intros y. rewrite elem_of_list_to_set, elem_of_remove_all.
  rewrite elem_of_difference, elem_of_list_to_set, elem_of_singleton. tauto.
Qed.

Lemma list_to_set_dedup (l : list atom) : (list_to_set (dedup l) : gset atom) = list_to_set l.
Proof.
  induction l as [|x l IH]; simpl; [reflexivity|].
  rewrite list_to_set_remove_all, IH. apply set_eq. intros y.
  rewrite !elem_of_union, elem_of_difference, elem_of_singleton.
  destruct (decide (y = x)); tauto.
Qed.

Lemma rotate_last_perm l : rotate_last l ≡ₚ l.
Proof.
  destruct l as [|x l]; [reflexivity|]. unfold rotate_last.
  assert (Hne : x :: l <> []) by discriminate.
  rewrite (List.app_removelast_last x Hne) at 3.
  rewrite Permutation_app_comm. reflexivity.
Qed.

Lemma rotate_last_length l : length (rotate_last l) = length l.
Proof. apply Permutation_length, rotate_last_perm. Qed.

Lemma sd_loop_spec fuel : forall D p l,
  length l < fuel -> NoDup l ->
  (list_to_set (sd_loop fuel D p l) : gset atom)
  = list_to_set p ∪ sdiff (list_to_set l) (list_to_set D).
Proof.
  induction fuel as [|f IH]; intros D p l Hlen Hnd; [lia|].
  destruct l as [|x l']; simpl.
  - rewrite list_to_set_app_L. unfold sdiff. set_solver.
  - apply NoDup_cons in Hnd as [Hx Hnd'].
    destruct (mem x D) eqn:Hm.
    + apply mem_spec in Hm.
      rewrite IH.
      * rewrite list_to_set_remove_all.
        rewrite (list_to_set_perm_L _ _ (rotate_last_perm l')).
        assert (HxD : x ∈ (list_to_set D : gset atom)) by (apply elem_of_list_to_set; exact Hm).
        assert (Hxl : x ∉ (list_to_set l' : gset atom)) by (rewrite elem_of_list_to_set; exact Hx).
        f_equal. apply set_eq. intros y. rewrite !elem_of_sdiff.
        rewrite elem_of_difference, elem_of_union, !elem_of_singleton.
        destruct (decide (y = x)) as [->|]; tauto.
      * rewrite rotate_last_length. simpl in Hlen. lia.
      * rewrite rotate_last_perm. exact Hnd'.
    + assert (HxD : x ∉ (list_to_set D : gset atom)).
      { rewrite elem_of_list_to_set. intros H. apply mem_spec in H. congruence. }
      assert (Hxl : x ∉ (list_to_set l' : gset atom)) by (rewrite elem_of_list_to_set; exact Hx).
      rewrite IH; [|simpl in Hlen; lia|exact Hnd'].
      rewrite list_to_set_app_L. simpl.
      apply set_eq. intros y. rewrite !elem_of_union, !elem_of_sdiff.
      rewrite !elem_of_union, !elem_of_singleton, elem_of_empty.
      destruct (decide (y = x)) as [->|]; tauto.
Qed.

(** setDifference refines the canonical symmetric difference whenever [a]
    has no duplicates (which holds for every set value the mapper produces);
    [b] may contain duplicates. *)
Theorem set_difference_list_refines a b : NoDup a ->
  (list_to_set (set_difference_list a b) : gset atom) = sdiff (list_to_set a) (list_to_set b).
Proof.
  intros Hnd. unfold set_difference_list.
  destruct a as [|x a']; [simpl; rewrite sdiff_empty_l; reflexivity|].
  destruct b as [|y b']; [simpl (list_to_set []); rewrite sdiff_empty_r; reflexivity|].
  rewrite sd_loop_spec; [|simpl; lia|exact Hnd].
  rewrite list_to_set_dedup. simpl (list_to_set []). set_solver.
Qed.

(** the duplicate-free hypothesis is necessary: *)
Example set_difference_list_dup_refuted :
  exists a b, (list_to_set (set_difference_list a b) : gset atom)
              <> sdiff (list_to_set a) (list_to_set b).
Proof.
  exists [AInt 1; AInt 1], [AInt 1]. intros H.
  apply (bool_decide_eq_true_2 _) in H. vm_compute in H. discriminate H.
Qed.

Lemma set_difference_list_nil_iff a b : NoDup a ->
  set_difference_list a b = [] <-> (list_to_set a : gset atom) = list_to_set b.
Proof.
  intros Hnd. rewrite <- sdiff_empty_iff, <- set_difference_list_refines by exact Hnd.
  split; [intros ->; reflexivity|].
  destruct (set_difference_list a b) as [|z r]; [reflexivity|].
  simpl. intros H. exfalso. assert (z ∈ (∅ : gset atom)) by (rewrite <- H; set_solver). set_solver.
Qed.

(** list layer and canonical layer compute the same modify entry *)
Theorem lv_diff_refines a b :
  match a with LSet x => NoDup x | _ => True end ->
  kind_of_value (canon a) = kind_of_value (canon b) ->
  option_map canon (lv_diff a b) = vdiff (canon a) (canon b).
Proof.
  destruct a as [x|x|x|x], b as [y|y|y|y]; simpl; intros Hnd Hk; try discriminate Hk.
  - repeat case_decide; simpl; congruence.
  - repeat case_decide; simpl; congruence.
  - pose proof (set_difference_list_refines x y Hnd) as Href.
    pose proof (set_difference_list_nil_iff x y Hnd) as Hnil.
    destruct (set_difference_list x y) as [|z r] eqn:E.
    + rewrite decide_True; [reflexivity|]. apply sdiff_empty_iff. apply Hnil. reflexivity.
    + rewrite decide_False.
      * simpl. rewrite <- Href. reflexivity.
      * intros H. apply (proj1 (sdiff_empty_iff _ _)) in H. apply Hnil in H. discriminate H.
  - case_decide; simpl; [reflexivity|]. rewrite list_to_map_to_list. reflexivity.
Qed.
