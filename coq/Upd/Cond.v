(** Conditions (RFC 7047 5.1, ovsdb/condition.go ConditionFunction.Evaluate,
    as reached through cache.RowCache.RowsByCondition). *)
From LOV Require Export Base.Res Base.Schema.

Inductive cfun := CLt | CLe | CEq | CNe | CGt | CGe | CIncludes | CExcludes.
Global Instance cfun_eq_dec : EqDecision cfun.
Proof. solve_decision. Defined.

(** the reserved symbol of the column name "_uuid" *)
Definition ucol : sym := 1%N.

Notation cond := (sym * cfun * value)%type.

Definition atom_ltb (a b : atom) : option bool :=
  match a, b with
  | AInt x, AInt y => Some (Z.ltb x y)
  | AReal n1 d1, AReal n2 d2 => Some (Z.ltb (n1 * Zpos d2) (n2 * Zpos d1))
  | _, _ => None
  end.

Definition is_ordered (ct : colty) : bool :=
  match ct_kind ct, bt_ty (ct_key ct), bt_enum (ct_key ct) with
  | KAtom, TInt, [] | KAtom, TReal, [] => true
  | _, _, _ => false
  end.

(** is the condition well formed for the column? (type of the argument, and
    order comparisons only on integer / real atoms) *)
Definition cond_valid (ct : colty) (f : cfun) (arg : value) : bool :=
  value_ok ct arg &&
  match f with
  | CLt | CLe | CGt | CGe => is_ordered ct
  | _ => true
  end.

Definition set_of_opt (o : option atom) : gset atom := match o with Some a => {[a]} | None => ∅ end.

(** includes: the column's value contains the argument (as set / as map) *)
Definition v_includes (v arg : value) : bool :=
  match v, arg with
  | VAtom a, VAtom b => bool_decide (a = b)
  | VOpt a, VOpt b => bool_decide (set_of_opt b ⊆ set_of_opt a)
  | VSet s, VSet t => bool_decide (t ⊆ s)
  | VMap m, VMap n => bool_decide (n ⊆ m)
  | _, _ => false
  end.

(** excludes: the column's value and the argument have nothing in common *)
Definition v_excludes (v arg : value) : bool :=
  match v, arg with
  | VAtom a, VAtom b => negb (bool_decide (a = b))
  | VOpt a, VOpt b => bool_decide (set_of_opt a ## set_of_opt b)
  | VSet s, VSet t => bool_decide (s ## t)
  | VMap m, VMap n => bool_decide (forall k x, n !! k = Some x -> m !! k <> Some x)
  | _, _ => false
  end.

Global Instance map_no_common_dec (m n : gmap atom atom) :
  Decision (forall k x, n !! k = Some x -> m !! k <> Some x).
Proof.
  refine (cast_if (decide (map_Forall (fun k x => m !! k <> Some x) n))); unfold map_Forall in *; auto.
Defined.

Definition eval_fun (v : value) (f : cfun) (arg : value) : bool :=
  match f with
  | CEq => bool_decide (v = arg)
  | CNe => negb (bool_decide (v = arg))
  | CIncludes => v_includes v arg
  | CExcludes => v_excludes v arg
  | CLt => match v, arg with VAtom a, VAtom b => default false (atom_ltb a b) | _, _ => false end
  | CGt => match v, arg with VAtom a, VAtom b => default false (atom_ltb b a) | _, _ => false end
  | CLe => match v, arg with VAtom a, VAtom b => negb (default true (atom_ltb b a)) | _, _ => false end
  | CGe => match v, arg with VAtom a, VAtom b => negb (default true (atom_ltb a b)) | _, _ => false end
  end.

Definition uuid_colty : colty := mkColTy KAtom (mkBase TUuid [] None) None 1 (Some 1).

Definition col_type (T : table) (c : sym) : option colty :=
  if N.eqb c ucol then Some uuid_colty else option_map c_ty (find_col T c).

(** value of a column of a stored row, [_uuid] included *)
Definition row_col (u : sym) (r : row) (c : sym) : option value :=
  if N.eqb c ucol then Some (VAtom (AUuid u)) else r !! c.

Definition conds_valid (T : table) (cs : list cond) : bool :=
  forallb (fun c => let '(col, f, arg) := c in
             match col_type T col with Some ct => cond_valid ct f arg | None => false end) cs.

Definition eval_cond_row (u : sym) (r : row) (c : cond) : bool :=
  let '(col, f, arg) := c in
  match row_col u r col with Some v => eval_fun v f arg | None => false end.

Definition row_matches (u : sym) (r : row) (cs : list cond) : bool := forallb (eval_cond_row u r) cs.

(** the declarative answer: exactly the rows satisfying every condition *)
Definition filter_rows (rows : gmap sym (gmap sym value)) (cs : list cond) : gmap sym (gmap sym value) :=
  filter (fun ur => row_matches (fst ur) (snd ur) cs = true) rows.
