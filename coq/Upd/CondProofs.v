(** The condition functions of the model are those of RFC 7047 5.1. *)
From LOV Require Export Upd.Cond.
From Coq Require Import Lia.

Lemma eval_eq v arg : eval_fun v CEq arg = true <-> v = arg.
Proof. apply bool_decide_eq_true. Qed.

Lemma eval_ne v arg : eval_fun v CNe arg = true <-> v <> arg.
Proof. simpl. rewrite negb_true_iff, bool_decide_eq_false. reflexivity. Qed.

Lemma eval_includes_set s t : eval_fun (VSet s) CIncludes (VSet t) = true <-> t ⊆ s.
Proof. apply bool_decide_eq_true. Qed.

Lemma eval_excludes_set s t : eval_fun (VSet s) CExcludes (VSet t) = true <-> s ## t.
Proof. apply bool_decide_eq_true. Qed.

Lemma eval_includes_map m n : eval_fun (VMap m) CIncludes (VMap n) = true <-> n ⊆ m.
Proof. apply bool_decide_eq_true. Qed.

Lemma eval_excludes_map m n :
  eval_fun (VMap m) CExcludes (VMap n) = true <-> (forall k x, n !! k = Some x -> m !! k <> Some x).
Proof. apply bool_decide_eq_true. Qed.

Lemma eval_includes_atom a b : eval_fun (VAtom a) CIncludes (VAtom b) = true <-> a = b.
Proof. apply bool_decide_eq_true. Qed.

Lemma eval_excludes_atom a b : eval_fun (VAtom a) CExcludes (VAtom b) = true <-> a <> b.
Proof. simpl. rewrite negb_true_iff, bool_decide_eq_false. reflexivity. Qed.

Lemma eval_includes_opt a b : eval_fun (VOpt a) CIncludes (VOpt b) = true <-> (b = None \/ a = b).
Proof.
  simpl. rewrite bool_decide_eq_true. destruct a as [x|], b as [y|]; simpl; split; try set_solver.
Qed.

Lemma eval_int_lt x y : eval_fun (VAtom (AInt x)) CLt (VAtom (AInt y)) = true <-> (x < y)%Z.
Proof. simpl. apply Z.ltb_lt. Qed.
Lemma eval_int_le x y : eval_fun (VAtom (AInt x)) CLe (VAtom (AInt y)) = true <-> (x <= y)%Z.
Proof. simpl. rewrite negb_true_iff, Z.ltb_ge. reflexivity. Qed.
Lemma eval_int_gt x y : eval_fun (VAtom (AInt x)) CGt (VAtom (AInt y)) = true <-> (x > y)%Z.
Proof. simpl. rewrite Z.ltb_lt. lia. Qed.
Lemma eval_int_ge x y : eval_fun (VAtom (AInt x)) CGe (VAtom (AInt y)) = true <-> (x >= y)%Z.
Proof. simpl. rewrite negb_true_iff, Z.ltb_ge. lia. Qed.

(** reals are compared as fractions *)
Lemma eval_real_lt n1 d1 n2 d2 :
  eval_fun (VAtom (AReal n1 d1)) CLt (VAtom (AReal n2 d2)) = true <-> (n1 * Zpos d2 < n2 * Zpos d1)%Z.
Proof. simpl. apply Z.ltb_lt. Qed.
