(** List-layer transcription of updates/difference.go:setDifference, which
    works in place on the backing array of [a] with swap-removal.  The
    refinement to the canonical symmetric difference is in DiffListProofs.v. *)
From LOV Require Export Upd.Diff.

Definition mem (x : atom) (l : list atom) : bool := bool_decide (x ∈ l).
Definition remove_all (x : atom) (l : list atom) : list atom :=
  filter (fun y => y <> x) l.

(** remove duplicates keeping first occurrences: the key set of the Go map
    built from [b] *)
Fixpoint dedup (l : list atom) : list atom :=
  match l with
  | [] => []
  | x :: l' => x :: remove_all x (dedup l')
  end.

(** move the last element to the front: [a[i] = a[j-1]; j--] seen from
    position i on *)
Definition rotate_last (l : list atom) : list atom :=
  match l with
  | [] => []
  | x :: l' => List.last l x :: List.removelast l
  end.

(** the loop over [a]: [D] is the remaining key set of the map built from
    [b], [p] the prefix a[0..i) already kept, [l] the active region
    a[i..j). *)
Fixpoint sd_loop (fuel : nat) (D p l : list atom) : list atom :=
  match fuel with
  | O => p ++ l ++ D   (* unreachable when fuel >= length l; see sd_loop_fuel *)
  | S f =>
    match l with
    | [] => p ++ D
    | x :: l' =>
      if mem x D then sd_loop f (remove_all x D) p (rotate_last l')
      else sd_loop f D (p ++ [x]) l'
    end
  end.

Definition set_difference_list (a b : list atom) : list atom :=
  match a, b with
  | [], _ => b
  | _, [] => a
  | _, _ => sd_loop (S (length a)) (dedup b) [] a
  end.

(** The modify entry computed for a -> b on list-layer values. *)
Definition lv_diff (a b : lvalue) : option lvalue :=
  match a, b with
  | LSet x, LSet y =>
      match set_difference_list x y with [] => None | r => Some (LSet r) end
  | LMap x, LMap y =>
      let d := mdiff (list_to_map x) (list_to_map y) in
      if decide (d = ∅) then None else Some (LMap (map_to_list d))
  | _, _ => if decide (canon a = canon b) then None else Some b
  end.
