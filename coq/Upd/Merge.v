(** Row-level operations and the aggregation of successive updates to one
    row (updates/updates.go addXxxOperation, updates/merge.go). *)
From LOV Require Export Base.Res Base.Schema Upd.Diff Upd.Mutate.

(** * Row differences *)
Notation drow := (gmap sym value).  (* a "modify" row: changed columns only *)

Definition row_diff (o n : row) : drow :=
  merge (fun a b => match a, b with Some x, Some y => vdiff x y | _, _ => None end) o n.

Definition row_apply (r : row) (d : drow) : row :=
  merge (fun v dv => match v with Some x => Some (vapply x dv) | None => None end) r d.

(** mergeModifyRow: column-wise merge of two modify rows w.r.t. the original
    row [o] (sets with max <> 1 by symmetric difference, maps w.r.t. the
    original, anything else atomically; a column absent from [o] would take
    the zero value — stored rows are total so that case does not arise). *)
Definition merge_mod (o : row) (a b : drow) : drow :=
  merge3 (fun ov av bv =>
            match ov with
            | Some o' => vmerge o' av bv
            | None => match bv with Some _ => bv | None => av end
            end) o a b.

(** * Updates *)
Inductive ruk := KIns | KMod (d : drow) | KDel.
Record mupd := mkUpd { mu_old : option row; mu_new : option row; mu_ru : ruk }.

(** the update one operation produces when it takes a row from [o] to [n];
    [None] when nothing changes (the operation adds no update at all) *)
Definition net (o n : option row) : option mupd :=
  match o, n with
  | None, None => None
  | None, Some r => Some (mkUpd None (Some r) KIns)
  | Some r, None => Some (mkUpd (Some r) None KDel)
  | Some r, Some r' =>
      let d := row_diff r r' in
      if decide (d = ∅) then None else Some (mkUpd (Some r) (Some r') (KMod d))
  end.

(** merge.go:merge / mergeRowUpdate, [a] the accumulated update ([None] =
    the empty update), [b] a new one.  [Err EOther] = "sequence of updates
    not supported". *)
Definition merge_model (a : option mupd) (b : mupd) : res (option row * option row) :=
  let ao := a ≫= mu_old in let an := a ≫= mu_new in
  match mu_old b, mu_new b with
  | None, None => Ok (ao, an)
  | bo, bn =>
    match ao, an with
    | None, None => Ok (bo, bn)
    | _, _ =>
      match an, bo, bn with
      | Some _, Some _, Some _ => Ok (ao, bn)
      | _, Some _, None => Ok (ao, None)
      | _, _, _ => Err EOther
      end
    end
  end.

Definition merge_ru (aold : option row) (a : option ruk) (b : ruk) : res (option ruk) :=
  match a, b with
  | None, _ => Ok (Some b)
  | Some KIns, KMod _ => Ok (Some KIns)
  | Some (KMod da), KMod db =>
      let d := merge_mod (default ∅ aold) da db in
      if decide (d = ∅) then Ok None else Ok (Some (KMod d))
  | Some KIns, KDel => Ok None
  | Some _, KDel => Ok (Some KDel)
  | Some _, _ => Err EOther
  end.

Definition merge_upd (a : option mupd) (b : mupd) : res (option mupd) :=
  '(o, n) <- merge_model a b ;;
  k <- merge_ru (a ≫= mu_old) (option_map mu_ru a) (mu_ru b) ;;
  match k with
  | None => Ok None
  | Some k' => Ok (Some (mkUpd o n k'))
  end.

(** accumulate the update of one more step o -> n *)
Definition add_step (acc : option mupd) (o n : option row) : res (option mupd) :=
  match net o n with
  | None => Ok acc
  | Some b => merge_upd acc b
  end.

(** a chain of row states s0 -> s1 -> ... *)
Fixpoint add_chain (acc : option mupd) (s : option row) (rest : list (option row)) : res (option mupd) :=
  match rest with
  | [] => Ok acc
  | s' :: rest' => acc' <- add_step acc s s' ;; add_chain acc' s' rest'
  end.

(** * Row operations *)
Definition mutation := (sym * mutator * value)%type.

Inductive rop :=
| ROInsert (w : row)
| ROUpdate (w : row)
| ROMutate (ms : list mutation)
| RODelete.

(** update: every known column of [w] must be well typed; a column that
    would change must be mutable *)
Definition check_update_col (T : table) (r : row) (c : sym) (v : value) : res unit :=
  match find_col T c with
  | None => Ok tt      (* unknown columns are ignored *)
  | Some C =>
      if negb (value_ok (c_ty C) v) then Err EOther
      else match r !! c with
           | Some cur => if negb (c_mutable C) && negb (value_eqb cur v) then Err EConstraint else Ok tt
           | None => Ok tt
           end
  end.

Definition row_update (T : table) (r : row) (w : row) : res row :=
  _ <- rmapM (fun kv => check_update_col T r (fst kv) (snd kv)) (map_to_list w) ;;
  Ok (known_cols T w ∪ r).

Definition row_insert (T : table) (w : row) : res row :=
  _ <- rmapM (fun kv => match find_col T (fst kv) with
                        | None => Ok tt
                        | Some C => if value_ok (c_ty C) (snd kv) then Ok tt else Err EOther
                        end) (map_to_list w) ;;
  Ok (fill_row T (known_cols T w)).

Definition mres_to_res (m : mres) : res value :=
  match m with MOk v => Ok v | MErr | MRange => Err EOther | MDomain => Err EDomain end.

Definition row_mutate1 (T : table) (r : row) (mu : mutation) : res row :=
  let '(c, m, arg) := mu in
  match find_col T c, r !! c with
  | Some C, Some cur =>
      v <- mres_to_res (mutate1 (c_ty C) (c_mutable C) cur m arg) ;;
      Ok (<[c := v]> r)
  | _, _ => Ok r       (* unknown column: the mutation is skipped *)
  end.

Definition row_mutate (T : table) (r : row) (ms : list mutation) : res row :=
  rfold (row_mutate1 T) ms r.

Definition rop_apply (T : table) (cur : option row) (op : rop) : res (option row) :=
  match op, cur with
  | ROInsert w, _ => r <- row_insert T w ;; Ok (Some r)
  | ROUpdate w, Some r => r' <- row_update T r w ;; Ok (Some r')
  | ROMutate ms, Some r => r' <- row_mutate T r ms ;; Ok (Some r')
  | RODelete, Some _ => Ok None
  | _, None => Err EOther
  end.
