(** Model of updates/mutate.go + the validation of ovsdb/bindings.go
    (ValidateMutation) as reached through ModelUpdates.addMutateOperation.

    Outcomes: [MOk v] the new column value; [MErr] the operation is rejected
    (ill-typed argument, mutator not supported for the column);
    [MDomain] marks the arithmetic Go would panic on (integer division or
    modulo by zero) — the repaired code reports a domain error there;
    [MRange] an integer result outside int64 (a range error). *)
From LOV Require Export Base.Schema.
From Coq Require Import QArith.

Inductive mutator := MAdd | MSub | MMul | MDiv | MMod | MInsert | MDelete.
Global Instance mutator_eq_dec : EqDecision mutator.
Proof. solve_decision. Defined.

Inductive mres := MOk (v : value) | MErr | MDomain | MRange.

(** integers are Go's int (64 bits): a result that is not representable is the
    "range error" of RFC 7047 5.1 (checkArithmeticRange redoes the operation
    with arbitrary precision), never a wrapped value *)
Definition in_int64 (z : Z) : bool := (-9223372036854775808 <=? z)%Z && (z <? 9223372036854775808)%Z.
Definition int_res (z : Z) : mres := if in_int64 z then MOk (VAtom (AInt z)) else MRange.

Definition qred_pair (q : Q) : Z * positive := let r := Qred q in (Qnum r, Qden r).

Definition real_arith (m : mutator) (n1 : Z) (d1 : positive) (n2 : Z) (d2 : positive) : option atom :=
  let a := (n1 # d1)%Q in let b := (n2 # d2)%Q in
  match m with
  | MAdd => let '(n, d) := qred_pair (a + b) in Some (AReal n d)
  | MSub => let '(n, d) := qred_pair (a - b) in Some (AReal n d)
  | MMul => let '(n, d) := qred_pair (a * b) in Some (AReal n d)
  | MDiv => if Z.eqb n2 0 then None (* +-Inf / NaN: outside the model *)
            else let '(n, d) := qred_pair (a / b) in Some (AReal n d)
  | _ => None
  end.

(** arithmetic on an atomic integer / real column *)
Definition mutate_atom (cur : atom) (m : mutator) (arg : atom) : mres :=
  match cur, arg with
  | AInt x, AInt y =>
    match m with
    | MAdd => int_res (x + y)
    | MSub => int_res (x - y)
    | MMul => int_res (x * y)
    | MDiv => if Z.eqb y 0 then MDomain else int_res (Z.quot x y)
    | MMod => if Z.eqb y 0 then MDomain else MOk (VAtom (AInt (Z.rem x y)))
    | _ => MErr
    end
  | AReal n1 d1, AReal n2 d2 =>
    match m with
    | MAdd | MSub | MMul | MDiv =>
        match real_arith m n1 d1 n2 d2 with Some r => MOk (VAtom r) | None => MDomain end
    | _ => MErr
    end
  | _, _ => MErr
  end.

(** [mutate1 ct cur m arg]: [arg] is the mutation's value as decoded for the
    column: for set columns a set (a bare atom counts as a singleton), for map
    columns a map or — for delete — a set of keys. *)
Definition mutate1 (ct : colty) (mutable : bool) (cur : value) (m : mutator) (arg : value) : mres :=
  if negb mutable then MErr else
  match ct_kind ct, cur with
  | KAtom, VAtom a =>
      match bt_enum (ct_key ct), arg with
      | [], VAtom b => if atom_ok (ct_key ct) b then mutate_atom a m b else MErr
      | _, _ => MErr    (* enums do not support mutation *)
      end
  | KSet, VSet s =>
      match m, arg with
      | MInsert, VSet x => if value_ok ct arg then MOk (VSet (s ∪ x)) else MErr
      | MDelete, VSet x => if value_ok ct arg then MOk (VSet (s ∖ x)) else MErr
      | _, _ => MErr
      end
  | KMap, VMap mp =>
      match m, arg with
      | MInsert, VMap x => if value_ok ct arg then MOk (VMap (mp ∪ x)) else MErr
      | MDelete, VMap x =>
          if value_ok ct arg
          then MOk (VMap (filter (fun kv => x !! (fst kv) <> Some (snd kv)) mp))
          else MErr
      | MDelete, VSet ks =>
          if forallb (atom_ok (ct_key ct)) (elements ks)
          then MOk (VMap (filter (fun kv => fst kv ∉ ks) mp))
          else MErr
      | _, _ => MErr
      end
  | _, _ => MErr   (* optional columns: every mutation is rejected by ValidateMutation *)
  end.
