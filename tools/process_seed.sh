#!/bin/bash
# process_seed.sh <prop> <id> <worktree> <outdir> : run the check on the seeded worktree, confirm the seed, print both
prop=$1; id=$2; wt=$3; out=$4
cd /verif
(VERIF_REPO=$wt VERIF_WORK=/verif/.work/mut timeout 1500 ./check $prop > /tmp/ps_check.out 2>&1; echo "check rc=$?")
grep -v "^KNOWN-FINDING" /tmp/ps_check.out | tail -3 | cut -c1-500
timeout 1500 tools/confirm_seed.sh $id $wt $out 2>&1 | tail -2
