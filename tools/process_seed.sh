#!/bin/bash
# process_seed.sh <prop> <id> <worktree> <outdir> : run the check on the seeded worktree, confirm the seed, print both
# (runs from the tree this script is in, so that it can work on an rsync snapshot of /verif while /verif is edited)
prop=$1; id=$2; wt=$3; out=$4
root=$(cd "$(dirname "$0")/.." && pwd)
cd $root
(VERIF_REPO=$wt VERIF_WORK=$root/.work/mut_$id timeout 1500 ./check $prop > /tmp/ps_check_$id.out 2>&1; echo "check rc=$?")
grep -v "^KNOWN-FINDING" /tmp/ps_check_$id.out | tail -3 | cut -c1-500
rm -rf $root/.work/mut_$id
