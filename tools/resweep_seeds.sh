#!/bin/bash
# resweep_seeds.sh : apply every stored seeded change that still applies to /repo's HEAD in a scratch worktree,
# run the property's quick check on it and report which ones are flagged (a regression test of the checks themselves).
export GOFLAGS=-mod=mod GOPROXY=off GOSUMDB=off GOTOOLCHAIN=local
wt=/tmp/seedall
cd /repo && git worktree remove --force $wt 2>/dev/null; git worktree add --detach $wt HEAD >/dev/null 2>&1
cd /verif
for d in seeded/*/; do
  id=$(basename $d); prop=${id%%-*}
  cd $wt; git checkout -q . ; git clean -fdq
  if ! git apply --check /verif/$d/patch.diff 2>/dev/null; then echo "$id SKIP (patch no longer applies)"; continue; fi
  git apply /verif/$d/patch.diff
  if ! go build ./cache/... ./client/... ./database/... ./mapper/... ./model/... ./ovsdb/... ./server/... ./updates/... ./modelgen/... >/dev/null 2>&1; then echo "$id SKIP (does not build on HEAD)"; continue; fi
  cd /verif
  out=$(VERIF_REPO=$wt VERIF_WORK=/verif/.work/mut timeout 1500 ./check $prop 2>&1 | grep -v "^KNOWN-FINDING")
  if echo "$out" | grep -q "^VIOLATION"; then echo "$id CAUGHT $(echo "$out" | grep -A1 '^VIOLATION' | sed -n 2p | cut -c1-140)"; else echo "$id MISSED $(echo "$out" | tail -1 | cut -c1-100)"; fi
done
cd /repo && git worktree remove --force $wt
