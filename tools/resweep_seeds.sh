#!/bin/bash
# resweep_seeds.sh : apply every stored seeded change that still applies to /repo's HEAD in a scratch worktree,
# run the property's quick check on it and report which ones are flagged (a regression test of the checks themselves).
export GOFLAGS=-mod=mod GOPROXY=off GOSUMDB=off GOTOOLCHAIN=local
wt=/tmp/seedall
cd /repo && git worktree remove --force $wt 2>/dev/null; git worktree add --detach $wt HEAD >/dev/null 2>&1
cd /verif
for d in seeded/*/; do
  id=$(basename $d); prop=${id%%-*}
  cd $wt; git checkout -q . ; git clean -fdq
  if ! git apply --check /verif/$d/patch.diff 2>/dev/null; then echo "$id SKIP (patch no longer applies)"; continue; fi
  git apply /verif/$d/patch.diff
  if ! go build ./cache/... ./client/... ./database/... ./mapper/... ./model/... ./ovsdb/... ./server/... ./updates/... ./modelgen/... >/dev/null 2>&1; then echo "$id SKIP (does not build on HEAD)"; continue; fi
  # does the stored demonstration still fail with the change on this tree? (later repairs can make a change harmless)
  demo=$(ls /verif/$d/*_test.go 2>/dev/null | head -1)
  benign=""
  if [ -n "$demo" ]; then
    pkg=$(grep -l "Seeded" $wt/*/ -r --include=*_test.go 2>/dev/null | head -1)
    pkgdir=$(python3 - "$demo" <<'PY'
import re,sys
s=open(sys.argv[1]).read()
m=re.search(r'^package (\w+)',s,re.M); p=m.group(1)
if p.endswith('_test'): p=p[:-5]
print({'server':'server','cache':'cache','client':'client','inmemory':'database/inmemory','ovsdb':'ovsdb','updates':'updates','mapper':'mapper','model':'model','modelgen':'modelgen'}.get(p,''))
PY
)
    if [ -n "$pkgdir" ] && [ "$pkgdir" != "modelgen" ]; then
      cp $demo $wt/$pkgdir/zz_seeded_demo_test.go
      if go test -vet=off -count=1 -run Seeded ./$pkgdir/ >/dev/null 2>&1; then benign="yes"; fi
      rm -f $wt/$pkgdir/zz_seeded_demo_test.go
    fi
  fi
  cd /verif
  if [ "$benign" = "yes" ]; then echo "$id BENIGN (its demonstration passes with the change on this tree: later repairs made it harmless)"; continue; fi
  out=$(VERIF_REPO=$wt VERIF_WORK=/verif/.work/mut timeout 1500 ./check $prop 2>&1 | grep -v "^KNOWN-FINDING")
  if echo "$out" | grep -q "^VIOLATION"; then echo "$id CAUGHT $(echo "$out" | grep -A1 '^VIOLATION' | sed -n 2p | cut -c1-140)"; else echo "$id MISSED $(echo "$out" | tail -1 | cut -c1-100)"; fi
done
cd /repo && git worktree remove --force $wt
