#!/bin/bash
# confirm_seed.sh <id> <worktree> <outdir> : re-verify a seeded change and store it under /verif/seeded/<id>/
# (build ok, existing tests pass with the change, demo fails with it and passes without it)
set -u
export GOFLAGS=-mod=mod GOPROXY=off GOSUMDB=off GOTOOLCHAIN=local
id=$1; wt=$2; out=$3
demo=$(ls $out/*_test.go | head -1); demoname=$(basename $demo)
pkgdir=$(cd $wt && git status --short | grep "$demoname" | awk '{print $2}' | xargs -r dirname)
if [ -z "$pkgdir" ]; then echo "NOT-CONFIRMED: the demonstration $demoname is not in the worktree"; exit 1; fi
keep=$(mktemp -d /tmp/cs_keep.XXXXXX)
cd $wt
res="{}"
go build ./cache/... ./client/... ./database/... ./mapper/... ./model/... ./ovsdb/... ./server/... ./updates/... >/tmp/cs_build.log 2>&1; b=$?
mv $pkgdir/$demoname $keep/$demoname
go test -vet=off -count=1 ./cache/ ./client/ ./database/... ./mapper/ ./model/ ./ovsdb/... ./server/ ./updates/ >/tmp/cs_suite.log 2>&1; s=$?
mv $keep/$demoname $pkgdir/$demoname; rmdir $keep
go test -vet=off -count=1 -run 'Seeded' ./$pkgdir/ >/tmp/cs_demo_with.log 2>&1; dw=$?
git stash -q -- $(git diff --name-only) ; 
go test -vet=off -count=1 -run 'Seeded' ./$pkgdir/ >/tmp/cs_demo_without.log 2>&1; dwo=$?
git stash pop -q
echo "id=$id build=$b suite=$s demo_with_change=$dw demo_without_change=$dwo (want 0 0 nonzero 0)"
if [ $b -eq 0 ] && [ $s -eq 0 ] && [ $dw -ne 0 ] && [ $dwo -eq 0 ]; then
  mkdir -p /verif/seeded/$id && cp $out/patch.diff $demo /verif/seeded/$id/ && cp $out/meta.json /verif/seeded/$id/meta.agent.json
  echo confirmed
else
  echo NOT-CONFIRMED; tail -n 5 /tmp/cs_suite.log /tmp/cs_demo_with.log /tmp/cs_demo_without.log
fi
