import json,sys,re
prop=sys.argv[1] if len(sys.argv)>1 else 'C19'
s=json.load(open('/verif/.work/%s/stats_%s.json'%(prop,prop)))
print({k:v for k,v in s['distribution'].items() if 'FAIL' in k or 'panic' in k})
seen=set()
for f in s['extra'].get('implementation_failures',[]):
    w=f['what']
    m=re.search(r'libovsdb/[\w/]+\.[\w\(\)\*\.]+',w)
    k=(m.group(0) if m else w[-80:])
    if k in seen: continue
    seen.add(k)
    print(f['stage'],'|',w[:500]); print()
for f in s['oracle_failures'][:6]: print('OR',f['what'][:300])
