#!/usr/bin/env python3
"""dbg_txn.py <prop> <global-case-index> : print, per transaction of the case, the model's results next to the observed ones."""
import sys, json, re, subprocess, os
prop, idx = sys.argv[1], int(sys.argv[2])
work = '/verif/.work/%s' % prop
st = json.load(open('%s/stats_%s.json' % (work, prop)))
shard, off = divmod(idx, st['shard_size'])
src = open('%s/cases_%s_%d.v' % (work, prop, shard)).read()
head, body = src.split('Definition cases : list Txn.case := [\n', 1)
body = body.split('\n].\nDefinition VERDICT')[0]
cases = re.split(r';\n  (?=Txn\.mk )', body)
term = cases[off].strip()
dbg = head + '''
Definition the_case : CASETYPE := %s.
Definition summ (r : result) : nat * N :=
  match r with
  | RUuid u => (1%%nat, u) | RRows rs => (2%%nat, N.of_nat (length rs)) | RCount n => (3%%nat, N.of_nat n) | REmpty => (4%%nat, 0%%N)
  | RErr e => (5%%nat, match e with ERefInt => 1 | EConstraint => 2 | EDomain => 3 | ETimedOut => 4 | ENotSupported => 5 | EDupName => 6 | EOther => 7 end%%N)
  | RNull => (6%%nat, 0%%N) end.
Fixpoint trace (S : schema) (d : dbstate) (l : list (list nlop * tobs)) : list (list (nat * N) * bool * nat) :=
  match l with
  | [] => []
  | (lops, ob) :: l' =>
    let nops := map mk_nop lops in
    let ops := match expand nops with Ok o => o | _ => map n_op nops end in
    let r := transact_named S d nops in
    let d' := commit d r in
    (map summ (fst r), match snd r with Some _ => true | None => false end,
     first_fail [ (1%%nat, results_ok S ops (fst r) (t_results ob)); (2%%nat, state_ok d' (t_state ob)); (3%%nat, refs_ok S d' (t_refs ob)) ]) :: trace S d' l'
  end.
Eval vm_compute in trace (c_schema the_case) ∅ (c_txns the_case).
''' % term
open('/tmp/dbg_txn.v', 'w').write(dbg)
out = subprocess.run(['coqc', '-Q', '/verif/coq', 'LOV', '/tmp/dbg_txn.v'], capture_output=True, text=True).stdout
print(re.sub(r'\s+', ' ', out)[:3000])
cs = json.load(open('%s/cases_%s.json' % (work, prop)))
c = cs[idx]
print('SCHEMA', c['schema'][:1500])
for i, t in enumerate(c['transactions']):
    print('TXN', i, json.dumps(t['ops'])[:1800]); print('   OBS', json.dumps(t['observed'])[:900])
