#!/usr/bin/env python3
"""Regenerates MANIFEST.json from tools/propcfg.py (claimed checks) and properties.jsonl."""
import json, os, sys
ROOT = os.path.dirname(os.path.dirname(os.path.abspath(__file__)))
sys.path.insert(0, os.path.join(ROOT, "tools"))
from propcfg import PROPS, NOT_APPLICABLE, HOOK_COMMITS

ids = [json.loads(l)["id"] for l in open(os.path.join(ROOT, "properties.jsonl"))]
baseline = json.load(open("/root/.vp/BASELINE.json"))["cmd"] if os.path.exists("/root/.vp/BASELINE.json") else ""
checks = []
for pid in ids:
    if pid not in PROPS:
        continue
    c = PROPS[pid]
    checks.append({
        "property_id": pid,
        "quick_cmd": "./check %s --tier quick" % pid,
        "thorough_cmd": "./check %s --tier thorough" % pid,
        "evidence_file": "/verif/evidence/%s.json" % pid,
        "replay_cmd_template": "./check %s --replay {path}" % pid,
        "engine": "coq-corr",
        "level_claimed": {"category": "proof", "text": c["level_text"], "design_ref": c.get("design_ref", "DESIGN.md section 7/" + pid)},
        "level_note": c["level_note"] + (
            " Scenario tests (scenarios/%s: Go tests from the property audits, compiled into the tree under check with go test -overlay) run with every check;"
            " they support the tie to the code and the search for a failing input, no theorem rests on them." % pid
            if os.path.isdir(os.path.join(ROOT, "scenarios", pid)) else ""),
        "technique": c.get("technique", "Coq 8.16 theorems over a hand-written executable Gallina model + correspondence check (model evaluated by vm_compute on inputs the real code was run on)"),
    })
na = [{"property_id": pid, "reason": NOT_APPLICABLE.get(pid, "no check registered yet: the Coq model and correspondence driver for this property are not built; nothing is claimed")}
      for pid in ids if pid not in PROPS]
man = {
    "version": 1,
    "setup_cmd": "./setup.sh",
    "hooks": {"guard": "verif", "enable": "go build -tags verif (the harness is built with -tags verif against /repo's working tree)",
              "baseline_off_cmd": baseline, "source_commits": HOOK_COMMITS, "add_only": True},
    "engines": [{"name": "coq-corr", "path": "/verif/check", "serves_properties": [c["property_id"] for c in checks],
                 "kind_free_text": "Coq 8.16.1 development under /verif/coq (model, theorems, Props/Cxx.v), Go harness under /verif/harness driving the real code, correspondence evaluated inside coqc, facts regenerated from the source for C07/C16/C17/C18, scenario tests under /verif/scenarios"}],
    "checks": checks,
    "notes": "See DESIGN.md. Every check rebuilds the harness from /repo's working tree (VERIF_REPO overrides), honours VERIF_SEED and VERIF_TIER.",
    "not_applicable": na,
}
json.dump(man, open(os.path.join(ROOT, "MANIFEST.json"), "w"), indent=1)
print("MANIFEST.json: %d checks, %d not claimed" % (len(checks), len(na)))
