"""Per-property configuration of ./check (tag names, non-triviality rule, assumptions)."""

NOT_APPLICABLE = {}
HOOK_COMMITS = ["7a2232a", "b563649", "61d73aa"]

PROPS = {
    "C10": {
        "level_text": ("Theorems (Props/C10.v, axiom-free): the modify difference is empty iff the values are equal, applying it to the old value gives the new value, "
                       "the update2 rules for peer-sent differences (set toggle, map add/replace/remove, overwrite), and the list-level transcription of "
                       "setDifference (in-place swap removal) refines the canonical definition for every element order. Tied to the code by running "
                       "ModelUpdates.AddOperation/AddRowUpdate2 on exhaustive small universes + random values and evaluating the model on the same inputs in coqc."),
        "level_note": ("Trusted: Coq kernel + vm_compute, std++; Go harness and Gallina printer; the model is hand-written (reflect-based Go is not translated). "
                       "Non-aliasing of inputs is observed on the implementation (snapshot comparison), not proved. Reals restricted to exact dyadic values."),
        "rule": ("exhaustive: all ordered duplicate-free lists over a universe of 3 (thorough: 4) atoms for both operands of "
                 "integer/string/uuid sets, all maps over 2x2 (3x3) keys/values, optionals and atoms over 3 values incl. the "
                 "default; plus random values (sizes to 12/200). A case is (column, a, b, peer difference d); distinct by "
                 "(column, ordered a, ordered b, ordered d); non-trivial when a != b or a, b are the same set in different order."),
        "tags": {1: "Modify entry of update a->b vs vdiff", 2: "new model column vs b", 3: "input model altered (update)",
                 4: "result of applying peer difference vs vapply", 5: "update produced vs vapply_changed",
                 6: "input model altered (modify)", 7: "list-layer algorithm vs observed Modify"},
        "assumptions": ["set values handed to the library are duplicate-free (what the mapper produces)",
                        "reals are exactly representable dyadic rationals; NaN/Inf/-0 outside the model"],
        "trusted": ["aliasing (inputs not altered) is observed on the implementation, true by construction in the model"],
    },
    "C11": {
        "level_text": ("Theorems (Props/C11.v, axiom-free): for every chain of row states of any length over any column kinds, folding merge.go's "
                       "merge/mergeRowUpdate/mergeModifyRow over the per-step updates gives exactly the single net update (first old, last new, modify = "
                       "difference first->last, vanishing iff unchanged, insert+changes = one insert, change+delete = one delete); the only rejected "
                       "sequence (delete then re-insert of a pre-existing row) is characterised. Tied to the code by driving ModelUpdates.AddOperation / Merge "
                       "with generated operation sequences (update, all mutators, insert, delete; restoring and overlapping values) and evaluating the model on them."),
        "level_note": ("Trusted: Coq kernel + vm_compute, std++; Go harness; hand-written model of updates/{merge,updates,mutate}.go validated by the correspondence "
                       "(every accumulated update: old/new model, kind, Modify row, Old/New/Insert rows, GetModel, GetRow; and which operation errors). "
                       "Integer overflow and non-finite reals are outside the model."),
        "rule": ("random sequences of 2..6 (thorough 2..12) insert/update/mutate/delete operations on one row of a 23-column table covering all column kinds, "
                 "biased to restore original values and to overlap set elements/map keys; both accumulation paths. Distinct by the full case term; "
                 "non-trivial when the sequence has >= 3 operations and >= 1 column is touched by >= 2 of them."),
        "tags": {1: "index of the operation that errors", 2: "update present vs vanished", 3: "old model", 4: "new model", 5: "kind / modify row / insert row",
                 6: "RowUpdate2.Old", 7: "RowUpdate2.New", 8: "GetModel", 9: "GetRow"},
        "assumptions": ["rows are well typed for the table; integer arithmetic does not overflow int64; reals are exact dyadic values"],
    },
    "C05": {
        "level_text": ("Theorems (Props/C05.v, axiom-free) over a model of cache.RowCache (Create/Update/Delete/IndexExists, valueFromIndex, rowsByModels): "
                       "the invariant 'every index map is exactly the grouping of the cached rows by index key, without empty entries' is preserved by every "
                       "operation that does not create a transient schema-index duplicate, hence by every batch in every order for client indexes and for "
                       "hand-over-free batches; under the invariant every index lookup equals a scan, an entry exists iff some row has the value, and the "
                       "duplicate check is exact. The hand-over case on schema indexes (taker applied before giver) is the theorem C05_batch_any_order "
                       "(Cache/IndexBatch.v): with unique rows before and after, a batch applies in every order and leaves every index exactly the grouping of "
                       "the rows - through an invariant of the middle of a batch (an entry points at the last writer of its key; an entry pointing at a row "
                       "not yet applied means no applied row holds the key). Multi-column keys tell an unset optional column from its neighbour's value."),
        "level_note": ("Trusted: Coq kernel + vm_compute, std++; Go harness (own cacheUpdate type forcing the application order); gob+sha256 multi-column key modelled as "
                       "the tuple of non-nil values. Whole sets/maps as index values (unhashable in Go) are outside the model."),
        "rule": ("sequences of 2..8 (thorough 2..14) steps on a real TableCache under 9 index configurations (none, single/multi-column schema, client plain/optional/"
                 "map-key, overlapping, schema on optional): batches of 1..6 row changes through ApplyCacheUpdate in a PRNG-chosen order (35% with a value hand-over: "
                 "swap of two rows or delete+take-over) and direct Create/Update/Delete with and without index check incl. failing calls; after every step rows, every "
                 "Index() partition and 3 RowByModel/RowsByModels probes are compared. Non-trivial: the case has a batch of >= 2 rows and a hand-over."),
        "tags": {}, 
        "assumptions": ["index columns are atoms, optionals or map keys", "batches touch each row at most once (as ModelUpdates guarantees)"],
    },
    "C08": {
        "level_text": ("Theorems (Props/C08.v, axiom-free): a faithful model of RowCache.RowsByCondition - indexable conditions, incrementally built power set, "
                       "evaluation of a condition subset through the first index named after it, intersections, early exits, then explicit evaluation with the "
                       "_uuid shortcut - returns exactly the rows satisfying every condition in every cache state meeting the C05 index invariant, hence "
                       "independently of the index configuration; the condition functions are shown to be RFC 7047's (==, !=, <, <=, >, >=, includes, excludes on "
                       "atoms, optionals, sets, maps). Tied to the code by evaluating the same contents and condition lists under 4 of 7 index configurations. "
                       "The conditional API (Cli/CondApi.v: Matches = List() and Generate of equality / explicit / predicate conditionals, Delete/Update/Mutate): "
                       "WhereAll reports the rows satisfying all conditions, WhereAny those satisfying any; with a cache hit one operation per listed row is sent, by "
                       "_uuid, otherwise the caller's conditions (for models: _uuid or the first schema index all of whose columns are set), which then select nothing; "
                       "executed by the engine on a synchronised database the operations affect exactly the listed rows (counts, listed rows transformed, other rows "
                       "and tables untouched). Tied to the code by a real client on a real server: List(), the where of every generated operation and the table "
                       "after cl.Transact(ops) are compared with the model."),
        "level_note": ("Trusted: Coq kernel + vm_compute, std++; Go harness incl. its own RFC evaluator used as direct oracle; model hand-written. Conditions are "
                       "well typed (the property's quantifier); error masking for ill-typed conditions is outside the model."),
        "rule": ("tables of 0..8 rows over 12 columns of all kinds (values from pools of 4 so that conditions hit), 2..6 (thorough ..10) condition lists of 0..4 "
                 "conditions (all 8 functions, _uuid conditions, repeated columns, sub-collections of stored values, same set in different order, two conditions on "
                 "different keys of one map), each evaluated under 'no index' and 3 other configurations (schema single/multi, client, overlapping, map-key, two "
                 "keys of one map). Non-trivial: >= 2 conditions, >= 3 rows, result neither empty nor everything. API cases (160 quick / 2500 thorough): one of 7 "
                 "index configurations, 0..7 rows, a conditional (1-3 models with an existing / unknown / no uuid and index columns copied from rows, partially "
                 "set or random; WhereAll or WhereAny of 1-3 generated conditions; WhereCache predicate) and one call (Delete, Update with named fields or "
                 "whole model, Mutate with 1-2 mutations), executed through the client's own Transact. Non-trivial: List() neither empty nor everything and the "
                 "operations committed."),
        "tags": {1: "RowsByCondition vs model with pre-filter", 2: "RowsByCondition vs declarative filter", 3: "error for well-typed conditions", 5: "generator produced an ill-typed condition",
                 10: "List() fails", 11: "List() vs model's Matches", 12: "API call succeeds where the model refuses", 13: "API call fails where the model generates operations",
                 14: "where clauses of the generated operations", 15: "table after executing the generated operations", 16: "committed, the model's transaction fails", 17: "not committed, the model's transaction commits"},
        "assumptions": ["conditions are well typed for their column", "the cache state satisfies the C05 invariant (schema-indexed values unique)"],
    },
    "C03": {
        "mismatch_is_violation": True,
        "level_text": ("The engine model Db/Txn.v is the executable reference model of RFC 7047 5.1-5.2 the property asks for; Props/C03.v (axiom-free) shows it says what "
                       "the RFC says: select = exactly the matching rows, update/mutate/delete transform exactly the matching rows and count them, insert stores the "
                       "default-filled row under the reported uuid, later operations see earlier ones (exec_ops over ops1++ops2), every mutator's effect on integers, "
                       "sets and maps (integers are 64-bit: the exact result when it is representable, a range error otherwise), domain error on division by zero, immutable columns never change. Tied to the code by executing generated transaction histories "
                       "on the real in-memory database (operations through JSON, Transact, Commit) and comparing every result, the whole database and the reference "
                       "index after every transaction; a disagreement is itself the property's failure (replay = the history)."),
        "level_note": ("Trusted: Coq kernel + vm_compute, std++; Go harness; the model is hand-written. Known deviations from the RFC kept in the model as the code behaves "
                       "and reported as KNOWN-FINDING: arithmetic mutators on set columns and any mutation of an optional column are rejected. Integers beyond 2^53 "
                       "that are not exact as JSON numbers and non-finite reals are outside the model. Operations built through the client model API are not yet covered."),
        "rule": ("histories of 1..6 (thorough ..10) transactions of 1..4 (..6) operations over a 22-column table of all kinds plus a second table: insert/select/update/"
                 "mutate/delete/wait(0), conditions biased to hit stored values, 5% deliberately failing operations; four fixed histories of integer arithmetic at the ends of the 64-bit range. Non-trivial: the transaction commits and some "
                 "operation inserts, changes or returns >= 1 row."),
        "tags": {1: "operation results", 2: "database contents after the transaction", 3: "reference index (GetReferences)"},
        "assumptions": ["values respect the column types (ill-typed ones are a separate 5% stream expected to fail)", "wait has timeout 0"],
    },
    "C02": {
        "level_text": ("Theorems (Props/C02.v, axiom-free) over the engine model: the reply has exactly one of the three legal shapes; any error result means the database "
                       "is unchanged; a later transaction behaves as if the failed one had never been submitted; the transaction commits iff no result is an error. What "
                       "makes this hold or fail in Go is aliasing between the transaction's scratch state and the committed state, which a pure model cannot express: "
                       "that half is the correspondence check - the whole database and the reference index are read before and after every (45% failing) transaction. "
                       "The request level is modelled too (server_transact, Db/Request.v): a transact request one argument of which cannot be decoded has results up to one "
                       "error at or before that argument - the syntax error when every operation before it succeeded, never the verdict of the end-of-transaction checks - "
                       "and commits nothing; tied to server.Transact by requests with garbage at every position."),
        "level_note": ("Trusted: Coq kernel + vm_compute, std++; Go harness. Monitors are not part of this check (C07 covers notifications). The database's internal indexes "
                       "are observed through the follow-up transactions of the same history, not directly."),
        "rule": ("histories of 1..6 transactions of 1..5 operations on a schema with strong/weak references (min 1), unique indexes and an immutable column; 45% of the "
                 "transactions contain a failing operation (unsupported op, ill-typed value, rejected mutation, timed-out wait, duplicate uuid, immutable column) at a "
                 "random position, 12% of references dangle; 30 (thorough 600) requests through OvsdbServer.Transact with an undecodable argument at a random position "
                 "(after two colliding inserts / a dangling strong reference in two of five). Non-trivial: the failing operation is not the first and an earlier one changed a row."),
        "tags": {1: "operation results", 2: "database contents after the transaction", 3: "reference index (GetReferences)", 8: "reply to a request with an undecodable operation"},
        "assumptions": [],
    },
    "C06": {
        "level_text": ("Theorems (Props/C06.v, axiom-free): uniqueness of every schema index is preserved by every committed transaction and every history; a transaction "
                       "whose final state has a duplicate gets a constraint violation appended; acceptance depends on the final state only (transient duplicates between "
                       "operations are irrelevant). Tied to the code by histories biased to collisions, swaps, delete+reinsert and garbage collection of indexed rows."),
        "level_note": "Trusted: Coq kernel + vm_compute, std++; Go harness incl. its duplicate scan used as direct oracle.",
        "rule": ("histories of 1..8 (thorough ..14) transactions on a table whose index arrangement varies per history (disjoint; one index within another declared before or "
                 "after it; two sharing a column; one column set declared twice) plus an indexed non-root table; values from pools of "
                 "3; 30% of the transactions swap the indexed values of two rows or delete a row and insert its values elsewhere. Non-trivial: an index value is written "
                 "by >= 2 operations of one transaction."),
        "tags": {1: "operation results", 2: "database contents after the transaction", 3: "reference index (GetReferences)"},
        "assumptions": [],
    },
    "C04": {
        "level_text": ("Theorems (Props/C04.v, axiom-free) over Db/Refs.v, where references are recomputed from the rows: a dangling strong reference in the candidate state "
                       "rejects the transaction; every committed state, after every history, is stable under one more round of garbage collection and weak-reference "
                       "pruning (no unreferenced non-root row, no weak reference to a missing row, minimum sizes respected); only the named rejection classes arise. "
                       "Because the model has no reference index at all, its decisions depend on the stored rows only; that the implementation's incrementally tracked "
                       "index equals the recomputed one is checked after every transaction (GetReferences of every row). No strong reference to a missing row exists "
                       "after the processing, in every committed state and after every history (collection removes only unreferenced rows, pruning adds no reference)."),
        "level_note": ("Trusted: Coq kernel + vm_compute, std++; Go harness incl. its from-scratch recomputation of integrity and references. The order of steps follows "
                       "ovsdb-server and the code: strong check on the candidate state before collection; per round one collection level then weak pruning."),
        "rule": ("random schemas of 2..4 tables (root/non-root) with 1..3 reference columns each: strong/weak, optional, set (min 0/1), map key, map value, both; self "
                 "references, cycles, chains; histories of 1..8 (thorough ..14) transactions adding/moving/removing references and referenced rows, 8% dangling. "
                 "Non-trivial: the transaction is rejected at commit time or commits with rows collected / references pruned."),
        "tags": {1: "operation results", 2: "database contents after the transaction", 3: "reference index (GetReferences)"},
        "assumptions": [],
    },
    "C15": {
        "level_text": ("Theorems (Props/C15.v, axiom-free): the name substitution is computed from all inserts first and applied to every UUID atom of every operation, so "
                       "each use of a name - before or after its insert, in rows, set elements, map keys and values, conditions, mutations - becomes the UUID of the insert "
                       "carrying it; non-UUID atoms (text equal to a name) and real UUIDs are untouched; two inserts claiming a name with different UUIDs are rejected; "
                       "expansion keeps each insert's own UUID, which by the insert law is the UUID reported and stored. Tied to the code by transactions with 1..4 named "
                       "inserts (70% with explicit UUIDs, the rest server-assigned and renamed) whose names occur in every UUID position next to equal text."),
        "level_note": ("Trusted: Coq kernel + vm_compute, std++; Go harness. In the model atoms are typed (AUuid vs AStr), so 'non-UUID position' is 'non-UUID atom'; that the "
                       "code's schema-directed expansion coincides with it for well-typed values is what the correspondence checks. Client-side Create() (non-UUID _uuid "
                       "field becoming a uuid-name) is not yet covered."),
        "rule": ("histories of 1..4 transactions; 85% built by the named-insert generator: 1..4 named inserts into two tables, operations using the names (update/mutate/select "
                 "with names in rows, sets, map keys, map values, conditions, mutations) placed before and after the inserts, string columns holding the same text, 15% a "
                 "second insert claiming an existing name. Non-trivial: names occur in >= 2 UUID positions of the transaction."),
        "tags": {1: "operation results", 2: "database contents after the transaction", 3: "reference index (GetReferences)"},
        "assumptions": ["names are not syntactically valid UUIDs"],
    },
    "C07": {
        "level_text": ("Theorems (Props/C07.v, axiom-free): the notification computed from the database before/after a committed transaction, applied by a peer (update: new/old rows; "
                       "update2: insert / modify-difference with set toggle and map add-replace-remove / delete) to the monitored part before, yields the monitored part "
                       "after; an entry exists iff the monitored part of the row changed; a modify carries exactly the changed monitored columns; nothing is sent without net "
                       "effect; only selected kinds and columns; one slot per transaction in commit order, nothing for failed ones. Tied to the code by a real OvsdbServer on a "
                       "unix socket with raw JSON-RPC peers holding 1..3 monitors (monitor / monitor_cond / monitor_cond_since, random table/column subsets, omitted columns, "
                       "omitted or random select flags, established at a random point): every message and every initial dump is compared with the model."),
        "level_note": ("Trusted: Coq kernel + vm_compute, std++; Go harness incl. its own update2 application used as direct oracle; cenkalti/rpc2 and the socket layer. The "
                       "'where' member of monitor_cond requests is not exercised (the server ignores it)."),
        "rule": ("histories of 2..6 (thorough ..12) transactions (15% failing, 5% dangling references; schema with strong/weak references, GC and weak pruning) sent as "
                 "'transact' requests by a writer peer; 1..3 monitoring peers as above. Non-trivial: a committed transaction produced a notification for some monitor."),
        "tags": {1: "operation results", 2: "database contents", 4: "a monitor's message for the transaction", 5: "a monitor's initial contents"},
        "assumptions": ["synchronous delivery: the server calls each monitor and waits for its reply before answering transact (so messages are complete when transact returns)"],
    },
    "C01": {
        "level_text": ("Theorems (Props/C01.v, axiom-free), protocol level: the initial contents mirror the database at the request; every notification keeps the cache equal "
                       "to the monitored part (both encodings); hence after any history following the request on any state the cache is exactly the monitored part "
                       "(induction over the history, resting on C07's exact-difference theorem); a notification deferred until the initial contents are applied gives "
                       "the same cache. Tied to the code end to end: real server, real client with 1..3 monitors on disjoint tables (all three methods, one connection-wide method in half of the cases, column subsets, "
                       "established at random points), a writer peer and the client itself committing; after every transaction Cache().Table(t).Rows() is compared with the "
                       "model's monitored part and with Database.List; 40% of monitor set-ups (any method) are paused at monitor.replyReceived while the next transaction is notified. "
                       "Partial: goroutine interleavings other than the forced window are not explored; additional monitors on tables already monitored are excluded."),
        "level_note": ("Trusted: Coq kernel + vm_compute, std++; Go harness; rpc2 in blocking mode delivering requests in order; the 'verif' pause hook. Quiescence is a fact of "
                       "the protocol (the server calls each monitor synchronously before answering transact), not a sleep."),
        "rule": ("histories of 2..7 (thorough ..14) transactions (8% failing) after a populating transaction, 30% issued by the monitoring client itself and read back "
                 "immediately; monitors as above. Non-trivial: after the monitor is established the history changes >= 1 monitored row and deletes >= 1."),
        "tags": {1: "operation results", 2: "database contents", 6: "client cache vs monitored part of the database"},
        "assumptions": ["two monitors of one client watch disjoint tables", "every kind of change is selected (the client API always selects all)"],
    },
    "C19": {
        "level_text": ("Theorems (Props/C19.v, axiom-free): the hand-written decoders of ovsdb/{notation,uuid,set,map,row,condition,mutation,schema}.go are transcribed "
                       "statement by statement with every Go slice index and unchecked type assertion as a primitive that yields Panic when out of range / of the wrong dynamic "
                       "type; for every generic JSON tree and every recursion depth no decoder reaches Panic (a value or an error); the row operations of the engine model "
                       "answer every argument with a row or an error and division/modulo by zero is a domain error; the pinned decoders are refuted by witnesses. Tied to the "
                       "code by decoding structurally corrupted encodings of every wire type with the real UnmarshalJSON (outcome class and decoded value compared with the "
                       "model; for the message decoders of Wire/Messages.v - table updates of both formats, monitor_cond_since replies, operation results, monitor requests, "
                       "whose totality theorems are C19_table_updates(2)_total, C19_monitor_cond_since_reply_total, C19_result_total, C19_monitor_request_total - the outcome class), garbled byte strings, corrupted transactions executed in process (panics recovered) and sent as raw JSON-RPC to a real server followed by echo. "
                       "Partial: encoding/json's scanner, the struct-tag decoding of whole schemas and of the JSON-RPC envelopes, and the engine code below the modelled row operations, are covered by the driver only."),
        "level_note": ("Trusted: Coq kernel + vm_compute, std++; Go harness; encoding/json. A panic observed in the implementation is reported with the input as replay; "
                       "the server part runs in a child process because a panic in a connection goroutine kills the process."),
        "rule": ("part A: valid encodings of set/map/uuid/row/condition/mutation/base type/column type/column (modelled) and operation(s)/table updates (both formats)/"
                 "monitor_cond_since reply/schema/result/monitor request (implementation only), with 0..3 structural corruptions (drop/insert/replace/swap elements, drop or "
                 "null members, junk such as [], [\"uuid\"], [\"set\",1], [\"map\",[[x]]], unhashable map keys, wrong kinds), plus garbled bytes; part B: generated transactions "
                 "(all operation kinds) corrupted the same way and ~900 hand-picked degenerate operations (every mutator with 0, 0.5, null, wrong kinds on every column "
                 "kind; every operation kind with missing members, unknown tables/columns, null values), each followed periodically by a valid select; part C: the same "
                 "over JSON-RPC + echo. Non-trivial: the input was corrupted."),
        "tags": {1: "outcome class (value / error / panic) differs from the model", 2: "decoded value differs from the model"},
        "assumptions": ["inputs are JSON texts (anything else is rejected by encoding/json before the library's code runs)"],
    },
    "C12": {
        "level_text": ("Theorems (Props/C12.v, axiom-free): decode(encode v) = v for every well-formed value in notation normal form (atoms, uuids and named uuids, sets of "
                       "any size, maps from atoms to atoms or sets with pairwise different keys), rows, conditions (all 8 functions) and mutations (all 7 mutators) of such "
                       "values, and for base types with every constraint member, column types (key, value, min, max, unlimited) and columns (ephemeral, mutable, inferred "
                       "extended type); the pinned base-type codec is refuted (minLength lost). Tied to the code by comparing the implementation's encoding with the model's "
                       "and the implementation's decoding of it with the model's on generated values. The struct codecs of encoding/json are modelled field by field (omitempty, "
                       "nil pointers, null): operations of all ten kinds with every optional member (Wire/Operation.v), and operation results, table updates in both formats "
                       "(rows nil / present but empty / filled, nil row updates, \"delete\": null), monitor requests (columns absent / empty / listed, partial selects) and "
                       "monitor_cond_since replies (Wire/Messages.v), each with its round-trip theorem and tied by value / encoding / decoding triples. Partial: whole schemas "
                       "(the map of tables around the modelled columns), the 12 error kinds and the JSON-RPC envelopes are decided by the direct round-trip oracle on the "
                       "implementation only (error <-> result mapping, isRoot, indexes)."),
        "level_note": ("Trusted: Coq kernel + vm_compute, std++; Go harness incl. its normal form for comparing Go values (numbers as float64, nil = empty, a singleton set is "
                       "its element, as RFC 7047 5.1 writes it). Byte-level JSON syntax is encoding/json's."),
        "rule": ("60%: values/sets/maps/uuids/rows/conditions/mutations over all atom types (strings include \"set\", \"map\", \"uuid\", the empty string and non-ASCII text; named "
                 "and real uuids; sets of 0..4; maps of 0..3 pairs incl. sets of uuids as values); 30%: base types / column types / columns generated as JSON with every "
                 "optional member present or absent (integer bounds up to the ends of int64, read back digit by digit); then as many operations, results, updates of both "
                 "formats, monitor requests and monitor_cond_since replies against the model and through the implementation-only round trip, and whole "
                 "schemas (1..3 tables, indexes, isRoot) and the 12 error kinds through the latter. Non-trivial: the value is not a bare atom."),
        "tags": {1: "the implementation's encoding differs from the model's", 2: "decoding the implementation's encoding: model and implementation differ",
                 3: "the decoded value differs from the original", 11: "operation: encoding", 12: "operation: decoding", 13: "operation: decoded value differs from the original",
                 21: "message: encoding", 22: "message: decoding", 23: "message: decoded value differs from the original", 24: "monitor select: what the accessors answer differs from the model's kinds"},
        "assumptions": ["numbers in rows are float64 values as encoding/json produces them (integers within +-2^53); integer bounds of schemas are exact up to the ends of int64"],
    },
    "C09": {
        "level_text": ("Theorems (Props/C09.v, axiom-free, on top of C12's wire theorems): for every column type (atoms, enums, uuids/references, optional, sets with any "
                       "bounds, maps over every key/value type) and every native value of the field's type, NativeToOvs, the JSON encoding, the row decoder and OvsToNative "
                       "compose to the identity (a one-element set travels as its element and comes back as a one-element slice; an empty optional as nil); a value whose "
                       "Go type does not match the column is rejected; what OvsToNative accepts for an atomic column is a value of the column's type denoting the same OVS "
                       "value (nothing is converted); columns absent from a row leave the field untouched. Tied to the code by run-time struct models over a 60-column "
                       "table: NativeToOvs, OvsToNative, Mapper.NewRow and Mapper.GetRowData are compared with the model; the whole path incl. model.CreateModel and the "
                       "schema validation of mismatching field types is checked by the driver's oracle; the composition over all columns of a model (NewRow leaving out "
                       "defaults, JSON, GetRowData into a fresh model) is the theorem C09_model_roundtrip. Partial only in that integers are unbounded in the model "
                       "and the all-zero uuid is excluded (the two known findings)."),
        "level_note": ("Trusted: Coq kernel + vm_compute, std++; Go harness (reflect.StructOf models); encoding/json. Go's type identity of empty slices/maps and nil pointers "
                       "is invisible to the model (such mismatch cases are skipped). Known findings: integers beyond 2^53 (class 13) and the all-zero uuid (class 14)."),
        "rule": ("a value for a random column of the 60-column table (all atomic types as atom/optional/set 0..n/set 1..n/set 0..3, 15 map shapes, enums of strings and "
                 "integers as atom/optional/set/map key, strong and weak references in every position; 12% with integers from the edges of the 64-bit range, 10% of uuid "
                 "atoms the all-zero uuid) goes model -> NewRow -> JSON -> Row -> GetRowData (fresh and pre-filled two-column model) / CreateModel; half as many "
                 "mismatching cases (native and OVS values of another column, junk OVS values); all ordered pairs of differing field types through NewDatabaseModel. "
                 "Non-trivial: the value is not a bare atom."),
        "tags": {1: "NativeToOvs accepts/rejects differently", 2: "NativeToOvs result", 3: "OvsToNative accepts/rejects differently", 4: "OvsToNative result",
                 5: "NewRow accepts/rejects differently", 6: "NewRow result", 7: "model after GetRowData", 8: "GetRowData accepts/rejects differently"},
        "assumptions": ["sets handed to the mapper are duplicate-free; map keys are distinct as Go compares them", "non-finite reals excluded (the property's quantifier)"],
    },
    "C14": {
        "level_text": ("Theorems (Props/C14.v, axiom-free): the model applies the rows of a notification one at a time (Populate/Populate2 + ApplyCacheUpdate), enqueuing one event "
                       "per applied change into a bounded FIFO drained by a second goroutine towards every handler. For every history, and every interleaving of enqueue and "
                       "dequeue steps in which nothing was dropped, once the buffer is drained each handler's log replayed on the empty table set is legal at every step (add "
                       "meets no row; update/delete meet exactly the state they carry as old) and ends in the cache contents; every event is an applied change with old <> new; "
                       "an unchanged row produces none; nothing is dropped below capacity; all handlers see one sequence. Tied to the code by feeding a real TableCache (two "
                       "handlers, one slow, dispatcher running) with the notifications a real server sends (both encodings) and with notifications it must refuse. "
                       "Partial: goroutine interleavings are those the scheduler produces (plus the slow handler), not enumerated; Purge (no events) is outside the property."),
        "level_note": ("Trusted: Coq kernel + vm_compute, std++; Go harness incl. its shadow copy driven by the events (direct oracle). Waiting for the dispatcher is by polling "
                       "the handlers' logs up to the expected count."),
        "rule": ("histories of 2..6 (thorough ..12) transactions on a schema with references, garbage collection and weak pruning, monitored from before the first or the second "
                 "transaction with 'monitor' or 'monitor_cond'; 20% of the steps are followed by a notification about an unknown row. Non-trivial: the history shrinks a table "
                 "and delivers update and delete events."),
        "tags": {1: "notification accepted/refused", 2: "delivered events vs the model's (as a set)", 3: "replaying the delivered sequence on the previous contents",
                 4: "cache contents afterwards"},
        "assumptions": ["fewer events outstanding than the buffer holds (65536)", "handlers registered before the history starts"],
    },
    "C13": {
        "level_text": ("Theorems (Props/C13.v, axiom-free) over a heap model of Go models (a struct held by value whose pointer, slice and map fields refer to cells; aliasing = a "
                       "shared cell): Clone yields an equal model sharing no cell; from any state where no cell is shared between a cached model and a model the caller holds "
                       "(true initially, preserved by every step), no sequence of reads, field overwrites, writes through pointers / slice elements / map entries, appends, or "
                       "writes of other rows changes what the cache returns for a row; a model handed to the cache is stored by value; a cell-sharing copy is refuted. Tied to "
                       "the code by op sequences on a real RowCache (reads through Row, Rows, RowByModel, RowsByModels, RowsByCondition; Create/Update with models the caller "
                       "keeps mutating), compared step by step with the model. Partial: that each further Go path copies (event handlers, client Get/List/Where...List) and "
                       "Equal's laws (reflexive, symmetric, distinguishing; run-time structs through JSON and a generated model with its own deep copy) are decided by the "
                       "driver's direct oracle only."),
        "level_note": ("Trusted: Coq kernel + vm_compute, std++; Go harness (reflection-based mutation of run-time structs). RowsShallow is the documented read-only exception "
                       "and is not exercised."),
        "rule": ("sequences of 24 (thorough 40) steps: build a model, Create/Update a row with a held model, read a row through one of 5 paths, or mutate a held model in one of "
                 "the ways a caller can (9 fields of all kinds); after every step all rows are read again. Plus per run: client rounds (server + client; event-handler models, "
                 "Get, List, Where.List mutated), Clone/CloneInto/Equal laws on 4 x cases run-time structs and 2 x cases generated models. Non-trivial: >= 3 mutations and >= 2 rows."),
        "tags": {1: "rows read from the cache after the step vs the model", 9: "the model cannot perform the step (write through a nil reference)"},
        "assumptions": [],
    },
    "C17": {
        "level_text": ("Theorems (Props/C17.v, axiom-free): each transact request is a thread performing the critical actions of OvsdbServer.Transact - take the transaction lock, "
                       "execute against the committed database, notify the monitors, commit, release - in the order read off server/server.go by a go/ast extractor on every run "
                       "(generated fact body_serial extracted_body = true, checked by coqc). For every schedule (any sequence of thread ids; taking the lock blocks while it is "
                       "held), whenever no request is inside Transact, the database, the outcome every finished request received and the order in which monitors were notified "
                       "are those of executing the requests one after another in lock order; at most one request is inside the critical section; without the lock two "
                       "increments lose one (refuted by a witness). Tied to the code by 2..5 concurrent client connections against a real server with 1..2 monitors. "
                       "Partial: rpc2's goroutines and the Go mutex are not modelled; that the notification of a monitor is awaited inside the critical section (what keeps two "
                       "notifications to one peer in commit order) is a fact generated from server/monitor.go on every run; the engine is C03's model."),
        "level_note": ("Trusted: Coq kernel + vm_compute, std++; the extractor (it recognises o.txnMutex.Lock/Unlock, o.transact, o.processMonitors, o.db.Commit, go and defer); "
                       "Go harness. Each transaction inserts a marker row, so a monitor's notification sequence names the commit order. Failed transactions have no place in "
                       "that order: the check asks that their results occur at some point of the serial execution."),
        "rule": ("per case: sequential set-up, then 2..5 clients each submitting 3..6 transactions concurrently: counter increment (mutate +=), read-modify-write (select, then "
                 "wait n == read value + update, failing when overtaken), insert competing for one of 3 unique names, moving a strongly referenced child between two parents; "
                 "direct oracles: counter = number of committed increments, one row per unique name, every monitor saw the same order, no monitor notified of a failed one. "
                 "Non-trivial: >= 6 committed and >= 1 failed transaction."),
        "tags": {1: "results of a committed transaction vs serial execution in notification order", 2: "final database", 4: "a failed transaction's results occur nowhere in the serial execution",
                 5: "monitors disagree on the order"},
        "assumptions": ["a client has one transaction in flight at a time"],
    },
    "C20": {
        "level_text": ("Theorems (Props/C20.v, axiom-free): for every column (any extended type, key and value types, min, max, with or without an enum, enum types on or off) the "
                       "Go type modelgen writes for the field is, up to the generated enum aliases, the type ovsdb.NativeType demands (the identity mapper/info.go checks), and "
                       "the generated deep copy treats exactly the fields that type makes pointers, slices or maps; that such a copy is equal and shares no memory is C13's "
                       "Clone theorem. Tied to the code by FieldType / FieldTypeWithEnums / NativeType on generated column types, and by the real generator: generated schemas "
                       "(table names with underscores, column names needing initialisms, enums of strings, integers and reals as atom/optional/set/map key) are generated "
                       "under the 4 option combinations, twice (byte-identical), built with go build in a scratch module, validated with model.NewDatabaseModel against their "
                       "schema, and the Clone/CloneInto/Equal laws are run on randomly filled instances of every generated struct (generated fast path and generic path). "
                       "Partial: compilation, reproducibility and the behaviour of the generated methods are decided by that driver, not by a theorem about the templates."),
        "level_note": ("Trusted: Coq kernel + vm_compute, std++; Go harness, the Go toolchain building the generated code. Known finding: the generic JSON-based Clone cannot copy "
                       "maps keyed by reals or booleans (class 21; such tables are skipped on the generic path)."),
        "rule": ("500 (thorough 6000) generated column types through the three type functions; 3 (thorough 12) schemas of 1..3 tables with 3..10 columns x 4 option "
                 "combinations; 40 filled instances per generated struct; Generate into a directory that already holds the files of another option combination (longer and "
                 "shorter ones). Non-trivial: the field is a pointer, slice or map."),
        "tags": {1: "FieldType vs the model", 2: "FieldTypeWithEnums vs the model", 3: "NativeType vs the model", 9: "the model's decoder rejects the column"},
        "assumptions": ["column and table names do not collide after camel-casing", "enum values of strings are identifier-like (letters, digits, '-', '_')"],
    },
    "C16": {
        "level_text": ("Theorems (Props/C16.v, axiom-free): on reconnect every monitor is re-established, in an arbitrary order (any permutation), and answers with the complete "
                       "contents of its tables; with the repaired purge rule the cache is afterwards exactly the monitored part of the database whatever it held before - no row "
                       "deleted meanwhile survives, none is missing - for any number of monitors; the pinned rule (every restarted monitor purges everything) is refuted for two "
                       "monitors. Tied to the code by a fault-injecting proxy between a real client (reconnect on) and a real server: the connection is cut during connect, "
                       "during a monitor's set-up, between and inside notifications, with the client's own transaction in flight (request or reply lost), or goes silent "
                       "(inactivity probe), repeatedly, while another client keeps committing; after every cut the cache must equal the monitored part of the database once "
                       "the client reports being connected; Transact calls carry unique marker values (returned results => stored exactly once, error => at most once). "
                       "Last-transaction-id known to the server: Cli/Since.v models a history-keeping server (found=true: the update2 difference since the id; found=false: "
                       "the contents; both with the current id) and the client's (cache, id) bookkeeping; a client good for the current state stays so through any session of "
                       "update3 notifications and reconnections whether or not the id is found (C16_since_session); the pinned client, which kept its old id after found=false, "
                       "is refuted. In 40% of the cases (always in the scripted case 0) the proxy plays such a server on top of the built-in one: a shadow monitor learns "
                       "every transaction id, the driver snapshots the database after each transaction, and a monitor_cond_since request whose id and current contents have "
                       "snapshots is answered [true, id, difference] - or, 25% of the time, [false, id, contents] as a cluster member with a shorter history would. "
                       "Leader-only mode: Cli/Leader.v models isEndpointLeader and the endpoint loop; the endpoint chosen never reports 'clustered, not the leader' for the "
                       "client's database in whatever order the server lists its databases, none is chosen iff all are refused, an endpoint that lost leadership is not chosen "
                       "again while it says so; tied to the code by real servers that also serve _Server (shuffled Database rows: attach with 1..3 endpoints of every role, "
                       "leadership moving to another endpoint, leadership lost and regained). "
                       "Partial: cut positions are sampled, not enumerated; the timing of the reconnect loop and of the leadership watch is the implementation's."),
        "level_note": ("Trusted: Coq kernel + vm_compute, std++; Go harness incl. the proxy (it forwards whole JSON messages) and its polling for convergence (8 s deadline). "
                       "Notifications arriving while a monitor is being restarted are C01's deferral theorem."),
        "rule": ("per case 1..3 monitors (any method) on disjoint groups of 3 tables (+ an unmonitored or monitored marker table), 3 (thorough 5) cuts of 5 kinds, 1..3 foreign "
                 "transactions (incl. deletes, GC, weak pruning) per cut, 20% of the cases with the inactivity probe and a silent peer, 25% with a cut during the first connect. "
                 "History mode: one monitor_cond_since monitor, a transaction while connected before most cuts, the server unreachable (connections refused) while others "
                 "commit in 70% of the idle cuts, a quiet second cut after half of the rounds; case 0 runs the fixed sequence notified / unreachable while a set and a map "
                 "change / back / quiet second cut. Non-trivial: >= 2 monitors, or history mode with a found=true answer."),
        "tags": {1: "cache after resynchronisation vs the model (monitored part of the database)", 2: "endpoint a leader-only client attached to vs the model's choice"},
        "assumptions": ["monitors of one client watch disjoint tables", "outside history mode the server answers a re-established monitor with the complete contents (the built-in server never knows a last transaction id); in history mode the proxy's answers are those of a server as ovsdb-server(7) describes monitor_cond_since"],
    },
    "C18": {
        "level_text": ("Theorems (Props/C18.v, axiom-free): threads that acquire locks in increasing rank order and release what they hold never reach a state where every unfinished "
                       "thread waits for a lock, and that invariant is preserved by every step; an acyclic acquisition graph has such a rank. The graph is read off the source on "
                       "every run: a go/ast extractor walks every function of client, cache, server and in-memory database (both branches of an if, loop bodies, every case) and "
                       "reports the locks held at each return after the defers ran and the (held, acquired) pairs, also through calls; the generated fact discipline_ok "
                       "extracted_summaries = true (no path leaks a lock, the order is acyclic) is checked by coqc. Tied to the runtime by scenarios with deadline watchdogs: "
                       "every API call failing in each way it can (not connected, unknown table, cancelled context, unknown monitor) followed by calls that must work, and a "
                       "stress of concurrent List/Get/Where/Transact/Monitor/MonitorCancel/Echo/Disconnect with notifications and connection cuts, also run in a child process "
                       "built with -race. Partial: data races, rows mixing two versions and blocking on channels are runtime behaviour the model cannot exhibit; they are "
                       "explored (race detector, watchdogs, a writer keeping two columns equal), not proved; read locks are treated as exclusive."),
        "level_note": ("Trusted: Coq kernel + vm_compute, std++; the lock extractor (structural path exploration, name-based resolution of mutex fields and callees); the Go race "
                       "detector. waitForCacheConsistent is documented to return holding the cache read lock and is treated as an acquisition."),
        "rule": ("2 failing-call scenarios (with and without reconnect), 2 (thorough 10) stress rounds of 1.2 s (3 s) in process and 2 (8) under the race detector: 2 readers, a "
                 "transactor, a monitor set-up/cancel/echo loop, a foreign writer updating columns a and b together, cuts/disconnects every 40..120 ms; every call has an 8 s "
                 "watchdog. Non-trivial: > 10 calls in the scenario."),
        "tags": {1: "an API call did not return within its deadline", 2: "a reader saw a row with fields of two versions"},
        "assumptions": ["context deadlines of at most 3 s; the watchdog is 8 s"],
    },
}
