#!/bin/bash
# resweep_par.sh <workers> [prop ...] : tools/resweep_seeds.sh in parallel. Runs from the tree this script is in (use an
# rsync snapshot of /verif so that editing can go on); worker k takes every <workers>-th stored change of the named
# properties (all when none is named), in its own worktree /tmp/seedall_k and work directory. Output: one line per change.
export GOFLAGS=-mod=mod GOPROXY=off GOSUMDB=off GOTOOLCHAIN=local
root=$(cd "$(dirname "$0")/.." && pwd)
n=$1; shift
props="$*"
ids=()
for d in $root/seeded/*/; do
  id=$(basename $d); prop=${id%%-*}
  if [ -z "$props" ] || echo " $props " | grep -q " $prop "; then ids+=($id); fi
done
worker() {
  k=$1; wt=/tmp/seedall_$k
  git -C /repo worktree remove --force $wt 2>/dev/null; git -C /repo worktree add --detach $wt HEAD >/dev/null 2>&1
  i=0
  for id in "${ids[@]}"; do
    i=$((i+1)); [ $((i % n)) -eq $k ] || continue
    prop=${id%%-*}; d=$root/seeded/$id
    cd $wt; git checkout -q . ; git clean -fdq
    if ! git apply --check $d/patch.diff 2>/dev/null; then echo "$id SKIP (patch no longer applies)"; continue; fi
    git apply $d/patch.diff
    if ! go build ./cache/... ./client/... ./database/... ./mapper/... ./model/... ./ovsdb/... ./server/... ./updates/... ./modelgen/... >/dev/null 2>&1; then echo "$id SKIP (does not build on HEAD)"; continue; fi
    demo=$(ls $d/*_test.go 2>/dev/null | head -1); benign=""
    if [ -n "$demo" ]; then
      pkgdir=$(python3 - "$demo" <<'PY'
import re,sys
s=open(sys.argv[1]).read()
m=re.search(r'^package (\w+)',s,re.M); p=m.group(1)
if p.endswith('_test'): p=p[:-5]
print({'server':'server','cache':'cache','client':'client','inmemory':'database/inmemory','ovsdb':'ovsdb','updates':'updates','mapper':'mapper','model':'model','modelgen':'modelgen'}.get(p,''))
PY
)
      if [ -n "$pkgdir" ] && [ "$pkgdir" != "modelgen" ]; then
        cp $demo $wt/$pkgdir/zz_seeded_demo_test.go
        if go test -vet=off -count=1 -run Seeded ./$pkgdir/ >/dev/null 2>&1; then benign="yes"; fi
        rm -f $wt/$pkgdir/zz_seeded_demo_test.go
      fi
    fi
    cd $root
    if [ "$benign" = "yes" ]; then echo "$id BENIGN (its demonstration passes with the change on this tree)"; continue; fi
    out=$(VERIF_REPO=$wt VERIF_WORK=$root/.work/par_$k timeout 1500 ./check $prop 2>&1 | grep -v "^KNOWN-FINDING")
    if echo "$out" | grep -q "^VIOLATION"; then echo "$id CAUGHT $(echo "$out" | grep -A1 '^VIOLATION' | sed -n 2p | cut -c1-140)"; else echo "$id MISSED $(echo "$out" | tail -1 | cut -c1-100)"; fi
  done
  git -C /repo worktree remove --force $wt; rm -rf $root/.work/par_$k
}
for k in $(seq 0 $((n-1))); do worker $k & done
wait
