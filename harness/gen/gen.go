// Package gen holds the generators; every random choice derives from one
// math/rand source seeded from VERIF_SEED.
package gen

import (
	"fmt"
	"math/rand"

	"verifharness/val"
)

type G struct {
	R *rand.Rand
}

func New(seed int64) *G { return &G{R: rand.New(rand.NewSource(seed))} }

func (g *G) Intn(n int) int     { return g.R.Intn(n) }
func (g *G) Chance(p float64) bool { return g.R.Float64() < p }

// UUIDn is the n-th uuid of the pool (syntactically valid).
func UUIDn(n int) string { return fmt.Sprintf("00000000-0000-4000-8000-%012x", n+1) }

// Strn is the n-th string of the pool; Strn(0) is NOT the empty string.
// Strn is the n-th string of the universe; every fourth one carries the characters encoders get wrong (control
// characters that have no short JSON escape, NUL, quote, backslash, non-ASCII and astral runes, HTML characters, newline).
func Strn(n int) string {
	if n%4 == 3 {
		return fmt.Sprintf("s%d\x1b\x00\"\\\u00e9\U000e0041<&>\n\a", n)
	}
	return fmt.Sprintf("s%d", n)
}

// Atom draws an atom of type t from a universe of u values (u>=1); the zero
// value of the type is part of the universe for i/r/b/s.
func (g *G) Atom(t byte, u int, enum []val.Atom) val.Atom {
	if len(enum) > 0 {
		return enum[g.Intn(len(enum))]
	}
	return AtomN(t, g.Intn(u))
}

// AtomN is the n-th atom of type t.
func AtomN(t byte, n int) val.Atom {
	switch t {
	case 'i':
		ints := []int64{0, 1, -1, 2, 7, -5, 42, 1000, -1000, 3, 4, 5, 6, 8, 9, 10}
		if n < len(ints) {
			return val.Int(ints[n])
		}
		return val.Int(int64(10000 + n))
	case 'r':
		reals := []float64{0, 0.5, -1.5, 2, 3.25, -0.125, 100, 7.75}
		if n < len(reals) {
			return val.Real(reals[n])
		}
		return val.Real(1000 + float64(n)*0.5)
	case 'b':
		return val.Bool(n%2 == 1)
	case 's':
		if n == 0 {
			return val.Str("")
		}
		return val.Str(Strn(n))
	default:
		return val.Uuid(UUIDn(n))
	}
}

// Value draws a value for column c; sets/maps up to size maxn over a universe
// of u atoms.  Sets are duplicate-free, in random order.
func (g *G) Value(c val.Col, u, maxn int) val.Val {
	switch c.K {
	case 'a':
		return val.VA(g.Atom(c.KT, u, c.Enum))
	case 'o':
		if g.Intn(3) == 0 {
			return val.VNone()
		}
		return val.VSome(g.Atom(c.KT, u, c.Enum))
	case 's':
		n := g.Intn(maxn + 1)
		return val.VS(g.distinctAtoms(c.KT, u, n, c.Enum)...)
	default:
		n := g.Intn(maxn + 1)
		keys := g.distinctAtoms(c.KT, u, n, c.Enum)
		out := val.Val{K: 'm'}
		for _, k := range keys {
			out.Map = append(out.Map, [2]val.Atom{k, g.Atom(c.VT, u, nil)})
		}
		return out
	}
}

func (g *G) distinctAtoms(t byte, u, n int, enum []val.Atom) []val.Atom {
	var pool []val.Atom
	if len(enum) > 0 {
		pool = append(pool, enum...)
	} else {
		if t == 'b' && u > 2 {
			u = 2
		}
		for i := 0; i < u; i++ {
			pool = append(pool, AtomN(t, i))
		}
	}
	g.R.Shuffle(len(pool), func(i, j int) { pool[i], pool[j] = pool[j], pool[i] })
	if n > len(pool) {
		n = len(pool)
	}
	return pool[:n]
}

// Perms returns all duplicate-free ordered lists of at most k elements of pool.
func Perms(pool []val.Atom, k int) [][]val.Atom {
	out := [][]val.Atom{{}}
	var rec func(cur []val.Atom, used []bool)
	rec = func(cur []val.Atom, used []bool) {
		if len(cur) >= k {
			return
		}
		for i, a := range pool {
			if used[i] {
				continue
			}
			used[i] = true
			nxt := append(append([]val.Atom(nil), cur...), a)
			out = append(out, nxt)
			rec(nxt, used)
			used[i] = false
		}
	}
	rec(nil, make([]bool, len(pool)))
	return out
}
