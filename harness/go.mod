module verifharness

go 1.18

require (
	github.com/google/uuid v1.2.0
	github.com/ovn-org/libovsdb v0.0.0
)

require (
	github.com/go-logr/logr v1.2.2 // indirect
	github.com/go-logr/stdr v1.2.2 // indirect
)

replace github.com/ovn-org/libovsdb => /repo
