module verifharness

go 1.18

require (
	github.com/cenkalti/backoff/v4 v4.1.3
	github.com/cenkalti/rpc2 v0.0.0-20210604223624-c1acbc6ec984
	github.com/go-logr/logr v1.2.2
	github.com/google/uuid v1.2.0
	github.com/ovn-org/libovsdb v0.0.0
)

require (
	github.com/beorn7/perks v1.0.1 // indirect
	github.com/cenkalti/hub v1.0.1 // indirect
	github.com/cespare/xxhash/v2 v2.1.2 // indirect
	github.com/davecgh/go-spew v1.1.1 // indirect
	github.com/go-logr/stdr v1.2.2 // indirect
	github.com/golang/protobuf v1.5.2 // indirect
	github.com/matttproud/golang_protobuf_extensions v1.0.1 // indirect
	github.com/pmezard/go-difflib v1.0.0 // indirect
	github.com/prometheus/client_golang v1.12.1 // indirect
	github.com/prometheus/client_model v0.2.0 // indirect
	github.com/prometheus/common v0.32.1 // indirect
	github.com/prometheus/procfs v0.7.3 // indirect
	github.com/stretchr/testify v1.8.0 // indirect
	golang.org/x/sys v0.18.0 // indirect
	golang.org/x/text v0.14.0 // indirect
	google.golang.org/protobuf v1.33.0 // indirect
	gopkg.in/yaml.v3 v3.0.1 // indirect
)

replace github.com/ovn-org/libovsdb => /repo
