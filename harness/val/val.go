// Package val is the harness-side representation of OVSDB values: conversion
// from/to Go native values and OVS notation, canonicalisation, and printing
// as Gallina terms (symbols interned to N, see DESIGN.md section 4).
package val

import (
	"fmt"
	"math/big"
	"reflect"
	"sort"
	"strings"

	"github.com/ovn-org/libovsdb/ovsdb"
)

// Atom is one atomic value. T is one of 'i','r','b','s','u'.
type Atom struct {
	T byte
	I int64
	R float64
	B bool
	S string
}

func Int(i int64) Atom    { return Atom{T: 'i', I: i} }
func Real(r float64) Atom { return Atom{T: 'r', R: r} }
func Bool(b bool) Atom    { return Atom{T: 'b', B: b} }
func Str(s string) Atom   { return Atom{T: 's', S: s} }
func Uuid(s string) Atom  { return Atom{T: 'u', S: s} }

func (a Atom) Key() string {
	switch a.T {
	case 'i':
		return fmt.Sprintf("i%020d", a.I+(1<<62))
	case 'r':
		return "r" + new(big.Rat).SetFloat64(a.R).RatString()
	case 'b':
		return fmt.Sprintf("b%v", a.B)
	case 's':
		return "s" + a.S
	default:
		return "u" + a.S
	}
}

// Native returns the Go native value the mapper uses for this atom.
func (a Atom) Native() interface{} {
	switch a.T {
	case 'i':
		return int(a.I)
	case 'r':
		return a.R
	case 'b':
		return a.B
	default:
		return a.S
	}
}

// Ovs returns the OVS-notation value (UUID struct for uuids).
func (a Atom) Ovs() interface{} {
	if a.T == 'u' {
		return ovsdb.UUID{GoUUID: a.S}
	}
	return a.Native()
}

// Val is a column value. K is one of 'a' (atom), 'o' (optional), 's' (set),
// 'm' (map).
type Val struct {
	K   byte
	A   Atom      // 'a'; 'o' when Has
	Has bool      // 'o'
	Set []Atom    // 's' (order as given)
	Map [][2]Atom // 'm' (order as given)
}

func VA(a Atom) Val           { return Val{K: 'a', A: a} }
func VNone() Val              { return Val{K: 'o'} }
func VSome(a Atom) Val        { return Val{K: 'o', Has: true, A: a} }
func VS(l ...Atom) Val        { return Val{K: 's', Set: l} }
func VM(l ...[2]Atom) Val     { return Val{K: 'm', Map: l} }
func (v Val) IsZeroVal() bool { return v.K == 0 }

// Canon returns a copy with sets/maps sorted and de-duplicated (sets).
func (v Val) Canon() Val {
	switch v.K {
	case 's':
		m := map[string]Atom{}
		for _, a := range v.Set {
			m[a.Key()] = a
		}
		keys := make([]string, 0, len(m))
		for k := range m {
			keys = append(keys, k)
		}
		sort.Strings(keys)
		out := make([]Atom, 0, len(keys))
		for _, k := range keys {
			out = append(out, m[k])
		}
		return Val{K: 's', Set: out}
	case 'm':
		out := append([][2]Atom(nil), v.Map...)
		sort.SliceStable(out, func(i, j int) bool { return out[i][0].Key() < out[j][0].Key() })
		return Val{K: 'm', Map: out}
	}
	return v
}

// Key is a canonical string (used for hashing / distinctness / equality).
func (v Val) Key() string {
	c := v.Canon()
	var sb strings.Builder
	sb.WriteByte(c.K)
	switch c.K {
	case 'a':
		sb.WriteString(c.A.Key())
	case 'o':
		if c.Has {
			sb.WriteString(c.A.Key())
		} else {
			sb.WriteString("-")
		}
	case 's':
		for _, a := range c.Set {
			sb.WriteString("[" + a.Key() + "]")
		}
	case 'm':
		for _, p := range c.Map {
			sb.WriteString("[" + p[0].Key() + "=" + p[1].Key() + "]")
		}
	}
	return sb.String()
}

func (v Val) Equal(w Val) bool { return v.Key() == w.Key() }

// ---------------------------------------------------------------------------
// Column specs

// Col describes a column in the harness' own terms.
type Col struct {
	Name     string
	K        byte   // 'a','o','s','m'
	KT       byte   // key atomic type 'i','r','b','s','u'
	VT       byte   // value atomic type for maps
	Enum     []Atom // enum on key (nil if none)
	Min      int    // for sets/maps
	Max      int    // -1 = unlimited
	RefTable string // key refTable
	RefType  string // "strong"/"weak"/""
	VRefTable string
	VRefType  string
	Immutable bool
}

func atomicName(t byte) string {
	switch t {
	case 'i':
		return "integer"
	case 'r':
		return "real"
	case 'b':
		return "boolean"
	case 's':
		return "string"
	default:
		return "uuid"
	}
}

func atomJSON(a Atom) string {
	switch a.T {
	case 'i':
		return fmt.Sprintf("%d", a.I)
	case 'r':
		return fmt.Sprintf("%g", a.R)
	case 'b':
		return fmt.Sprintf("%v", a.B)
	case 'u':
		return fmt.Sprintf("[\"uuid\",%q]", a.S)
	default:
		return fmt.Sprintf("%q", a.S)
	}
}

func baseJSON(t byte, enum []Atom, refT, refTy string) string {
	parts := []string{fmt.Sprintf("\"type\":%q", atomicName(t))}
	if len(enum) > 0 {
		es := make([]string, len(enum))
		for i, e := range enum {
			es[i] = atomJSON(e)
		}
		if len(es) == 1 {
			parts = append(parts, "\"enum\":"+es[0])
		} else {
			parts = append(parts, "\"enum\":[\"set\",["+strings.Join(es, ",")+"]]")
		}
	}
	if refT != "" {
		parts = append(parts, fmt.Sprintf("\"refTable\":%q", refT))
		if refTy != "" {
			parts = append(parts, fmt.Sprintf("\"refType\":%q", refTy))
		}
	}
	return "{" + strings.Join(parts, ",") + "}"
}

// SchemaJSON renders the column's schema in RFC 7047 JSON.
func (c Col) SchemaJSON() string {
	key := baseJSON(c.KT, c.Enum, c.RefTable, c.RefType)
	var ty string
	switch c.K {
	case 'a':
		ty = "{\"key\":" + key + "}"
	case 'o':
		ty = "{\"key\":" + key + ",\"min\":0,\"max\":1}"
	case 's':
		mx := "\"unlimited\""
		if c.Max >= 0 {
			mx = fmt.Sprintf("%d", c.Max)
		}
		ty = fmt.Sprintf("{\"key\":%s,\"min\":%d,\"max\":%s}", key, c.Min, mx)
	case 'm':
		mx := "\"unlimited\""
		if c.Max >= 0 {
			mx = fmt.Sprintf("%d", c.Max)
		}
		ty = fmt.Sprintf("{\"key\":%s,\"value\":%s,\"min\":%d,\"max\":%s}", key,
			baseJSON(c.VT, nil, c.VRefTable, c.VRefType), c.Min, mx)
	}
	s := "{\"type\":" + ty
	if c.Immutable {
		s += ",\"mutable\":false"
	}
	return s + "}"
}

// Default is the default (zero) value of the column, as the mapper sees it.
func (c Col) Default() Val {
	switch c.K {
	case 'a':
		return VA(ZeroAtom(c.KT))
	case 'o':
		return VNone()
	case 's':
		return VS()
	default:
		return VM()
	}
}

func ZeroAtom(t byte) Atom {
	switch t {
	case 'i':
		return Int(0)
	case 'r':
		return Real(0)
	case 'b':
		return Bool(false)
	case 's':
		return Str("")
	default:
		return Uuid("")
	}
}

func nativeAtomType(t byte) reflect.Type {
	switch t {
	case 'i':
		return reflect.TypeOf(0)
	case 'r':
		return reflect.TypeOf(0.0)
	case 'b':
		return reflect.TypeOf(true)
	default:
		return reflect.TypeOf("")
	}
}

// NativeType is the Go type of the model field for this column.
func (c Col) NativeType() reflect.Type {
	kt := nativeAtomType(c.KT)
	switch c.K {
	case 'a':
		return kt
	case 'o':
		return reflect.PtrTo(kt)
	case 's':
		return reflect.SliceOf(kt)
	default:
		return reflect.MapOf(kt, nativeAtomType(c.VT))
	}
}

func atomFromNative(t byte, x interface{}) Atom {
	switch t {
	case 'i':
		switch n := x.(type) {
		case int:
			return Int(int64(n))
		case float64:
			return Int(int64(n))
		case int64:
			return Int(n)
		}
	case 'r':
		switch n := x.(type) {
		case float64:
			return Real(n)
		case int:
			return Real(float64(n))
		}
	case 'b':
		if b, ok := x.(bool); ok {
			return Bool(b)
		}
	case 's':
		if s, ok := x.(string); ok {
			return Str(s)
		}
	case 'u':
		switch s := x.(type) {
		case string:
			return Uuid(s)
		case ovsdb.UUID:
			return Uuid(s.GoUUID)
		}
	}
	panic(fmt.Sprintf("val: cannot convert %#v (%T) to atom of type %c", x, x, t))
}

// ToNative builds the Go native value (model field value) for v.
func (c Col) ToNative(v Val) interface{} {
	switch c.K {
	case 'a':
		return v.A.Native()
	case 'o':
		p := reflect.New(nativeAtomType(c.KT))
		if !v.Has {
			return reflect.Zero(p.Type()).Interface()
		}
		p.Elem().Set(reflect.ValueOf(v.A.Native()))
		return p.Interface()
	case 's':
		s := reflect.MakeSlice(c.NativeType(), 0, len(v.Set))
		for _, a := range v.Set {
			s = reflect.Append(s, reflect.ValueOf(a.Native()))
		}
		return s.Interface()
	default:
		m := reflect.MakeMapWithSize(c.NativeType(), len(v.Map))
		for _, p := range v.Map {
			m.SetMapIndex(reflect.ValueOf(p[0].Native()), reflect.ValueOf(p[1].Native()))
		}
		return m.Interface()
	}
}

// FromNative reads a model field value.
func (c Col) FromNative(x interface{}) Val {
	rv := reflect.ValueOf(x)
	switch c.K {
	case 'a':
		return VA(atomFromNative(c.KT, x))
	case 'o':
		if !rv.IsValid() || rv.IsNil() {
			return VNone()
		}
		return VSome(atomFromNative(c.KT, rv.Elem().Interface()))
	case 's':
		out := Val{K: 's'}
		if rv.IsValid() {
			for i := 0; i < rv.Len(); i++ {
				out.Set = append(out.Set, atomFromNative(c.KT, rv.Index(i).Interface()))
			}
		}
		return out
	default:
		out := Val{K: 'm'}
		if rv.IsValid() {
			for _, k := range rv.MapKeys() {
				out.Map = append(out.Map, [2]Atom{atomFromNative(c.KT, k.Interface()), atomFromNative(c.VT, rv.MapIndex(k).Interface())})
			}
		}
		return out.Canon()
	}
}

// ToOvs builds the OVS-notation value (as used inside ovsdb.Row / Operation).
func (c Col) ToOvs(v Val) interface{} {
	// by the value's own kind, so that ill-typed values can be injected
	switch v.K {
	case 'a':
		return v.A.Ovs()
	case 'o':
		if !v.Has {
			return ovsdb.OvsSet{GoSet: []interface{}{}}
		}
		return ovsdb.OvsSet{GoSet: []interface{}{v.A.Ovs()}}
	case 's':
		s := make([]interface{}, 0, len(v.Set))
		for _, a := range v.Set {
			s = append(s, a.Ovs())
		}
		return ovsdb.OvsSet{GoSet: s}
	default:
		m := make(map[interface{}]interface{}, len(v.Map))
		for _, p := range v.Map {
			m[p[0].Ovs()] = p[1].Ovs()
		}
		return ovsdb.OvsMap{GoMap: m}
	}
}

// FromOvs reads an OVS-notation value of this column (a bare atom counts as a
// one-element set / a present optional).
func (c Col) FromOvs(x interface{}) (v Val, err error) {
	defer func() {
		if r := recover(); r != nil {
			err = fmt.Errorf("%v", r)
		}
	}()
	switch c.K {
	case 'a':
		return VA(atomFromNative(c.KT, x)), nil
	case 'o':
		if s, ok := x.(ovsdb.OvsSet); ok {
			if len(s.GoSet) == 0 {
				return VNone(), nil
			}
			if len(s.GoSet) > 1 {
				return Val{}, fmt.Errorf("optional with %d elements", len(s.GoSet))
			}
			return VSome(atomFromNative(c.KT, s.GoSet[0])), nil
		}
		return VSome(atomFromNative(c.KT, x)), nil
	case 's':
		out := Val{K: 's'}
		if s, ok := x.(ovsdb.OvsSet); ok {
			for _, e := range s.GoSet {
				out.Set = append(out.Set, atomFromNative(c.KT, e))
			}
			return out, nil
		}
		out.Set = []Atom{atomFromNative(c.KT, x)}
		return out, nil
	default:
		m, ok := x.(ovsdb.OvsMap)
		if !ok {
			return Val{}, fmt.Errorf("not a map: %T", x)
		}
		out := Val{K: 'm'}
		for k, e := range m.GoMap {
			out.Map = append(out.Map, [2]Atom{atomFromNative(c.KT, k), atomFromNative(c.VT, e)})
		}
		return out.Canon(), nil
	}
}

// ---------------------------------------------------------------------------
// Interning and Gallina printing

// Syms interns strings and uuids into numbers. "" is always 0.
type Syms struct {
	str  map[string]int
	list []string
}

func NewSyms() *Syms { return &Syms{str: map[string]int{"": 0}, list: []string{""}} }

func (s *Syms) ID(x string) int {
	if id, ok := s.str[x]; ok {
		return id
	}
	id := len(s.list)
	s.str[x] = id
	s.list = append(s.list, x)
	return id
}

func (s *Syms) Name(id int) string { return s.list[id] }
func (s *Syms) All() []string      { return s.list }

func CoqZ(i int64) string {
	if i < 0 {
		return fmt.Sprintf("(%d)%%Z", i)
	}
	return fmt.Sprintf("%d%%Z", i)
}

func (s *Syms) Atom(a Atom) string {
	switch a.T {
	case 'i':
		return "AInt " + CoqZ(a.I)
	case 'r':
		r := new(big.Rat).SetFloat64(a.R)
		n := r.Num().String()
		if r.Sign() < 0 {
			n = "(" + n + ")"
		}
		return fmt.Sprintf("AReal %s%%Z %s%%positive", n, r.Denom().String())
	case 'b':
		return fmt.Sprintf("ABool %v", a.B)
	case 's':
		return fmt.Sprintf("AStr %d%%N", s.ID(a.S))
	default:
		return fmt.Sprintf("AUuid %d%%N", s.ID(a.S))
	}
}

func (s *Syms) AtomList(l []Atom) string {
	parts := make([]string, len(l))
	for i, a := range l {
		parts[i] = s.Atom(a)
	}
	return "[" + strings.Join(parts, "; ") + "]"
}

// LVal prints an lvalue term.
func (s *Syms) LVal(v Val) string {
	switch v.K {
	case 'a':
		return "LAtom (" + s.Atom(v.A) + ")"
	case 'o':
		if !v.Has {
			return "LOpt None"
		}
		return "LOpt (Some (" + s.Atom(v.A) + "))"
	case 's':
		return "LSet " + s.AtomList(v.Set)
	case 'm':
		parts := make([]string, len(v.Map))
		for i, p := range v.Map {
			parts[i] = "(" + s.Atom(p[0]) + ", " + s.Atom(p[1]) + ")"
		}
		return "LMap [" + strings.Join(parts, "; ") + "]"
	}
	panic("val: LVal of zero Val")
}

// OptLVal prints an option lvalue.
func (s *Syms) OptLVal(v *Val) string {
	if v == nil {
		return "None"
	}
	return "Some (" + s.LVal(*v) + ")"
}

// JSONable is a plain structure for the JSON twin of a case.
func (v Val) JSONable() interface{} {
	at := func(a Atom) interface{} {
		switch a.T {
		case 'i':
			return a.I
		case 'r':
			return a.R
		case 'b':
			return a.B
		case 'u':
			return "uuid:" + a.S
		default:
			return a.S
		}
	}
	switch v.K {
	case 'a':
		return at(v.A)
	case 'o':
		if !v.Has {
			return []interface{}{"opt"}
		}
		return []interface{}{"opt", at(v.A)}
	case 's':
		l := []interface{}{"set"}
		for _, a := range v.Set {
			l = append(l, at(a))
		}
		return l
	case 'm':
		l := []interface{}{"map"}
		for _, p := range v.Map {
			l = append(l, []interface{}{at(p[0]), at(p[1])})
		}
		return l
	}
	return nil
}

// OrderedKey is like Key but keeps the element order of sets (used to detect
// in-place modification of a model's slices).
func (v Val) OrderedKey() string {
	if v.K != 's' {
		return v.Key()
	}
	var sb strings.Builder
	sb.WriteString("S")
	for _, a := range v.Set {
		sb.WriteString("[" + a.Key() + "]")
	}
	return sb.String()
}
