package main

// Lock-discipline facts read off the source (go/ast) on every run: for every
// function of the listed files, the locks still held at each return once its
// defers ran, the (held, acquired) pairs it performs and the calls it makes
// while holding locks. Paths are explored structurally: both branches of an
// if, a loop body zero or one time, every case of a switch/select.

import (
	"fmt"
	"go/ast"
	"go/parser"
	"go/token"
	"path/filepath"
	"sort"
	"strings"
)

// functions documented to return with a lock held ("caller must always unlock")
var lockReturning = map[string]string{"client.waitForCacheConsistent": "client.cacheMutex"}

var goBuiltins = map[string]bool{"len": true, "append": true, "make": true, "delete": true, "cap": true, "new": true, "copy": true, "panic": true, "close": true, "string": true, "int": true, "float64": true}

type lockState struct {
	held   []string
	defers []string
}

func (s lockState) key() string { return strings.Join(s.held, ",") + "|" + strings.Join(s.defers, ",") }
func (s lockState) clone() lockState {
	return lockState{append([]string{}, s.held...), append([]string{}, s.defers...)}
}

type funcFacts struct {
	Name  string
	Leaks []string    // "line N: lock, lock"
	Edges [][2]string // held ("" = none), acquired
	Calls []callUnder
}

type callUnder struct {
	Held   []string
	Callee string
}

// userHandler stands for an EventHandler of the application called by the event processor: a summary that calls the
// read paths of the cache and the client's API (what handlers are documented to do), added by lockDiscipline.
const userHandler = "user.EventHandler"

var userHandlerCalls = []string{"cache.TableCache.Table", "cache.TableCache.Tables", "cache.RowCache.Row", "cache.RowCache.Rows", "cache.RowCache.RowByModel",
	"cache.RowCache.RowsByCondition", "cache.RowCache.Len", "client.api.List", "client.api.Get", "client.ovsdbClient.Transact", "client.ovsdbClient.Connected"}

type lockExtractor struct {
	pkg      string
	fset     *token.FileSet
	recvName string
	recvType string
	varTypes map[string]string // local heuristics: identifier -> type name
	facts    *funcFacts
	top      string // the top-level function the analysed body belongs to (function literals are named after it)
}

func (x *lockExtractor) baseIdent(e ast.Expr) (string, []string) {
	var chain []string
	for {
		switch v := e.(type) {
		case *ast.SelectorExpr:
			chain = append([]string{v.Sel.Name}, chain...)
			e = v.X
			continue
		case *ast.CallExpr:
			e = v.Fun
			continue
		case *ast.Ident:
			return v.Name, chain
		case *ast.ParenExpr:
			e = v.X
			continue
		case *ast.StarExpr:
			e = v.X
			continue
		case *ast.IndexExpr:
			e = v.X
			continue
		}
		return "", chain
	}
}

func (x *lockExtractor) typeOfBase(base string) string {
	if base == x.recvName {
		return x.recvType
	}
	if t, ok := x.varTypes[base]; ok {
		return t
	}
	return "?" + base
}

// lockOp recognises X.<mutex>.Lock() etc.; returns the lock name and the operation.
func (x *lockExtractor) lockOp(call *ast.CallExpr) (string, string, bool) {
	se, ok := call.Fun.(*ast.SelectorExpr)
	if !ok {
		return "", "", false
	}
	op := se.Sel.Name
	if op != "Lock" && op != "RLock" && op != "Unlock" && op != "RUnlock" {
		return "", "", false
	}
	base, chain := x.baseIdent(se.X)
	field := base
	if len(chain) > 0 {
		field = chain[len(chain)-1]
	}
	if !strings.Contains(strings.ToLower(field), "mutex") {
		return "", "", false
	}
	name := x.pkg + "." + field
	if field == "mutex" {
		owner := x.typeOfBase(base)
		if len(chain) >= 2 {
			// e.g. t.cache[name].mutex / db.cache.mutex: the owner is named by the field before
			switch chain[len(chain)-2] {
			case "cache":
				owner = "RowCache"
				if x.pkg != "cache" {
					owner = "TableCache"
				}
			}
		}
		name = x.pkg + "." + owner + ".mutex"
	}
	return name, op, true
}

// callee names a call to a function of the analysed packages, "" otherwise.
func (x *lockExtractor) callee(call *ast.CallExpr) string {
	switch f := call.Fun.(type) {
	case *ast.Ident:
		if goBuiltins[f.Name] {
			return ""
		}
		return x.pkg + "." + f.Name
	case *ast.SelectorExpr:
		// an event handler of the application runs here: it may read the cache and use the client (userHandler)
		if x.pkg == "cache" && (f.Sel.Name == "OnAdd" || f.Sel.Name == "OnUpdate" || f.Sel.Name == "OnDelete") {
			return userHandler
		}
		base, chain := x.baseIdent(f.X)
		if base == "" {
			return ""
		}
		if len(chain) == 0 {
			t := x.typeOfBase(base)
			if strings.HasPrefix(t, "?") {
				return ""
			}
			return x.pkg + "." + t + "." + f.Sel.Name
		}
		last := chain[len(chain)-1]
		switch {
		case x.pkg == "client" && last == "cache":
			return "cache.TableCache." + f.Sel.Name
		case x.pkg == "client" && last == "primaryDB":
			return ""
		case x.pkg == "cache" && last == "eventProcessor":
			return "cache.eventProcessor." + f.Sel.Name
		case x.pkg == "server" && last == "db":
			return "inmemory.inMemoryDatabase." + f.Sel.Name
		}
	}
	return ""
}

func (x *lockExtractor) apply(s lockState, call *ast.CallExpr, deferred bool) lockState {
	if name, op, ok := x.lockOp(call); ok {
		switch op {
		case "Lock", "RLock":
			if deferred {
				return s
			}
			if len(s.held) == 0 {
				x.facts.Edges = append(x.facts.Edges, [2]string{"", name})
			}
			for _, h := range s.held {
				x.facts.Edges = append(x.facts.Edges, [2]string{h, name})
			}
			s = s.clone()
			s.held = append(s.held, name)
		default:
			s = s.clone()
			if deferred {
				s.defers = append(s.defers, name)
			} else {
				for i := len(s.held) - 1; i >= 0; i-- {
					if s.held[i] == name {
						s.held = append(s.held[:i], s.held[i+1:]...)
						break
					}
				}
			}
		}
		return s
	}
	// a function literal handed to a call is run by it, on this goroutine, before the call returns (ForEach..., sort,
	// once.Do): what the literal acquires is acquired under the locks held here
	if !deferred {
		for _, a := range call.Args {
			if fl, ok := a.(*ast.FuncLit); ok && x.top != "" {
				x.facts.Calls = append(x.facts.Calls, callUnder{append([]string{}, s.held...), fmt.Sprintf("%s.func@%d", x.top, x.fset.Position(fl.Pos()).Line)})
			}
		}
	}
	if c := x.callee(call); c != "" && !deferred {
		if l, ok := lockReturning[c]; ok {
			for _, h := range s.held {
				x.facts.Edges = append(x.facts.Edges, [2]string{h, l})
			}
			if len(s.held) == 0 {
				x.facts.Edges = append(x.facts.Edges, [2]string{"", l})
			}
			s = s.clone()
			s.held = append(s.held, l)
			return s
		}
		x.facts.Calls = append(x.facts.Calls, callUnder{append([]string{}, s.held...), c})
	}
	return s
}

// exprCalls applies, in source order, the calls inside an expression (not entering function literals).
func (x *lockExtractor) exprCalls(states []lockState, n ast.Node) []lockState {
	if n == nil {
		return states
	}
	var calls []*ast.CallExpr
	ast.Inspect(n, func(m ast.Node) bool {
		switch c := m.(type) {
		case *ast.FuncLit:
			return false
		case *ast.CallExpr:
			calls = append(calls, c)
		}
		return true
	})
	// inner calls first
	sort.SliceStable(calls, func(i, j int) bool { return calls[i].End() < calls[j].End() })
	for _, c := range calls {
		for i := range states {
			states[i] = x.apply(states[i], c, false)
		}
	}
	return states
}

func dedupe(states []lockState) []lockState {
	seen := map[string]bool{}
	var out []lockState
	for _, s := range states {
		if !seen[s.key()] {
			seen[s.key()] = true
			out = append(out, s)
		}
	}
	return out
}

func (x *lockExtractor) atReturn(states []lockState, pos token.Pos) {
	for _, s := range states {
		held := append([]string{}, s.held...)
		for _, d := range s.defers {
			for i := len(held) - 1; i >= 0; i-- {
				if held[i] == d {
					held = append(held[:i], held[i+1:]...)
					break
				}
			}
		}
		if l, ok := lockReturning[x.facts.Name]; ok && len(held) == 1 && held[0] == l {
			continue
		}
		if len(held) > 0 {
			x.facts.Leaks = append(x.facts.Leaks, fmt.Sprintf("line %d: %s", x.fset.Position(pos).Line, strings.Join(held, ", ")))
		}
	}
}

// block returns the states that fall through the statements.
func (x *lockExtractor) block(stmts []ast.Stmt, states []lockState) []lockState {
	for _, st := range stmts {
		if len(states) == 0 {
			return nil
		}
		states = dedupe(x.stmt(st, states))
	}
	return states
}

func copyStates(s []lockState) []lockState {
	out := make([]lockState, len(s))
	for i := range s {
		out[i] = s[i].clone()
	}
	return out
}

func (x *lockExtractor) stmt(st ast.Stmt, states []lockState) []lockState {
	switch s := st.(type) {
	case *ast.ExprStmt:
		if c, ok := s.X.(*ast.CallExpr); ok {
			if id, ok := c.Fun.(*ast.Ident); ok && id.Name == "panic" {
				return nil
			}
		}
		return x.exprCalls(states, s.X)
	case *ast.AssignStmt:
		for _, r := range s.Rhs {
			states = x.exprCalls(states, r)
		}
		return states
	case *ast.DeclStmt, *ast.IncDecStmt, *ast.EmptyStmt, *ast.BranchStmt, *ast.GoStmt:
		return states
	case *ast.SendStmt:
		return x.exprCalls(states, s.Value)
	case *ast.DeferStmt:
		for i := range states {
			states[i] = x.apply(states[i], s.Call, true)
		}
		return states
	case *ast.ReturnStmt:
		for _, r := range s.Results {
			states = x.exprCalls(states, r)
		}
		x.atReturn(states, s.Pos())
		return nil
	case *ast.BlockStmt:
		return x.block(s.List, states)
	case *ast.LabeledStmt:
		return x.stmt(s.Stmt, states)
	case *ast.IfStmt:
		if s.Init != nil {
			states = x.stmt(s.Init, states)
		}
		states = x.exprCalls(states, s.Cond)
		thenS := x.block(s.Body.List, copyStates(states))
		var elseS []lockState
		if s.Else != nil {
			elseS = x.stmt(s.Else, copyStates(states))
		} else {
			elseS = states
		}
		return append(thenS, elseS...)
	case *ast.ForStmt:
		if s.Init != nil {
			states = x.stmt(s.Init, states)
		}
		states = x.exprCalls(states, s.Cond)
		body := x.block(s.Body.List, copyStates(states))
		if s.Cond == nil {
			// for { ... }: leaves only through return / break; approximate by the body's fall-through
			return append(states, body...)
		}
		return append(states, body...)
	case *ast.RangeStmt:
		states = x.exprCalls(states, s.X)
		body := x.block(s.Body.List, copyStates(states))
		return append(states, body...)
	case *ast.SwitchStmt:
		if s.Init != nil {
			states = x.stmt(s.Init, states)
		}
		states = x.exprCalls(states, s.Tag)
		return x.cases(s.Body, states)
	case *ast.TypeSwitchStmt:
		return x.cases(s.Body, states)
	case *ast.SelectStmt:
		return x.cases(s.Body, states)
	}
	return states
}

func (x *lockExtractor) cases(body *ast.BlockStmt, states []lockState) []lockState {
	var out []lockState
	hasDefault := false
	for _, c := range body.List {
		switch cc := c.(type) {
		case *ast.CaseClause:
			if cc.List == nil {
				hasDefault = true
			}
			out = append(out, x.block(cc.Body, copyStates(states))...)
		case *ast.CommClause:
			if cc.Comm == nil {
				hasDefault = true
			}
			out = append(out, x.block(cc.Body, copyStates(states))...)
		}
	}
	if !hasDefault {
		out = append(out, states...)
	}
	return out
}

// extractLockFacts analyses the functions of one file.
func extractLockFacts(repo, rel, pkg string, varTypes map[string]string) ([]funcFacts, error) {
	fset := token.NewFileSet()
	f, err := parser.ParseFile(fset, filepath.Join(repo, rel), nil, 0)
	if err != nil {
		return nil, err
	}
	var out []funcFacts
	for _, d := range f.Decls {
		fd, ok := d.(*ast.FuncDecl)
		if !ok || fd.Body == nil {
			continue
		}
		x := &lockExtractor{pkg: pkg, fset: fset, varTypes: varTypes}
		name := pkg + "." + fd.Name.Name
		if fd.Recv != nil && len(fd.Recv.List) == 1 {
			t := fd.Recv.List[0].Type
			if st, ok := t.(*ast.StarExpr); ok {
				t = st.X
			}
			if id, ok := t.(*ast.Ident); ok {
				x.recvType = id.Name
				name = pkg + "." + id.Name + "." + fd.Name.Name
			}
			if len(fd.Recv.List[0].Names) == 1 {
				x.recvName = fd.Recv.List[0].Names[0].Name
			}
		}
		x.facts = &funcFacts{Name: name}
		x.top = name
		rest := x.block(fd.Body.List, []lockState{{}})
		x.atReturn(rest, fd.Body.Rbrace)
		// function literals run as goroutines or handlers: analysed as functions of their own
		ast.Inspect(fd.Body, func(n ast.Node) bool {
			if fl, ok := n.(*ast.FuncLit); ok {
				y := &lockExtractor{pkg: pkg, fset: fset, varTypes: varTypes, recvName: x.recvName, recvType: x.recvType, top: name}
				y.facts = &funcFacts{Name: fmt.Sprintf("%s.func@%d", name, fset.Position(fl.Pos()).Line)}
				r := y.block(fl.Body.List, []lockState{{}})
				y.atReturn(r, fl.Body.Rbrace)
				if len(y.facts.Leaks)+len(y.facts.Edges)+len(y.facts.Calls) > 0 {
					out = append(out, *y.facts)
				}
				return false
			}
			return true
		})
		out = append(out, *x.facts)
	}
	return out, nil
}
