package main

import (
	"fmt"
	"math/big"

	"github.com/ovn-org/libovsdb/ovsdb"

	"verifharness/gen"
	"verifharness/val"
)

// Cond is a condition in harness terms. Col may be "_uuid".
type Cond struct {
	Col string
	Fn  string
	Arg val.Val
}

var coqFn = map[string]string{"<": "CLt", "<=": "CLe", "==": "CEq", "!=": "CNe", ">": "CGt", ">=": "CGe", "includes": "CIncludes", "excludes": "CExcludes"}

var uuidCol = val.Col{Name: "_uuid", K: 'a', KT: 'u'}

func coqCond(s *val.Syms, c Cond) string {
	return fmt.Sprintf("(%d%%N, %s, %s)", s.ID(c.Col), coqFn[c.Fn], s.LVal(c.Arg))
}

func coqConds(s *val.Syms, cs []Cond) string {
	out := "["
	for i, c := range cs {
		if i > 0 {
			out += "; "
		}
		out += coqCond(s, c)
	}
	return out + "]"
}

func jsonConds(cs []Cond) []interface{} {
	var out []interface{}
	for _, c := range cs {
		out = append(out, []interface{}{c.Col, c.Fn, c.Arg.JSONable()})
	}
	return out
}

func colOf(cols []val.Col, name string) *val.Col {
	if name == "_uuid" {
		return &uuidCol
	}
	for i := range cols {
		if cols[i].Name == name {
			return &cols[i]
		}
	}
	return nil
}

func toOvsConds(cols []val.Col, cs []Cond) []ovsdb.Condition {
	var out []ovsdb.Condition
	for _, c := range cs {
		out = append(out, ovsdb.Condition{Column: c.Col, Function: ovsdb.ConditionFunction(c.Fn), Value: colOf(cols, c.Col).ToOvs(c.Arg)})
	}
	return out
}

func atomLess(a, b val.Atom) bool {
	if a.T == 'i' {
		return a.I < b.I
	}
	return new(big.Rat).SetFloat64(a.R).Cmp(new(big.Rat).SetFloat64(b.R)) < 0
}

func asSet(v val.Val) map[string]bool {
	out := map[string]bool{}
	switch v.K {
	case 'a':
		out[v.A.Key()] = true
	case 'o':
		if v.Has {
			out[v.A.Key()] = true
		}
	case 's':
		for _, a := range v.Set {
			out[a.Key()] = true
		}
	case 'm':
		for _, p := range v.Map {
			out[p[0].Key()+"\x01"+p[1].Key()] = true
		}
	}
	return out
}

// rfcEval evaluates one condition on a column value per RFC 7047 5.1 (the
// harness' independent reading, used as the direct oracle).
func rfcEval(v val.Val, fn string, arg val.Val) bool {
	switch fn {
	case "==":
		return v.Equal(arg)
	case "!=":
		return !v.Equal(arg)
	case "<":
		return atomLess(v.A, arg.A)
	case "<=":
		return !atomLess(arg.A, v.A)
	case ">":
		return atomLess(arg.A, v.A)
	case ">=":
		return !atomLess(v.A, arg.A)
	case "includes":
		vs, as := asSet(v), asSet(arg)
		for k := range as {
			if !vs[k] {
				return false
			}
		}
		return true
	default: // excludes
		vs, as := asSet(v), asSet(arg)
		for k := range as {
			if vs[k] {
				return false
			}
		}
		return true
	}
}

func rfcMatch(uuid string, row map[string]val.Val, cs []Cond) bool {
	for _, c := range cs {
		v, ok := row[c.Col]
		if c.Col == "_uuid" {
			v, ok = val.VA(val.Uuid(uuid)), true
		}
		if !ok || !rfcEval(v, c.Fn, c.Arg) {
			return false
		}
	}
	return true
}

// genCond draws a well-typed condition on a column; with rows given, the
// argument is biased towards values present in the table.
func genCond(g *gen.G, cols []val.Col, rows []map[string]val.Val, uuids []string, u, maxn int) Cond {
	if len(uuids) > 0 && g.Chance(0.12) {
		fn := []string{"==", "!=", "includes", "excludes"}[g.Intn(4)]
		id := uuids[g.Intn(len(uuids))]
		if g.Chance(0.2) {
			id = gen.UUIDn(777777)
		}
		return Cond{Col: "_uuid", Fn: fn, Arg: val.VA(val.Uuid(id))}
	}
	c := cols[g.Intn(len(cols))]
	fns := []string{"==", "!=", "includes", "excludes"}
	if c.K == 'a' && len(c.Enum) == 0 && (c.KT == 'i' || c.KT == 'r') {
		fns = append(fns, "<", "<=", ">", ">=")
	}
	fn := fns[g.Intn(len(fns))]
	arg := g.Value(c, u, maxn)
	if len(rows) > 0 && g.Chance(0.6) {
		src := rows[g.Intn(len(rows))][c.Name]
		arg = src
		// for includes/excludes on collections take a sub-collection
		if (fn == "includes" || fn == "excludes") && g.Chance(0.7) {
			switch c.K {
			case 's':
				sub := val.Val{K: 's'}
				for _, a := range src.Set {
					if g.Chance(0.5) {
						sub.Set = append(sub.Set, a)
					}
				}
				if g.Chance(0.3) {
					sub.Set = append(sub.Set, g.Atom(c.KT, u, c.Enum))
					sub = sub.Canon()
				}
				arg = sub
			case 'm':
				sub := val.Val{K: 'm'}
				for _, p := range src.Map {
					if g.Chance(0.5) {
						if g.Chance(0.2) {
							sub.Map = append(sub.Map, [2]val.Atom{p[0], g.Atom(c.VT, u, nil)})
						} else {
							sub.Map = append(sub.Map, p)
						}
					}
				}
				arg = sub
			}
		}
		if c.K == 's' && fn == "==" && g.Chance(0.5) {
			// same set, different element order
			arg = val.VS(append([]val.Atom(nil), src.Set...)...)
			g.R.Shuffle(len(arg.Set), func(i, j int) { arg.Set[i], arg.Set[j] = arg.Set[j], arg.Set[i] })
		}
	}
	return Cond{Col: c.Name, Fn: fn, Arg: arg}
}
