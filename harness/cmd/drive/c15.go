package main

import (
	"fmt"
	"github.com/ovn-org/libovsdb/ovsdb"

	"verifharness/dyn"
	"verifharness/gen"
	"verifharness/val"
)

func init() { drivers["C15"] = driveC15 }

func c15Schema() dyn.Schema {
	return dyn.Schema{Name: "C15", Tables: []dyn.Table{
		{Name: "N", IsRoot: true, Cols: []val.Col{
			{Name: "name", K: 'a', KT: 's'}, {Name: "label", K: 's', KT: 's', Max: -1},
			{Name: "u", K: 'a', KT: 'u'}, {Name: "ou", K: 'o', KT: 'u'}, {Name: "su", K: 's', KT: 'u', Max: -1},
			{Name: "mus", K: 'm', KT: 'u', VT: 's', Max: -1}, {Name: "msu", K: 'm', KT: 's', VT: 'u', Max: -1},
			{Name: "muu", K: 'm', KT: 'u', VT: 'u', Max: -1}, {Name: "mss", K: 'm', KT: 's', VT: 's', Max: -1},
			{Name: "peer", K: 'o', KT: 'u', RefTable: "N", RefType: "strong"},
			{Name: "kids", K: 's', KT: 'u', Max: -1, RefTable: "M", RefType: "strong"}}},
		{Name: "M", Cols: []val.Col{{Name: "name", K: 'a', KT: 's'}, {Name: "back", K: 'o', KT: 'u', RefTable: "N", RefType: "weak"}}},
		// a table without any uuid column: the only uuid position is _uuid
		{Name: "P", IsRoot: true, Cols: []val.Col{{Name: "name", K: 'a', KT: 's'}, {Name: "n", K: 'a', KT: 'i'}, {Name: "tags", K: 's', KT: 's', Max: -1}}},
	}}
}

// c15Txn builds a transaction with 1..4 named inserts whose names are used in
// every uuid position of every operation kind, before and after the insert,
// next to string data equal to the names.
func c15Txn(tg *txnGen) []TOp {
	g := tg.g
	nNamed := 1 + g.Intn(4)
	type named struct{ name, uuid, table string }
	var ns []named
	for i := 0; i < nNamed; i++ {
		t := "N"
		if g.Chance(0.3) {
			t = "M"
		} else if g.Chance(0.3) {
			t = "P"
		}
		u := ""
		if g.Chance(0.7) {
			u = tg.fresh()
		}
		// an <id>: letters of either case, digits, underscores
		ns = append(ns, named{fmt.Sprintf([]string{"row%d_%d", "Row%d_%d", "brIntRow%d_%d", "_N%dx%d"}[g.Intn(4)], tg.counter, i), u, t})
	}
	nameOf := func(table string) (string, bool) {
		var c []string
		for _, n := range ns {
			if n.table == table || table == "" {
				c = append(c, n.name)
			}
		}
		if len(c) == 0 {
			return "", false
		}
		return c[g.Intn(len(c))], true
	}
	ref := func(table string) val.Atom { // a named reference (mostly) or a real / random uuid
		if n, ok := nameOf(table); ok && g.Chance(0.75) {
			return val.Uuid(n)
		}
		if us := tg.uuidsOf(table); len(us) > 0 && table != "" {
			return val.Uuid(us[g.Intn(len(us))])
		}
		return val.Uuid(gen.UUIDn(g.Intn(5)))
	}
	rowWithNames := func(table string) map[string]val.Val {
		r := map[string]val.Val{}
		if table == "P" {
			if n, ok := nameOf(""); ok && g.Chance(0.5) {
				r["name"] = val.VA(val.Str(n)) // text equal to a name
				r["tags"] = val.VS(val.Str(n))
			}
			r["n"] = val.VA(val.Int(int64(g.Intn(5))))
			return r
		}
		if table == "M" {
			if g.Chance(0.5) {
				r["back"] = val.VSome(ref("N"))
			}
			if n, ok := nameOf(""); ok && g.Chance(0.5) {
				r["name"] = val.VA(val.Str(n)) // text equal to a name
			}
			return r
		}
		if n, ok := nameOf(""); ok && g.Chance(0.5) {
			r["name"] = val.VA(val.Str(n))
			r["label"] = val.VS(val.Str(n), val.Str("x"))
			r["mss"] = val.VM([2]val.Atom{val.Str(n), val.Str(n)})
		}
		if g.Chance(0.5) {
			r["u"] = val.VA(ref(""))
		}
		if g.Chance(0.4) {
			r["ou"] = val.VSome(ref(""))
		}
		if g.Chance(0.5) {
			r["su"] = val.VS(ref(""), val.Uuid(gen.UUIDn(7))).Canon()
		}
		if g.Chance(0.5) {
			r["mus"] = val.VM([2]val.Atom{ref(""), val.Str("v")})
		}
		if g.Chance(0.5) {
			r["msu"] = val.VM([2]val.Atom{val.Str("k"), ref("")})
		}
		if g.Chance(0.5) {
			r["muu"] = val.VM([2]val.Atom{ref(""), ref("")})
		}
		if g.Chance(0.3) {
			r["peer"] = val.VSome(ref("N"))
		}
		if g.Chance(0.5) {
			if n, ok := nameOf("M"); ok {
				r["kids"] = val.VS(val.Uuid(n))
			}
		}
		return r
	}
	var ops []TOp
	// operations using the names, placed before and after the inserts
	use := func() TOp {
		if g.Chance(0.3) {
			// the row a name stands for, addressed by _uuid - the one uuid position every table has
			t := []string{"N", "M", "P"}[g.Intn(3)]
			wh := []Cond{{Col: "_uuid", Fn: []string{"==", "includes"}[g.Intn(2)], Arg: val.VA(ref(t))}}
			if g.Chance(0.2) {
				wh = []Cond{{Col: "_uuid", Fn: []string{"!=", "excludes"}[g.Intn(2)], Arg: val.VA(ref(t))}}
			}
			switch g.Intn(5) {
			case 0:
				return TOp{Kind: "select", Table: t, Where: wh}
			case 1:
				return TOp{Kind: "delete", Table: t, Where: wh}
			case 2:
				if t == "P" {
					return TOp{Kind: "mutate", Table: t, Where: wh, Muts: []Mut{{Col: "n", Mutator: "+=", Arg: val.VA(val.Int(1))}}}
				}
				return TOp{Kind: "update", Table: t, Where: wh, Row: map[string]val.Val{"name": val.VA(val.Str("touched"))}}
			case 3:
				return TOp{Kind: "wait", Table: t, Where: wh, Cols: []string{"name"}, Until: "!=", Rows: []map[string]val.Val{}}
			default:
				return TOp{Kind: "update", Table: t, Where: wh, Row: map[string]val.Val{"name": val.VA(val.Str("renamed"))}}
			}
		}
		switch g.Intn(10) {
		case 5:
			// delete from a uuid-keyed map by a set of keys (RFC 7047 5.1) holding names
			return TOp{Kind: "mutate", Table: "N", Where: []Cond{}, Muts: []Mut{{Col: "mus", Mutator: "delete", Arg: val.VS(ref(""), val.Uuid(gen.UUIDn(7))).Canon()}}}
		case 6:
			// ... by a single key
			return TOp{Kind: "mutate", Table: "N", Where: []Cond{}, Muts: []Mut{{Col: []string{"mus", "muu"}[g.Intn(2)], Mutator: "delete", Arg: val.VS(ref(""))}}}
		case 7:
			// delete pairs / set elements given with names
			if g.Chance(0.5) {
				return TOp{Kind: "mutate", Table: "N", Where: []Cond{}, Muts: []Mut{{Col: "msu", Mutator: "delete", Arg: val.VM([2]val.Atom{val.Str("k"), ref("")})}}}
			}
			return TOp{Kind: "mutate", Table: "N", Where: []Cond{}, Muts: []Mut{{Col: "su", Mutator: "delete", Arg: val.VS(ref(""))}}}
		case 8:
			return TOp{Kind: "mutate", Table: "N", Where: []Cond{{Col: "mus", Fn: "includes", Arg: val.VM([2]val.Atom{ref(""), val.Str("v")})}},
				Muts: []Mut{{Col: "muu", Mutator: "insert", Arg: val.VM([2]val.Atom{ref(""), ref("")})}}}
		case 9:
			return TOp{Kind: "delete", Table: "N", Where: []Cond{{Col: "ou", Fn: "==", Arg: val.VSome(ref(""))}}}
		case 0:
			return TOp{Kind: "update", Table: "N", Where: []Cond{{Col: "u", Fn: "==", Arg: val.VA(ref(""))}}, Row: rowWithNames("N")}
		case 1:
			return TOp{Kind: "mutate", Table: "N", Where: []Cond{}, Muts: []Mut{{Col: "su", Mutator: "insert", Arg: val.VS(ref(""))}}}
		case 2:
			return TOp{Kind: "select", Table: "N", Where: []Cond{{Col: "_uuid", Fn: "==", Arg: val.VA(ref("N"))}}}
		case 3:
			return TOp{Kind: "mutate", Table: "N", Where: []Cond{{Col: "su", Fn: "includes", Arg: val.VS(ref(""))}},
				Muts: []Mut{{Col: "mus", Mutator: "insert", Arg: val.VM([2]val.Atom{ref(""), val.Str("w")})}}}
		default:
			return TOp{Kind: "update", Table: "N", Where: []Cond{{Col: "name", Fn: "!=", Arg: val.VA(val.Str("zz"))}}, Row: map[string]val.Val{"ou": val.VSome(ref(""))}}
		}
	}
	if g.Chance(0.6) {
		ops = append(ops, use())
	}
	for _, n := range ns {
		ops = append(ops, TOp{Kind: "insert", Table: n.table, UUID: n.uuid, Name: n.name, Row: rowWithNames(n.table)})
		if g.Chance(0.4) {
			ops = append(ops, use())
		}
	}
	if g.Chance(0.15) && len(ns) > 0 {
		// a second insert claiming an existing name (conflict unless the uuids agree)
		n := ns[g.Intn(len(ns))]
		u := tg.fresh()
		if g.Chance(0.3) {
			u = n.uuid
		}
		ops = append(ops, TOp{Kind: "insert", Table: n.table, UUID: u, Name: n.name, Row: map[string]val.Val{}})
	}
	return ops
}

func driveC15(o opts) error {
	p := txnProfile{prop: "C15", ncases: 150, ntxn: 4, maxOps: 4, shard: 40,
		schemas: func(g *gen.G, i int) dyn.Schema { return c15Schema() },
		tune:    func(tg *txnGen) { tg.pInvalid = 0; tg.pool = 3; tg.custom = c15Txn },
		nontriv: func(ops []TOp, ob tObs) bool {
			// a name is used in >= 2 different positions
			uses := 0
			for _, op := range ops {
				for _, v := range op.Row {
					uses += namedUses(v)
				}
				for _, c := range op.Where {
					uses += namedUses(c.Arg)
				}
				for _, m := range op.Muts {
					uses += namedUses(m.Arg)
				}
			}
			return uses >= 2
		},
		oracle: func(lab *txnLab, before map[string]map[string]map[string]val.Val, beforeRefs []oRef, ops []TOp, ob tObs) string {
			// after a committed transaction no stored uuid atom is a name, and
			// every named insert's row is stored under the reported uuid
			if !ob.Committed {
				return oracleAtomic(lab, before, beforeRefs, ops, ob)
			}
			for t, rows := range ob.State {
				for u, r := range rows {
					for c, v := range r {
						if namedUses(v) > 0 {
							return fmt.Sprintf("row %s of %s column %s still holds an unresolved name: %v", u, t, c, v.JSONable())
						}
					}
				}
			}
			// a delete mutation naming an inserted row by its uuid-name removes that row's uuid
			nameUUID := map[string]string{}
			for i, op := range ops {
				if op.Kind == "insert" && op.Name != "" {
					u := op.UUID
					if u == "" && i < len(ob.Results) {
						u = ob.Results[i].UUID
					}
					nameUUID[op.Name] = u
				}
			}
			for i, op := range ops {
				if op.Kind != "mutate" || len(op.Where) != 0 {
					continue
				}
				for _, m := range op.Muts {
					if m.Mutator != "delete" || m.Arg.K != 's' {
						continue
					}
					later := false
					for _, op2 := range ops[i+1:] {
						if op2.Table != op.Table {
							continue
						}
						if _, ok := op2.Row[m.Col]; ok || op2.Kind == "insert" {
							later = true
						}
						for _, m2 := range op2.Muts {
							if m2.Col == m.Col {
								later = true
							}
						}
					}
					if later {
						continue
					}
					for _, a := range m.Arg.Set {
						u, named := nameUUID[a.S]
						if a.T != 'u' || !named || u == "" {
							continue
						}
						for ru, r := range ob.State[op.Table] {
							v := r[m.Col]
							for _, e := range v.Set {
								if e.S == u {
									return fmt.Sprintf("operation %d deletes the element named %s (uuid %s) from column %s, but row %s still holds it", i, a.S, u, m.Col, ru)
								}
							}
							for _, pr := range v.Map {
								if pr[0].T == 'u' && pr[0].S == u {
									return fmt.Sprintf("operation %d deletes the key named %s (uuid %s) from column %s, but row %s still holds it", i, a.S, u, m.Col, ru)
								}
							}
						}
					}
				}
			}
			// a select by "_uuid == <name>" placed after the insert of that name finds the row under the uuid the
			// insert reported (unless an operation in between may have deleted it)
			for i, op := range ops {
				if op.Kind != "select" || len(op.Where) != 1 || op.Where[0].Col != "_uuid" || (op.Where[0].Fn != "==" && op.Where[0].Fn != "includes") {
					continue
				}
				u, named := nameUUID[op.Where[0].Arg.A.S]
				if !named || u == "" || i >= len(ob.Results) || ob.Results[i].Kind != "rows" {
					continue
				}
				at := -1
				for j, op2 := range ops[:i] {
					if op2.Kind == "insert" && op2.Name == op.Where[0].Arg.A.S && op2.Table == op.Table {
						at = j
					}
				}
				if at < 0 {
					continue
				}
				deleted := false
				for _, op2 := range ops[at+1 : i] {
					if op2.Kind == "delete" && op2.Table == op.Table {
						deleted = true
					}
				}
				if _, found := ob.Results[i].Rows[u]; !found && !deleted {
					return fmt.Sprintf("operation %d selects %s where _uuid %s the name %s of the row inserted by operation %d (uuid %s) and finds %d rows, not that row",
						i, op.Table, op.Where[0].Fn, op.Where[0].Arg.A.S, at, u, len(ob.Results[i].Rows))
				}
			}
			for i, op := range ops {
				if op.Kind == "insert" && i < len(ob.Results) && ob.Results[i].Kind == "uuid" {
					if op.UUID != "" && ob.Results[i].UUID != op.UUID {
						return fmt.Sprintf("insert %d reports uuid %s but was given %s", i, ob.Results[i].UUID, op.UUID)
					}
				}
			}
			return ""
		},
	}
	if o.tier == "thorough" {
		p.ncases, p.ntxn = 4000, 8
	}
	p.extra = c15Create
	return runTxnHistories(o, p)
}

// a uuid atom that is not a uuid is a name
func isName(s string) bool { return s != "" && !ovsdb.IsValidUUID(s) }

func namedUses(v val.Val) int {
	n := 0
	chk := func(a val.Atom) {
		if a.T == 'u' && isName(a.S) {
			n++
		}
	}
	switch v.K {
	case 'a':
		chk(v.A)
	case 'o':
		if v.Has {
			chk(v.A)
		}
	case 's':
		for _, a := range v.Set {
			chk(a)
		}
	case 'm':
		for _, p := range v.Map {
			chk(p[0])
			chk(p[1])
		}
	}
	return n
}
