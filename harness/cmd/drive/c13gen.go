package main

// C13, models written by the generator: the Equal / Clone methods of a model generated from the tree's own template
// (extended generation: DeepCopy, Equals and their per-field helpers) obey the same laws as the reflection-based
// ones. A package is generated for a fixed schema with every shape of collection, compiled together with a probe that
// works by reflection, and run.

import (
	"encoding/json"
	"fmt"
	"os"
	"os/exec"
	"path/filepath"
	"sort"
	"strings"

	"github.com/ovn-org/libovsdb/modelgen"
	"github.com/ovn-org/libovsdb/ovsdb"
)

const c13GenSchema = `{"name":"C13G","version":"1.0.0","tables":{"G":{"isRoot":true,"columns":{
 "name":{"type":"string"},
 "n":{"type":"integer"},
 "opt_s":{"type":{"key":{"type":"string"},"min":0,"max":1}},
 "opt_i":{"type":{"key":{"type":"integer"},"min":0,"max":1}},
 "opt_b":{"type":{"key":{"type":"boolean"},"min":0,"max":1}},
 "set_s":{"type":{"key":{"type":"string"},"min":0,"max":"unlimited"}},
 "set_i":{"type":{"key":{"type":"integer"},"min":0,"max":5}},
 "set_u":{"type":{"key":{"type":"uuid"},"min":0,"max":"unlimited"}},
 "map_ss":{"type":{"key":{"type":"string"},"value":{"type":"string"},"min":0,"max":"unlimited"}},
 "map_si":{"type":{"key":{"type":"string"},"value":{"type":"integer"},"min":0,"max":"unlimited"}},
 "map_is":{"type":{"key":{"type":"integer"},"value":{"type":"string"},"min":0,"max":"unlimited"}},
 "map_su":{"type":{"key":{"type":"string"},"value":{"type":"uuid"},"min":0,"max":"unlimited"}},
 "mode":{"type":{"key":{"type":"string","enum":["set",["a","b"]]}}}}}}}`

const c13GenProbe = `package main

import (
	"fmt"
	"reflect"

	"github.com/ovn-org/libovsdb/model"

	g "c13gen/g"
)

func nonzero(t reflect.Type, k int) reflect.Value {
	v := reflect.New(t).Elem()
	switch t.Kind() {
	case reflect.String:
		v.SetString([]string{"", "x", "y"}[k])
	case reflect.Int, reflect.Int64:
		v.SetInt(int64(k))
	case reflect.Float64:
		v.SetFloat(float64(k) / 2)
	case reflect.Bool:
		v.SetBool(k%2 == 1)
	}
	return v
}

// values: distinct values of the type, zero values under different keys among them
func values(t reflect.Type) []reflect.Value {
	var out []reflect.Value
	switch t.Kind() {
	case reflect.Map:
		mk := func(kv ...int) reflect.Value {
			m := reflect.MakeMap(t)
			for i := 0; i+1 < len(kv); i += 2 {
				m.SetMapIndex(nonzero(t.Key(), kv[i]), nonzero(t.Elem(), kv[i+1]))
			}
			return m
		}
		out = []reflect.Value{mk(1, 0), mk(2, 0), mk(1, 1), mk(1, 0, 2, 1), mk(1, 1, 2, 0), mk(0, 0), mk(0, 1)}
	case reflect.Slice:
		mk := func(es ...int) reflect.Value {
			s := reflect.MakeSlice(t, 0, len(es))
			for _, e := range es {
				s = reflect.Append(s, nonzero(t.Elem(), e))
			}
			return s
		}
		out = []reflect.Value{mk(0), mk(1), mk(0, 1), mk(1, 2)}
	case reflect.Ptr:
		for k := 0; k < 2; k++ {
			p := reflect.New(t.Elem())
			p.Elem().Set(nonzero(t.Elem(), k))
			out = append(out, p)
		}
		out = append(out, reflect.Zero(t))
	default:
		out = []reflect.Value{nonzero(t, 0), nonzero(t, 1)}
	}
	return out
}

func main() {
	cdb, err := g.FullDatabaseModel()
	if err != nil {
		fmt.Println("FAIL the generated database model is refused:", err)
		return
	}
	dbm, errs := model.NewDatabaseModel(g.Schema(), cdb)
	if len(errs) > 0 {
		fmt.Println("FAIL the generated database model does not fit its schema:", errs)
		return
	}
	pairs := 0
	for table := range g.Schema().Tables {
		fresh := func() model.Model {
			m, err := dbm.NewModel(table)
			if err != nil {
				panic(err)
			}
			return m
		}
		st := reflect.TypeOf(fresh()).Elem()
		for fi := 0; fi < st.NumField(); fi++ {
			f := st.Field(fi)
			if f.Tag.Get("ovsdb") == "" || f.Tag.Get("ovsdb") == "_uuid" {
				continue
			}
			vals := values(f.Type)
			if f.Type.Kind() == reflect.String && f.Type.Name() != "string" {
				continue // an enum type: its values are the schema's
			}
			for i := range vals {
				for j := range vals {
					x, y := fresh(), fresh()
					reflect.ValueOf(x).Elem().Field(fi).Set(vals[i])
					reflect.ValueOf(y).Elem().Field(fi).Set(values(f.Type)[j])
					want := i == j
					pairs++
					if got := model.Equal(x, y); got != want {
						fmt.Printf("FAIL generated model %s: Equal is %v for %s = %v and %v\n", table, got, f.Name, show(vals[i]), show(vals[j]))
					}
				}
				// a clone is equal and shares nothing
				x := fresh()
				reflect.ValueOf(x).Elem().Field(fi).Set(vals[i])
				c := model.Clone(x)
				if !model.Equal(x, c) || !model.Equal(c, x) {
					fmt.Printf("FAIL generated model %s: the clone is not Equal for %s = %v\n", table, f.Name, show(vals[i]))
				}
				before := show(reflect.ValueOf(x).Elem().Field(fi))
				cf := reflect.ValueOf(c).Elem().Field(fi)
				switch cf.Kind() {
				case reflect.Map:
					for _, k := range cf.MapKeys() {
						cf.SetMapIndex(k, nonzero(cf.Type().Elem(), 2))
					}
					cf.SetMapIndex(nonzero(cf.Type().Key(), 2), nonzero(cf.Type().Elem(), 2))
				case reflect.Slice:
					if cf.Len() > 0 {
						cf.Index(0).Set(nonzero(cf.Type().Elem(), 2))
					}
				case reflect.Ptr:
					if !cf.IsNil() {
						cf.Elem().Set(nonzero(cf.Type().Elem(), 2))
					}
				}
				if after := show(reflect.ValueOf(x).Elem().Field(fi)); after != before {
					fmt.Printf("FAIL generated model %s: changing %s of the clone changed the original from %s to %s\n", table, f.Name, before, after)
				}
			}
		}
	}
	fmt.Println("COUNT pairs", pairs)
}

func show(v reflect.Value) string {
	if v.Kind() == reflect.Ptr {
		if v.IsNil() {
			return "nil"
		}
		return fmt.Sprintf("&%v", v.Elem().Interface())
	}
	return fmt.Sprintf("%v", v.Interface())
}
`

func c13Generated(o opts, goFail func(kind, what string), count func(string, int)) error {
	repo := os.Getenv("VERIF_REPO")
	if repo == "" {
		repo = "/repo"
	}
	var schema ovsdb.DatabaseSchema
	if err := json.Unmarshal([]byte(c13GenSchema), &schema); err != nil {
		return err
	}
	modDir := filepath.Join(o.out, "c13gen")
	_ = os.RemoveAll(modDir)
	if err := os.MkdirAll(filepath.Join(modDir, "g"), 0o755); err != nil {
		return err
	}
	defer os.RemoveAll(modDir)
	gnr, err := modelgen.NewGenerator()
	if err != nil {
		return err
	}
	var names []string
	for name := range schema.Tables {
		names = append(names, name)
	}
	sort.Strings(names)
	for _, name := range names {
		table := schema.Tables[name]
		args := modelgen.GetTableTemplateData("g", name, &table)
		args.WithEnumTypes(true)
		args.WithExtendedGen(true)
		src, err := gnr.Format(modelgen.NewTableTemplate(), args)
		if err != nil {
			goFail("generated", fmt.Sprintf("generation of table %s fails: %v", name, err))
			return nil
		}
		if err := os.WriteFile(filepath.Join(modDir, "g", modelgen.FileName(name)), src, 0o644); err != nil {
			return err
		}
	}
	src, err := gnr.Format(modelgen.NewDBTemplate(), modelgen.GetDBTemplateData("g", schema))
	if err != nil {
		goFail("generated", fmt.Sprintf("generation of model.go fails: %v", err))
		return nil
	}
	if err := os.WriteFile(filepath.Join(modDir, "g", "model.go"), src, 0o644); err != nil {
		return err
	}
	gomod := "module c13gen\n\ngo 1.18\n\nrequire github.com/ovn-org/libovsdb v0.0.0\n\nreplace github.com/ovn-org/libovsdb => " + repo + "\n"
	if err := os.WriteFile(filepath.Join(modDir, "go.mod"), []byte(gomod), 0o644); err != nil {
		return err
	}
	if sum, err := os.ReadFile(filepath.Join(repo, "go.sum")); err == nil {
		_ = os.WriteFile(filepath.Join(modDir, "go.sum"), sum, 0o644)
	}
	if err := os.WriteFile(filepath.Join(modDir, "main.go"), []byte(c13GenProbe), 0o644); err != nil {
		return err
	}
	env := append(os.Environ(), "GOFLAGS=-mod=mod", "GOPROXY=off", "GOSUMDB=off", "GOTOOLCHAIN=local")
	build := exec.Command("go", "build", "-o", "probe.bin", ".")
	build.Dir, build.Env = modDir, env
	if outb, err := build.CombinedOutput(); err != nil {
		goFail("generated", "the generated package does not build: "+lastLines(string(outb), 12))
		return nil
	}
	run := exec.Command(filepath.Join(modDir, "probe.bin"))
	run.Dir = modDir
	outb, err := run.CombinedOutput()
	if err != nil {
		goFail("generated", "the probe of the generated package failed: "+lastLines(string(outb), 12))
	}
	for _, line := range strings.Split(string(outb), "\n") {
		if strings.HasPrefix(line, "FAIL ") {
			goFail("equal", strings.TrimPrefix(line, "FAIL "))
		} else if strings.HasPrefix(line, "COUNT ") {
			f := strings.Fields(line)
			if len(f) == 3 {
				var n int
				fmt.Sscan(f[2], &n)
				count("clone/equal:model generated from the tree's template, "+f[1], n)
			}
		}
	}
	return nil
}
