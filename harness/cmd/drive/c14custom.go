package main

// C14 with a hand-written model that brings its own equality (model.ComparableModel) and copy: the equality of such a
// model is the application's business - here it ignores a statistics column - and must not decide whether an applied
// change is announced.

import (
	"encoding/json"
	"fmt"
	"sort"
	"strings"
	"sync"
	"time"

	"github.com/ovn-org/libovsdb/cache"
	"github.com/ovn-org/libovsdb/model"
	"github.com/ovn-org/libovsdb/ovsdb"

	"verifharness/emit"
	"verifharness/gen"
)

type c14Stat struct {
	UUID  string         `ovsdb:"_uuid"`
	Name  string         `ovsdb:"name"`
	N     int            `ovsdb:"n"`
	Stats map[string]int `ovsdb:"stats"`
}

func (a *c14Stat) CloneModelInto(b model.Model) {
	c := b.(*c14Stat)
	*c = *a
	if a.Stats != nil {
		c.Stats = make(map[string]int, len(a.Stats))
		for k, v := range a.Stats {
			c.Stats[k] = v
		}
	}
}
func (a *c14Stat) CloneModel() model.Model { c := &c14Stat{}; a.CloneModelInto(c); return c }

// EqualsModel ignores the statistics
func (a *c14Stat) EqualsModel(b model.Model) bool {
	c, ok := b.(*c14Stat)
	return ok && a.UUID == c.UUID && a.Name == c.Name && a.N == c.N
}

func (a *c14Stat) key() string {
	var ks []string
	for k, v := range a.Stats {
		ks = append(ks, fmt.Sprintf("%s=%d", k, v))
	}
	sort.Strings(ks)
	return fmt.Sprintf("%s|%s|%d|%s", a.UUID, a.Name, a.N, strings.Join(ks, ","))
}

type c14StatLog struct {
	mu  sync.Mutex
	evs []string // kind, uuid, old key, new key
}

func (l *c14StatLog) add(kind string, o, n *c14Stat) {
	l.mu.Lock()
	defer l.mu.Unlock()
	ok, nk, u := "", "", ""
	if o != nil {
		ok, u = o.key(), o.UUID
	}
	if n != nil {
		nk, u = n.key(), n.UUID
	}
	l.evs = append(l.evs, kind+"\x00"+u+"\x00"+ok+"\x00"+nk)
}
func (l *c14StatLog) OnAdd(t string, m model.Model)       { l.add("add", nil, m.(*c14Stat)) }
func (l *c14StatLog) OnUpdate(t string, o, n model.Model) { l.add("update", o.(*c14Stat), n.(*c14Stat)) }
func (l *c14StatLog) OnDelete(t string, m model.Model)    { l.add("delete", m.(*c14Stat), nil) }
func (l *c14StatLog) take() []string {
	l.mu.Lock()
	defer l.mu.Unlock()
	out := l.evs
	l.evs = nil
	return out
}

func c14Custom(o opts, g *gen.G, w *emit.Writer) error {
	ncases := 12
	if o.tier == "thorough" {
		ncases = 200
	}
	var schema ovsdb.DatabaseSchema
	if err := json.Unmarshal([]byte(`{"name":"C14s","version":"1.0.0","tables":{"S":{"isRoot":true,"columns":{
		"name":{"type":"string"},"n":{"type":"integer"},
		"stats":{"type":{"key":"string","value":"integer","min":0,"max":"unlimited"}}}}}}`), &schema); err != nil {
		return err
	}
	cm, err := model.NewClientDBModel("C14s", map[string]model.Model{"S": &c14Stat{}})
	if err != nil {
		return err
	}
	dbm, errs := model.NewDatabaseModel(schema, cm)
	if len(errs) > 0 {
		return fmt.Errorf("c14 custom model: %v", errs)
	}
	for ci := 0; ci < ncases; ci++ {
		tc, err := cache.NewTableCache(dbm, nil, nil)
		if err != nil {
			return err
		}
		log := &c14StatLog{}
		tc.AddEventHandler(log)
		stop := make(chan struct{})
		go tc.Run(stop)
		shadow := map[string]string{} // uuid -> key, reproduced from the events
		oracle := ""
		fail := func(format string, a ...interface{}) {
			if oracle == "" {
				oracle = fmt.Sprintf(format, a...)
			}
		}
		var hist []string
		nrows := 1 + g.Intn(3)
		var uuids []string
		for i := 0; i < nrows; i++ {
			uuids = append(uuids, gen.UUIDn(i+1))
		}
		present := map[string]bool{}
		nsteps := 4 + g.Intn(6)
		for si := 0; si < nsteps; si++ {
			u := uuids[g.Intn(len(uuids))]
			var ru ovsdb.RowUpdate2
			what := ""
			switch {
			case !present[u]:
				row := ovsdb.Row{"name": "r" + u[len(u)-1:], "n": 1}
				ru, what = ovsdb.RowUpdate2{Insert: &row}, "insert"
				present[u] = true
			case g.Chance(0.15):
				ru, what = ovsdb.RowUpdate2{Delete: &ovsdb.Row{}}, "delete"
				present[u] = false
			case g.Chance(0.5):
				// a pair the map does not hold yet (an identical pair would be removed: still a change)
				m, _ := ovsdb.NewOvsMap(map[string]int{fmt.Sprintf("k%d", g.Intn(3)): 1000*(si+1) + g.Intn(5)})
				row := ovsdb.Row{"stats": m}
				ru, what = ovsdb.RowUpdate2{Modify: &row}, "modify stats (ignored by the model's own equality)"
			default:
				row := ovsdb.Row{"n": 100*(si+1) + g.Intn(50)} // never the value the row holds
				ru, what = ovsdb.RowUpdate2{Modify: &row}, "modify n"
			}
			hist = append(hist, what+" "+u)
			if err := tc.Update2(nil, ovsdb.TableUpdates2{"S": ovsdb.TableUpdate2{u: &ru}}); err != nil {
				fail("step %d (%s): the cache refuses the notification: %v", si, what, err)
				break
			}
			// one applied change, one event
			deadline := time.Now().Add(2 * time.Second)
			var evs []string
			for time.Now().Before(deadline) && len(evs) == 0 {
				time.Sleep(300 * time.Microsecond)
				evs = append(evs, log.take()...)
			}
			time.Sleep(300 * time.Microsecond)
			evs = append(evs, log.take()...)
			if len(evs) != 1 {
				fail("step %d (%s): %d events delivered for one applied change (history: %s)", si, what, len(evs), strings.Join(hist, "; "))
			}
			for _, e := range evs {
				p := strings.Split(e, "\x00")
				switch p[0] {
				case "add":
					shadow[p[1]] = p[3]
				case "update":
					if shadow[p[1]] != p[2] {
						fail("step %d (%s): the old model of the update event is not the previous state of the row (history: %s)", si, what, strings.Join(hist, "; "))
					}
					shadow[p[1]] = p[3]
				default:
					delete(shadow, p[1])
				}
			}
			rows := tc.Table("S").Rows()
			if len(rows) != len(shadow) {
				fail("step %d (%s): the event log reproduces %d rows, the cache holds %d", si, what, len(shadow), len(rows))
			}
			for uu, m := range rows {
				if shadow[uu] != m.(*c14Stat).key() {
					fail("step %d (%s): row %s reproduced from the event log differs from the cache (history: %s)", si, what, uu, strings.Join(hist, "; "))
				}
			}
		}
		close(stop)
		w.Count("custom-equality model")
		w.Add(emit.Case{Term: "[]", JSON: map[string]interface{}{"custom_model": true, "history": hist}, Key: fmt.Sprintf("custom%d:%s", ci, strings.Join(hist, ";")),
			Nontrivial: true, Class: "custom-equality", Oracle: oracle})
	}
	return nil
}
