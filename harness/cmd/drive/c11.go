package main

import (
	"fmt"
	"strings"

	"github.com/ovn-org/libovsdb/model"
	"github.com/ovn-org/libovsdb/ovsdb"
	"github.com/ovn-org/libovsdb/updates"

	"verifharness/dyn"
	"verifharness/emit"
	"verifharness/gen"
	"verifharness/val"
)

func init() { drivers["C11"] = driveC11 }

func c11Schema() dyn.Schema {
	s := c10Schema()
	s.Name = "C11"
	s.Tables[0].Cols = append(s.Tables[0].Cols, val.Col{Name: "im", K: 'a', KT: 's', Immutable: true},
		val.Col{Name: "ims", K: 's', KT: 'i', Max: -1, Immutable: true})
	return s
}

type c11obs struct {
	present                     bool
	old, new                    map[string]val.Val
	kind                        int
	mod                         map[string]val.Val
	ruold, runew, ruins         map[string]val.Val
	hasRuold, hasRunew, hasRuins bool
	getmodel, getrow            map[string]val.Val
	hasGetmodel, hasGetrow      bool
	decodeErr                   string
}

func c11Read(db *dyn.DB, mu updates.ModelUpdates, uuid string) c11obs {
	const T = "T"
	var o c11obs
	_ = mu.ForEachModelUpdate(T, func(u string, old, new model.Model) error {
		o.present = true
		if old != nil {
			o.old = db.RowMap(old, T)
		}
		if new != nil {
			o.new = db.RowMap(new, T)
		}
		return nil
	})
	rd := func(r *ovsdb.Row) (map[string]val.Val, bool) {
		if r == nil {
			return nil, false
		}
		m, err := db.ReadOvsRow(T, *r)
		if err != nil {
			o.decodeErr = err.Error()
		}
		return m, true
	}
	_ = mu.ForEachRowUpdate(T, func(u string, ru ovsdb.RowUpdate2) error {
		o.present = true
		switch {
		case ru.Insert != nil:
			o.kind = 0
		case ru.Modify != nil:
			o.kind = 1
		case ru.Delete != nil:
			o.kind = 2
		default:
			o.kind = 9
		}
		if ru.Modify != nil {
			o.mod, _ = rd(ru.Modify)
		}
		o.ruold, o.hasRuold = rd(ru.Old)
		o.runew, o.hasRunew = rd(ru.New)
		o.ruins, o.hasRuins = rd(ru.Insert)
		return nil
	})
	if m := mu.GetModel(T, uuid); m != nil {
		o.getmodel, o.hasGetmodel = db.RowMap(m, T), true
	}
	if r := mu.GetRow(T, uuid); r != nil {
		o.getrow, o.hasGetrow = rd(r)
	}
	return o
}

func rowsEqual(a, b map[string]val.Val) bool {
	if (a == nil) != (b == nil) || len(a) != len(b) {
		return false
	}
	for k, v := range a {
		w, ok := b[k]
		if !ok || !v.Equal(w) {
			return false
		}
	}
	return true
}

func driveC11(o opts) error {
	rowBigInts = true
	db, err := c11Schema().Build()
	if err != nil {
		return err
	}
	const T = "T"
	g := gen.New(o.seed)
	syms := val.NewSyms()
	w := emit.New("C11", o.out)
	w.ShardSize = 400
	tbl := db.Spec.Table(T)
	w.Prelude = "Definition T : table := " + dyn.CoqTable(syms, *tbl) + ".\n"
	w.Run = "C11.run T"
	uuid := gen.UUIDn(0)

	n, maxlen := 1000, 6
	if o.tier == "thorough" {
		n, maxlen = 30000, 12
	}
	if o.n > 0 {
		n = o.n
	}
	for ci := 0; ci < n; ci++ {
		u, maxn := 4, 3
		var s0 map[string]val.Val
		var cur model.Model
		if g.Chance(0.7) {
			s0 = map[string]val.Val{}
			for _, c := range tbl.Cols {
				if g.Chance(0.6) {
					s0[c.Name] = rowValue(g, c, u, maxn)
				} else {
					s0[c.Name] = c.Default()
				}
			}
			cur = db.Make(T, uuid, s0)
		}
		orig := s0
		pathMerge := g.Chance(0.5)
		acc := updates.ModelUpdates{}
		var ops []RowOp
		errAt := -1
		nops := 2 + g.Intn(maxlen-1)
		touched := map[string]int{}
		for i := 0; i < nops; i++ {
			var curRow map[string]val.Val
			if cur != nil {
				curRow = db.RowMap(cur, T)
			}
			op := genRowOp(g, tbl, curRow, orig, u, maxn, i > 0)
			if cur == nil && i > 0 && !g.Chance(0.5) {
				break // deleted; sometimes try a re-insert
			}
			ops = append(ops, op)
			for k := range op.Row {
				touched[k]++
			}
			for _, m := range op.Muts {
				touched[m.Col]++
			}
			operation := toOperation(db, T, uuid, op)
			single := updates.ModelUpdates{}
			opCopy := operation
			e1 := single.AddOperation(db.Model, T, uuid, cur, &opCopy)
			var e2 error
			if pathMerge {
				if e1 == nil {
					e2 = acc.Merge(db.Model, single)
				}
			} else {
				opCopy2 := toOperation(db, T, uuid, op)
				e2 = acc.AddOperation(db.Model, T, uuid, cur, &opCopy2)
			}
			if e1 != nil || e2 != nil {
				errAt = i
				break
			}
			so := c11Read(db, single, uuid)
			if so.present {
				if so.new == nil {
					cur = nil
				} else {
					cur = db.Make(T, uuid, so.new)
				}
			}
		}
		ob := c11Read(db, acc, uuid)
		// direct oracle from the property text
		oracle := ""
		if errAt < 0 {
			var last map[string]val.Val
			if cur != nil {
				last = db.RowMap(cur, T)
			}
			switch {
			case ob.decodeErr != "":
				oracle = "undecodable row in update: " + ob.decodeErr
			case !ob.present && !(rowsEqual(s0, last) || (s0 == nil && last == nil)):
				oracle = "update vanished although the row changed"
			case ob.present && (rowsEqual(s0, last) || (s0 == nil && last == nil)):
				oracle = "update present although the row ends as it began"
			case ob.present && !(rowsEqual(ob.old, s0) || (ob.old == nil && s0 == nil)):
				oracle = "accumulated old is not the first old value"
			case ob.present && !(rowsEqual(ob.new, last) || (ob.new == nil && last == nil)):
				oracle = "accumulated new is not the last new value"
			case ob.present && s0 == nil && ob.kind != 0:
				oracle = "insert followed by changes is not reported as an insert"
			case ob.present && last == nil && ob.kind != 2:
				oracle = "change followed by delete is not reported as a delete"
			case ob.present && ob.kind == 1:
				// the modify row applied to the first old value gives the last new value
				m0 := db.Make(T, uuid, s0)
				row := db.OvsRow(T, ob.mod)
				mu2 := updates.ModelUpdates{}
				if err := mu2.AddRowUpdate2(db.Model, T, uuid, m0, ovsdb.RowUpdate2{Modify: &row}); err != nil {
					oracle = "modify row cannot be applied: " + err.Error()
				} else if r2 := c11Read(db, mu2, uuid); !rowsEqual(r2.new, last) {
					oracle = "modify difference applied to the first old value does not give the last new value"
				}
			}
		}
		var opTerms []string
		var opJ []interface{}
		for _, op := range ops {
			opTerms = append(opTerms, coqRowOp(syms, op))
			opJ = append(opJ, jsonRowOp(op))
		}
		errTerm := "None"
		if errAt >= 0 {
			errTerm = fmt.Sprintf("(Some %d%%nat)", errAt)
		}
		obsTerm := "None"
		if ob.present && errAt < 0 {
			obsTerm = fmt.Sprintf("(Some (C11.mkObs %s %s %d%%nat %s %s %s %s %s %s))",
				dyn.CoqOptRow(syms, ob.old, ob.old != nil), dyn.CoqOptRow(syms, ob.new, ob.new != nil), ob.kind,
				dyn.CoqRow(syms, ob.mod), dyn.CoqOptRow(syms, ob.ruold, ob.hasRuold), dyn.CoqOptRow(syms, ob.runew, ob.hasRunew),
				dyn.CoqOptRow(syms, ob.ruins, ob.hasRuins), dyn.CoqOptRow(syms, ob.getmodel, ob.hasGetmodel),
				dyn.CoqOptRow(syms, ob.getrow, ob.hasGetrow))
		}
		term := fmt.Sprintf("C11.mk %s [%s] %s %s", dyn.CoqOptRow(syms, s0, s0 != nil), strings.Join(opTerms, "; "), errTerm, obsTerm)
		multi := 0
		for _, k := range touched {
			if k >= 2 {
				multi++
			}
		}
		path := "AddOperation"
		if pathMerge {
			path = "Merge"
		}
		cls := fmt.Sprintf("len%d", len(ops))
		if errAt >= 0 {
			w.Count("error")
		} else if !ob.present {
			w.Count("vanished")
		} else {
			w.Count(fmt.Sprintf("kind%d", ob.kind))
		}
		w.Count(path)
		var obJ interface{}
		if ob.present {
			obJ = map[string]interface{}{"old": dyn.JSONRow(ob.old), "new": dyn.JSONRow(ob.new), "kind": ob.kind, "modify": dyn.JSONRow(ob.mod)}
		}
		w.Add(emit.Case{
			Term:       term,
			JSON:       map[string]interface{}{"s0": dyn.JSONRow(s0), "ops": opJ, "path": path, "obs_error_at": errAt, "obs_update": obJ},
			Key:        term,
			Nontrivial: len(ops) >= 3 && multi >= 1,
			Class:      cls,
			Oracle:     oracle,
		})
	}
	if err := c11References(o, w); err != nil {
		return err
	}
	return w.Flush()
}
