package main

import (
	"encoding/json"
	"fmt"
	"sort"
	"strings"

	"github.com/google/uuid"
	"github.com/ovn-org/libovsdb/database"
	"github.com/ovn-org/libovsdb/database/inmemory"
	"github.com/ovn-org/libovsdb/model"
	"github.com/ovn-org/libovsdb/ovsdb"

	"verifharness/dyn"
	"verifharness/val"
)

// TOp is a transaction operation in harness terms.
type TOp struct {
	Kind   string // insert|select|update|mutate|delete|wait|other
	Table  string
	UUID   string // insert: explicit uuid
	Name   string // insert: uuid-name
	Where  []Cond
	Row    map[string]val.Val
	Muts   []Mut
	Cols   []string
	Until  string
	Rows   []map[string]val.Val
	OpName string // for "other": commit|abort|comment|assert|bogus
}

func (o TOp) operation(db *dyn.DB) ovsdb.Operation {
	t := db.Spec.Table(o.Table)
	var cols []val.Col
	if t != nil {
		cols = t.Cols
	}
	switch o.Kind {
	case "insert":
		return ovsdb.Operation{Op: ovsdb.OperationInsert, Table: o.Table, UUID: o.UUID, UUIDName: o.Name, Row: db.OvsRow(o.Table, o.Row)}
	case "select":
		return ovsdb.Operation{Op: ovsdb.OperationSelect, Table: o.Table, Where: toOvsConds(cols, o.Where), Columns: o.selectCols()}
	case "update":
		return ovsdb.Operation{Op: ovsdb.OperationUpdate, Table: o.Table, Where: toOvsConds(cols, o.Where), Row: db.OvsRow(o.Table, o.Row)}
	case "mutate":
		var ms []ovsdb.Mutation
		for _, m := range o.Muts {
			ms = append(ms, ovsdb.Mutation{Column: m.Col, Mutator: ovsdb.Mutator(m.Mutator), Value: mutOvsArg(t.Col(m.Col), m)})
		}
		return ovsdb.Operation{Op: ovsdb.OperationMutate, Table: o.Table, Where: toOvsConds(cols, o.Where), Mutations: ms}
	case "delete":
		return ovsdb.Operation{Op: ovsdb.OperationDelete, Table: o.Table, Where: toOvsConds(cols, o.Where)}
	case "wait":
		zero := 0
		var rows []ovsdb.Row
		for _, r := range o.Rows {
			rows = append(rows, db.OvsRow(o.Table, r))
		}
		return ovsdb.Operation{Op: ovsdb.OperationWait, Table: o.Table, Timeout: &zero, Where: toOvsConds(cols, o.Where), Columns: o.Cols,
			Until: o.Until, Rows: rows}
	default:
		d := true
		s := "x"
		return ovsdb.Operation{Op: o.OpName, Table: o.Table, Durable: &d, Comment: &s, Lock: &s}
	}
}

// selectCols: a select that names columns also asks for _uuid (the harness identifies result rows by it)
func (o TOp) selectCols() []string {
	if len(o.Cols) == 0 {
		return nil
	}
	for _, c := range o.Cols {
		if c == "_uuid" {
			return o.Cols
		}
	}
	return append(append([]string{}, o.Cols...), "_uuid")
}

func symList(s *val.Syms, l []string) string {
	var out []string
	for _, x := range l {
		out = append(out, fmt.Sprintf("%d%%N", s.ID(x)))
	}
	return "[" + strings.Join(out, "; ") + "]"
}

// coqNamed: the operation with the uuid-name of an insert, if any
func (o TOp) coqNamed(s *val.Syms) string {
	nm := "None"
	if o.Kind == "insert" && o.Name != "" {
		nm = fmt.Sprintf("(Some %d%%N)", s.ID(o.Name))
	}
	return "(" + o.coq(s) + ", " + nm + ")"
}

func (o TOp) coq(s *val.Syms) string {
	t := s.ID(o.Table)
	switch o.Kind {
	case "insert":
		return fmt.Sprintf("LOInsert %d%%N %d%%N %s", t, s.ID(o.UUID), dyn.CoqRow(s, o.Row))
	case "select":
		return fmt.Sprintf("LOSelect %d%%N %s %s", t, coqConds(s, o.Where), symList(s, o.selectCols()))
	case "update":
		return fmt.Sprintf("LOUpdate %d%%N %s %s", t, coqConds(s, o.Where), dyn.CoqRow(s, o.Row))
	case "mutate":
		var ms []string
		for _, m := range o.Muts {
			ms = append(ms, coqMut(s, m))
		}
		return fmt.Sprintf("LOMutate %d%%N %s [%s]", t, coqConds(s, o.Where), strings.Join(ms, "; "))
	case "delete":
		return fmt.Sprintf("LODelete %d%%N %s", t, coqConds(s, o.Where))
	case "wait":
		var rows []string
		for _, r := range o.Rows {
			rows = append(rows, dyn.CoqRow(s, r))
		}
		return fmt.Sprintf("LOWait %d%%N %s %s %v [%s]", t, coqConds(s, o.Where), symList(s, o.Cols), o.Until == "==", strings.Join(rows, "; "))
	default:
		return "LOOther"
	}
}

func (o TOp) json() interface{} {
	out := map[string]interface{}{"op": o.Kind, "table": o.Table}
	if o.UUID != "" {
		out["uuid"] = o.UUID
	}
	if o.Name != "" {
		out["uuid-name"] = o.Name
	}
	if o.Where != nil {
		out["where"] = jsonConds(o.Where)
	}
	if o.Row != nil {
		out["row"] = dyn.JSONRow(o.Row)
	}
	if o.Muts != nil {
		var ms []interface{}
		for _, m := range o.Muts {
			ms = append(ms, []interface{}{m.Col, m.Mutator, m.Arg.JSONable()})
		}
		out["mutations"] = ms
	}
	if o.Cols != nil {
		out["columns"] = o.Cols
	}
	if o.Kind == "wait" {
		out["until"] = o.Until
		var rows []interface{}
		for _, r := range o.Rows {
			rows = append(rows, dyn.JSONRow(r))
		}
		out["rows"] = rows
	}
	if o.Kind == "other" {
		out["op"] = o.OpName
	}
	return out
}

// ---------------------------------------------------------------------------

type txnLab struct {
	db   *dyn.DB
	imdb database.Database
	name string
}

func newTxnLab(sc dyn.Schema) (*txnLab, error) {
	db, err := sc.Build()
	if err != nil {
		return nil, err
	}
	im := inmemory.NewDatabase(map[string]model.ClientDBModel{sc.Name: db.Client})
	if err := im.CreateDatabase(sc.Name, db.Schema); err != nil {
		return nil, err
	}
	return &txnLab{db: db, imdb: im, name: sc.Name}, nil
}

type oResult struct {
	Kind  string // uuid|rows|count|empty|err|null
	UUID  string
	Rows  map[string]map[string]val.Val
	Count int
	Err   string // error class
	Msg   string
}

func errClass(e string) string {
	switch e {
	case "referential integrity violation":
		return "ERefInt"
	case "constraint violation":
		return "EConstraint"
	case "domain error":
		return "EDomain"
	case "timed out":
		return "ETimedOut"
	case "not supported":
		return "ENotSupported"
	case "duplicate uuid name":
		return "EDupName"
	}
	return "EOther"
}

type oRef struct {
	FromTable, From, Col string
	IsValue              bool
	ToTable, To          string
}

type tObs struct {
	Results   []oResult
	Committed bool
	CommitErr string
	Panic     string
	State     map[string]map[string]map[string]val.Val // table -> uuid -> row
	Refs      []oRef
	gcOrPrune bool // the committed state differs from what the operations alone produce (rows collected / references pruned)
}

// state reads the whole database through Database.List / GetReferences.
func (l *txnLab) state() (map[string]map[string]map[string]val.Val, []oRef, error) {
	st := map[string]map[string]map[string]val.Val{}
	var refs []oRef
	for _, t := range l.db.Spec.Tables {
		rows, err := l.imdb.List(l.name, t.Name)
		if err != nil {
			return nil, nil, err
		}
		st[t.Name] = map[string]map[string]val.Val{}
		for u, m := range rows {
			st[t.Name][u] = l.db.RowMap(m, t.Name)
			rs, err := l.imdb.GetReferences(l.name, t.Name, u)
			if err != nil {
				return nil, nil, err
			}
			for spec, ref := range rs {
				for to, froms := range ref {
					for _, f := range froms {
						refs = append(refs, oRef{spec.FromTable, f, spec.FromColumn, spec.FromValue, spec.ToTable, to})
					}
				}
			}
		}
	}
	sort.Slice(refs, func(i, j int) bool { return fmt.Sprint(refs[i]) < fmt.Sprint(refs[j]) })
	return st, refs, nil
}

// run executes one transaction the way server.Transact does: operations go
// through JSON, Transact, and Commit iff no result carries an error.
func (l *txnLab) run(ops []TOp) (ob tObs) {
	return l.runWith(ops, func(oops []ovsdb.Operation) ([]*ovsdb.OperationResult, bool, string) {
		tr := l.imdb.NewTransaction(l.name)
		results, update := tr.Transact(oops...)
		for _, r := range results {
			if r != nil && r.Error != "" {
				return results, false, ""
			}
		}
		if err := l.imdb.Commit(l.name, uuid.New(), update); err != nil {
			return results, false, err.Error()
		}
		return results, true, ""
	})
}

// runWith executes one transaction through the given transactor (which
// returns the results, whether the transaction was committed, and a commit
// error if any) and reads the resulting state.
func (l *txnLab) runWith(ops []TOp, transact func([]ovsdb.Operation) ([]*ovsdb.OperationResult, bool, string)) (ob tObs) {
	var oops []ovsdb.Operation
	for _, o := range ops {
		op := o.operation(l.db)
		b, err := json.Marshal(op)
		if err != nil {
			ob.Panic = "marshal: " + err.Error()
			return
		}
		var back ovsdb.Operation
		if err := json.Unmarshal(b, &back); err != nil {
			ob.Panic = "unmarshal: " + err.Error()
			return
		}
		oops = append(oops, back)
	}
	func() {
		defer func() {
			if r := recover(); r != nil {
				ob.Panic = fmt.Sprint(r)
			}
		}()
		results, committed, commitErr := transact(oops)
		ob.Results = l.convertResults(ops, results)
		ob.Committed, ob.CommitErr = committed, commitErr
	}()
	st, refs, err := l.state()
	if err != nil && ob.Panic == "" {
		ob.Panic = "state: " + err.Error()
	}
	ob.State, ob.Refs = st, refs
	return
}

func (l *txnLab) coqObs(s *val.Syms, ob tObs) string {
	var rs []string
	for _, r := range ob.Results {
		switch r.Kind {
		case "uuid":
			rs = append(rs, fmt.Sprintf("OUuid %d%%N", s.ID(r.UUID)))
		case "rows":
			var us []string
			for u := range r.Rows {
				us = append(us, u)
			}
			sort.Strings(us)
			var rows []string
			for _, u := range us {
				rows = append(rows, fmt.Sprintf("(%d%%N, %s)", s.ID(u), dyn.CoqRow(s, r.Rows[u])))
			}
			rs = append(rs, "ORows ["+strings.Join(rows, "; ")+"]")
		case "count":
			rs = append(rs, fmt.Sprintf("OCount %d%%nat", r.Count))
		case "empty":
			rs = append(rs, "OEmpty")
		case "err":
			rs = append(rs, "OErr "+r.Err)
		default:
			rs = append(rs, "ONull")
		}
	}
	var ts []string
	for _, t := range l.db.Spec.Tables {
		var us []string
		for u := range ob.State[t.Name] {
			us = append(us, u)
		}
		sort.Strings(us)
		var rows []string
		for _, u := range us {
			rows = append(rows, fmt.Sprintf("(%d%%N, %s)", s.ID(u), dyn.CoqRow(s, ob.State[t.Name][u])))
		}
		ts = append(ts, fmt.Sprintf("(%d%%N, [%s])", s.ID(t.Name), strings.Join(rows, "; ")))
	}
	var refs []string
	for _, r := range ob.Refs {
		refs = append(refs, fmt.Sprintf("(%d%%N, %d%%N, %d%%N, %v, %d%%N, %d%%N)", s.ID(r.FromTable), s.ID(r.From), s.ID(r.Col), r.IsValue, s.ID(r.ToTable), s.ID(r.To)))
	}
	return fmt.Sprintf("Txn.mkTObs [%s]\n      [%s]\n      [%s]", strings.Join(rs, "; "), strings.Join(ts, ";\n       "), strings.Join(refs, "; "))
}

func jsonObs(ob tObs) interface{} {
	var rs []interface{}
	for _, r := range ob.Results {
		switch r.Kind {
		case "uuid":
			rs = append(rs, map[string]interface{}{"uuid": r.UUID})
		case "rows":
			rows := map[string]interface{}{}
			for u, m := range r.Rows {
				rows[u] = dyn.JSONRow(m)
			}
			rs = append(rs, map[string]interface{}{"rows": rows})
		case "count":
			rs = append(rs, map[string]interface{}{"count": r.Count})
		case "err":
			rs = append(rs, map[string]interface{}{"error": r.Err, "msg": r.Msg})
		default:
			rs = append(rs, r.Kind)
		}
	}
	n := 0
	for _, t := range ob.State {
		n += len(t)
	}
	return map[string]interface{}{"results": rs, "committed": ob.Committed, "commit_error": ob.CommitErr, "panic": ob.Panic, "rows_after": n, "refs_after": len(ob.Refs)}
}

func stateKey(st map[string]map[string]map[string]val.Val, refs []oRef) string {
	var parts []string
	for t, rows := range st {
		for u, r := range rows {
			var cs []string
			for _, k := range dyn.SortedKeys(r) {
				cs = append(cs, k+"="+r[k].Key())
			}
			parts = append(parts, t+"/"+u+":"+strings.Join(cs, ","))
		}
	}
	sort.Strings(parts)
	return strings.Join(parts, ";") + "|" + fmt.Sprint(refs)
}

// convertResults classifies the raw operation results of one transaction.
func (l *txnLab) convertResults(ops []TOp, results []*ovsdb.OperationResult) []oResult {
	var out []oResult
	for i, r := range results {
		var or oResult
		switch {
		case r == nil:
			or.Kind = "null"
		case r.Error != "":
			or.Kind, or.Err, or.Msg = "err", errClass(r.Error), r.Error+": "+r.Details
		case i < len(ops) && ops[i].Kind == "insert":
			or.Kind, or.UUID = "uuid", r.UUID.GoUUID
		case i < len(ops) && ops[i].Kind == "select":
			or.Kind = "rows"
			or.Rows = map[string]map[string]val.Val{}
			for _, row := range r.Rows {
				u, _ := row["_uuid"].(ovsdb.UUID)
				m, err := l.db.ReadOvsRow(ops[i].Table, row)
				if err != nil {
					or.Kind, or.Err, or.Msg = "err", "EOther", "undecodable select row: "+err.Error()
				}
				or.Rows[u.GoUUID] = m
			}
		case i < len(ops) && (ops[i].Kind == "update" || ops[i].Kind == "mutate" || ops[i].Kind == "delete"):
			or.Kind, or.Count = "count", r.Count
		default:
			or.Kind = "empty"
		}
		out = append(out, or)
	}
	return out
}

func coqResults(s *val.Syms, results []oResult) string {
	var rs []string
	for _, r := range results {
		switch r.Kind {
		case "uuid":
			rs = append(rs, fmt.Sprintf("OUuid %d%%N", s.ID(r.UUID)))
		case "rows":
			var us []string
			for u := range r.Rows {
				us = append(us, u)
			}
			sort.Strings(us)
			var rows []string
			for _, u := range us {
				rows = append(rows, fmt.Sprintf("(%d%%N, %s)", s.ID(u), dyn.CoqRow(s, r.Rows[u])))
			}
			rs = append(rs, "ORows ["+strings.Join(rows, "; ")+"]")
		case "count":
			rs = append(rs, fmt.Sprintf("OCount %d%%nat", r.Count))
		case "empty":
			rs = append(rs, "OEmpty")
		case "err":
			rs = append(rs, "OErr "+r.Err)
		default:
			rs = append(rs, "ONull")
		}
	}
	return "[" + strings.Join(rs, "; ") + "]"
}
