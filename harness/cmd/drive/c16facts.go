package main

import (
	"fmt"
	"go/ast"
	"go/parser"
	"go/token"
	"os"
	"os/exec"
	"path/filepath"
	"strings"
)

// extractTrafficSignal reads client/client.go: in `transact`, the signal to the inactivity probe (a send on
// o.trafficSeen) must come after the statement that returns when the call failed, and must not sit in a branch that
// looks at the error: only a reply from the peer is traffic. Returns whether a failed call (e.g. one that ran into its
// own deadline) reaches the signal.
func extractTrafficSignal(repo string) (deadlineIsTraffic bool, where string, err error) {
	fset := token.NewFileSet()
	f, err := parser.ParseFile(fset, filepath.Join(repo, "client", "client.go"), nil, 0)
	if err != nil {
		return false, "", err
	}
	mentions := func(n ast.Node, name string) bool {
		found := false
		ast.Inspect(n, func(x ast.Node) bool {
			switch y := x.(type) {
			case *ast.SelectorExpr:
				if y.Sel.Name == name {
					found = true
				}
			case *ast.Ident:
				if y.Name == name {
					found = true
				}
			}
			return !found
		})
		return found
	}
	sends := 0
	for _, d := range f.Decls {
		fd, ok := d.(*ast.FuncDecl)
		if !ok || fd.Body == nil {
			continue
		}
		callAt, retAt := -1, -1
		for i, st := range fd.Body.List {
			if as, ok := st.(*ast.AssignStmt); ok && mentions(as, "CallWithContext") && fd.Name.Name == "transact" {
				callAt = i
			}
			if ifs, ok := st.(*ast.IfStmt); ok && callAt >= 0 && retAt < 0 && mentions(ifs.Cond, "err") {
				returns := false
				if n := len(ifs.Body.List); n > 0 {
					_, returns = ifs.Body.List[n-1].(*ast.ReturnStmt)
				}
				if returns && ifs.Else == nil {
					retAt = i
				}
			}
			// a send on trafficSeen anywhere in this statement
			hasSend := false
			ast.Inspect(st, func(x ast.Node) bool {
				if s, ok := x.(*ast.SendStmt); ok && mentions(s.Chan, "trafficSeen") {
					hasSend = true
				}
				return true
			})
			if !hasSend {
				continue
			}
			sends++
			pos := fmt.Sprintf("client.go:%d (in %s)", fset.Position(st.Pos()).Line, fd.Name.Name)
			if fd.Name.Name != "transact" {
				return true, pos + ": the probe is signalled outside transact", nil
			}
			if retAt < 0 || i < retAt {
				return true, pos + ": the signal is sent before the error of the call is looked at", nil
			}
			if ifs, ok := st.(*ast.IfStmt); ok && mentions(ifs.Cond, "err") {
				return true, pos + ": the signal depends on the error", nil
			}
			where = pos
		}
	}
	if sends == 0 {
		return false, "no signal to the probe", nil
	}
	return false, where, nil
}

func c16TrafficFact(o opts) map[string]interface{} {
	repo := os.Getenv("VERIF_REPO")
	if repo == "" {
		repo = "/repo"
	}
	fo := map[string]interface{}{"name": "only a reply from the peer is traffic for the inactivity probe (client/client.go: transact) - the parameter deadline_is_traffic of Cli/Probe.v is false", "ok": false}
	bad, where, err := extractTrafficSignal(repo)
	if err != nil {
		fo["detail"] = "extraction failed: " + err.Error()
		return fo
	}
	src := "From Coq Require Import Bool.\n(* generated from client/client.go on every run *)\n" +
		fmt.Sprintf("Definition deadline_is_traffic_extracted : bool := %v.\n", bad) +
		"Lemma deadline_is_not_traffic : deadline_is_traffic_extracted = false.\nProof. reflexivity. Qed.\n"
	_ = os.MkdirAll(o.out, 0o755)
	_ = os.WriteFile(filepath.Join(o.out, "facts_C16_traffic.v"), []byte(src), 0o644)
	cmd := exec.Command("coqc", "facts_C16_traffic.v")
	cmd.Dir = o.out
	outb, cerr := cmd.CombinedOutput()
	fo["extracted"] = map[string]interface{}{"deadline_is_traffic": bad, "where": where}
	if cerr == nil && !bad {
		fo["ok"] = true
	} else {
		fo["detail"] = where + "; " + strings.TrimSpace(string(outb))
	}
	return fo
}
