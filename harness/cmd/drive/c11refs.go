package main

// C11, reference-driven changes: a transaction whose garbage collection takes several rounds changes one surviving
// row (the watcher of c07chain.go) once per round; the reference tracker merges those changes into the transaction's
// own update. The accumulated update of every row must have the row before the transaction as its old value, the
// row committed afterwards as its new value, and a modify difference that takes the one to the other.

import (
	"encoding/json"
	"fmt"

	"github.com/google/uuid"
	"github.com/ovn-org/libovsdb/model"
	"github.com/ovn-org/libovsdb/ovsdb"

	"verifharness/emit"
	"verifharness/gen"
	"verifharness/val"
)

func c11References(o opts, w *emit.Writer) error {
	for variant := 0; variant < 8; variant++ {
		sc := cascadeSchema("C11R")
		lab, err := newTxnLab(sc)
		if err != nil {
			return err
		}
		tg := &txnGen{g: gen.New(o.seed + int64(variant)), sc: sc, state: map[string]map[string]map[string]val.Val{}, pool: 3}
		if ob := lab.run(cascadeSeed(tg)); !ob.Committed {
			return fmt.Errorf("C11 references: the seed transaction is refused: %+v", ob.Results)
		}
		st0, _, _ := lab.state()
		tg.state = st0
		ops := cascadeRelease(tg, variant)
		if variant >= 4 {
			// the chain is let go in the middle: two rounds instead of three
			ops[len(ops)-1] = TOp{Kind: "update", Table: "A", Where: []Cond{{Col: "name", Fn: "==", Arg: val.VA(val.Str("n1"))}}, Row: map[string]val.Val{"next": val.VNone()}}
		}
		var oops []ovsdb.Operation
		for _, op := range ops {
			b, _ := json.Marshal(op.operation(lab.db))
			var back ovsdb.Operation
			if err := json.Unmarshal(b, &back); err != nil {
				return err
			}
			oops = append(oops, back)
		}
		failure := ""
		fail := func(format string, a ...interface{}) {
			if failure == "" {
				failure = fmt.Sprintf("reference-driven accumulation, variant %d: ", variant) + fmt.Sprintf(format, a...)
			}
		}
		tr := lab.imdb.NewTransaction(lab.name)
		results, update := tr.Transact(oops...)
		for i, r := range results {
			if r != nil && r.Error != "" {
				fail("operation %d fails: %s (%s)", i, r.Error, r.Details)
			}
		}
		type acc struct{ old, new map[string]val.Val }
		seen := map[string]map[string]acc{}
		for _, t := range sc.Tables {
			t := t
			seen[t.Name] = map[string]acc{}
			_ = update.ForEachModelUpdate(t.Name, func(u string, old, new model.Model) error {
				a := acc{}
				if old != nil {
					a.old = lab.db.RowMap(old, t.Name)
				}
				if new != nil {
					a.new = lab.db.RowMap(new, t.Name)
				}
				seen[t.Name][u] = a
				before, had := st0[t.Name][u]
				if had != (old != nil) || (had && !rowsEqual(before, a.old)) {
					fail("the old value of %s row %s is not the row before the transaction", t.Name, u)
				}
				return nil
			})
			_ = update.ForEachRowUpdate(t.Name, func(u string, ru ovsdb.RowUpdate2) error {
				a := seen[t.Name][u]
				if ru.Modify == nil {
					return nil
				}
				d, err := lab.db.ReadOvsRow(t.Name, *ru.Modify)
				if err != nil {
					fail("undecodable modify of %s row %s: %v", t.Name, u, err)
					return nil
				}
				applied := map[string]val.Val{}
				for k, v := range a.old {
					applied[k] = v
				}
				for k, dv := range d {
					applied[k] = applyDiff(a.old[k], dv)
				}
				if !rowsEqual(applied, a.new) {
					fail("the modify difference of %s row %s applied to its old value does not give its new value (column nodes: old %s, modify %s, new %s)",
						t.Name, u, a.old["nodes"].Key(), d["nodes"].Key(), a.new["nodes"].Key())
				}
				return nil
			})
		}
		if failure == "" {
			if err := lab.imdb.Commit(lab.name, uuid.New(), update); err != nil {
				fail("commit: %v", err)
			}
		}
		st1, _, _ := lab.state()
		npruned := 0
		for t, rows := range seen {
			for u, a := range rows {
				after, has := st1[t][u]
				if failure == "" && (has != (a.new != nil) || (has && !rowsEqual(after, a.new))) {
					fail("the new value of %s row %s is not the row committed", t, u)
				}
				if t == "B" && a.old != nil && a.new != nil && len(a.new["nodes"].Set) < len(a.old["nodes"].Set) {
					npruned++
				}
			}
		}
		if failure == "" && npruned == 0 {
			fail("the watcher was not pruned (the scenario does not exercise what it is meant to)")
		}
		w.Count("reference-driven accumulation")
		w.Add(emit.Case{Term: "C11.mk None [] None None", JSON: map[string]interface{}{"references": variant},
			Key: fmt.Sprintf("references-%d", variant), Nontrivial: true, Class: "references", Oracle: failure})
	}
	return nil
}
