package main

// C05, indexes whose value is a whole set or map (outside the Coq model, which indexes atoms): a direct oracle on the
// real row cache. A set or map is not hashable in Go and its elements have no order; the index must still group the rows
// by the value, whatever the order the elements were given in.

import (
	"fmt"
	"sort"
	"strings"

	"github.com/ovn-org/libovsdb/cache"
	"github.com/ovn-org/libovsdb/model"
	"github.com/ovn-org/libovsdb/ovsdb"

	"verifharness/dyn"
	"verifharness/emit"
	"verifharness/gen"
	"verifharness/val"
)

func c05Collections(o opts, g *gen.G, w *emit.Writer) error {
	const T = "T"
	ncases := 10
	if o.tier == "thorough" {
		ncases = 150
	}
	cols := c05Cols()
	sc := dyn.Schema{Name: "C05c", Tables: []dyn.Table{{Name: T, Cols: cols, Indexes: [][]string{{"name", "ss"}}, IsRoot: true}}}
	db, err := sc.BuildWithIndexes(map[string][]model.ClientIndex{T: {
		{Columns: []model.ColumnKey{{Column: "ss"}}},
		{Columns: []model.ColumnKey{{Column: "m"}}},
		{Columns: []model.ColumnKey{{Column: "tag"}, {Column: "m"}}},
	}})
	if err != nil {
		return err
	}
	shuffled := func(v val.Val) val.Val {
		out := v
		out.Set = append([]val.Atom{}, v.Set...)
		out.Map = append([][2]val.Atom{}, v.Map...)
		g.R.Shuffle(len(out.Set), func(i, j int) { out.Set[i], out.Set[j] = out.Set[j], out.Set[i] })
		g.R.Shuffle(len(out.Map), func(i, j int) { out.Map[i], out.Map[j] = out.Map[j], out.Map[i] })
		return out
	}
	for ci := 0; ci < ncases; ci++ {
		oracle := ""
		fail := func(format string, a ...interface{}) {
			if oracle == "" {
				oracle = fmt.Sprintf(format, a...)
			}
		}
		func() {
			defer func() {
				if r := recover(); r != nil {
					fail("an index over a set or map column panics: %v", r)
				}
			}()
			tc, err := cache.NewTableCache(db.Model, nil, nil)
			if err != nil {
				fail("NewTableCache: %v", err)
				return
			}
			rc := tc.Table(T)
			rows := map[string]map[string]val.Val{}
			n := 2 + g.Intn(5)
			for i := 0; i < n; i++ {
				u := gen.UUIDn(i + 1)
				r := map[string]val.Val{}
				for _, c := range cols {
					r[c.Name] = g.Value(c, 3, 3)
				}
				r["name"] = val.VA(gen.AtomN('s', i%3))
				dupOf := ""
				for u2, r2 := range rows {
					if r2["name"].Equal(r["name"]) && r2["ss"].Canon().Equal(r["ss"].Canon()) {
						dupOf = u2
					}
				}
				given := map[string]val.Val{}
				for k, v := range r {
					given[k] = shuffled(v)
				}
				err := rc.Create(u, db.Make(T, u, given), true)
				switch {
				case dupOf != "" && err == nil:
					fail("row %s has the name and the set ss of row %s (elements in another order) and is accepted under the schema index name,ss", u, dupOf)
				case dupOf == "" && err != nil:
					fail("row %s is refused although no row holds its index value: %v", u, err)
				}
				if err == nil {
					rows[u] = r
				}
			}
			// every client index groups the rows by the value
			for _, idx := range [][]string{{"ss"}, {"m"}, {"tag", "m"}} {
				dump, err := rc.Index(idx...)
				if err != nil {
					fail("Index(%v): %v", idx, err)
					continue
				}
				want := map[string][]string{}
				for u, r := range rows {
					var ks []string
					for _, c := range idx {
						ks = append(ks, r[c].Canon().Key())
					}
					k := strings.Join(ks, "|")
					want[k] = append(want[k], u)
				}
				var got [][]string
				for _, us := range dump {
					sort.Strings(us)
					got = append(got, us)
				}
				var wl [][]string
				for _, us := range want {
					sort.Strings(us)
					wl = append(wl, us)
				}
				key := func(l [][]string) string {
					var s []string
					for _, us := range l {
						s = append(s, strings.Join(us, ","))
					}
					sort.Strings(s)
					return strings.Join(s, " / ")
				}
				if key(got) != key(wl) {
					fail("index %v groups the rows as {%s}, their values group them as {%s}", idx, key(got), key(wl))
				}
			}
			// a lookup by a model holding the same set in another order finds the row
			for u, r := range rows {
				m := db.Make(T, "", map[string]val.Val{"name": r["name"], "ss": shuffled(r["ss"])})
				fu, _, err := rc.RowByModel(m)
				// (an index is usable for a model only when the model holds a value other than the default in each
				// of its columns)
				usable := !r["name"].Equal(colOf(cols, "name").Default()) && len(r["ss"].Set) > 0
				if usable && (err != nil || fu != u) {
					fail("RowByModel with the name and set of row %s (elements in another order) finds %q (%v)", u, fu, err)
				}
				if !usable && fu != "" {
					fail("RowByModel with a model that leaves a column of the only index unset finds row %q", fu)
				}
			}
			// conditions on the indexed map column select what a scan selects: every map includes the empty map,
			// a map equals only itself
			if res, err := rc.RowsByCondition([]ovsdb.Condition{{Column: "m", Function: ovsdb.ConditionIncludes, Value: ovsdb.OvsMap{GoMap: map[interface{}]interface{}{}}}}); err != nil || len(res) != len(rows) {
				fail("m includes {} selects %d of %d rows through the index over the whole column m (%v)", len(res), len(rows), err)
			}
			for u, r := range rows {
				want := 0
				for _, r2 := range rows {
					if r2["m"].Canon().Equal(r["m"].Canon()) {
						want++
					}
				}
				mc := colOf(cols, "m")
				res, err := rc.RowsByCondition([]ovsdb.Condition{{Column: "m", Function: ovsdb.ConditionEqual, Value: mc.ToOvs(shuffled(r["m"]))}})
				if err != nil || len(res) != want {
					fail("m == (the map of row %s) selects %d rows, a scan %d (%v)", u, len(res), want, err)
				}
			}
		}()
		w.Count("collection-valued indexes")
		w.Add(emit.Case{Term: "C05.mk [] []", JSON: map[string]interface{}{"collection_indexes": true, "case": ci}, Key: fmt.Sprintf("coll%d", ci),
			Nontrivial: true, Class: "collection-index", Oracle: oracle})
	}
	return nil
}
