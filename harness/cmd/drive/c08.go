package main

import (
	"fmt"
	"sort"
	"strings"

	"github.com/ovn-org/libovsdb/cache"
	"github.com/ovn-org/libovsdb/model"

	"verifharness/dyn"
	"verifharness/emit"
	"verifharness/gen"
	"verifharness/val"
)

func init() { drivers["C08"] = driveC08 }

func c08Cols() []val.Col {
	return []val.Col{
		{Name: "name", K: 'a', KT: 's'}, {Name: "n", K: 'a', KT: 'i'}, {Name: "r", K: 'a', KT: 'r'}, {Name: "b", K: 'a', KT: 'b'},
		{Name: "e", K: 'a', KT: 's', Enum: c10Enum}, {Name: "u", K: 'a', KT: 'u'},
		{Name: "os", K: 'o', KT: 's'}, {Name: "oi", K: 'o', KT: 'i'},
		{Name: "m", K: 'm', KT: 's', VT: 's', Max: -1}, {Name: "tag", K: 'a', KT: 's'},
		{Name: "ss", K: 's', KT: 's', Max: -1}, {Name: "si", K: 's', KT: 'i', Max: -1},
	}
}

func c08Configs() []idxConfig {
	k1 := val.Str("k1")
	k2 := val.Str("k2")
	return []idxConfig{
		{Name: "none"},
		{Name: "schema", Schema: [][]string{{"name"}}},
		{Name: "schemaMulti", Schema: [][]string{{"name", "n"}, {"u"}}},
		{Name: "client", Client: [][]ckey{{{Col: "tag"}}, {{Col: "os"}}, {{Col: "n"}}}},
		{Name: "overlap", Schema: [][]string{{"name"}}, Client: [][]ckey{{{Col: "name"}, {Col: "tag"}}, {{Col: "tag"}}}},
		{Name: "mapKey", Client: [][]ckey{{{Col: "m", Key: &k1}}, {{Col: "m", Key: &k2}, {Col: "tag"}}}},
		{Name: "mapKeys2", Client: [][]ckey{{{Col: "m", Key: &k1}, {Col: "m", Key: &k2}}}},
	}
}

func buildIdxDB(cols []val.Col, cfg idxConfig) (*dyn.DB, error) {
	const T = "T"
	sc := dyn.Schema{Name: "DB", Tables: []dyn.Table{{Name: T, Cols: cols, Indexes: cfg.Schema, IsRoot: true}}}
	var ci map[string][]model.ClientIndex
	if len(cfg.Client) > 0 {
		var l []model.ClientIndex
		for _, cks := range cfg.Client {
			var cs []model.ColumnKey
			for _, ck := range cks {
				var key interface{}
				if ck.Key != nil {
					key = ck.Key.Native()
				}
				cs = append(cs, model.ColumnKey{Column: ck.Col, Key: key})
			}
			l = append(l, model.ClientIndex{Columns: cs})
		}
		ci = map[string][]model.ClientIndex{T: l}
	}
	return sc.BuildWithIndexes(ci)
}

func driveC08(o opts) error {
	const T = "T"
	g := gen.New(o.seed)
	syms := val.NewSyms()
	syms.ID("_uuid") // reserved symbol 1
	w := emit.New("C08", o.out)
	w.ShardSize = 100
	cols := c08Cols()
	cfgs := c08Configs()
	dbs := make([]*dyn.DB, len(cfgs))
	for i, cfg := range cfgs {
		db, err := buildIdxDB(cols, cfg)
		if err != nil {
			return err
		}
		dbs[i] = db
	}
	w.Prelude = "Definition T : table := " + dyn.CoqTable(syms, dyn.Table{Name: T, Cols: cols, IsRoot: true}) + ".\n"
	w.Run = "C08.run T"
	ncases, nlists := 250, 6
	if o.tier == "thorough" {
		ncases, nlists = 6000, 10
	}
	if o.n > 0 {
		ncases = o.n
	}
	pool := 4
	for ci := 0; ci < ncases; ci++ {
		nrows := g.Intn(9)
		var uuids []string
		rows := map[string]map[string]val.Val{}
		var rowList []map[string]val.Val
		names := map[string]bool{}
		for i := 0; i < nrows; i++ {
			u := gen.UUIDn(i)
			r := map[string]val.Val{}
			for _, c := range cols {
				switch c.Name {
				case "m":
					v := val.Val{K: 'm'}
					for _, k := range []string{"k1", "k2", "k3"} {
						if g.Chance(0.6) {
							v.Map = append(v.Map, [2]val.Atom{val.Str(k), gen.AtomN('s', g.Intn(pool))})
						}
					}
					r[c.Name] = v
				case "u": // unique (schema index in one configuration)
					r[c.Name] = val.VA(val.Uuid(gen.UUIDn(100 + i)))
				case "name": // unique (schema index)
					for {
						a := gen.AtomN('s', g.Intn(12))
						if !names[a.S] {
							names[a.S] = true
							r[c.Name] = val.VA(a)
							break
						}
					}
				default:
					r[c.Name] = g.Value(c, pool, 3)
				}
			}
			uuids = append(uuids, u)
			rows[u] = r
			rowList = append(rowList, r)
		}
		// condition lists
		var lists [][]Cond
		nl := 2 + g.Intn(nlists-1)
		for i := 0; i < nl; i++ {
			k := g.Intn(5)
			var cs []Cond
			for j := 0; j < k; j++ {
				c := genCond(g, cols, rowList, uuids, pool, 3)
				cs = append(cs, c)
				if g.Chance(0.15) { // repeated column
					c2 := genCond(g, cols, rowList, uuids, pool, 3)
					c2.Col = c.Col
					if cc := colOf(cols, c.Col); cc != nil && c2.Arg.K == c.Arg.K && colOf(cols, c.Col).K == c2.Arg.K {
						if c2.Fn == "<" || c2.Fn == ">" || c2.Fn == "<=" || c2.Fn == ">=" {
							c2.Fn = "=="
						}
						c2.Arg = g.Value(*cc, pool, 3)
						if c.Col == "_uuid" {
							c2.Arg = c.Arg
						}
						cs = append(cs, c2)
					}
				}
			}
			if len(rowList) > 0 && g.Chance(0.12) {
				// two conditions addressing different keys of the same map column
				src := rowList[g.Intn(len(rowList))]["m"]
				for _, k := range []string{"k1", "k2"} {
					v := gen.AtomN('s', g.Intn(pool))
					for _, p := range src.Map {
						if p[0].S == k {
							v = p[1]
						}
					}
					cs = append(cs, Cond{Col: "m", Fn: "includes", Arg: val.VM([2]val.Atom{val.Str(k), v})})
				}
			}
			lists = append(lists, cs)
		}
		// the components of a multi-column index (schema name+n, client name+tag, tag+m[k2], m[k1]+m[k2]) taken from one
		// row, named in the order of the index and in other orders, alone or with an unrelated condition in between
		if len(rowList) > 0 {
			for _, group := range [][]string{{"name", "n"}, {"name", "tag"}, {"m:k2", "tag"}, {"m:k1", "m:k2"}} {
				if !g.Chance(0.6) {
					continue
				}
				src := rowList[g.Intn(len(rowList))]
				var cs []Cond
				for _, comp := range group {
					if strings.HasPrefix(comp, "m:") {
						k := comp[2:]
						v := gen.AtomN('s', 0)
						for _, p := range src["m"].Map {
							if p[0].S == k {
								v = p[1]
							}
						}
						cs = append(cs, Cond{Col: "m", Fn: "includes", Arg: val.VM([2]val.Atom{val.Str(k), v})})
					} else {
						cs = append(cs, Cond{Col: comp, Fn: "==", Arg: src[comp]})
					}
				}
				if g.Chance(0.6) {
					cs[0], cs[1] = cs[1], cs[0]
				}
				if g.Chance(0.4) {
					cs = []Cond{cs[0], genCond(g, cols, rowList, uuids, pool, 3), cs[1]}
				}
				lists = append(lists, cs)
			}
		}
		// lone conditions on zero / absent values (rows lacking a map key are
		// indexed under the zero value; an unset optional under nil)
		for _, zc := range []Cond{
			{Col: "m", Fn: "includes", Arg: val.VM([2]val.Atom{val.Str([]string{"k1", "k2", "k3"}[g.Intn(3)]), gen.AtomN('s', g.Intn(2))})},
			{Col: "os", Fn: []string{"==", "includes", "excludes", "!="}[g.Intn(4)], Arg: val.VNone()},
			{Col: "tag", Fn: []string{"==", "includes"}[g.Intn(2)], Arg: val.VA(val.Str(""))},
			{Col: "n", Fn: []string{"==", "includes", "<=", ">="}[g.Intn(4)], Arg: val.VA(val.Int(0))},
			{Col: "m", Fn: []string{"==", "includes", "excludes"}[g.Intn(3)], Arg: val.VM()},
			{Col: "ss", Fn: []string{"==", "includes", "excludes", "!="}[g.Intn(4)], Arg: val.VS()},
		} {
			if g.Chance(0.5) {
				lists = append(lists, []Cond{zc})
			}
		}
		// choose configurations: always "none" plus 3 others
		pick := []int{0}
		perm := g.R.Perm(len(cfgs) - 1)
		for _, p := range perm[:3] {
			pick = append(pick, p+1)
		}
		var cfgTerms []string
		cfgJ := map[string]interface{}{}
		oracle := ""
		var baseline [][]string
		nontrivial := false
		for _, pi := range pick {
			cfg, db := cfgs[pi], dbs[pi]
			tc, err := cache.NewTableCache(db.Model, nil, nil)
			if err != nil {
				return err
			}
			rc := tc.Table(T)
			for i, u := range uuids {
				if ci%2 == 0 {
					if err := rc.Create(u, db.Make(T, u, rows[u]), false); err != nil {
						return err
					}
					continue
				}
				// every other case the rows reach their contents by updates: created with other (unique) values in the
				// columns that schema and client indexes are made of, then one update that moves all of them at once
				// (the name to another temporary value), then one that moves the name alone
				v0, v1 := map[string]val.Val{}, map[string]val.Val{}
				for k, v := range rows[u] {
					v0[k], v1[k] = v, v
				}
				v0["name"], v1["name"] = val.VA(val.Str(fmt.Sprintf("tmp0-%d", i))), val.VA(val.Str(fmt.Sprintf("tmp1-%d", i)))
				v0["n"], v0["tag"] = val.VA(val.Int(int64(1000000+i))), val.VA(val.Str(fmt.Sprintf("tmptag-%d", i)))
				v0["u"], v0["os"] = val.VA(val.Uuid(gen.UUIDn(900000+i))), val.VSome(val.Str(fmt.Sprintf("tmpos-%d", i)))
				if err := rc.Create(u, db.Make(T, u, v0), false); err != nil {
					return err
				}
				for _, v := range []map[string]val.Val{v1, rows[u]} {
					if _, err := rc.Update(u, db.Make(T, u, v), false); err != nil {
						return err
					}
				}
			}
			if ci%2 == 1 {
				w.Count("contents reached by updates")
			}
			var resTerms []string
			var results [][]string
			for li, cs := range lists {
				res, err := rc.RowsByCondition(toOvsConds(cols, cs))
				if err != nil {
					resTerms = append(resTerms, "None")
					results = append(results, nil)
					if oracle == "" {
						oracle = fmt.Sprintf("config %s, condition list %d: error for well-typed conditions: %v", cfg.Name, li, err)
					}
					continue
				}
				var us []string
				for u := range res {
					us = append(us, u)
				}
				sort.Strings(us)
				results = append(results, us)
				var ids []string
				for _, u := range us {
					ids = append(ids, fmt.Sprintf("%d%%N", syms.ID(u)))
				}
				resTerms = append(resTerms, "(Some ["+strings.Join(ids, "; ")+"])")
				// oracle 1: the RFC reading of the conditions
				var want []string
				for _, u := range uuids {
					if rfcMatch(u, rows[u], cs) {
						want = append(want, u)
					}
				}
				if strings.Join(want, ",") != strings.Join(us, ",") && oracle == "" {
					oracle = fmt.Sprintf("config %s, condition list %d: selected {%s} but exactly {%s} satisfy every condition", cfg.Name, li, strings.Join(us, ","), strings.Join(want, ","))
				}
				if len(cs) >= 2 && len(uuids) >= 3 && len(us) > 0 && len(us) < len(uuids) {
					nontrivial = true
				}
			}
			// oracle 2: independent of the index configuration
			if baseline == nil {
				baseline = results
			} else {
				for li := range results {
					if strings.Join(results[li], ",") != strings.Join(baseline[li], ",") && oracle == "" {
						oracle = fmt.Sprintf("condition list %d: answer under index configuration %s differs from the answer without indexes", li, cfg.Name)
					}
				}
			}
			var specTerms []string
			for _, s := range cfg.specs() {
				specTerms = append(specTerms, s.coq(syms))
			}
			cfgTerms = append(cfgTerms, fmt.Sprintf("C08.mkCfg [%s] [%s]", strings.Join(specTerms, "; "), strings.Join(resTerms, "; ")))
			cfgJ[cfg.Name] = results
			w.Count("cfg:" + cfg.Name)
		}
		var rowTerms []string
		rowsJ := map[string]interface{}{}
		for _, u := range uuids {
			rowTerms = append(rowTerms, fmt.Sprintf("(%d%%N, %s)", syms.ID(u), dyn.CoqRow(syms, rows[u])))
			rowsJ[u] = dyn.JSONRow(rows[u])
		}
		var listTerms []string
		var listsJ []interface{}
		for _, cs := range lists {
			listTerms = append(listTerms, coqConds(syms, cs))
			listsJ = append(listsJ, jsonConds(cs))
			for _, c := range cs {
				w.Count("fn:" + c.Fn)
			}
		}
		term := fmt.Sprintf("C08.CQuery (C08.mk [%s]\n   [%s]\n   [%s])", strings.Join(rowTerms, "; "), strings.Join(listTerms, ";\n    "), strings.Join(cfgTerms, ";\n    "))
		w.Add(emit.Case{Term: term, JSON: map[string]interface{}{"rows": rowsJ, "conditions": listsJ, "results": cfgJ},
			Key: term, Nontrivial: nontrivial, Class: fmt.Sprintf("rows%d", nrows), Oracle: oracle})
	}
	if err := c08API(o, g, syms, w, cols, cfgs); err != nil {
		return err
	}
	if err := c08DB(o, g, w, cols); err != nil {
		return err
	}
	return w.Flush()
}
