package main

// Witnesses of the recorded C01 findings (replayed on every run: a KNOWN-FINDING line is printed while they fail).

import (
	"fmt"
	"time"

	"github.com/ovn-org/libovsdb/client"

	"verifharness/dyn"
	"verifharness/gen"
	"verifharness/val"
)

func c01Witnesses(o opts, sc dyn.Schema) (map[string]int, error) {
	known := map[string]int{}
	// class 31: an additional monitor on a table that is already monitored (to add columns)
	{
		lab, err := newSrvLab(sc, o.out)
		if err != nil {
			return nil, err
		}
		writer, err := lab.dial()
		if err != nil {
			return nil, err
		}
		q := gen.UUIDn(1)
		ob := lab.runWith([]TOp{
			{Kind: "insert", Table: "Q", UUID: q, Row: map[string]val.Val{"name": val.VA(val.Str("one")), "oi": val.VSome(val.Int(1))}},
		}, writer.transactor(sc.Name))
		cl, err := client.NewOVSDBClient(lab.db.Client, client.WithEndpoint("unix:"+lab.sock))
		if err == nil && ob.Committed {
			ctx, cancel := ctxT()
			err = cl.Connect(ctx)
			cancel()
		}
		if err == nil {
			m1 := lab.db.New("Q")
			ctx, cancel := ctxT()
			_, e1 := cl.Monitor(ctx, cl.NewMonitor(client.WithTable(m1, lab.db.FieldPtr(m1, "Q", "name"))))
			cancel()
			m2 := lab.db.New("Q")
			ctx, cancel = ctxT()
			_, e2 := cl.Monitor(ctx, cl.NewMonitor(client.WithTable(m2, lab.db.FieldPtr(m2, "Q", "oi"))))
			cancel()
			rows := cl.Cache().Table("Q").Rows()
			okRow := false
			for _, m := range rows {
				r := lab.db.RowMap(m, "Q")
				okRow = r["name"].Equal(val.VA(val.Str("one"))) && r["oi"].Equal(val.VSome(val.Int(1)))
			}
			if e1 != nil || e2 != nil || !okRow {
				known["31"] = 1
			}
			cl.Disconnect()
			cl.Close()
		}
		writer.close()
		lab.close()
	}
	// class 32: the client's own transaction returns while another Monitor() call is between its reply and the
	// application of that reply: the notification of the transaction is still deferred
	{
		lab, err := newSrvLab(sc, o.out)
		if err != nil {
			return nil, err
		}
		cl, err := client.NewOVSDBClient(lab.db.Client, client.WithEndpoint("unix:"+lab.sock))
		if err == nil {
			ctx, cancel := ctxT()
			err = cl.Connect(ctx)
			cancel()
		}
		if err == nil {
			ctx, cancel := ctxT()
			_, err = cl.Monitor(ctx, cl.NewMonitor(client.WithTable(lab.db.New("Q"))))
			cancel()
		}
		if err == nil {
			reached, release := make(chan struct{}), make(chan struct{})
			armed := true
			client.VerifHook = func(point string) {
				if point == "monitor.replyReceived" && armed {
					armed = false
					close(reached)
					<-release
				}
			}
			done := make(chan error, 1)
			go func() {
				ctx, cancel := ctxT()
				defer cancel()
				_, err := cl.Monitor(ctx, cl.NewMonitor(client.WithTable(lab.db.New("C"))))
				done <- err
			}()
			select {
			case <-reached:
				u := gen.UUIDn(2)
				op := TOp{Kind: "insert", Table: "Q", UUID: u, Row: map[string]val.Val{"name": val.VA(val.Str("mine"))}}
				ctx, cancel := ctxT()
				res, terr := cl.Transact(ctx, op.operation(lab.db))
				cancel()
				if terr == nil && len(res) == 1 && res[0].Error == "" {
					if cl.Cache().Table("Q").Row(u) == nil {
						known["32"] = 1
					}
				}
				close(release)
			case <-time.After(5 * time.Second):
			}
			client.VerifHook = nil
			select {
			case <-done:
			case <-time.After(5 * time.Second):
				return nil, fmt.Errorf("c01 witness: Monitor did not return after release")
			}
			cl.Disconnect()
			cl.Close()
		}
		lab.close()
	}
	return known, nil
}
