package main

import (
	"sort"

	"verifharness/dyn"
	"verifharness/gen"
	"verifharness/val"
)

// txnGen generates transactions against the last observed state.
type txnGen struct {
	pBounded float64 // extra weight of the bounded-column transitions
	g        *gen.G
	sc       dyn.Schema
	state    map[string]map[string]map[string]val.Val
	counter  int
	turn     int // transactions generated so far (special patterns take turns)
	rot      int
	pool     int
	// probabilities
	pInvalid float64 // chance that a transaction contains a deliberately failing operation
	pSelect  float64
	pWait    float64
	dangling float64                // chance that a reference points to a non-existent row
	swaps    float64                // chance that a transaction swaps / hands over indexed values
	custom   func(tg *txnGen) []TOp // property-specific transaction generator
	pCustom  float64
}

func (tg *txnGen) uuidsOf(table string) []string {
	var us []string
	for u := range tg.state[table] {
		us = append(us, u)
	}
	sort.Strings(us)
	return us
}

func (tg *txnGen) fresh() string {
	tg.counter++
	return gen.UUIDn(1000 + tg.counter)
}

// refAtom picks a uuid for a reference into table rt: an existing row, a row
// inserted earlier in this transaction, or (rarely) a missing one.
func (tg *txnGen) refAtom(rt string, pending map[string][]string) val.Atom {
	cands := append(tg.uuidsOf(rt), pending[rt]...)
	if len(cands) == 0 || tg.g.Chance(tg.dangling) {
		if tg.g.Chance(0.4) {
			// the uuid of a row of another table: missing from the table the column refers to all the same
			var others []string
			for _, t := range tg.sc.Tables {
				if t.Name != rt {
					others = append(others, tg.uuidsOf(t.Name)...)
					others = append(others, pending[t.Name]...)
				}
			}
			if len(others) > 0 {
				return val.Uuid(others[tg.g.Intn(len(others))])
			}
		}
		return val.Uuid(gen.UUIDn(900000 + tg.g.Intn(3)))
	}
	return val.Uuid(cands[tg.g.Intn(len(cands))])
}

func (tg *txnGen) value(c val.Col, pending map[string][]string) val.Val {
	g := tg.g
	atom := func(t byte, rt string, enum []val.Atom) val.Atom {
		if t == 'u' && rt != "" {
			return tg.refAtom(rt, pending)
		}
		return g.Atom(t, tg.pool, enum)
	}
	switch c.K {
	case 'a':
		return val.VA(atom(c.KT, c.RefTable, c.Enum))
	case 'o':
		if g.Intn(3) == 0 {
			return val.VNone()
		}
		return val.VSome(atom(c.KT, c.RefTable, c.Enum))
	case 's':
		n := g.Intn(4)
		if c.Max > 0 && n > c.Max {
			n = c.Max
		}
		if n < c.Min {
			n = c.Min
		}
		out := val.Val{K: 's'}
		seen := map[string]bool{}
		for i := 0; i < n; i++ {
			a := atom(c.KT, c.RefTable, c.Enum)
			if !seen[a.Key()] {
				seen[a.Key()] = true
				out.Set = append(out.Set, a)
			}
		}
		return out
	default:
		n := g.Intn(4)
		if c.Max > 0 && n > c.Max {
			n = c.Max
		}
		if n < c.Min {
			n = c.Min
		}
		out := val.Val{K: 'm'}
		seen := map[string]bool{}
		for i := 0; i < n; i++ {
			k := atom(c.KT, c.RefTable, nil)
			if !seen[k.Key()] {
				seen[k.Key()] = true
				out.Map = append(out.Map, [2]val.Atom{k, atom(c.VT, c.VRefTable, nil)})
			}
		}
		return out
	}
}

func (tg *txnGen) where(t *dyn.Table) []Cond {
	g := tg.g
	us := tg.uuidsOf(t.Name)
	var rows []map[string]val.Val
	for _, u := range us {
		rows = append(rows, tg.state[t.Name][u])
	}
	if len(us) > 1 && g.Chance(0.15) {
		// several conditions, one in the middle (or the first) that no row satisfies, around it conditions that rows do
		// satisfy: the conjunction selects nothing, whatever the conditions after the failing one select
		holds := func(c Cond) int {
			n := 0
			for i, u := range us {
				if rfcMatch(u, rows[i], []Cond{c}) {
					n++
				}
			}
			return n
		}
		var some, none []Cond
		for k := 0; k < 40 && (len(some) < 3 || len(none) < 1); k++ {
			c := genCond(g, t.Cols, rows, us, tg.pool, 3)
			if n := holds(c); n > 0 {
				some = append(some, c)
			} else {
				none = append(none, c)
			}
		}
		if len(some) >= 2 && len(none) >= 1 {
			switch g.Intn(3) {
			case 0:
				return []Cond{some[0], none[0], some[1]}
			case 1:
				return []Cond{none[0], some[0], some[1]}
			default:
				return []Cond{some[0], some[1], none[0], some[len(some)-1]}
			}
		}
	}
	switch x := g.Intn(10); {
	case x < 2:
		return []Cond{}
	case x < 5 && len(us) > 0:
		return []Cond{{Col: "_uuid", Fn: "==", Arg: val.VA(val.Uuid(us[g.Intn(len(us))]))}}
	default:
		n := 1 + g.Intn(2)
		var cs []Cond
		for i := 0; i < n; i++ {
			cs = append(cs, genCond(g, t.Cols, rows, us, tg.pool, 3))
		}
		return cs
	}
}

// txn generates one transaction of 1..maxOps operations.
func (tg *txnGen) txn(maxOps int) []TOp {
	g := tg.g
	if tg.custom != nil {
		pc := tg.pCustom
		if pc == 0 {
			pc = 0.85
		}
		if g.Chance(pc) {
			if ops := tg.custom(tg); len(ops) > 0 {
				return ops
			}
		}
	}
	// the special transaction patterns also take turns, so that every history of a few transactions meets each of them
	// whatever the seed (the coin flips below remain)
	tg.turn++
	if tg.turn == 1 {
		tg.rot = g.Intn(7) // a generator lives for one history: start the rotation somewhere else each time
	}
	if tg.turn%3 == 0 {
		patterns := []func() []TOp{tg.twice, tg.bounded, tg.keepExisting, tg.mixedDelete, tg.reinsert, tg.readThenCollide, tg.crossLookup}
		for k := 0; k < len(patterns); k++ {
			if ops := patterns[(tg.turn/3+tg.rot+k)%len(patterns)](); len(ops) > 0 {
				return ops
			}
		}
	}
	if g.Chance(0.12) {
		if ops := tg.twice(); len(ops) > 0 {
			return ops
		}
	}
	if g.Chance(0.1 + tg.pBounded) {
		if ops := tg.bounded(); len(ops) > 0 {
			return ops
		}
	}
	if g.Chance(0.07) {
		if ops := tg.keepExisting(); len(ops) > 0 {
			return ops
		}
	}
	if g.Chance(0.07) {
		if ops := tg.mixedDelete(); len(ops) > 0 {
			return ops
		}
	}
	if g.Chance(0.05) {
		if ops := tg.reinsert(); len(ops) > 0 {
			return ops
		}
	}
	if g.Chance(0.06) {
		if ops := tg.readThenCollide(); len(ops) > 0 {
			return ops
		}
	}
	if g.Chance(0.06) {
		if ops := tg.crossLookup(); len(ops) > 0 {
			return ops
		}
	}
	n := 1 + g.Intn(maxOps)
	pending := map[string][]string{}
	var ops []TOp
	for i := 0; i < n; i++ {
		t := &tg.sc.Tables[g.Intn(len(tg.sc.Tables))]
		var op TOp
		x := g.R.Float64()
		switch {
		case x < tg.pSelect:
			var cols []string
			for _, c := range t.Cols {
				if g.Chance(0.4) {
					cols = append(cols, c.Name)
				}
			}
			op = TOp{Kind: "select", Table: t.Name, Where: tg.where(t), Cols: cols}
		case x < tg.pSelect+tg.pWait:
			op = tg.wait(t)
		default:
			switch y := g.Intn(10); {
			case y < 4 || len(tg.state[t.Name]) == 0:
				row := map[string]val.Val{}
				for _, c := range t.Cols {
					if g.Chance(0.6) || c.Min > 0 && c.K != 'a' {
						row[c.Name] = tg.value(c, pending)
					}
				}
				u := tg.fresh()
				op = TOp{Kind: "insert", Table: t.Name, UUID: u, Row: row}
				pending[t.Name] = append(pending[t.Name], u)
			case y < 6:
				row := map[string]val.Val{}
				k := 1 + g.Intn(2)
				for j := 0; j < k; j++ {
					c := t.Cols[g.Intn(len(t.Cols))]
					if c.Immutable && !g.Chance(tg.pInvalid) {
						continue
					}
					row[c.Name] = tg.value(c, pending)
				}
				wh := tg.where(t)
				// name some columns with the value a selected row already has (no change for that row)
				if us := tg.uuidsOf(t.Name); len(us) > 0 && g.Chance(0.5) {
					var sel []string
					for _, u := range us {
						if rfcMatch(u, tg.state[t.Name][u], wh) {
							sel = append(sel, u)
						}
					}
					if len(sel) > 0 {
						cur := tg.state[t.Name][sel[g.Intn(len(sel))]]
						for j := 0; j < 1+g.Intn(2); j++ {
							c := t.Cols[g.Intn(len(t.Cols))]
							row[c.Name] = cur[c.Name]
						}
					}
				}
				op = TOp{Kind: "update", Table: t.Name, Where: wh, Row: row}
			case y < 8:
				var ms []Mut
				k := 1 + g.Intn(2)
				for j := 0; j < k; j++ {
					c := t.Cols[g.Intn(len(t.Cols))]
					cur := val.Val{K: c.K}
					if us := tg.uuidsOf(t.Name); len(us) > 0 {
						cur = tg.state[t.Name][us[g.Intn(len(us))]][c.Name]
					}
					if c.KT == 'u' && c.RefTable != "" && (c.K == 's') {
						op := []string{"insert", "delete"}[g.Intn(2)]
						ms = append(ms, Mut{Col: c.Name, Mutator: op, Arg: val.VS(tg.refAtom(c.RefTable, pending))})
						continue
					}
					if m, ok := genMut(g, c, cur, tg.pool, 3); ok {
						ms = append(ms, m)
					}
				}
				op = TOp{Kind: "mutate", Table: t.Name, Where: tg.where(t), Muts: ms}
			default:
				op = TOp{Kind: "delete", Table: t.Name, Where: tg.where(t)}
			}
		}
		ops = append(ops, op)
	}
	if g.Chance(tg.swaps) {
		ops = append(ops, tg.swap()...)
	}
	if g.Chance(tg.pInvalid) {
		ops = tg.spoil(ops)
	}
	return ops
}

// swap generates a transaction fragment in which an indexed value moves:
// two rows swap their indexed columns, or a row is deleted and another
// inserted / updated with its value.
// twice changes one set or map column of an existing row with two (or three) separate operations of one
// transaction: the accumulated update must be the net difference whatever the column's bounds.
func (tg *txnGen) twice() []TOp {
	g := tg.g
	for _, ti := range g.R.Perm(len(tg.sc.Tables)) {
		t := &tg.sc.Tables[ti]
		us := tg.uuidsOf(t.Name)
		var cols []val.Col
		for _, c := range t.Cols {
			if (c.K == 's' || c.K == 'm') && c.RefTable == "" && c.VRefTable == "" && !c.Immutable {
				cols = append(cols, c)
			}
		}
		if len(us) == 0 || len(cols) == 0 {
			continue
		}
		u := us[g.Intn(len(us))]
		c := cols[g.Intn(len(cols))]
		byU := []Cond{{Col: "_uuid", Fn: "==", Arg: val.VA(val.Uuid(u))}}
		var ops []TOp
		for k := 2 + g.Intn(2); k > 0; k-- {
			v := tg.value(c, nil)
			switch g.Intn(3) {
			case 0:
				ops = append(ops, TOp{Kind: "update", Table: t.Name, Where: byU, Row: map[string]val.Val{c.Name: v}})
			case 1:
				ops = append(ops, TOp{Kind: "mutate", Table: t.Name, Where: byU, Muts: []Mut{{Col: c.Name, Mutator: "insert", Arg: v}}})
			default:
				cur := tg.state[t.Name][u][c.Name]
				if c.K == 's' && len(cur.Set) > 0 {
					v = val.VS(cur.Set[g.Intn(len(cur.Set))])
				} else if c.K == 'm' && len(cur.Map) > 0 {
					v = val.VM(cur.Map[g.Intn(len(cur.Map))])
				}
				ops = append(ops, TOp{Kind: "mutate", Table: t.Name, Where: byU, Muts: []Mut{{Col: c.Name, Mutator: "delete", Arg: v}}})
			}
		}
		return ops
	}
	return nil
}

// bounded moves a column with a finite upper bound (a single-pair map, a small set) of an existing row between its
// extreme states: the only pair replaced by a pair under another key, the pair removed, the set filled or emptied.
func (tg *txnGen) bounded() []TOp {
	g := tg.g
	for _, ti := range g.R.Perm(len(tg.sc.Tables)) {
		t := &tg.sc.Tables[ti]
		us := tg.uuidsOf(t.Name)
		var cols []val.Col
		for _, c := range t.Cols {
			if (c.K == 's' || c.K == 'm') && c.Max > 0 && c.RefTable == "" && c.VRefTable == "" && !c.Immutable {
				cols = append(cols, c)
			}
		}
		if len(us) == 0 || len(cols) == 0 {
			continue
		}
		u := us[g.Intn(len(us))]
		c := cols[g.Intn(len(cols))]
		if g.Chance(0.6) {
			// prefer a row whose bounded map holds a pair already
			for _, cu := range us {
				for _, cc := range cols {
					if cc.K == 'm' && len(tg.state[t.Name][cu][cc.Name].Map) > 0 {
						u, c = cu, cc
					}
				}
			}
		}
		byU := []Cond{{Col: "_uuid", Fn: "==", Arg: val.VA(val.Uuid(u))}}
		cur := tg.state[t.Name][u][c.Name]
		if c.K == 'm' && len(cur.Map) == 0 {
			one := val.Val{K: 'm', Map: [][2]val.Atom{{gen.AtomN(c.KT, g.Intn(tg.pool)), gen.AtomN(c.VT, g.Intn(tg.pool))}}}
			return []TOp{{Kind: "update", Table: t.Name, Where: byU, Row: map[string]val.Val{c.Name: one}}}
		}
		var v val.Val
		switch {
		case c.K == 'm' && len(cur.Map) > 0 && g.Chance(0.6):
			// another key (and value) in place of an existing pair
			old := cur.Map[g.Intn(len(cur.Map))]
			nk := gen.AtomN(c.KT, 1+g.Intn(tg.pool))
			for nk.Key() == old[0].Key() {
				nk = gen.AtomN(c.KT, 1+g.Intn(tg.pool+3))
			}
			v = val.Val{K: 'm'}
			for _, p := range cur.Map {
				if p[0].Key() != old[0].Key() && p[0].Key() != nk.Key() {
					v.Map = append(v.Map, p)
				}
			}
			v.Map = append(v.Map, [2]val.Atom{nk, gen.AtomN(c.VT, g.Intn(tg.pool))})
		case (len(cur.Map) > 0 || len(cur.Set) > 0) && g.Chance(0.5):
			v = val.Val{K: c.K} // emptied
		default:
			v = tg.value(c, nil)
		}
		if g.Chance(0.3) && c.K == 'm' && len(cur.Map) > 0 {
			keys := val.Val{K: 's'}
			keys.Set = append(keys.Set, cur.Map[0][0])
			return []TOp{{Kind: "mutate", Table: t.Name, Where: byU, Muts: []Mut{{Col: c.Name, Mutator: "delete", Arg: keys}}}}
		}
		return []TOp{{Kind: "update", Table: t.Name, Where: byU, Row: map[string]val.Val{c.Name: v}}}
	}
	return nil
}

// keepExisting: the insert mutator adds only what is absent - a key already in a map keeps its value (also when that
// value is the zero value of its type), an element already in a set changes nothing; the same column may be named by
// two mutations of one operation.
func (tg *txnGen) keepExisting() []TOp {
	g := tg.g
	for _, ti := range g.R.Perm(len(tg.sc.Tables)) {
		t := &tg.sc.Tables[ti]
		us := tg.uuidsOf(t.Name)
		var cols []val.Col
		for _, c := range t.Cols {
			if c.K == 'm' && c.RefTable == "" && c.VRefTable == "" && !c.Immutable && c.Max != 1 {
				cols = append(cols, c)
			}
		}
		if len(us) == 0 || len(cols) == 0 {
			continue
		}
		u := us[g.Intn(len(us))]
		c := cols[g.Intn(len(cols))]
		byU := []Cond{{Col: "_uuid", Fn: "==", Arg: val.VA(val.Uuid(u))}}
		k1, k2 := gen.AtomN(c.KT, 1+g.Intn(tg.pool)), gen.AtomN(c.KT, 2+tg.pool)
		zero, other := val.ZeroAtom(c.VT), gen.AtomN(c.VT, 1+g.Intn(tg.pool))
		var ops []TOp
		if g.Chance(0.7) {
			// make sure the key is there, mapped to the zero value or to some value
			v := zero
			if g.Chance(0.3) {
				v = gen.AtomN(c.VT, 2+g.Intn(tg.pool))
			}
			ops = append(ops, TOp{Kind: "update", Table: t.Name, Where: byU, Row: map[string]val.Val{c.Name: val.VM([2]val.Atom{k1, v})}})
		}
		muts := []Mut{{Col: c.Name, Mutator: "insert", Arg: val.VM([2]val.Atom{k1, other})}}
		if g.Chance(0.5) {
			// a second mutation of the same column in the same operation
			muts = append(muts, Mut{Col: c.Name, Mutator: "insert", Arg: val.VM([2]val.Atom{k2, other})})
		}
		ops = append(ops, TOp{Kind: "mutate", Table: t.Name, Where: byU, Muts: muts})
		if g.Chance(0.3) {
			ops = append(ops, TOp{Kind: "select", Table: t.Name, Where: []Cond{{Col: c.Name, Fn: "includes", Arg: val.VM([2]val.Atom{k1, zero})}}, Cols: []string{c.Name}})
		}
		return ops
	}
	return nil
}

// mixedDelete: a delete mutation that names elements (keys, pairs) the column holds together with ones it does not
// hold - only the former are removed, and only they are part of the difference sent to update2 / update3 monitors.
func (tg *txnGen) mixedDelete() []TOp {
	g := tg.g
	for _, ti := range g.R.Perm(len(tg.sc.Tables)) {
		t := &tg.sc.Tables[ti]
		us := tg.uuidsOf(t.Name)
		var cols []val.Col
		for _, c := range t.Cols {
			if (c.K == 's' || c.K == 'm') && c.RefTable == "" && c.VRefTable == "" && !c.Immutable && (c.Max < 0 || c.Max >= 3) && len(c.Enum) == 0 && c.KT != 'b' {
				cols = append(cols, c)
			}
		}
		if len(us) == 0 || len(cols) == 0 {
			continue
		}
		u := us[g.Intn(len(us))]
		c := cols[g.Intn(len(cols))]
		byU := []Cond{{Col: "_uuid", Fn: "==", Arg: val.VA(val.Uuid(u))}}
		cur := tg.state[t.Name][u][c.Name]
		var ops []TOp
		held1, held2, absent := gen.AtomN(c.KT, 1), gen.AtomN(c.KT, 2), gen.AtomN(c.KT, 3+tg.pool)
		if c.K == 's' {
			if len(cur.Set) >= 2 && g.Chance(0.6) {
				held1, held2 = cur.Set[0], cur.Set[1]
			} else {
				ops = append(ops, TOp{Kind: "update", Table: t.Name, Where: byU, Row: map[string]val.Val{c.Name: val.VS(held1, held2).Canon()}})
			}
			ops = append(ops, TOp{Kind: "mutate", Table: t.Name, Where: byU, Muts: []Mut{{Col: c.Name, Mutator: "delete", Arg: val.VS(held1, absent).Canon()}}})
			return ops
		}
		v1, v2 := gen.AtomN(c.VT, 1), gen.AtomN(c.VT, 2)
		ops = append(ops, TOp{Kind: "update", Table: t.Name, Where: byU, Row: map[string]val.Val{c.Name: val.VM([2]val.Atom{held1, v1}, [2]val.Atom{held2, v2}).Canon()}})
		switch g.Intn(3) {
		case 0: // by keys: one held, one not
			ops = append(ops, TOp{Kind: "mutate", Table: t.Name, Where: byU, Muts: []Mut{{Col: c.Name, Mutator: "delete", Arg: val.VS(held1, absent).Canon()}}})
		case 1: // by pairs: one held, one with the held key and another value, one absent
			ops = append(ops, TOp{Kind: "mutate", Table: t.Name, Where: byU, Muts: []Mut{{Col: c.Name, Mutator: "delete",
				Arg: val.VM([2]val.Atom{held1, v1}, [2]val.Atom{held2, v1}, [2]val.Atom{absent, v1}).Canon()}}})
		default: // two mutations of the column in one operation, the second without effect
			ops = append(ops, TOp{Kind: "mutate", Table: t.Name, Where: byU, Muts: []Mut{
				{Col: c.Name, Mutator: "delete", Arg: val.VS(held1)}, {Col: c.Name, Mutator: "delete", Arg: val.VS(absent)}}})
		}
		return ops
	}
	return nil
}

// reinsert: a row inserted, deleted and inserted again under one uuid within a transaction, then changed: the row of
// the second insert is there for the operations that follow.
func (tg *txnGen) reinsert() []TOp {
	g := tg.g
	var roots []*dyn.Table
	for i := range tg.sc.Tables {
		if tg.sc.Tables[i].IsRoot {
			roots = append(roots, &tg.sc.Tables[i])
		}
	}
	if len(roots) == 0 {
		return nil
	}
	t := roots[g.Intn(len(roots))]
	u := tg.fresh()
	byU := []Cond{{Col: "_uuid", Fn: "==", Arg: val.VA(val.Uuid(u))}}
	row := func() map[string]val.Val {
		r := map[string]val.Val{}
		for _, c := range t.Cols {
			if c.RefTable == "" && c.VRefTable == "" && g.Chance(0.5) {
				r[c.Name] = tg.value(c, nil)
			}
		}
		for _, idx := range t.Indexes {
			for _, cn := range idx {
				r[cn] = tg.value(*t.Col(cn), nil)
			}
		}
		return r
	}
	ops := []TOp{{Kind: "insert", Table: t.Name, UUID: u, Row: row()}, {Kind: "delete", Table: t.Name, Where: byU}, {Kind: "insert", Table: t.Name, UUID: u, Row: row()}}
	switch g.Intn(4) {
	case 0:
		ops = append(ops, TOp{Kind: "delete", Table: t.Name, Where: byU})
	case 1:
		ops = append(ops, TOp{Kind: "select", Table: t.Name, Where: byU})
	default:
		var cols []val.Col
		for _, c := range t.Cols {
			if !c.Immutable && c.RefTable == "" && c.VRefTable == "" {
				cols = append(cols, c)
			}
		}
		if len(cols) > 0 {
			c := cols[g.Intn(len(cols))]
			ops = append(ops, TOp{Kind: "update", Table: t.Name, Where: byU, Row: map[string]val.Val{c.Name: tg.value(c, nil)}})
		}
	}
	return ops
}

// readThenCollide: a committed row is brought into the transaction by reading it (select, wait, an update that changes
// nothing), then another row is given its value in a schema index: the transaction must be refused whatever was read.
// crossLookup: a read whose conditions are answered by different rows - the indexed value of one row together with
// the _uuid of another, or the indexed values of two rows - selects nothing and must leave nothing behind: the same
// transaction then reads the first row by its indexed value alone, and uses that value again for a second row (the
// unique index must still refuse it).
func (tg *txnGen) crossLookup() []TOp {
	g := tg.g
	for _, ti := range g.R.Perm(len(tg.sc.Tables)) {
		t := &tg.sc.Tables[ti]
		us := tg.uuidsOf(t.Name)
		if len(us) < 2 || len(t.Indexes) == 0 {
			continue
		}
		idx := t.Indexes[g.Intn(len(t.Indexes))]
		if len(idx) != 1 {
			continue
		}
		a := us[g.Intn(len(us))]
		b := us[(g.Intn(len(us)-1)+1+indexOf(us, a))%len(us)]
		va, vb := tg.state[t.Name][a][idx[0]], tg.state[t.Name][b][idx[0]]
		byIdx := func(v val.Val) Cond { return Cond{Col: idx[0], Fn: "==", Arg: v} }
		byU := func(u string) Cond { return Cond{Col: "_uuid", Fn: "==", Arg: val.VA(val.Uuid(u))} }
		var cross []Cond
		switch g.Intn(3) {
		case 0:
			cross = []Cond{byIdx(va), byU(b)}
		case 1:
			cross = []Cond{byU(b), byIdx(va)}
		default:
			cross = []Cond{byIdx(va), byIdx(vb)}
		}
		ops := []TOp{{Kind: "select", Table: t.Name, Where: cross}}
		if g.Chance(0.5) {
			ops[0] = TOp{Kind: "update", Table: t.Name, Where: cross, Row: map[string]val.Val{}}
		}
		ops = append(ops, TOp{Kind: "select", Table: t.Name, Where: []Cond{byIdx(va)}, Cols: []string{idx[0]}})
		if g.Chance(0.5) {
			// the value of row a for row b: a duplicate
			ops = append(ops, TOp{Kind: "update", Table: t.Name, Where: []Cond{byU(b)}, Row: map[string]val.Val{idx[0]: va}})
		}
		return ops
	}
	return nil
}

func (tg *txnGen) readThenCollide() []TOp {
	g := tg.g
	for _, ti := range g.R.Perm(len(tg.sc.Tables)) {
		t := &tg.sc.Tables[ti]
		us := tg.uuidsOf(t.Name)
		if len(us) == 0 || len(t.Indexes) == 0 {
			continue
		}
		u := us[g.Intn(len(us))]
		b := tg.state[t.Name][u]
		idx := t.Indexes[g.Intn(len(t.Indexes))]
		byU := []Cond{{Col: "_uuid", Fn: "==", Arg: val.VA(val.Uuid(u))}}
		var ops []TOp
		switch g.Intn(4) {
		case 0:
			ops = append(ops, TOp{Kind: "select", Table: t.Name, Where: byU})
		case 1:
			ops = append(ops, TOp{Kind: "select", Table: t.Name, Where: []Cond{{Col: idx[0], Fn: "==", Arg: b[idx[0]]}}, Cols: []string{idx[0]}})
		case 2:
			same := map[string]val.Val{}
			for _, cn := range idx {
				same[cn] = b[cn]
			}
			ops = append(ops, TOp{Kind: "update", Table: t.Name, Where: byU, Row: same}) // changes nothing
		default:
			ops = append(ops, TOp{Kind: "wait", Table: t.Name, Where: byU, Cols: []string{idx[0]}, Until: "==", Rows: []map[string]val.Val{{idx[0]: b[idx[0]]}}})
		}
		row := map[string]val.Val{}
		for _, cn := range idx {
			row[cn] = b[cn]
		}
		if len(us) > 1 && g.Chance(0.4) {
			other := us[(g.Intn(len(us)-1)+1+indexOf(us, u))%len(us)]
			ops = append(ops, TOp{Kind: "update", Table: t.Name, Where: []Cond{{Col: "_uuid", Fn: "==", Arg: val.VA(val.Uuid(other))}}, Row: row})
		} else if t.IsRoot {
			ops = append(ops, TOp{Kind: "insert", Table: t.Name, UUID: tg.fresh(), Row: row})
		} else {
			continue
		}
		return ops
	}
	return nil
}

func indexOf(l []string, x string) int {
	for i, y := range l {
		if y == x {
			return i
		}
	}
	return 0
}

func (tg *txnGen) swap() []TOp {
	g := tg.g
	for _, ti := range g.R.Perm(len(tg.sc.Tables)) {
		t := &tg.sc.Tables[ti]
		us := tg.uuidsOf(t.Name)
		if len(t.Indexes) == 0 || len(us) < 2 {
			continue
		}
		idx := t.Indexes[g.Intn(len(t.Indexes))]
		a, b := us[g.Intn(len(us))], us[g.Intn(len(us))]
		if a == b {
			continue
		}
		ra, rb := map[string]val.Val{}, map[string]val.Val{}
		for _, c := range idx {
			ra[c] = tg.state[t.Name][b][c]
			rb[c] = tg.state[t.Name][a][c]
		}
		byU := func(u string) []Cond { return []Cond{{Col: "_uuid", Fn: "==", Arg: val.VA(val.Uuid(u))}} }
		if g.Chance(0.5) {
			return []TOp{{Kind: "update", Table: t.Name, Where: byU(a), Row: ra}, {Kind: "update", Table: t.Name, Where: byU(b), Row: rb}}
		}
		// two indexes that share no column, in either order of declaration
		var pairs [][2]int
		for i := range t.Indexes {
			for j := range t.Indexes {
				disjoint := i != j
				for _, ci := range t.Indexes[i] {
					for _, cj := range t.Indexes[j] {
						if ci == cj {
							disjoint = false
						}
					}
				}
				if disjoint {
					pairs = append(pairs, [2]int{i, j})
				}
			}
		}
		if len(pairs) > 0 && g.Chance(0.6) {
			// delete a (or move it off its value); insert a row taking a's value on one index and b's value on another:
			// the conflict with the departed row does not count, the one with b does
			pr := pairs[g.Intn(len(pairs))]
			nr := map[string]val.Val{}
			for _, c := range t.Indexes[pr[0]] {
				nr[c] = tg.state[t.Name][a][c]
			}
			for _, c := range t.Indexes[pr[1]] {
				nr[c] = tg.state[t.Name][b][c]
			}
			first := TOp{Kind: "delete", Table: t.Name, Where: byU(a)}
			if g.Chance(0.3) {
				moved := map[string]val.Val{}
				for _, c := range t.Indexes[pr[0]] {
					if tc := t.Col(c); tc != nil {
						moved[c] = tg.value(*tc, nil)
					}
				}
				first = TOp{Kind: "update", Table: t.Name, Where: byU(a), Row: moved}
			}
			return []TOp{first, {Kind: "insert", Table: t.Name, UUID: tg.fresh(), Row: nr}}
		}
		full := map[string]val.Val{}
		for c, v := range tg.state[t.Name][a] {
			if tc := t.Col(c); tc != nil && tc.RefTable == "" && tc.VRefTable == "" {
				full[c] = v
			}
		}
		return []TOp{{Kind: "delete", Table: t.Name, Where: byU(a)}, {Kind: "insert", Table: t.Name, UUID: tg.fresh(), Row: full}}
	}
	return nil
}

func (tg *txnGen) wait(t *dyn.Table) TOp {
	g := tg.g
	wh := tg.where(t)
	var cols []string
	for _, c := range t.Cols {
		if g.Chance(0.3) {
			cols = append(cols, c.Name)
		}
	}
	if len(cols) == 0 {
		cols = []string{t.Cols[0].Name}
	}
	// expected rows: what the conditions really select (projected), sometimes altered
	var rows []map[string]val.Val
	for _, u := range tg.uuidsOf(t.Name) {
		r := tg.state[t.Name][u]
		if rfcMatch(u, r, wh) {
			pr := map[string]val.Val{}
			for _, c := range cols {
				pr[c] = r[c]
			}
			rows = append(rows, pr)
		}
	}
	if g.Chance(0.4) && len(rows) > 0 {
		i := g.Intn(len(rows))
		c := t.Col(cols[g.Intn(len(cols))])
		rows[i][c.Name] = tg.value(*c, nil)
	} else if g.Chance(0.15) {
		pr := map[string]val.Val{}
		for _, c := range cols {
			pr[c] = tg.value(*t.Col(c), nil)
		}
		rows = append(rows, pr)
	}
	if g.Chance(0.2) {
		// "columns" omitted: every column the expected rows provide is compared
		cols = nil
	}
	return TOp{Kind: "wait", Table: t.Name, Where: wh, Cols: cols, Until: []string{"==", "!="}[g.Intn(2)], Rows: rows}
}

// spoil makes one operation of the transaction fail.
// commitReject: a reference is dropped from one of several referrers of a row (or a referenced row is touched in
// another way), every operation succeeds, and an insert duplicating an index value makes the commit fail.
func (tg *txnGen) commitReject() []TOp {
	g := tg.g
	var ops []TOp
	// the duplicate: a root table with an index and an existing row
	var dup *TOp
	for _, ti := range g.R.Perm(len(tg.sc.Tables)) {
		t := &tg.sc.Tables[ti]
		us := tg.uuidsOf(t.Name)
		if !t.IsRoot || len(t.Indexes) == 0 || len(us) == 0 {
			continue
		}
		src := tg.state[t.Name][us[g.Intn(len(us))]]
		row := map[string]val.Val{}
		for _, c := range t.Cols {
			if c.Min > 0 && c.K != 'a' {
				row[c.Name] = src[c.Name]
			}
		}
		for _, c := range t.Indexes[g.Intn(len(t.Indexes))] {
			row[c] = src[c]
		}
		dup = &TOp{Kind: "insert", Table: t.Name, UUID: tg.fresh(), Row: row}
		break
	}
	if dup == nil {
		return nil
	}
	// a referrer among several of the same target, through the same set column
	for _, ti := range g.R.Perm(len(tg.sc.Tables)) {
		t := &tg.sc.Tables[ti]
		for _, c := range t.Cols {
			if c.K != 's' || c.RefTable == "" {
				continue
			}
			byTarget := map[string][]string{}
			for _, u := range tg.uuidsOf(t.Name) {
				for _, a := range tg.state[t.Name][u][c.Name].Set {
					byTarget[a.S] = append(byTarget[a.S], u)
				}
			}
			for target, refs := range byTarget {
				if len(refs) < 2 || len(ops) > 0 {
					continue
				}
				keep := len(tg.state[t.Name][refs[0]][c.Name].Set)
				if keep <= c.Min {
					continue
				}
				r := refs[g.Intn(len(refs))]
				ops = append(ops, TOp{Kind: "mutate", Table: t.Name, Where: []Cond{{Col: "_uuid", Fn: "==", Arg: val.VA(val.Uuid(r))}},
					Muts: []Mut{{Col: c.Name, Mutator: "delete", Arg: val.VS(val.Uuid(target))}}})
			}
		}
	}
	if len(ops) == 0 {
		// no row has two referrers yet: make one (a transaction that commits), the rejection comes in a later transaction
		for _, ti := range g.R.Perm(len(tg.sc.Tables)) {
			t := &tg.sc.Tables[ti]
			us := tg.uuidsOf(t.Name)
			for _, c := range t.Cols {
				if c.K != 's' || c.RefTable == "" || len(us) < 2 || (c.Max > 0 && c.Max < 2) {
					continue
				}
				for _, u := range us {
					for _, a := range tg.state[t.Name][u][c.Name].Set {
						for _, other := range us {
							has := false
							for _, b := range tg.state[t.Name][other][c.Name].Set {
								has = has || b.S == a.S
							}
							if other != u && !has && (c.Max <= 0 || len(tg.state[t.Name][other][c.Name].Set) < c.Max) {
								return []TOp{{Kind: "mutate", Table: t.Name, Where: []Cond{{Col: "_uuid", Fn: "==", Arg: val.VA(val.Uuid(other))}},
									Muts: []Mut{{Col: c.Name, Mutator: "insert", Arg: val.VS(a)}}}}
							}
						}
					}
				}
			}
		}
		if g.Chance(0.5) {
			return nil
		}
	}
	return append(ops, *dup)
}

func (tg *txnGen) spoil(ops []TOp) []TOp {
	g := tg.g
	i := g.Intn(len(ops))
	t := tg.sc.Table(ops[i].Table)
	switch g.Intn(12) {
	case 9, 10: // unknown table: the operation fails where it stands, after the results of the operations before it
		ops[i] = TOp{Kind: []string{"select", "delete", "insert"}[g.Intn(3)], Table: "Nope", Row: map[string]val.Val{}, Where: []Cond{}}
	case 11: // two inserts under one uuid-name (each has its own uuid): the second is at fault
		a := TOp{Kind: "insert", Table: t.Name, UUID: tg.fresh(), Name: "dupname", Row: map[string]val.Val{}}
		b := TOp{Kind: "insert", Table: t.Name, UUID: tg.fresh(), Name: "dupname", Row: map[string]val.Val{}}
		rest := append([]TOp{}, ops[i:]...)
		ops = append(append(ops[:i:i], a), rest...)
		ops = append(ops, b)
	case 7, 8: // operations that all succeed and move references, then a rejection at commit time (duplicate index value)
		if extra := tg.commitReject(); len(extra) > 0 {
			return extra
		}
	case 6: // delete a row and insert a row with the same uuid again (the update sequence cannot be merged)
		if us := tg.uuidsOf(t.Name); len(us) > 0 {
			u := us[g.Intn(len(us))]
			del := TOp{Kind: "delete", Table: t.Name, Where: []Cond{{Col: "_uuid", Fn: "==", Arg: val.VA(val.Uuid(u))}}}
			ins := TOp{Kind: "insert", Table: t.Name, UUID: u, Row: map[string]val.Val{}}
			rest := append([]TOp{}, ops[i:]...)
			ops = append(append(ops[:i:i], del, ins), rest...)
		}
	case 0: // unsupported operation
		// known but unsupported operations, and names no operation has - with a table given, as a real operation would
		ops[i] = TOp{Kind: "other", Table: t.Name, OpName: []string{"commit", "abort", "comment", "assert", "bogus", "Select", ""}[g.Intn(7)]}
	case 1: // ill-typed value
		c := t.Cols[g.Intn(len(t.Cols))]
		bad := val.VA(val.Bool(true))
		if c.KT == 'b' {
			bad = val.VA(val.Str("x")) // a bare boolean is a legal value of an optional / set of booleans
		}
		if ops[i].Kind == "insert" || ops[i].Kind == "update" {
			ops[i].Row = map[string]val.Val{c.Name: bad}
			// keep well-typed printing: handled by badRow marker
			ops[i].Row[c.Name] = bad
		} else {
			ops[i] = TOp{Kind: "update", Table: t.Name, Where: []Cond{}, Row: map[string]val.Val{c.Name: bad}}
		}
	case 2: // mutation rejected by the column type
		c := t.Cols[g.Intn(len(t.Cols))]
		ops[i] = TOp{Kind: "mutate", Table: t.Name, Where: []Cond{}, Muts: []Mut{{Col: c.Name, Mutator: "%=", Arg: val.VA(val.Str("x"))}}}
	case 3: // wait that times out
		ops[i] = TOp{Kind: "wait", Table: t.Name, Where: []Cond{}, Cols: []string{t.Cols[0].Name}, Until: "==",
			Rows: []map[string]val.Val{{t.Cols[0].Name: tg.value(t.Cols[0], nil)}, {t.Cols[0].Name: tg.value(t.Cols[0], nil)}, {t.Cols[0].Name: tg.value(t.Cols[0], nil)}}}
	case 4: // insert of an existing uuid
		if us := tg.uuidsOf(t.Name); len(us) > 0 {
			ops[i] = TOp{Kind: "insert", Table: t.Name, UUID: us[g.Intn(len(us))], Row: map[string]val.Val{}}
		}
	default: // immutable column changed
		var ims []val.Col
		for _, c := range t.Cols {
			if c.Immutable {
				ims = append(ims, c)
			}
		}
		if len(ims) == 0 {
			break
		}
		c := ims[g.Intn(len(ims))]
		ops[i] = TOp{Kind: "update", Table: t.Name, Where: []Cond{}, Row: map[string]val.Val{c.Name: tg.value(c, nil)}}
		if (c.K == 's' || c.K == 'm') && g.Chance(0.7) {
			// ... by a mutation, in every encoding of its argument: elements / pairs a stored row holds (so that the
			// mutation would change it), as a set, a map, a set of keys or one bare key
			var held val.Val
			for _, u := range tg.uuidsOf(t.Name) {
				if v := tg.state[t.Name][u][c.Name]; len(v.Set)+len(v.Map) > 0 {
					held = v
				}
			}
			arg := tg.value(c, nil)
			mutator := []string{"insert", "delete"}[g.Intn(2)]
			m := Mut{Col: c.Name, Mutator: mutator, Arg: arg}
			if mutator == "delete" {
				switch {
				case c.K == 's' && len(held.Set) > 0:
					m.Arg = val.Val{K: 's', Set: held.Set[:1]}
					m.Single = g.Chance(0.4)
				case c.K == 'm' && len(held.Map) > 0:
					switch g.Intn(3) {
					case 0:
						m.Arg = val.Val{K: 'm', Map: held.Map[:1]}
					case 1:
						m.Arg = val.Val{K: 's', Set: []val.Atom{held.Map[0][0]}}
					default:
						m.Arg = val.Val{K: 's', Set: []val.Atom{held.Map[0][0]}}
						m.Single = true
					}
				}
			}
			ops[i] = TOp{Kind: "mutate", Table: t.Name, Where: []Cond{}, Muts: []Mut{m}}
		}
	}
	return ops
}
