package main

import (
	"encoding/json"
	"fmt"
	"github.com/ovn-org/libovsdb/ovsdb"
	"math"
	"math/big"
	"strings"

	"verifharness/dyn"
	"verifharness/emit"
	"verifharness/gen"
	"verifharness/val"
)

func init() { drivers["C03"] = driveC03 }

func c03Schema() dyn.Schema {
	cols := append(c08Cols(), val.Col{Name: "r2", K: 'a', KT: 'r'}, val.Col{Name: "im", K: 'a', KT: 's', Immutable: true},
		val.Col{Name: "msi", K: 'm', KT: 's', VT: 'i', Max: -1}, val.Col{Name: "or", K: 'o', KT: 'r'}, val.Col{Name: "ob", K: 'o', KT: 'b'},
		val.Col{Name: "ims", K: 's', KT: 's', Max: -1, Immutable: true}, val.Col{Name: "imm", K: 'm', KT: 's', VT: 's', Max: -1, Immutable: true})
	return dyn.Schema{Name: "C03", Tables: []dyn.Table{
		{Name: "T", Cols: cols, IsRoot: true},
		{Name: "R", Cols: []val.Col{{Name: "name", K: 'a', KT: 's'}, {Name: "n", K: 'a', KT: 'i'}, {Name: "ss", K: 's', KT: 's', Max: -1}}, IsRoot: true},
	}}
}

// runTxnHistories is the common driver body for the engine properties.
type txnProfile struct {
	prop     string
	schemas  func(g *gen.G, i int) dyn.Schema
	tune     func(tg *txnGen)
	ncases   int
	ntxn     int
	maxOps   int
	shard    int
	oracle   func(lab *txnLab, before map[string]map[string]map[string]val.Val, beforeRefs []oRef, ops []TOp, ob tObs) string
	nontriv  func(ops []TOp, ob tObs) bool
	classify func(ops []TOp, ob tObs) string
	seed     func(tg *txnGen) []TOp                                       // optional first transaction populating the database
	extra    func(o opts, g *gen.G, syms *val.Syms, w *emit.Writer) error // further cases of the same case type
}

func runTxnHistories(o opts, p txnProfile) error {
	g := gen.New(o.seed)
	syms := val.NewSyms()
	syms.ID("_uuid")
	w := emit.New(p.prop, o.out)
	w.Module, w.CaseType, w.Run = "Corr.Txn", "Txn.case", "Txn.run"
	w.ShardSize = p.shard
	n := p.ncases
	if o.n > 0 {
		n = o.n
	}
	for ci := 0; ci < n; ci++ {
		sc := p.schemas(g, ci)
		lab, err := newTxnLab(sc)
		if err != nil {
			return err
		}
		tg := &txnGen{g: g, sc: sc, state: map[string]map[string]map[string]val.Val{}, pool: 4, pSelect: 0.15, pWait: 0.08, pInvalid: 0.1}
		if p.tune != nil {
			p.tune(tg)
		}
		var txnTerms []string
		var txnJ []interface{}
		oracle := ""
		nontrivial := false
		st, refs, _ := lab.state()
		tg.state = st
		nt := 1 + g.Intn(p.ntxn)
		for ti := 0; ti < nt; ti++ {
			ops := tg.txn(p.maxOps)
			if ti == 0 && p.seed != nil && g.Chance(0.8) {
				if sops := p.seed(tg); len(sops) > 0 {
					ops = sops
				}
			}
			before, beforeRefs := st, refs
			ob := lab.run(ops)
			if !ob.Committed && ob.Panic == "" {
				// an insert that names its row but not its uuid and is never executed: the uuid the server chose for it
				// is not reported, yet earlier results may show it (a select of a row that refers to the name). Nothing
				// was committed: the transaction is run again with a uuid of the harness's choosing in those inserts.
				again := false
				for i := range ops {
					if ops[i].Kind == "insert" && ops[i].UUID == "" && ops[i].Name != "" && !(i < len(ob.Results) && ob.Results[i].Kind == "uuid") {
						ops[i].UUID = gen.UUIDn(700000 + ti*16 + i)
						again = true
					}
				}
				if again {
					w.Count("rerun:unexecuted named insert given a uuid")
					ob = lab.run(ops)
				}
			}
			for i := range ops {
				// server-assigned uuids: the model is given the uuid the server reported
				if ops[i].Kind == "insert" && ops[i].UUID == "" {
					if i < len(ob.Results) && ob.Results[i].Kind == "uuid" {
						ops[i].UUID = ob.Results[i].UUID
					} else {
						ops[i].UUID = gen.UUIDn(700000 + ti*16 + i)
					}
				}
			}
			if ob.Committed {
				// rows that disappeared / changed beyond what the operations report
				gone, changed, delCount, modCount := 0, 0, 0, 0
				for t, rows := range before {
					for u, r := range rows {
						nr, ok := ob.State[t][u]
						if !ok {
							gone++
						} else if !rowsEqual(r, nr) {
							changed++
						}
					}
				}
				for i, r := range ob.Results {
					if r.Kind == "count" && i < len(ops) {
						if ops[i].Kind == "delete" {
							delCount += r.Count
						} else {
							modCount += r.Count
						}
					}
				}
				inserted := 0
				for i, r := range ob.Results {
					if r.Kind == "uuid" && i < len(ops) {
						if _, ok := ob.State[ops[i].Table][r.UUID]; !ok {
							inserted++ // inserted and collected in the same transaction
						}
					}
				}
				ob.gcOrPrune = gone > delCount || changed > modCount || inserted > 0
			}
			if ob.Panic != "" && oracle == "" {
				oracle = fmt.Sprintf("transaction %d: panic: %s", ti, ob.Panic)
			}
			if ob.CommitErr != "" && oracle == "" {
				oracle = fmt.Sprintf("transaction %d: every operation succeeded but Commit failed: %s", ti, ob.CommitErr)
			}
			if p.oracle != nil && oracle == "" {
				if msg := p.oracle(lab, before, beforeRefs, ops, ob); msg != "" {
					oracle = fmt.Sprintf("transaction %d: %s", ti, msg)
				}
			}
			st, refs = ob.State, ob.Refs
			tg.state = st
			var opTerms []string
			var opJ []interface{}
			for _, op := range ops {
				nm := "None"
				if op.Kind == "insert" && op.Name != "" {
					nm = fmt.Sprintf("(Some %d%%N)", syms.ID(op.Name))
				}
				opTerms = append(opTerms, "("+op.coq(syms)+", "+nm+")")
				opJ = append(opJ, op.json())
				w.Count("op:" + op.Kind)
			}
			for _, r := range ob.Results {
				if r.Kind == "err" {
					w.Count("err:" + r.Err)
				}
			}
			if ob.Committed {
				w.Count("committed")
			} else {
				w.Count("not-committed")
			}
			if p.nontriv(ops, ob) {
				nontrivial = true
			}
			if p.classify != nil {
				if c := p.classify(ops, ob); c != "" {
					w.Count(c)
				}
			}
			txnTerms = append(txnTerms, fmt.Sprintf("([%s],\n     %s)", strings.Join(opTerms, ";\n      "), lab.coqObs(syms, ob)))
			txnJ = append(txnJ, map[string]interface{}{"ops": opJ, "observed": jsonObs(ob)})
		}
		term := fmt.Sprintf("Txn.mk (%s)\n   [%s]", dyn.CoqSchema(syms, sc), strings.Join(txnTerms, ";\n    "))
		w.Add(emit.Case{Term: term, JSON: map[string]interface{}{"schema": sc.JSON(), "transactions": txnJ}, Key: term,
			Nontrivial: nontrivial, Class: fmt.Sprintf("txns%d", nt), Oracle: oracle})
	}
	if p.extra != nil {
		if err := p.extra(o, g, syms, w); err != nil {
			return err
		}
	}
	return w.Flush()
}

func driveC03(o opts) error {
	p := txnProfile{prop: "C03", ncases: 120, ntxn: 6, maxOps: 4, shard: 30,
		schemas: func(g *gen.G, i int) dyn.Schema { return c03Schema() },
		tune:    func(tg *txnGen) { tg.pInvalid = 0.05; tg.pSelect = 0.2; tg.pWait = 0.1 },
		nontriv: func(ops []TOp, ob tObs) bool {
			if !ob.Committed {
				return false
			}
			for _, r := range ob.Results {
				if (r.Kind == "count" && r.Count > 0) || (r.Kind == "rows" && len(r.Rows) > 0) || r.Kind == "uuid" {
					return true
				}
			}
			return false
		},
	}
	if o.tier == "thorough" {
		p.ncases, p.ntxn, p.maxOps = 4000, 10, 6
	}
	p.extra = c03Regressions
	if err := runTxnHistories(o, p); err != nil {
		return err
	}
	return c03Witnesses(o)
}

// c03Witnesses replays the witnesses of the recorded findings and appends
// their status to the statistics (oracle_known: class -> still failing?).
func c03Witnesses(o opts) error {
	lab, err := newTxnLab(c03Schema())
	if err != nil {
		return err
	}
	u := gen.UUIDn(1)
	lab.run([]TOp{{Kind: "insert", Table: "T", UUID: u, Row: map[string]val.Val{"si": val.VS(val.Int(1), val.Int(2)), "name": val.VA(val.Str("w"))}}})
	known := map[string]int{}
	// class 1: arithmetic mutator on a set column
	ob := lab.run([]TOp{{Kind: "mutate", Table: "T", Where: []Cond{}, Muts: []Mut{{Col: "si", Mutator: "+=", Arg: val.VA(val.Int(1))}}}})
	if hasError(ob) {
		known["11"] = 1
	}
	// class 2: insert mutation of an optional column
	ob = lab.run([]TOp{{Kind: "mutate", Table: "T", Where: []Cond{}, Muts: []Mut{{Col: "os", Mutator: "insert", Arg: val.VS(val.Str("x"))}}}})
	if hasError(ob) {
		known["12"] = 1
	}
	// class 3: an integer beyond 2^53 is stored rounded
	big := int64(9007199254740993)
	u2 := gen.UUIDn(2)
	lab.run([]TOp{{Kind: "insert", Table: "T", UUID: u2, Row: map[string]val.Val{"n": val.VA(val.Int(big)), "name": val.VA(val.Str("big"))}}})
	if st, _, err := lab.state(); err == nil {
		if r, ok := st["T"][u2]; ok && r["n"].A.I != big {
			known["13"] = 1
		}
	}
	// class 4: the number of elements of a set or map is not checked against the column's min / max
	if blab, err := newTxnLab(dyn.Schema{Name: "C03b", Tables: []dyn.Table{{Name: "T", IsRoot: true, Cols: []val.Col{
		{Name: "name", K: 'a', KT: 's'}, {Name: "s", K: 's', KT: 's', Min: 1, Max: 2}}}}}); err == nil {
		ob := blab.run([]TOp{{Kind: "insert", Table: "T", UUID: gen.UUIDn(3), Row: map[string]val.Val{"name": val.VA(val.Str("b")),
			"s": val.VS(val.Str("x"), val.Str("y"), val.Str("z"))}}})
		ob2 := blab.run([]TOp{{Kind: "update", Table: "T", Where: []Cond{}, Row: map[string]val.Val{"s": val.VS()}}})
		if (ob.Committed && !hasError(ob)) || (ob2.Committed && !hasError(ob2)) {
			known["14"] = 1
		}
	}
	return emit.PatchStats(o.out, "C03", func(extra map[string]interface{}) { extra["oracle_known"] = known })
}

// c03Regressions replays hand-written transactions whose outcome RFC 7047 fixes and that the generators cannot
// produce (members the harness' typed rows cannot express, extreme numbers): each is a repaired defect.
func c03Regressions(o opts, g *gen.G, syms *val.Syms, w *emit.Writer) error {
	lab, err := newTxnLab(c03Schema())
	if err != nil {
		return err
	}
	u := gen.UUIDn(11)
	if ob := lab.run([]TOp{{Kind: "insert", Table: "T", UUID: u, Row: map[string]val.Val{"name": val.VA(val.Str("reg")), "n": val.VA(val.Int(5))}}}); !ob.Committed {
		return fmt.Errorf("c03 regressions: populate failed")
	}
	raw := func(ops ...ovsdb.Operation) ([]*ovsdb.OperationResult, bool) {
		tr := lab.imdb.NewTransaction(lab.name)
		res, upd := tr.Transact(ops...)
		ok := true
		for _, r := range res {
			if r != nil && r.Error != "" {
				ok = false
			}
		}
		if ok {
			ok = lab.imdb.Commit(lab.name, [16]byte{7}, upd) == nil
		}
		return res, ok
	}
	report := func(name, failure string) {
		w.Count("regression:" + name)
		w.Add(emit.Case{Term: "Txn.mkCreate [] []", JSON: map[string]interface{}{"regression": name}, Key: "regression:" + name, Nontrivial: true, Class: "regression", Oracle: failure})
	}
	// the _uuid of a row cannot be updated
	{
		failure := ""
		_, ok := raw(ovsdb.Operation{Op: "update", Table: "T", Where: []ovsdb.Condition{}, Row: ovsdb.Row{"_uuid": ovsdb.UUID{GoUUID: gen.UUIDn(12)}}})
		st, _, _ := lab.state()
		if ok {
			failure = "update T set {_uuid: other} is committed"
		}
		if _, still := st["T"][u]; !still {
			failure = "after update T set {_uuid: other} the row is no longer stored under its uuid"
		}
		report("update of _uuid", failure)
	}
	// a wait naming _uuid compares the row's uuid
	{
		failure := ""
		zero := 0
		w8 := func(until string) ovsdb.Operation {
			return ovsdb.Operation{Op: "wait", Table: "T", Timeout: &zero, Where: []ovsdb.Condition{}, Columns: []string{"_uuid"}, Until: until,
				Rows: []ovsdb.Row{{"_uuid": ovsdb.UUID{GoUUID: u}}}}
		}
		if res, ok := raw(w8("==")); !ok {
			failure = fmt.Sprintf("wait until == on the _uuid of the only row times out: %+v", res)
		}
		if _, ok := raw(w8("!=")); ok && failure == "" {
			failure = "wait until != on the _uuid of the only row succeeds"
		}
		report("wait on _uuid", failure)
	}
	// arithmetic whose result is not representable is a range error and leaves the row alone
	for _, rc := range []struct {
		name, col string
		start     val.Val
		mutator   string
		arg       interface{}
	}{
		{"integer overflow", "n", val.VA(val.Int(1 << 62)), "*=", 2},
		{"integer overflow by addition", "n", val.VA(val.Int(1 << 62)), "+=", 1 << 62},
		{"real overflow", "r", val.VA(val.Real(1e308)), "*=", 10.5},
	} {
		failure := ""
		lab.run([]TOp{{Kind: "update", Table: "T", Where: []Cond{}, Row: map[string]val.Val{rc.col: rc.start}}})
		before, _, _ := lab.state()
		res, ok := raw(ovsdb.Operation{Op: "mutate", Table: "T", Where: []ovsdb.Condition{}, Mutations: []ovsdb.Mutation{{Column: rc.col, Mutator: ovsdb.Mutator(rc.mutator), Value: rc.arg}}})
		after, _, _ := lab.state()
		switch {
		case ok:
			failure = fmt.Sprintf("mutate %s %s %v on %s is committed (the row now holds %s)", rc.col, rc.mutator, rc.arg, rc.start.Key(), after["T"][u][rc.col].Key())
		case len(res) == 0 || res[0] == nil || !strings.Contains(res[0].Error, "range error"):
			failure = fmt.Sprintf("mutate %s %s %v on %s: expected a range error, got %+v", rc.col, rc.mutator, rc.arg, rc.start.Key(), res)
		case !rowsEqual(before["T"][u], after["T"][u]):
			failure = "a rejected arithmetic mutation changed the row"
		}
		report(rc.name, failure)
	}
	if err := c03Extremes(syms, w); err != nil {
		return err
	}
	return c03Immutable(syms, w)
}

// emitHistory runs the transactions on a fresh database and emits them as one correspondence case (Txn.mk); the direct
// oracle sees every transaction with the state before it.
func emitHistory(w *emit.Writer, syms *val.Syms, sc dyn.Schema, key string, txns [][]TOp,
	oracle func(ti int, ops []TOp, before map[string]map[string]map[string]val.Val, ob tObs) string) error {
	lab, err := newTxnLab(sc)
	if err != nil {
		return err
	}
	var txnTerms []string
	var txnJ []interface{}
	failure := ""
	st, _, _ := lab.state()
	for ti, ops := range txns {
		ob := lab.run(ops)
		if ob.Panic != "" && failure == "" {
			failure = fmt.Sprintf("transaction %d: panic: %s", ti, ob.Panic)
		}
		if failure == "" && oracle != nil {
			if msg := oracle(ti, ops, st, ob); msg != "" {
				failure = fmt.Sprintf("transaction %d: %s", ti, msg)
			}
		}
		st = ob.State
		var opTerms []string
		var opJ []interface{}
		for _, op := range ops {
			opTerms = append(opTerms, op.coqNamed(syms))
			opJ = append(opJ, op.json())
			w.Count("op:" + op.Kind)
		}
		txnTerms = append(txnTerms, fmt.Sprintf("([%s],\n     %s)", strings.Join(opTerms, ";\n      "), lab.coqObs(syms, ob)))
		txnJ = append(txnJ, map[string]interface{}{"ops": opJ, "observed": jsonObs(ob)})
	}
	term := fmt.Sprintf("Txn.mk (%s)\n   [%s]", dyn.CoqSchema(syms, sc), strings.Join(txnTerms, ";\n    "))
	w.Count("history:" + key)
	w.Add(emit.Case{Term: term, JSON: map[string]interface{}{"history": key, "schema": sc.JSON(), "transactions": txnJ}, Key: "history:" + key,
		Nontrivial: true, Class: "history", Oracle: failure})
	return nil
}

// c03Immutable: "immutable columns can be set on insert and are never changed afterwards" - every way to write one
// (update; mutate insert / delete with a set, a map, a set of keys, one bare key) on atom, set and map columns, each in
// a transaction of its own: refused when it would change the row, and the row stays as it was.
func c03Immutable(syms *val.Syms, w *emit.Writer) error {
	u := gen.UUIDn(21)
	byU := []Cond{{Col: "_uuid", Fn: "==", Arg: val.VA(val.Uuid(u))}}
	a, b, c := val.Str("a"), val.Str("b"), val.Str("c")
	ims := val.Val{K: 's', Set: []val.Atom{a, b}}
	imm := val.Val{K: 'm', Map: [][2]val.Atom{{a, val.Str("va")}, {b, val.Str("vb")}}}
	mut := func(m Mut) []TOp { return []TOp{{Kind: "mutate", Table: "T", Where: byU, Muts: []Mut{m}}} }
	upd := func(col string, v val.Val) []TOp {
		return []TOp{{Kind: "update", Table: "T", Where: byU, Row: map[string]val.Val{col: v}}}
	}
	type step struct {
		ops    []TOp
		change bool // the operation would change the row
	}
	steps := []step{
		{[]TOp{{Kind: "insert", Table: "T", UUID: u, Row: map[string]val.Val{"name": val.VA(val.Str("imrow")), "im": val.VA(val.Str("x")), "ims": ims, "imm": imm}}}, false},
		{upd("im", val.VA(val.Str("y"))), true},
		{upd("im", val.VA(val.Str("x"))), false},
		{upd("ims", val.Val{K: 's', Set: []val.Atom{a}}), true},
		{upd("ims", ims), false},
		{upd("imm", val.Val{K: 'm', Map: [][2]val.Atom{{a, val.Str("other")}, {b, val.Str("vb")}}}), true},
		{upd("imm", imm), false},
		{mut(Mut{Col: "ims", Mutator: "insert", Arg: val.Val{K: 's', Set: []val.Atom{c}}}), true},
		{mut(Mut{Col: "ims", Mutator: "insert", Arg: val.Val{K: 's', Set: []val.Atom{c}}, Single: true}), true},
		{mut(Mut{Col: "ims", Mutator: "delete", Arg: val.Val{K: 's', Set: []val.Atom{a}}}), true},
		{mut(Mut{Col: "ims", Mutator: "delete", Arg: val.Val{K: 's', Set: []val.Atom{b}}, Single: true}), true},
		{mut(Mut{Col: "imm", Mutator: "insert", Arg: val.Val{K: 'm', Map: [][2]val.Atom{{c, val.Str("vc")}}}}), true},
		{mut(Mut{Col: "imm", Mutator: "delete", Arg: val.Val{K: 'm', Map: [][2]val.Atom{{a, val.Str("va")}}}}), true},
		{mut(Mut{Col: "imm", Mutator: "delete", Arg: val.Val{K: 's', Set: []val.Atom{a, b}}}), true},
		{mut(Mut{Col: "imm", Mutator: "delete", Arg: val.Val{K: 's', Set: []val.Atom{a}}}), true},
		{mut(Mut{Col: "imm", Mutator: "delete", Arg: val.Val{K: 's', Set: []val.Atom{b}}, Single: true}), true},
		{[]TOp{{Kind: "select", Table: "T", Where: byU}}, false},
	}
	var txns [][]TOp
	for _, s := range steps {
		txns = append(txns, s.ops)
	}
	return emitHistory(w, syms, c03Schema(), "immutable columns", txns,
		func(ti int, ops []TOp, before map[string]map[string]map[string]val.Val, ob tObs) string {
			if ti == 0 {
				if !ob.Committed {
					return "the insert that sets the immutable columns is refused"
				}
				return ""
			}
			for _, col := range []string{"im", "ims", "imm"} {
				if x, y := before["T"][u][col], ob.State["T"][u][col]; x.Key() != y.Key() {
					return fmt.Sprintf("%s changes immutable column %s from %s to %s (committed=%v)", describeOp(ops[0]), col, x.Key(), y.Key(), ob.Committed)
				}
			}
			if steps[ti].change && ob.Committed {
				return fmt.Sprintf("%s is accepted although it names a change of an immutable column", describeOp(ops[0]))
			}
			return ""
		})
}

func describeOp(op TOp) string {
	b, _ := json.Marshal(op.json())
	return string(b)
}

// c03Extremes: integer arithmetic at the ends of the 64-bit range, one history per mutator: the exact result when it is
// representable, a range error that leaves the row alone otherwise (operands are powers of two and small numbers,
// which every JSON number carries exactly).
func c03Extremes(syms *val.Syms, w *emit.Writer) error {
	u := gen.UUIDn(22)
	byU := []Cond{{Col: "_uuid", Fn: "==", Arg: val.VA(val.Uuid(u))}}
	starts := []int64{5, -1, 0, math.MinInt64, 1 << 62, -(1 << 62), 3 << 61}
	args := []int64{math.MinInt64, 1 << 62, -(1 << 62), -1, 1, 2, 3}
	for _, mu := range []string{"+=", "-=", "*=", "/="} {
		txns := [][]TOp{{{Kind: "insert", Table: "T", UUID: u, Row: map[string]val.Val{"name": val.VA(val.Str("extremes"))}}}}
		type pair struct{ c, v int64 }
		var pairs []pair
		for _, c := range starts {
			for _, v := range args {
				pairs = append(pairs, pair{c, v})
				txns = append(txns,
					[]TOp{{Kind: "update", Table: "T", Where: byU, Row: map[string]val.Val{"n": val.VA(val.Int(c))}}},
					[]TOp{{Kind: "mutate", Table: "T", Where: byU, Muts: []Mut{{Col: "n", Mutator: mu, Arg: val.VA(val.Int(v))}}}})
			}
		}
		mu := mu
		err := emitHistory(w, syms, c03Schema(), "integer extremes "+mu, txns,
			func(ti int, ops []TOp, before map[string]map[string]map[string]val.Val, ob tObs) string {
				if ti == 0 || ti%2 == 1 {
					if !ob.Committed {
						return "a plain insert or update is refused"
					}
					return ""
				}
				p := pairs[ti/2-1]
				exact := new(big.Int)
				switch mu {
				case "+=":
					exact.Add(big.NewInt(p.c), big.NewInt(p.v))
				case "-=":
					exact.Sub(big.NewInt(p.c), big.NewInt(p.v))
				case "*=":
					exact.Mul(big.NewInt(p.c), big.NewInt(p.v))
				default:
					exact.Quo(big.NewInt(p.c), big.NewInt(p.v))
				}
				got := ob.State["T"][u]["n"]
				if exact.IsInt64() {
					if !ob.Committed || got.Key() != val.VA(val.Int(exact.Int64())).Key() {
						return fmt.Sprintf("%d %s %d: the result %s is representable, but committed=%v and the row holds %s", p.c, mu, p.v, exact, ob.Committed, got.Key())
					}
					return ""
				}
				if ob.Committed || got.Key() != val.VA(val.Int(p.c)).Key() {
					return fmt.Sprintf("%d %s %d: the result %s is not representable (range error), but committed=%v and the row holds %s", p.c, mu, p.v, exact, ob.Committed, got.Key())
				}
				return ""
			})
		if err != nil {
			return err
		}
	}
	return nil
}
