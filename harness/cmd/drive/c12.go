package main

// C12: wire encoding round-trips every protocol value.
//  modelled targets (values, sets, maps, uuids, rows, conditions, mutations,
//  base types, column types, columns): the implementation's encoding and the
//  decoding of that encoding are compared with the model's;
//  every target (also operations, results, table updates, monitor requests and
//  replies, errors, whole schemas): direct round-trip oracle on the implementation.

import (
	"encoding/json"
	"fmt"
	"reflect"
	"sort"
	"strings"

	"github.com/ovn-org/libovsdb/ovsdb"

	"verifharness/emit"
	"verifharness/gen"
	"verifharness/val"
)

func init() { drivers["C12"] = driveC12 }

// uuidSyms lists the symbols of the strings in the tree that are well-formed uuids.
func collectUUIDs(s *val.Syms, x interface{}, out map[int]bool) {
	switch v := x.(type) {
	case ovsdb.UUID:
		if ovsdb.IsValidUUID(v.GoUUID) {
			out[s.ID(v.GoUUID)] = true
		}
	case ovsdb.OvsSet:
		for _, e := range v.GoSet {
			collectUUIDs(s, e, out)
		}
	case ovsdb.OvsMap:
		for k, e := range v.GoMap {
			collectUUIDs(s, k, out)
			collectUUIDs(s, e, out)
		}
	case ovsdb.Row:
		for _, e := range v {
			collectUUIDs(s, e, out)
		}
	case []interface{}:
		for _, e := range v {
			collectUUIDs(s, e, out)
		}
	}
}

func symSet(m map[int]bool) string {
	var ids []int
	for k := range m {
		ids = append(ids, k)
	}
	sort.Ints(ids)
	parts := make([]string, len(ids))
	for i, k := range ids {
		parts[i] = fmt.Sprintf("%d%%N", k)
	}
	return "[" + strings.Join(parts, "; ") + "]"
}

func jsonEq(a, b interface{}) bool {
	x, _ := json.Marshal(a)
	y, _ := json.Marshal(b)
	return string(x) == string(y)
}

func driveC12(o opts) error {
	quietStderr()
	g := gen.New(o.seed)
	wg := &wgen{g: g, bigBounds: true}
	syms := newWireSyms()
	w := emit.New("C12", o.out)
	w.ShardSize = 400
	n := 900
	if o.tier == "thorough" {
		n = 12000
	}
	if o.n > 0 {
		n = o.n
	}
	type modelled struct {
		name, coq string
		gen       func() interface{}
		// roundtrip returns (encoded tree, decoded value in comparable form)
		rt func(v interface{}) (interface{}, interface{}, error)
	}
	viaRow := func(v interface{}) (interface{}, interface{}, error) {
		r := ovsdb.Row{"c0": v}
		t, err := toTree(r)
		if err != nil {
			return nil, nil, err
		}
		b, _ := json.Marshal(r)
		var back ovsdb.Row
		if err := json.Unmarshal(b, &back); err != nil {
			return nil, nil, err
		}
		return t.(map[string]interface{})["c0"], back["c0"], nil
	}
	targets := []modelled{
		{"value", "RValue", func() interface{} { return wg.value() }, viaRow},
		{"set", "RSet", func() interface{} { return wg.set(wg.atype(), g.Intn(4)) },
			func(v interface{}) (interface{}, interface{}, error) {
				t, err := toTree(v)
				if err != nil {
					return nil, nil, err
				}
				b, _ := json.Marshal(v)
				var back ovsdb.OvsSet
				err = json.Unmarshal(b, &back)
				return t, back, err
			}},
		{"map", "RMap", func() interface{} { return wg.omap(g.Intn(4)) },
			func(v interface{}) (interface{}, interface{}, error) {
				t, err := toTree(v)
				if err != nil {
					return nil, nil, err
				}
				b, _ := json.Marshal(v)
				var back ovsdb.OvsMap
				err = json.Unmarshal(b, &back)
				return t, back, err
			}},
		{"uuid", "RUuid", func() interface{} { return wg.uuid() },
			func(v interface{}) (interface{}, interface{}, error) {
				t, err := toTree(v)
				if err != nil {
					return nil, nil, err
				}
				b, _ := json.Marshal(v)
				var back ovsdb.UUID
				err = json.Unmarshal(b, &back)
				return t, back, err
			}},
		{"row", "RRow", func() interface{} { return wg.row() },
			func(v interface{}) (interface{}, interface{}, error) {
				t, err := toTree(v)
				if err != nil {
					return nil, nil, err
				}
				b, _ := json.Marshal(v)
				var back ovsdb.Row
				err = json.Unmarshal(b, &back)
				return t, back, err
			}},
		{"condition", "RCond", func() interface{} { return wg.condition() },
			func(v interface{}) (interface{}, interface{}, error) {
				t, err := toTree(v)
				if err != nil {
					return nil, nil, err
				}
				b, _ := json.Marshal(v)
				var back ovsdb.Condition
				err = json.Unmarshal(b, &back)
				return t, tripleOut(back.Column, string(back.Function), back.Value), err
			}},
		{"mutation", "RMut", func() interface{} { return wg.mutation() },
			func(v interface{}) (interface{}, interface{}, error) {
				t, err := toTree(v)
				if err != nil {
					return nil, nil, err
				}
				b, _ := json.Marshal(v)
				var back ovsdb.Mutation
				err = json.Unmarshal(b, &back)
				return t, tripleOut(back.Column, string(back.Mutator), back.Value), err
			}},
	}
	asComparable := func(v interface{}) interface{} {
		switch x := v.(type) {
		case ovsdb.Condition:
			return tripleOut(x.Column, string(x.Function), x.Value)
		case ovsdb.Mutation:
			return tripleOut(x.Column, string(x.Mutator), x.Value)
		}
		return v
	}
	for i := 0; i < n*6/10; i++ {
		t := targets[g.Intn(len(targets))]
		v := t.gen()
		oracle := ""
		enc, dec, err := t.rt(v)
		if err != nil {
			oracle = fmt.Sprintf("%s %s does not round-trip: %v", t.name, canonText(v), err)
			enc, dec = nil, nil
		} else if !reflect.DeepEqual(normGo(asComparable(v)), normGo(dec)) {
			oracle = fmt.Sprintf("%s %s decodes from its own encoding %s as %s", t.name, canonText(v), canonText(enc), canonText(dec))
		}
		us := map[int]bool{}
		collectUUIDs(syms, asComparable(v), us)
		w.Add(emit.Case{
			Term: fmt.Sprintf("mkCase %s (%s) (%s) (%s) %s", t.coq, gvalTerm(syms, asComparable(v)), gvalTerm(syms, enc), gvalTerm(syms, dec), symSet(us)),
			JSON: map[string]interface{}{"target": t.name, "value": canonText(v), "encoded": enc},
			Key:  t.name + canonText(v), Nontrivial: len(canonText(v)) > 12, Class: "value:" + t.name, Oracle: oracle,
		})
	}
	// schema pieces: generated JSON -> decode -> encode -> decode
	type schemaT struct {
		name, coq string
		gen       func() interface{}
		decode    func(b []byte) (interface{}, error) // returns pointer to the decoded value
		check     func(j0 interface{}, d interface{}) string
	}
	num := func(m map[string]interface{}, k string) (float64, bool) {
		f, ok := m[k].(float64)
		return f, ok
	}
	checkBase := func(j0 interface{}, b *ovsdb.BaseType) string {
		m, ok := j0.(map[string]interface{})
		if !ok {
			if b.Type != j0 {
				return fmt.Sprintf("type %v decoded as %v", j0, b.Type)
			}
			return ""
		}
		if f, ok := num(m, "minLength"); ok {
			if got, _ := b.MinLength(); float64(got) != f {
				return fmt.Sprintf("minLength %v decoded as %v", f, got)
			}
		}
		if f, ok := num(m, "maxLength"); ok {
			if got, _ := b.MaxLength(); float64(got) != f {
				return fmt.Sprintf("maxLength %v decoded as %v", f, got)
			}
		}
		if f, ok := num(m, "minInteger"); ok {
			if got, _ := b.MinInteger(); float64(got) != f {
				return fmt.Sprintf("minInteger %v decoded as %v", f, got)
			}
		}
		if f, ok := num(m, "maxInteger"); ok {
			if got, _ := b.MaxInteger(); float64(got) != f {
				return fmt.Sprintf("maxInteger %v decoded as %v", f, got)
			}
		}
		if i, ok := m["minInteger"].(int64); ok {
			if got, _ := b.MinInteger(); int64(got) != i {
				return fmt.Sprintf("minInteger %v decoded as %v", i, got)
			}
		}
		if i, ok := m["maxInteger"].(int64); ok {
			if got, _ := b.MaxInteger(); int64(got) != i {
				return fmt.Sprintf("maxInteger %v decoded as %v", i, got)
			}
		}
		if f, ok := num(m, "minReal"); ok {
			if got, _ := b.MinReal(); got != f {
				return fmt.Sprintf("minReal %v decoded as %v", f, got)
			}
		}
		if f, ok := num(m, "maxReal"); ok {
			if got, _ := b.MaxReal(); got != f {
				return fmt.Sprintf("maxReal %v decoded as %v", f, got)
			}
		}
		if s, ok := m["refTable"].(string); ok {
			if got, _ := b.RefTable(); got != s {
				return fmt.Sprintf("refTable %v decoded as %v", s, got)
			}
		}
		if s, ok := m["refType"].(string); ok {
			if got, _ := b.RefType(); got != s {
				return fmt.Sprintf("refType %v decoded as %v", s, got)
			}
		}
		if e, ok := m["enum"]; ok {
			want := []interface{}{e}
			if l, isl := e.([]interface{}); isl {
				want = l[1].([]interface{})
			}
			if !jsonEq(want, b.Enum) {
				return fmt.Sprintf("enum %v decoded as %v", want, b.Enum)
			}
		}
		if m["type"] != b.Type {
			return fmt.Sprintf("type %v decoded as %v", m["type"], b.Type)
		}
		return ""
	}
	checkColTy := func(j0 interface{}, c *ovsdb.ColumnType) string {
		m, ok := j0.(map[string]interface{})
		if !ok {
			if c.Key == nil || c.Key.Type != j0 || c.Min() != 1 || c.Max() != 1 || c.Value != nil {
				return fmt.Sprintf("atomic type %v decoded differently", j0)
			}
			return ""
		}
		if s := checkBase(m["key"], c.Key); s != "" {
			return "key: " + s
		}
		if v, ok := m["value"]; ok {
			if c.Value == nil {
				return "value type lost"
			}
			if s := checkBase(v, c.Value); s != "" {
				return "value: " + s
			}
		} else if c.Value != nil {
			return "value type invented"
		}
		wantMin, wantMax := 1, 1
		if f, ok := num(m, "min"); ok {
			wantMin = int(f)
		}
		if f, ok := num(m, "max"); ok {
			wantMax = int(f)
		}
		if m["max"] == "unlimited" {
			wantMax = ovsdb.Unlimited
		}
		if c.Min() != wantMin || c.Max() != wantMax {
			return fmt.Sprintf("min/max %d/%d decoded as %d/%d", wantMin, wantMax, c.Min(), c.Max())
		}
		return ""
	}
	schemaTargets := []schemaT{
		{"basetype", "RBase", func() interface{} { return wg.baseJSON(false) },
			func(b []byte) (interface{}, error) { x := &ovsdb.BaseType{}; return x, json.Unmarshal(b, x) },
			func(j0 interface{}, d interface{}) string { return checkBase(j0, d.(*ovsdb.BaseType)) }},
		{"columntype", "RColTy", func() interface{} { return wg.coltyJSON() },
			func(b []byte) (interface{}, error) { x := &ovsdb.ColumnType{}; return x, json.Unmarshal(b, x) },
			func(j0 interface{}, d interface{}) string { return checkColTy(j0, d.(*ovsdb.ColumnType)) }},
		{"column", "RColumn", func() interface{} { return wg.columnJSON() },
			func(b []byte) (interface{}, error) { x := &ovsdb.ColumnSchema{}; return x, json.Unmarshal(b, x) },
			func(j0 interface{}, d interface{}) string {
				c := d.(*ovsdb.ColumnSchema)
				m := j0.(map[string]interface{})
				if s := checkColTy(m["type"], c.TypeObj); s != "" {
					return s
				}
				wantE, wantM := false, true
				if b, ok := m["ephemeral"].(bool); ok {
					wantE = b
				}
				if b, ok := m["mutable"].(bool); ok {
					wantM = b
				}
				if c.Ephemeral() != wantE || c.Mutable() != wantM {
					return "ephemeral/mutable decoded differently"
				}
				return ""
			}},
	}
	for i := 0; i < n*3/10; i++ {
		t := schemaTargets[g.Intn(len(schemaTargets))]
		j0 := t.gen()
		b0, _ := json.Marshal(j0)
		oracle := ""
		var j1 interface{}
		d1, err := t.decode(b0)
		if err != nil {
			oracle = fmt.Sprintf("%s %s is rejected: %v", t.name, b0, err)
		} else {
			if s := t.check(j0, d1); s != "" {
				oracle = fmt.Sprintf("%s %s: %s", t.name, b0, s)
			}
			b1, err := json.Marshal(d1)
			if err != nil {
				oracle = fmt.Sprintf("%s %s cannot be re-encoded: %v", t.name, b0, err)
			} else {
				dj := json.NewDecoder(strings.NewReader(string(b1)))
				dj.UseNumber() // exact digits: integer bounds beyond 2^53 must come back as they went in
				_ = dj.Decode(&j1)
				d2, err := t.decode(b1)
				if err != nil {
					oracle = fmt.Sprintf("%s %s re-encodes to %s, which is rejected: %v", t.name, b0, b1, err)
				} else if !reflect.DeepEqual(d1, d2) && oracle == "" {
					b2, _ := json.Marshal(d2)
					if string(b2) != string(b1) || t.check(j0, d2) != "" {
						oracle = fmt.Sprintf("%s %s re-encodes to %s, which decodes to a different value (%s)", t.name, b0, b1, b2)
					}
				}
			}
		}
		w.Add(emit.Case{
			Term: fmt.Sprintf("mkCase %s (%s) (%s) GNull []", t.coq, gvalTerm(syms, j0), gvalTerm(syms, j1)),
			JSON: map[string]interface{}{"target": t.name, "json": j0, "reencoded": j1},
			Key:  t.name + string(b0), Nontrivial: len(b0) > 12, Class: "schema:" + t.name, Oracle: oracle,
		})
	}
	// implementation-only round trips of the struct-tag codecs
	var goFails []map[string]interface{}
	goFail := func(kind, what string, v interface{}) {
		w.Count("FAIL:" + kind)
		if len(goFails) < 20 {
			goFails = append(goFails, map[string]interface{}{"stage": kind, "what": what, "input": canonText(v)})
		}
	}
	rtGo := func(kind string, v interface{}, fresh func() interface{}) {
		b, err := json.Marshal(v)
		if err != nil {
			goFail(kind, fmt.Sprintf("%s %#v cannot be encoded: %v", kind, v, err), v)
			return
		}
		back := fresh()
		if err := json.Unmarshal(b, back); err != nil {
			goFail(kind, fmt.Sprintf("%s %s is rejected by the decoder: %v", kind, b, err), v)
			return
		}
		got := reflect.ValueOf(back).Elem().Interface()
		if !reflect.DeepEqual(normGo(v), normGo(got)) {
			b2, _ := json.Marshal(got)
			goFail(kind, fmt.Sprintf("%s %s decodes to a different value (re-encoded: %s)", kind, b, b2), v)
			return
		}
		w.Count("roundtrip:" + kind)
	}
	// ... and the same kinds of message against the model of their codecs (Wire/Messages.v)
	msg := func(v interface{}, kind string) {
		term, js, ok := msgCase(syms, v)
		if !ok {
			goFail(kind, fmt.Sprintf("%s %#v does not survive encoding and decoding", kind, v), v)
			return
		}
		w.Add(emit.Case{Term: term, JSON: map[string]interface{}{"target": kind, "value": js},
			Key: "msg" + kind + js, Nontrivial: len(js) > 8, Class: "message:" + kind})
		// what the decoded request selects, as its accessors answer (absent members stand for yes)
		if mr, ok := v.(ovsdb.MonitorRequest); ok {
			var back ovsdb.MonitorRequest
			if json.Unmarshal([]byte(js), &back) == nil && back.Select != nil {
				sel := back.Select
				w.Add(emit.Case{Term: fmt.Sprintf("CSel %s %v %v %v %v", monreqTerm(syms, back), sel.Initial(), sel.Insert(), sel.Delete(), sel.Modify()),
					JSON: map[string]interface{}{"target": "monitor_select", "value": js}, Key: "sel" + js, Nontrivial: true, Class: "message:select-kinds"})
			}
			_ = mr
		}
	}
	for i := 0; i < n; i++ {
		switch g.Intn(9) {
		case 0, 1, 2:
			op := wg.operation()
			rtGo("operation:"+op.Op, op, func() interface{} { return &ovsdb.Operation{} })
			// ... and against the model of the struct codec
			if enc, err := toTree(op); err == nil {
				b, _ := json.Marshal(op)
				var back ovsdb.Operation
				if json.Unmarshal(b, &back) == nil {
					us := map[int]bool{}
					collectOp := func(o ovsdb.Operation) {
						collectUUIDs(syms, o.Row, us)
						for _, r := range o.Rows {
							collectUUIDs(syms, r, us)
						}
						for _, m := range o.Mutations {
							collectUUIDs(syms, m.Value, us)
						}
						for _, c := range o.Where {
							collectUUIDs(syms, c.Value, us)
						}
					}
					collectOp(op)
					w.Add(emit.Case{
						Term: fmt.Sprintf("COp %s (%s) %s %s", wopTerm(syms, op), gvalTerm(syms, enc), wopTerm(syms, back), symSet(us)),
						JSON: map[string]interface{}{"target": "operation", "value": string(b)},
						Key:  "op" + string(b), Nontrivial: true, Class: "operation:" + op.Op,
					})
				}
			}
			if op.Op == "select" {
				b, _ := json.Marshal(op)
				if !strings.Contains(string(b), `"where"`) {
					goFail("operation:select", "select is encoded without its where member: "+string(b), op)
				}
			}
		case 3:
			rtGo("result", wg.result(), func() interface{} { return &ovsdb.OperationResult{} })
			msg(wg.msgResult(), "result")
		case 4:
			rtGo("tableupdates", wg.rowUpdates(), func() interface{} { return &ovsdb.TableUpdates{} })
			msg(wg.msgUpdates(), "tableupdates")
		case 5:
			rtGo("tableupdates2", wg.rowUpdates2(), func() interface{} { return &ovsdb.TableUpdates2{} })
			msg(wg.msgUpdates2(), "tableupdates2")
		case 6:
			rtGo("monitor_request", wg.monitorRequest(), func() interface{} { return &ovsdb.MonitorRequest{} })
			msg(wg.msgMonitorRequest(), "monitor_request")
		case 7:
			rtGo("monitor_cond_since_reply", ovsdb.MonitorCondSinceReply{Found: g.Chance(0.5), LastTransactionID: gen.UUIDn(g.Intn(3)), Updates: wg.rowUpdates2()},
				func() interface{} { return &ovsdb.MonitorCondSinceReply{} })
			msg(ovsdb.MonitorCondSinceReply{Found: g.Chance(0.5), LastTransactionID: gen.UUIDn(g.Intn(3)), Updates: wg.msgUpdates2()}, "monitor_cond_since_reply")
		default:
			// whole schema: JSON -> schema -> JSON -> schema
			j0 := wg.schemaJSON()
			b0, _ := json.Marshal(j0)
			var s1, s2 ovsdb.DatabaseSchema
			if err := json.Unmarshal(b0, &s1); err != nil {
				goFail("schema", fmt.Sprintf("schema %s is rejected: %v", b0, err), j0)
				break
			}
			b1, err := json.Marshal(s1)
			if err != nil {
				goFail("schema", fmt.Sprintf("schema %s cannot be re-encoded: %v", b0, err), j0)
				break
			}
			if err := json.Unmarshal(b1, &s2); err != nil {
				goFail("schema", fmt.Sprintf("schema %s re-encodes to %s which is rejected: %v", b0, b1, err), j0)
				break
			}
			b2, _ := json.Marshal(s2)
			var t0, t1 interface{}
			_ = json.Unmarshal(b0, &t0)
			_ = json.Unmarshal(b1, &t1)
			if string(b1) != string(b2) {
				goFail("schema", fmt.Sprintf("schema %s re-encodes to %s, which decodes to a different schema (%s)", b0, b1, b2), j0)
				break
			}
			bad := ""
			for tn, ts := range s1.Tables {
				jt := j0.(map[string]interface{})["tables"].(map[string]interface{})[tn].(map[string]interface{})
				root, _ := jt["isRoot"].(bool)
				if ts.IsRoot != root {
					bad = "isRoot of " + tn
				}
				if idx, ok := jt["indexes"]; ok && !jsonEq(idx, ts.Indexes) {
					bad = "indexes of " + tn
				}
				for cn, cs := range ts.Columns {
					jc := jt["columns"].(map[string]interface{})[cn].(map[string]interface{})
					if s := schemaTargets[2].check(jc, cs); s != "" {
						bad = tn + "." + cn + ": " + s
					}
					if cs2 := s2.Tables[tn].Columns[cn]; cs2 == nil || schemaTargets[2].check(jc, cs2) != "" {
						bad = tn + "." + cn + " after re-encoding"
					}
				}
			}
			if bad != "" {
				goFail("schema", fmt.Sprintf("schema %s: %s decoded differently", b0, bad), j0)
				break
			}
			w.Count("roundtrip:schema")
		}
	}
	// error <-> result mapping
	for _, e := range []error{&ovsdb.ReferentialIntegrityViolation{}, &ovsdb.ConstraintViolation{}, &ovsdb.ResourcesExhausted{}, &ovsdb.IOError{},
		&ovsdb.DuplicateUUIDName{}, &ovsdb.DomainError{}, &ovsdb.RangeError{}, &ovsdb.TimedOut{}, &ovsdb.NotSupported{}, &ovsdb.Aborted{}, &ovsdb.NotOwner{},
		fmt.Errorf("something else")} {
		r := ovsdb.ResultFromError(e)
		b, _ := json.Marshal(r)
		var back ovsdb.OperationResult
		_ = json.Unmarshal(b, &back)
		errs, _ := ovsdb.CheckOperationResults([]ovsdb.OperationResult{back}, []ovsdb.Operation{{Op: "insert"}})
		if len(errs) != 1 {
			goFail("error", fmt.Sprintf("error %T is not an error after a round trip through its result %s", e, b), nil)
			continue
		}
		if _, generic := e.(interface{ Unwrap() error }); !generic && fmt.Sprintf("%T", e) != "*fmt.wrapError" && fmt.Sprintf("%T", e) != "*errors.errorString" {
			if reflect.TypeOf(errs[0]) != reflect.TypeOf(e) {
				goFail("error", fmt.Sprintf("error %T comes back as %T through its result %s", e, errs[0], b), nil)
				continue
			}
		}
		w.Count("roundtrip:error")
	}
	// result -> error -> result: name and details survive, for the names RFC 7047 lists and for any other
	for _, name := range []string{"referential integrity violation", "constraint violation", "resources exhausted", "I/O error", "duplicate uuid name",
		"domain error", "range error", "timed out", "not supported", "aborted", "not owner", "custom error", "syntax error", "unknown database"} {
		for _, details := range []string{"", "some details"} {
			r0 := ovsdb.OperationResult{Error: name, Details: details}
			errs, _ := ovsdb.CheckOperationResults([]ovsdb.OperationResult{r0}, []ovsdb.Operation{{Op: "insert"}})
			if len(errs) != 1 {
				goFail("error", fmt.Sprintf("result {error: %q} is not an error", name), nil)
				continue
			}
			e, ok := errs[0].(error)
			if !ok {
				goFail("error", fmt.Sprintf("result {error: %q} gives %T, not an error", name, errs[0]), nil)
				continue
			}
			r1 := ovsdb.ResultFromError(e)
			if r1.Error != name || r1.Details != details {
				goFail("error", fmt.Sprintf("result {error: %q, details: %q} becomes error %T and that becomes result {error: %q, details: %q}", name, details, e, r1.Error, r1.Details), nil)
				continue
			}
			w.Count("roundtrip:result-error-result")
		}
	}
	// a monitor request with a column list that is present but empty (no columns) is not one without a list (all columns)
	{
		b, err := json.Marshal(ovsdb.MonitorRequest{Columns: []string{}})
		var back ovsdb.MonitorRequest
		if err == nil {
			err = json.Unmarshal(b, &back)
		}
		var none ovsdb.MonitorRequest
		b0, _ := json.Marshal(ovsdb.MonitorRequest{})
		_ = json.Unmarshal(b0, &none)
		switch {
		case err != nil:
			goFail("monitor-request", fmt.Sprintf("monitor request with an empty column list: %v", err), nil)
		case back.Columns == nil:
			goFail("monitor-request", fmt.Sprintf("monitor request {columns: []} is encoded as %s and decodes to a request without a column list (every column)", b), nil)
		case none.Columns != nil:
			goFail("monitor-request", fmt.Sprintf("monitor request without a column list is encoded as %s and decodes to a request with one", b0), nil)
		default:
			w.Count("roundtrip:monitor-request-empty-columns")
		}
	}
	w.Extra["implementation_failures"] = goFails
	if len(goFails) > 0 {
		f := goFails[0]
		w.Add(emit.Case{Term: "mkCase RUuid (GUuid 0%N) GNull GNull []", JSON: f, Key: "implementation-failure", Oracle: fmt.Sprint(f["what"])})
	}
	return w.Flush()
}
