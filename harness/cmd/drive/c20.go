package main

// C20: models generated from a schema fit that schema and behave like generic models.
//  (1) for generated column types: modelgen.FieldType / FieldTypeWithEnums and
//      ovsdb.NativeType, compared with the model;
//  (2) for generated schemas the real generator is run (4 option combinations),
//      twice (reproducibility); the generated packages are built in a scratch
//      module together with a probe program that validates each generated
//      database model against its schema and runs the Clone / Equal laws on
//      randomly filled instances of every generated struct.

import (
	"bytes"
	"encoding/json"
	"fmt"
	"os"
	"os/exec"
	"path/filepath"
	"sort"
	"strings"

	"github.com/ovn-org/libovsdb/modelgen"
	"github.com/ovn-org/libovsdb/ovsdb"

	"verifharness/emit"
	"verifharness/gen"
	"verifharness/val"
)

func init() { drivers["C20"] = driveC20 }

func goTypeTerm(t string, keyAtomic string) string {
	atom := map[string]string{"int": "TyInt", "float64": "TyFloat", "bool": "TyBool", "string": "TyString"}
	switch {
	case strings.HasPrefix(t, "*"):
		return "(TyPtr " + goTypeTerm(t[1:], keyAtomic) + ")"
	case strings.HasPrefix(t, "[]"):
		return "(TySlice " + goTypeTerm(t[2:], keyAtomic) + ")"
	case strings.HasPrefix(t, "map["):
		i := strings.Index(t, "]")
		return "(TyMap " + goTypeTerm(t[4:i], keyAtomic) + " " + goTypeTerm(t[i+1:], keyAtomic) + ")"
	}
	if a, ok := atom[t]; ok {
		return a
	}
	if t == "" {
		return "TyInvalid"
	}
	// a generated enum alias of the key's atomic type
	return "(TyAlias " + goTypeTerm(modelgen.AtomicType(keyAtomic), keyAtomic) + ")"
}

var c20ColNames = []string{"name", "external_ids", "mac", "ip_addr", "bfd_status", "qos", "vlan_id", "uuid_name", "other_config", "type", "options",
	"dscp", "stp_enable", "fail_mode", "lacp", "up", "n_conf", "tcp_port", "dns_records", "acl", "ipfix", "ct_zone", "tag", "trunks", "status"}
var c20TableNames = []string{"Bridge", "Logical_Switch", "Logical_Switch_Port", "ACL", "DNS", "Flow_Sample_Collector_Set", "QoS", "NB_Global", "Port_Binding", "BFD"}

func driveC20(o opts) error {
	quietStderr()
	g := gen.New(o.seed)
	wg := &wgen{g: g}
	syms := newWireSyms()
	w := emit.New("C20", o.out)
	w.ShardSize = 400
	ncols, nschemas := 500, 3
	if o.tier == "thorough" {
		ncols, nschemas = 6000, 12
	}
	if o.n > 0 {
		ncols = o.n
	}
	known := map[string]int{}
	var goFails []map[string]interface{}
	goFail := func(kind, what string, input interface{}) {
		w.Count("FAIL:" + kind)
		if len(goFails) < 20 {
			goFails = append(goFails, map[string]interface{}{"stage": kind, "what": what, "input": input})
		}
	}
	// a column with every feature, enum on every atomic type
	enumStrings := []interface{}{"active-backup", "balance_slb", "stp", "e1", "TCP", "in-band", "x2"}
	fixEnum := func(b interface{}) {
		m, ok := b.(map[string]interface{})
		if !ok {
			return
		}
		if _, has := m["enum"]; !has {
			return
		}
		var vals []interface{}
		switch m["type"] {
		case "string":
			for _, i := range g.R.Perm(len(enumStrings))[:1+g.Intn(3)] {
				vals = append(vals, enumStrings[i])
			}
		case "integer":
			for _, i := range g.R.Perm(6)[:1+g.Intn(3)] {
				vals = append(vals, float64(i*3-4))
			}
		case "real":
			for _, i := range g.R.Perm(6)[:1+g.Intn(3)] {
				vals = append(vals, float64(i)+0.5)
			}
		default:
			delete(m, "enum")
			return
		}
		if len(vals) == 1 {
			m["enum"] = vals[0]
		} else {
			m["enum"] = []interface{}{"set", vals}
		}
	}
	genColumn := func() interface{} {
		j := wg.columnJSON()
		if m, ok := j.(map[string]interface{}); ok {
			if t, ok := m["type"].(map[string]interface{}); ok {
				fixEnum(t["key"])
				if v, ok := t["value"].(map[string]interface{}); ok {
					delete(v, "enum")
				}
			}
		}
		return j
	}
	// ---- (1)
	for i := 0; i < ncols; i++ {
		j := genColumn()
		b, _ := json.Marshal(j)
		var cs ovsdb.ColumnSchema
		if err := json.Unmarshal(b, &cs); err != nil {
			continue
		}
		var tree interface{}
		_ = json.Unmarshal(b, &tree)
		plain := modelgen.FieldType("T", "c", &cs)
		enums := modelgen.FieldTypeWithEnums("T", "c", &cs)
		native, class, msg := guarded(func() (interface{}, error) { return ovsdb.NativeType(&cs).String(), nil })
		oracle := ""
		if class != 0 {
			continue // not a column the mapper supports
		}
		_ = msg
		key := cs.TypeObj.Key.Type
		if plain != native.(string) {
			oracle = fmt.Sprintf("column %s: the generator writes %s, the mapper expects %s", b, plain, native)
		}
		w.Add(emit.Case{
			Term: fmt.Sprintf("mkCase (%s) %s %s %s", gvalTerm(syms, tree), goTypeTerm(plain, key), goTypeTerm(enums, key), goTypeTerm(native.(string), key)),
			JSON: map[string]interface{}{"column": tree, "plain": plain, "enums": enums, "native": native}, Key: string(b),
			Nontrivial: strings.ContainsAny(plain, "*["), Class: "type:" + cs.Type, Oracle: oracle,
		})
	}

	// ---- (2) the real generator
	repo := os.Getenv("VERIF_REPO")
	if repo == "" {
		repo = "/repo"
	}
	modDir := filepath.Join(o.out, "genmod")
	_ = os.RemoveAll(modDir)
	if err := os.MkdirAll(modDir, 0o755); err != nil {
		return err
	}
	defer os.RemoveAll(modDir)
	var pkgs []string
	// hand-written schemas first: short names, enum values that need care when they become Go text
	strEnum := func(vals ...interface{}) map[string]interface{} {
		return map[string]interface{}{"type": map[string]interface{}{"key": map[string]interface{}{"type": "string", "enum": []interface{}{"set", vals}}}}
	}
	realEnum := map[string]interface{}{"type": map[string]interface{}{"key": map[string]interface{}{"type": "real", "enum": []interface{}{"set", []interface{}{1.5, 15.0, -1.5, -15.0}}}}}
	intEnum := map[string]interface{}{"type": map[string]interface{}{"key": map[string]interface{}{"type": "integer", "enum": []interface{}{"set", []interface{}{15, -15, 0}}}, "min": 0, "max": "unlimited"}}
	fixed := []map[string]interface{}{
		{"T": map[string]interface{}{"columns": map[string]interface{}{"e": strEnum("a", "b")}}},
		{"Port": map[string]interface{}{"columns": map[string]interface{}{"mode": realEnum, "level": intEnum, "q": strEnum("in-band", "out_of_band2", "x")}},
			"Bridge": map[string]interface{}{"columns": map[string]interface{}{"name": map[string]interface{}{"type": "string"}}, "isRoot": true}},
		// (last: generated without enum types only - the value is not the stuff of an identifier, recorded finding)
		{"Q": map[string]interface{}{"columns": map[string]interface{}{"bq": strEnum("a`b", "c"), "q": strEnum("say \"hi\"", "back\\slash", "802.1q", "")}}},
	}
	for si := 0; si < nschemas+len(fixed); si++ {
		// schema
		tables := map[string]interface{}{}
		if si >= nschemas {
			tables = fixed[si-nschemas]
		}
		tn := g.R.Perm(len(c20TableNames))[:1+g.Intn(3)]
		if si >= nschemas {
			tn = nil
		}
		for _, ti := range tn {
			cols := map[string]interface{}{}
			for _, ci := range g.R.Perm(len(c20ColNames))[:3+g.Intn(8)] {
				var col interface{}
				for {
					col = genColumn()
					b, _ := json.Marshal(col)
					var cs ovsdb.ColumnSchema
					if json.Unmarshal(b, &cs) == nil {
						if _, class, _ := guarded(func() (interface{}, error) { return ovsdb.NativeType(&cs).String(), nil }); class == 0 && modelgen.FieldType("T", "c", &cs) != "" {
							break
						}
					}
				}
				cols[c20ColNames[ci]] = col
			}
			t := map[string]interface{}{"columns": cols}
			if g.Chance(0.5) {
				t["isRoot"] = true
			}
			tables[c20TableNames[ti]] = t
		}
		sj := map[string]interface{}{"name": fmt.Sprintf("DB_%d", si), "version": "1.0.0", "tables": tables}
		sb, _ := json.Marshal(sj)
		var schema ovsdb.DatabaseSchema
		if err := json.Unmarshal(sb, &schema); err != nil {
			goFail("schema", "generated schema rejected: "+err.Error(), sj)
			continue
		}
		rendered := map[int]map[string][]byte{}
		for combo := 0; combo < 4; combo++ {
			enumTypes, extended := combo&1 == 1, combo&2 == 2
			if enumTypes && si == nschemas+len(fixed)-1 {
				continue
			}
			pkg := fmt.Sprintf("p%d_%d", si, combo)
			render := func() (map[string][]byte, error) {
				out := map[string][]byte{}
				gnr, err := modelgen.NewGenerator()
				if err != nil {
					return nil, err
				}
				var names []string
				for name := range schema.Tables {
					names = append(names, name)
				}
				sort.Strings(names)
				for _, name := range names {
					table := schema.Tables[name]
					args := modelgen.GetTableTemplateData(pkg, name, &table)
					args.WithEnumTypes(enumTypes)
					args.WithExtendedGen(extended)
					src, err := gnr.Format(modelgen.NewTableTemplate(), args)
					if err != nil {
						return nil, fmt.Errorf("table %s: %v", name, err)
					}
					out[modelgen.FileName(name)] = src
				}
				src, err := gnr.Format(modelgen.NewDBTemplate(), modelgen.GetDBTemplateData(pkg, schema))
				if err != nil {
					return nil, fmt.Errorf("model.go: %v", err)
				}
				out["model.go"] = src
				return out, nil
			}
			a, err := render()
			if err != nil {
				goFail("generate", fmt.Sprintf("generation fails (enum types %v, extended %v): %v", enumTypes, extended, err), sj)
				continue
			}
			b, _ := render()
			same := len(a) == len(b)
			for k, v := range a {
				if !bytes.Equal(v, b[k]) {
					same = false
				}
			}
			if !same {
				goFail("determinism", fmt.Sprintf("two runs of the generator differ (enum types %v, extended %v)", enumTypes, extended), sj)
			}
			dir := filepath.Join(modDir, pkg)
			_ = os.MkdirAll(dir, 0o755)
			for k, v := range a {
				if err := os.WriteFile(filepath.Join(dir, k), v, 0o644); err != nil {
					return err
				}
			}
			pkgs = append(pkgs, pkg)
			w.Count(fmt.Sprintf("generated:enums=%v,extended=%v", enumTypes, extended))
			rendered[combo] = a
		}
		// the generator's own way of writing files (Generate, what cmd/modelgen calls): into one directory that already
		// holds the files of another run - longer ones, shorter ones, the same ones. What is on disk afterwards is what
		// Format gives, whatever was there before.
		if si%4 == 0 || si >= nschemas {
			gdir := filepath.Join(modDir, fmt.Sprintf("regen%d", si))
			_ = os.MkdirAll(gdir, 0o755)
			gnr, gerr := modelgen.NewGenerator()
			for _, combo := range []int{3, 0, 0, 2, 1, 3} {
				a := rendered[combo]
				if a == nil || gerr != nil {
					continue
				}
				enumTypes, extended := combo&1 == 1, combo&2 == 2
				pkg := fmt.Sprintf("p%d_%d", si, combo)
				bad := ""
				for name := range schema.Tables {
					table := schema.Tables[name]
					args := modelgen.GetTableTemplateData(pkg, name, &table)
					args.WithEnumTypes(enumTypes)
					args.WithExtendedGen(extended)
					file := filepath.Join(gdir, modelgen.FileName(name))
					if err := gnr.Generate(file, modelgen.NewTableTemplate(), args); err != nil {
						bad = fmt.Sprintf("Generate(%s) fails: %v", modelgen.FileName(name), err)
						break
					}
					onDisk, _ := os.ReadFile(file)
					if !bytes.Equal(onDisk, a[modelgen.FileName(name)]) {
						bad = fmt.Sprintf("after Generate into a directory that holds the files of another run, %s (%d bytes) is not what the generator produces for this run (%d bytes)",
							modelgen.FileName(name), len(onDisk), len(a[modelgen.FileName(name)]))
						break
					}
				}
				w.Count("regenerated into a used directory")
				if bad != "" {
					goFail("regenerate", fmt.Sprintf("%s (enum types %v, extended %v)", bad, enumTypes, extended), sj)
					break
				}
			}
			_ = os.RemoveAll(gdir)
		}
	}
	if len(pkgs) > 0 {
		gomod := "module c20gen\n\ngo 1.18\n\nrequire github.com/ovn-org/libovsdb v0.0.0\n\nreplace github.com/ovn-org/libovsdb => " + repo + "\n"
		if err := os.WriteFile(filepath.Join(modDir, "go.mod"), []byte(gomod), 0o644); err != nil {
			return err
		}
		if sum, err := os.ReadFile(filepath.Join(repo, "go.sum")); err == nil {
			_ = os.WriteFile(filepath.Join(modDir, "go.sum"), sum, 0o644)
		}
		var imports, calls []string
		for _, p := range pkgs {
			imports = append(imports, fmt.Sprintf("\t%s \"c20gen/%s\"", p, p))
			calls = append(calls, fmt.Sprintf("\tprobe(%q, %s.Schema(), must(%s.FullDatabaseModel()))", p, p, p))
		}
		prog := strings.Replace(strings.Replace(c20Probe, "//IMPORTS", strings.Join(imports, "\n"), 1), "//CALLS", strings.Join(calls, "\n"), 1)
		prog = strings.Replace(prog, "SEED", fmt.Sprint(o.seed), 1)
		if err := os.WriteFile(filepath.Join(modDir, "main.go"), []byte(prog), 0o644); err != nil {
			return err
		}
		env := append(os.Environ(), "GOFLAGS=-mod=mod", "GOPROXY=off", "GOSUMDB=off", "GOTOOLCHAIN=local")
		build := exec.Command("go", "build", "-o", "probe.bin", ".")
		build.Dir, build.Env = modDir, env
		if outb, err := build.CombinedOutput(); err != nil {
			goFail("compile", "the generated packages do not build: "+lastLines(string(outb), 12), nil)
		} else {
			run := exec.Command(filepath.Join(modDir, "probe.bin"))
			run.Dir = modDir
			outb, err := run.CombinedOutput()
			if err != nil {
				goFail("probe", "the probe program failed: "+lastLines(string(outb), 12), nil)
			}
			for _, line := range strings.Split(string(outb), "\n") {
				if strings.HasPrefix(line, "FAIL ") {
					goFail("generated-model", strings.TrimPrefix(line, "FAIL "), nil)
				} else if strings.HasPrefix(line, "COUNT ") {
					f := strings.Fields(line)
					if len(f) == 3 {
						var n int
						fmt.Sscan(f[2], &n)
						w.Dist["probe:"+f[1]] += n
						if f[1] == "known-clone-json-map-key" {
							known["21"] += n
						}
					}
				}
			}
		}
	}
	// witness of the recorded finding C20 class 31: names derived from schema text collide
	{
		wdir := filepath.Join(modDir, "witness")
		_ = os.MkdirAll(filepath.Join(wdir, "w"), 0o755)
		var ws ovsdb.DatabaseSchema
		_ = json.Unmarshal([]byte(`{"name":"W","version":"1.0.0","tables":{"W":{"columns":{"uuid":{"type":"string"},"name":{"type":"string"}}}}}`), &ws)
		if gnr, err := modelgen.NewGenerator(); err == nil {
			table := ws.Tables["W"]
			src, err1 := gnr.Format(modelgen.NewTableTemplate(), modelgen.GetTableTemplateData("w", "W", &table))
			dbsrc, err2 := gnr.Format(modelgen.NewDBTemplate(), modelgen.GetDBTemplateData("w", ws))
			failed := err1 != nil || err2 != nil
			if !failed {
				_ = os.WriteFile(filepath.Join(wdir, "w", modelgen.FileName("W")), src, 0o644)
				_ = os.WriteFile(filepath.Join(wdir, "w", "model.go"), dbsrc, 0o644)
				_ = os.WriteFile(filepath.Join(wdir, "go.mod"), []byte("module c20w\n\ngo 1.18\n\nrequire github.com/ovn-org/libovsdb v0.0.0\n\nreplace github.com/ovn-org/libovsdb => "+repo+"\n"), 0o644)
				if sum, err := os.ReadFile(filepath.Join(repo, "go.sum")); err == nil {
					_ = os.WriteFile(filepath.Join(wdir, "go.sum"), sum, 0o644)
				}
				build := exec.Command("go", "build", "./w")
				build.Dir, build.Env = wdir, append(os.Environ(), "GOFLAGS=-mod=mod", "GOPROXY=off", "GOSUMDB=off", "GOTOOLCHAIN=local")
				outb, err := build.CombinedOutput()
				failed = err != nil && strings.Contains(string(outb), "redeclared")
			}
			if failed {
				known["31"]++
			}
		}
	}
	w.Extra["oracle_known"] = known
	w.Extra["implementation_failures"] = goFails
	if len(goFails) > 0 {
		f := goFails[0]
		w.Add(emit.Case{Term: "mkCase GNull TyInvalid TyInvalid TyInvalid", JSON: f, Key: "implementation-failure", Oracle: fmt.Sprint(f["what"])})
	}
	_ = val.NewSyms
	return w.Flush()
}

func lastLines(s string, n int) string {
	l := strings.Split(strings.TrimSpace(s), "\n")
	if len(l) > n {
		l = l[len(l)-n:]
	}
	return strings.Join(l, " | ")
}

// the probe program built together with the generated packages
const c20Probe = `package main

import (
	"encoding/json"
	"fmt"
	"math/rand"
	"reflect"

	"github.com/ovn-org/libovsdb/model"
	"github.com/ovn-org/libovsdb/ovsdb"
//IMPORTS
)

func must(m model.ClientDBModel, err error) model.ClientDBModel {
	if err != nil {
		fmt.Println("FAIL FullDatabaseModel:", err)
	}
	return m
}

var rng = rand.New(rand.NewSource(SEED))
var counts = map[string]int{}

func fill(v reflect.Value) {
	switch v.Kind() {
	case reflect.String:
		v.SetString([]string{"", "a", "b", "c"}[rng.Intn(4)])
	case reflect.Int:
		v.SetInt(int64(rng.Intn(5)))
	case reflect.Float64:
		v.SetFloat(float64(rng.Intn(5)) / 2)
	case reflect.Bool:
		v.SetBool(rng.Intn(2) == 0)
	case reflect.Ptr:
		if rng.Intn(3) > 0 {
			p := reflect.New(v.Type().Elem())
			fill(p.Elem())
			v.Set(p)
		}
	case reflect.Slice:
		switch rng.Intn(4) {
		case 0: // nil
		case 1:
			v.Set(reflect.MakeSlice(v.Type(), 0, 0))
		default:
			n := 1 + rng.Intn(3)
			s := reflect.MakeSlice(v.Type(), n, n)
			for i := 0; i < n; i++ {
				fill(s.Index(i))
			}
			v.Set(s)
		}
	case reflect.Map:
		switch rng.Intn(4) {
		case 0:
		case 1:
			v.Set(reflect.MakeMap(v.Type()))
		default:
			m := reflect.MakeMap(v.Type())
			for i := 1 + rng.Intn(3); i > 0; i-- {
				k := reflect.New(v.Type().Key()).Elem()
				e := reflect.New(v.Type().Elem()).Elem()
				fill(k)
				fill(e)
				m.SetMapIndex(k, e)
			}
			v.Set(m)
		}
	}
}

func newFilled(t reflect.Type) model.Model {
	p := reflect.New(t.Elem())
	for i := 0; i < p.Elem().NumField(); i++ {
		fill(p.Elem().Field(i))
	}
	return p.Interface()
}

func snapshot(m model.Model) string {
	v := reflect.ValueOf(m).Elem()
	out := ""
	for i := 0; i < v.NumField(); i++ {
		f := v.Field(i)
		switch f.Kind() {
		case reflect.Ptr:
			if f.IsNil() {
				out += fmt.Sprintf("%s=nil ", v.Type().Field(i).Name)
			} else {
				out += fmt.Sprintf("%s=&%v ", v.Type().Field(i).Name, f.Elem().Interface())
			}
		case reflect.Slice, reflect.Map:
			out += fmt.Sprintf("%s=%v(nil:%v) ", v.Type().Field(i).Name, f.Interface(), f.IsNil())
		default:
			out += fmt.Sprintf("%s=%v ", v.Type().Field(i).Name, f.Interface())
		}
	}
	return out
}

var _ = json.Marshal

func nilness(m model.Model) []bool {
	v := reflect.ValueOf(m).Elem()
	var out []bool
	for i := 0; i < v.NumField(); i++ {
		switch v.Field(i).Kind() {
		case reflect.Ptr, reflect.Slice, reflect.Map:
			out = append(out, v.Field(i).IsNil())
		}
	}
	return out
}

// mutateInPlace writes through every pointer, slice element and map of m; it reports whether anything was written
func mutateInPlace(m model.Model) bool {
	v := reflect.ValueOf(m).Elem()
	done := false
	for i := 0; i < v.NumField(); i++ {
		f := v.Field(i)
		switch f.Kind() {
		case reflect.Ptr:
			if !f.IsNil() {
				bump(f.Elem())
				done = true
			}
		case reflect.Slice:
			if f.Len() > 0 {
				bump(f.Index(0))
				done = true
			}
		case reflect.Map:
			if !f.IsNil() {
				k := reflect.New(f.Type().Key()).Elem()
				bump(k)
				bump(k)
				bump(k)
				e := reflect.New(f.Type().Elem()).Elem()
				bump(e)
				f.SetMapIndex(k, e)
				done = true
			}
		}
	}
	return done
}

func bump(v reflect.Value) {
	switch v.Kind() {
	case reflect.String:
		v.SetString(v.String() + "~")
	case reflect.Int:
		v.SetInt(v.Int() + 100)
	case reflect.Float64:
		v.SetFloat(v.Float() + 100)
	case reflect.Bool:
		v.SetBool(!v.Bool())
	}
}

func hasFastPath(t reflect.Type) bool {
	_, ok := reflect.New(t.Elem()).Interface().(model.CloneableModel)
	return ok
}

// encoding/json cannot encode maps keyed by float64 or bool
func jsonUnsupported(t reflect.Type) bool {
	for i := 0; i < t.Elem().NumField(); i++ {
		f := t.Elem().Field(i).Type
		if f.Kind() == reflect.Map && (f.Key().Kind() == reflect.Float64 || f.Key().Kind() == reflect.Bool) {
			return true
		}
	}
	return false
}

func probe(pkg string, schema ovsdb.DatabaseSchema, cm model.ClientDBModel) {
	dbm, errs := model.NewDatabaseModel(schema, cm)
	if len(errs) > 0 {
		fmt.Printf("FAIL %s: the generated model does not validate against its schema: %v\n", pkg, errs)
		return
	}
	counts["validated"]++
	for table, t := range dbm.Types() {
		if schema.Table(table) == nil {
			fmt.Printf("FAIL %s: generated model for a table %s the schema does not have\n", pkg, table)
		}
		if !hasFastPath(t) && jsonUnsupported(t) {
			counts["known-clone-json-map-key"]++
			continue
		}
		for k := 0; k < 40; k++ {
			m := newFilled(t)
			before := snapshot(m)
			c := model.Clone(m)
			if !reflect.DeepEqual(m, c) && snapshot(c) != before {
				fmt.Printf("FAIL %s.%s: the clone differs from the original: %s vs %s\n", pkg, table, snapshot(c), before)
				continue
			}
			if !model.Equal(m, c) || !model.Equal(c, m) || !model.Equal(m, m) {
				fmt.Printf("FAIL %s.%s: Equal(model, clone) is false (or Equal is not reflexive/symmetric): %s\n", pkg, table, before)
				continue
			}
			mutateInPlace(c)
			wrote := snapshot(c) != before
			if snapshot(m) != before {
				fmt.Printf("FAIL %s.%s: writing through the clone's pointers/slices/maps changed the original: %s -> %s\n", pkg, table, before, snapshot(m))
				continue
			}
			if wrote && (model.Equal(m, c) || model.Equal(c, m)) {
				fmt.Printf("FAIL %s.%s: Equal does not see a difference: %s vs %s\n", pkg, table, before, snapshot(c))
				continue
			}
			d := reflect.New(t.Elem()).Interface()
			model.CloneInto(m, d)
			if !model.Equal(m, d) {
				fmt.Printf("FAIL %s.%s: CloneInto gives a model that is not Equal: %s vs %s\n", pkg, table, before, snapshot(d))
				continue
			}
			// Equal agrees with field-wise equality on independent instances
			x, y := newFilled(t), newFilled(t)
			if rng.Intn(2) == 0 {
				y = model.Clone(x)
				if rng.Intn(2) == 0 {
					f := reflect.ValueOf(y).Elem().Field(rng.Intn(reflect.ValueOf(y).Elem().NumField()))
					switch f.Kind() {
					case reflect.String, reflect.Int, reflect.Float64, reflect.Bool:
						bump(f)
					}
				}
			}
			// structured differences on one reference field
			if rng.Intn(2) == 0 {
				x = newFilled(t)
				y = model.Clone(x)
				xv, yv := reflect.ValueOf(x).Elem(), reflect.ValueOf(y).Elem()
				i := rng.Intn(xv.NumField())
				fx, fy := xv.Field(i), yv.Field(i)
				switch fx.Kind() {
				case reflect.Map:
					if fx.IsNil() || fx.Len() == 0 {
						m := reflect.MakeMap(fx.Type())
						k := reflect.New(fx.Type().Key()).Elem()
						fill(k)
						m.SetMapIndex(k, reflect.Zero(fx.Type().Elem()))
						fx.Set(m)
						y = model.Clone(x)
						yv = reflect.ValueOf(y).Elem()
						fy = yv.Field(i)
					}
					k := fx.MapKeys()[rng.Intn(fx.Len())]
					switch rng.Intn(3) {
					case 0: // same size, another key set; the entry missing on one side holds the zero value on the other
						fx.SetMapIndex(k, reflect.Zero(fx.Type().Elem()))
						fy.SetMapIndex(k, reflect.Value{})
						k2 := reflect.New(fx.Type().Key()).Elem()
						k2.Set(k)
						bump(k2)
						e := reflect.New(fx.Type().Elem()).Elem()
						fill(e)
						fy.SetMapIndex(k2, e)
					case 1: // one value differs
						e := reflect.New(fx.Type().Elem()).Elem()
						e.Set(fx.MapIndex(k))
						bump(e)
						fy.SetMapIndex(k, e)
					default: // extra key
						k2 := reflect.New(fx.Type().Key()).Elem()
						k2.Set(k)
						bump(k2)
						fy.SetMapIndex(k2, reflect.Zero(fx.Type().Elem()))
					}
				case reflect.Slice:
					switch {
					case fx.Len() >= 2 && rng.Intn(2) == 0: // reordered
						a, b := fy.Index(0).Interface(), fy.Index(1).Interface()
						fy.Index(0).Set(reflect.ValueOf(b))
						fy.Index(1).Set(reflect.ValueOf(a))
					case fx.Len() >= 1:
						bump(fy.Index(fy.Len() - 1))
					default:
						fy.Set(reflect.Append(fy, reflect.Zero(fx.Type().Elem())))
					}
				case reflect.Ptr:
					switch {
					case fx.IsNil():
						fy.Set(reflect.New(fx.Type().Elem()))
					case rng.Intn(2) == 0:
						fy.Set(reflect.Zero(fx.Type()))
					default:
						bump(fy.Elem())
					}
				}
			}
			if model.Equal(x, y) != reflect.DeepEqual(x, y) || model.Equal(y, x) != reflect.DeepEqual(x, y) {
				fmt.Printf("FAIL %s.%s: Equal is %v but the fields are %v equal: %s vs %s\n", pkg, table, model.Equal(x, y), reflect.DeepEqual(x, y), snapshot(x), snapshot(y))
				continue
			}
			counts["laws"]++
		}
	}
	// models of different tables are not equal, whichever of them is asked
	var first reflect.Type
	var firstName string
	for table, t := range dbm.Types() {
		if first == nil || table < firstName {
			first, firstName = t, table
		}
	}
	for table, t := range dbm.Types() {
		if t == first {
			continue
		}
		func() {
			defer func() {
				if r := recover(); r != nil {
					fmt.Printf("FAIL %s: Equal of a %s and a %s panics: %v\n", pkg, firstName, table, r)
				}
			}()
			if model.Equal(newFilled(first), newFilled(t)) || model.Equal(newFilled(t), newFilled(first)) {
				fmt.Printf("FAIL %s: a %s and a %s are Equal\n", pkg, firstName, table)
			}
			counts["cross-table-equal"]++
		}()
	}
}

func main() {
//CALLS
	for k, n := range counts {
		fmt.Println("COUNT", k, n)
	}
}
`
