package main

// C13: cached models are isolated copies; Clone and Equal keep their contract.
//  (A) sequences of reads (every RowCache read path), caller-side mutations of
//      the returned / inserted models (scalar overwrite, write through a pointer,
//      slice element overwrite, append, map insert, replace/nil a reference) and
//      writes (Create/Update) on a real cache; after every step all rows are read
//      again; compared with the heap model and with a shadow copy (direct oracle);
//  (B) models handed to event handlers and returned by the client API
//      (Get, List, Where...List) mutated the same way;
//  (C) Clone / Equal laws on run-time structs (JSON path) and on a generated
//      model with its own deep copy (ovsdb/serverdb.Database).

import (
	"context"
	"fmt"
	"reflect"
	"strings"
	"time"

	"github.com/ovn-org/libovsdb/cache"
	"github.com/ovn-org/libovsdb/client"
	"github.com/ovn-org/libovsdb/model"
	"github.com/ovn-org/libovsdb/ovsdb"
	"github.com/ovn-org/libovsdb/ovsdb/serverdb"

	"verifharness/dyn"
	"verifharness/emit"
	"verifharness/gen"
	"verifharness/val"
)

func init() { drivers["C13"] = driveC13 }

func c13Schema() dyn.Schema {
	return dyn.Schema{Name: "C13", Tables: []dyn.Table{{Name: "T", IsRoot: true, Cols: []val.Col{
		{Name: "name", K: 'a', KT: 's'}, {Name: "n", K: 'a', KT: 'i'}, {Name: "b", K: 'a', KT: 'b'},
		{Name: "os", K: 'o', KT: 's'}, {Name: "oi", K: 'o', KT: 'i'},
		{Name: "ss", K: 's', KT: 's', Max: -1}, {Name: "si", K: 's', KT: 'i', Max: -1},
		{Name: "ms", K: 'm', KT: 's', VT: 's', Max: -1}, {Name: "mi", K: 'm', KT: 's', VT: 'i', Max: -1},
	}}}}
}

func c13Obs(s *val.Syms, c val.Col, v val.Val) string {
	switch c.K {
	case 'a':
		return "Some (LAtom (" + s.Atom(v.A) + "))"
	case 'o':
		if !v.Has {
			return "None"
		}
		return "Some (LAtom (" + s.Atom(v.A) + "))"
	}
	return "Some (" + s.LVal(v) + ")"
}

func c13RowObs(s *val.Syms, t dyn.Table, r map[string]val.Val) string {
	var parts []string
	for _, c := range t.Cols {
		parts = append(parts, fmt.Sprintf("(%d%%N, %s)", s.ID(c.Name), c13Obs(s, c, r[c.Name])))
	}
	return "[" + strings.Join(parts, "; ") + "]"
}

func c13NewTerm(s *val.Syms, t dyn.Table, r map[string]val.Val) string {
	var parts []string
	for _, c := range t.Cols {
		v := r[c.Name]
		f := ""
		switch c.K {
		case 'a':
			f = "NScalar (" + s.Atom(v.A) + ")"
		case 'o':
			if v.Has {
				f = "NRef (Some (LAtom (" + s.Atom(v.A) + ")))"
			} else {
				f = "NRef None"
			}
		default:
			if (c.K == 's' && len(v.Set) == 0) || (c.K == 'm' && len(v.Map) == 0) {
				f = "NRef None"
			} else {
				f = "NRef (Some (" + s.LVal(v) + "))"
			}
		}
		parts = append(parts, fmt.Sprintf("(%d%%N, %s)", s.ID(c.Name), f))
	}
	return "ONew [" + strings.Join(parts, "; ") + "]"
}

// c13Mutate changes one field of m in one of the ways a caller can; it returns the model-level op.
func c13Mutate(g *gen.G, db *dyn.DB, s *val.Syms, t dyn.Table, m model.Model, i int) string {
	c := t.Cols[g.Intn(len(t.Cols))]
	fv := reflect.ValueOf(db.FieldPtr(m, t.Name, c.Name)).Elem()
	atomV := func(ty byte) reflect.Value { return reflect.ValueOf(gen.AtomN(ty, 1+g.Intn(8)).Native()) }
	k := s.ID(c.Name)
	after := func() val.Val { return db.Get(m, t.Name, c.Name) }
	switch c.K {
	case 'a':
		fv.Set(atomV(c.KT))
		return fmt.Sprintf("OSet %d%%nat %d%%N (NScalar (%s))", i, k, s.Atom(after().A))
	case 'o':
		switch {
		case !fv.IsNil() && g.Chance(0.6):
			fv.Elem().Set(atomV(c.KT)) // write through the pointer
			return fmt.Sprintf("OWrite %d%%nat %d%%N (LAtom (%s))", i, k, s.Atom(after().A))
		case g.Chance(0.3):
			fv.Set(reflect.Zero(fv.Type()))
			return fmt.Sprintf("OSet %d%%nat %d%%N (NRef None)", i, k)
		default:
			p := reflect.New(fv.Type().Elem())
			p.Elem().Set(atomV(c.KT))
			fv.Set(p)
			return fmt.Sprintf("ONewRef %d%%nat %d%%N (LAtom (%s))", i, k, s.Atom(after().A))
		}
	case 's':
		if fv.Len() > 0 && g.Chance(0.6) {
			fv.Index(g.Intn(fv.Len())).Set(atomV(c.KT)) // overwrite inside the slice
			return fmt.Sprintf("OWrite %d%%nat %d%%N (%s)", i, k, s.LVal(after()))
		}
		fv.Set(reflect.Append(fv, atomV(c.KT)))
		return fmt.Sprintf("ONewRef %d%%nat %d%%N (%s)", i, k, s.LVal(after()))
	default:
		if !fv.IsNil() && fv.Len() > 0 {
			fv.SetMapIndex(atomV(c.KT), atomV(c.VT)) // insert into the map
			return fmt.Sprintf("OWrite %d%%nat %d%%N (%s)", i, k, s.LVal(after()))
		}
		nm := reflect.MakeMap(fv.Type())
		nm.SetMapIndex(atomV(c.KT), atomV(c.VT))
		fv.Set(nm)
		return fmt.Sprintf("ONewRef %d%%nat %d%%N (%s)", i, k, s.LVal(after()))
	}
}

// every mutation kind once, for the oracle-only parts
func c13MutateAll(g *gen.G, db *dyn.DB, t dyn.Table, m model.Model) {
	s := val.NewSyms()
	for k := 0; k < 12; k++ {
		c13Mutate(g, db, s, t, m, 0)
	}
}

func driveC13(o opts) error {
	quietStderr()
	g := gen.New(o.seed)
	w := emit.New("C13", o.out)
	w.ShardSize = 25
	ncases, nops := 50, 24
	if o.tier == "thorough" {
		ncases, nops = 800, 40
	}
	if o.n > 0 {
		ncases = o.n
	}
	sc := c13Schema()
	T := sc.Tables[0]
	db, err := sc.Build()
	if err != nil {
		return err
	}
	genRow := func(nameIdx int) map[string]val.Val {
		r := map[string]val.Val{}
		for _, c := range T.Cols {
			r[c.Name] = g.Value(c, 6, 3)
		}
		r["name"] = val.VA(gen.AtomN('s', nameIdx))
		return r
	}
	for ci := 0; ci < ncases; ci++ {
		syms := val.NewSyms()
		syms.ID("_uuid")
		tc, err := cache.NewTableCache(db.Model, nil, nil)
		if err != nil {
			return err
		}
		rc := tc.Table("T")
		var held []model.Model
		shadow := map[string]map[string]val.Val{}
		oracle := ""
		fail := func(format string, a ...interface{}) {
			if oracle == "" {
				oracle = fmt.Sprintf(format, a...)
			}
		}
		var steps []string
		var stepJ []interface{}
		paths := map[string]int{}
		mutated := 0
		observe := func(op, label string) {
			got := map[string]map[string]val.Val{}
			for u, m := range rc.Rows() {
				got[u] = db.RowMap(m, "T")
			}
			var rows []string
			for _, u := range sortedRowKeys(got) {
				rows = append(rows, fmt.Sprintf("(%d%%N, %s)", syms.ID(u), c13RowObs(syms, T, got[u])))
			}
			if len(got) != len(shadow) {
				fail("%s: the cache holds %d rows, expected %d", label, len(got), len(shadow))
			}
			for u, r := range shadow {
				if gr, ok := got[u]; !ok || !rowsEqual(gr, r) {
					fail("%s: row %s read from the cache changed although it was not written", label, u)
				}
			}
			steps = append(steps, fmt.Sprintf("(%s, [%s])", op, strings.Join(rows, "; ")))
			stepJ = append(stepJ, label)
		}
		nrows := 0
		for k := 0; k < nops; k++ {
			var uuids []string
			for u := range shadow {
				uuids = append(uuids, u)
			}
			sortStrings(uuids)
			switch x := g.Intn(10); {
			case len(held) == 0 || x == 0:
				r := genRow(len(held) + 1)
				held = append(held, db.Make("T", "", r))
				observe(c13NewTerm(syms, T, r), "the caller builds a model")
			case x <= 2 || len(uuids) == 0:
				// write: Create a new row or Update an existing one with a held model
				i := g.Intn(len(held))
				var u string
				var err error
				if len(uuids) > 0 && g.Chance(0.4) {
					u = uuids[g.Intn(len(uuids))]
					_, err = rc.Update(u, held[i], false)
				} else {
					nrows++
					u = gen.UUIDn(nrows)
					err = rc.Create(u, held[i], false)
				}
				if err != nil {
					fail("write of row %s: %v", u, err)
				}
				shadow[u] = db.RowMap(held[i], "T")
				observe(fmt.Sprintf("OPut %d%%N %d%%nat", syms.ID(u), i), "Create/Update of row "+u+" with a model the caller keeps")
			case x <= 5:
				u := uuids[g.Intn(len(uuids))]
				var m model.Model
				path := []string{"Row", "Rows", "RowByModel", "RowsByCondition", "RowsByModels", "RowsByCondition(nil)", "RowsByCondition(empty)",
					"RowsByCondition(name)", "RowsByCondition(n)"}[g.Intn(9)]
				switch path {
				case "Row":
					m = rc.Row(u)
				case "Rows":
					m = rc.Rows()[u]
				case "RowByModel":
					probe := db.Make("T", u, nil)
					_, m, _ = rc.RowByModel(probe)
				case "RowsByModels":
					probe := db.Make("T", u, nil)
					ms, _ := rc.RowsByModels([]model.Model{probe})
					m = ms[u]
				case "RowsByCondition(nil)":
					ms, _ := rc.RowsByCondition(nil)
					m = ms[u]
				case "RowsByCondition(empty)":
					ms, _ := rc.RowsByCondition([]ovsdb.Condition{})
					m = ms[u]
				case "RowsByCondition(name)":
					ms, _ := rc.RowsByCondition([]ovsdb.Condition{{Column: "name", Function: ovsdb.ConditionEqual, Value: shadow[u]["name"].A.S}})
					m = ms[u]
				case "RowsByCondition(n)":
					ms, _ := rc.RowsByCondition([]ovsdb.Condition{{Column: "n", Function: ovsdb.ConditionEqual, Value: int(shadow[u]["n"].A.I)}})
					m = ms[u]
				default:
					ms, err := rc.RowsByCondition([]ovsdb.Condition{{Column: "_uuid", Function: ovsdb.ConditionEqual, Value: ovsdb.UUID{GoUUID: u}}})
					if err != nil {
						fail("RowsByCondition: %v", err)
					}
					m = ms[u]
				}
				if m == nil {
					fail("%s does not return row %s", path, u)
					m = db.New("T")
				}
				paths[path]++
				held = append(held, m)
				observe(fmt.Sprintf("OGet %d%%N", syms.ID(u)), path+" of row "+u)
			default:
				i := g.Intn(len(held))
				op := c13Mutate(g, db, syms, T, held[i], i)
				mutated++
				observe(op, fmt.Sprintf("the caller changes model %d: %s", i, op))
			}
		}
		for p, n := range paths {
			w.Dist["read:"+p] += n
		}
		term := "[" + strings.Join(steps, ";\n     ") + "]"
		w.Add(emit.Case{Term: term, JSON: map[string]interface{}{"steps": stepJ}, Key: term,
			Nontrivial: mutated >= 3 && len(shadow) >= 2, Oracle: oracle})
	}

	// ---- (B) event handlers and the client API, (C) Clone/Equal: direct oracle
	var goFails []map[string]interface{}
	goFail := func(kind, what string) {
		w.Count("FAIL:" + kind)
		if len(goFails) < 20 {
			goFails = append(goFails, map[string]interface{}{"stage": kind, "what": what})
		}
	}
	if err := c13Generated(o, goFail, func(k string, n int) { w.Dist[k] += n }); err != nil {
		return err
	}
	nB := ncases / 5
	for bi := 0; bi < nB; bi++ {
		if err := c13ClientRound(g, sc, o.out, w, goFail); err != nil {
			return err
		}
	}
	for k := 0; k < ncases*4; k++ {
		m := db.Make("T", gen.UUIDn(k), genRow(k%5))
		before := db.RowMap(m, "T")
		c := model.Clone(m)
		if !model.Equal(m, c) || !model.Equal(c, m) || !model.Equal(m, m) {
			goFail("clone", fmt.Sprintf("Clone of %v is not Equal to it (or Equal is not reflexive/symmetric)", before))
			continue
		}
		s := val.NewSyms()
		op := c13Mutate(g, db, s, T, c, 0)
		if !rowsEqual(db.RowMap(m, "T"), before) {
			goFail("clone", fmt.Sprintf("changing the clone (%s) changed the original %v", op, before))
		}
		changed := !rowsEqual(db.RowMap(c, "T"), before)
		if changed && (model.Equal(m, c) || model.Equal(c, m)) {
			goFail("equal", fmt.Sprintf("Equal does not see the difference made by %s on %v", op, before))
		}
		d := db.New("T")
		model.CloneInto(m, d)
		if !rowsEqual(db.RowMap(d, "T"), before) {
			goFail("clone", "CloneInto gives a different model")
		}
		c13MutateAll(g, db, T, d)
		if !rowsEqual(db.RowMap(m, "T"), before) {
			goFail("clone", fmt.Sprintf("changing the CloneInto target changed the source %v", before))
		}
		w.Count("clone/equal:run-time struct")
	}
	// model types of other shapes: only scalar and optional columns (no slice, no map), only collections
	for _, shape := range []dyn.Schema{
		{Name: "C13f", Tables: []dyn.Table{{Name: "F", IsRoot: true, Cols: []val.Col{
			{Name: "name", K: 'a', KT: 's'}, {Name: "n", K: 'a', KT: 'i'}, {Name: "r", K: 'a', KT: 'r'}, {Name: "b", K: 'a', KT: 'b'},
			{Name: "os", K: 'o', KT: 's'}, {Name: "oi", K: 'o', KT: 'i'}, {Name: "ob", K: 'o', KT: 'b'}, {Name: "ou", K: 'o', KT: 'u'}}}}},
		{Name: "C13o", Tables: []dyn.Table{{Name: "F", IsRoot: true, Cols: []val.Col{{Name: "os", K: 'o', KT: 's'}}}}},
		{Name: "C13c", Tables: []dyn.Table{{Name: "F", IsRoot: true, Cols: []val.Col{
			{Name: "ss", K: 's', KT: 's', Max: -1}, {Name: "ms", K: 'm', KT: 's', VT: 's', Max: -1}}}}},
	} {
		fdb, err := shape.Build()
		if err != nil {
			return err
		}
		F := shape.Tables[0]
		for k := 0; k < ncases; k++ {
			r := map[string]val.Val{}
			for _, c := range F.Cols {
				r[c.Name] = g.Value(c, 6, 3)
				if c.K == 'o' && k%2 == 0 {
					r[c.Name] = val.VSome(gen.AtomN(c.KT, 1+k%5)) // a set optional: a pointer to write through
				}
			}
			u := gen.UUIDn(k + 1)
			m := fdb.Make("F", u, r)
			before := fdb.RowMap(m, "F")
			c := model.Clone(m)
			if !model.Equal(m, c) {
				goFail("clone", fmt.Sprintf("%s: Clone of %v is not Equal to it", shape.Name, before))
				continue
			}
			c13MutateAll(g, fdb, F, c)
			if !rowsEqual(fdb.RowMap(m, "F"), before) {
				goFail("clone", fmt.Sprintf("%s: changing every field of the clone (writing through its pointers too) changed the original %v into %v", shape.Name, before, fdb.RowMap(m, "F")))
			}
			// through a cache: what Create is given, what Row returns and what is stored are three objects
			tc, err := cache.NewTableCache(fdb.Model, nil, nil)
			if err != nil {
				return err
			}
			rc := tc.Table("F")
			given := fdb.Make("F", u, r)
			if err := rc.Create(u, given, true); err != nil {
				goFail("clone", fmt.Sprintf("%s: Create: %v", shape.Name, err))
				continue
			}
			c13MutateAll(g, fdb, F, given)
			got := rc.Row(u)
			if got == nil || !rowsEqual(fdb.RowMap(got, "F"), before) {
				goFail("isolation", fmt.Sprintf("%s: changing the model handed to Create (writing through its pointers too) changed the cached row %v", shape.Name, before))
				continue
			}
			c13MutateAll(g, fdb, F, got)
			if again := rc.Row(u); again == nil || !rowsEqual(fdb.RowMap(again, "F"), before) {
				goFail("isolation", fmt.Sprintf("%s: changing the model Row() returned (writing through its pointers too) changed the cached row %v", shape.Name, before))
			}
			w.Count("clone/isolation:" + shape.Name)
		}
	}
	for k := 0; k < ncases*2; k++ {
		ss := func(n int) *string { s := gen.Strn(n); return &s }
		a := &serverdb.Database{UUID: gen.UUIDn(k), Connected: k%2 == 0, Leader: k%3 == 0, Model: serverdb.DatabaseModelClustered, Name: gen.Strn(k % 4)}
		if k%2 == 0 {
			a.Cid, a.Sid = ss(k), ss(k+1)
			i := k
			a.Index = &i
		}
		if k%3 == 0 {
			a.Schema = ss(k + 2)
		}
		c := model.Clone(a).(*serverdb.Database)
		if !model.Equal(a, c) || !model.Equal(c, a) || !model.Equal(a, a) {
			goFail("clone", "generated model: Clone is not Equal to its argument")
			continue
		}
		shared := (a.Cid != nil && a.Cid == c.Cid) || (a.Sid != nil && a.Sid == c.Sid) || (a.Index != nil && a.Index == c.Index) || (a.Schema != nil && a.Schema == c.Schema)
		if shared {
			goFail("clone", "generated model: the clone shares a pointer with the original")
		}
		type mut struct {
			name string
			do   func(*serverdb.Database)
		}
		muts := []mut{
			{"connected", func(d *serverdb.Database) { d.Connected = !d.Connected }},
			{"leader", func(d *serverdb.Database) { d.Leader = !d.Leader }},
			{"name", func(d *serverdb.Database) { d.Name += "x" }},
			{"model", func(d *serverdb.Database) { d.Model = serverdb.DatabaseModelStandalone }},
			{"cid", func(d *serverdb.Database) {
				if d.Cid != nil {
					*d.Cid += "x"
				} else {
					d.Cid = ss(99)
				}
			}},
			{"sid", func(d *serverdb.Database) {
				if d.Sid != nil {
					d.Sid = nil
				} else {
					d.Sid = ss(98)
				}
			}},
			{"index", func(d *serverdb.Database) {
				if d.Index != nil {
					*d.Index++
				} else {
					z := 0
					d.Index = &z
				}
			}},
			{"schema", func(d *serverdb.Database) {
				if d.Schema != nil {
					*d.Schema += "y"
				} else {
					d.Schema = ss(97)
				}
			}},
		}
		mu := muts[g.Intn(len(muts))]
		snapshot := fmt.Sprintf("%+v %v %v %v %v", *a, deref(a.Cid), deref(a.Sid), a.Index != nil && *a.Index >= 0, deref(a.Schema))
		mu.do(c)
		if now := fmt.Sprintf("%+v %v %v %v %v", *a, deref(a.Cid), deref(a.Sid), a.Index != nil && *a.Index >= 0, deref(a.Schema)); now != snapshot {
			goFail("clone", "generated model: changing the clone ("+mu.name+") changed the original")
		}
		if model.Equal(a, c) || model.Equal(c, a) {
			goFail("equal", "generated model: Equal does not see a difference in "+mu.name)
		}
		w.Count("clone/equal:generated model")
	}
	// witness of a known finding: the JSON-based Clone cannot copy a map keyed by a real (or a boolean)
	{
		type realKeyed struct {
			UUID string             `ovsdb:"_uuid"`
			M    map[float64]string `ovsdb:"m"`
		}
		a := &realKeyed{UUID: "u", M: map[float64]string{1.5: "x"}}
		c := model.Clone(a).(*realKeyed)
		if !reflect.DeepEqual(a, c) {
			w.Extra["oracle_known"] = map[string]int{"21": 1}
		}
	}
	w.Extra["implementation_failures"] = goFails
	if len(goFails) > 0 {
		f := goFails[0]
		w.Add(emit.Case{Term: "[]", JSON: f, Key: "implementation-failure", Oracle: fmt.Sprint(f["what"])})
	}
	return w.Flush()
}

func deref(p *string) string {
	if p == nil {
		return "<nil>"
	}
	return *p
}

// c13ClientRound: a real server and client; models returned by Get / List /
// Where...List / WhereCache...List and models passed to event handlers are
// mutated; the next reads must be unaffected.
func c13ClientRound(g *gen.G, sc dyn.Schema, dir string, w *emit.Writer, goFail func(kind, what string)) error {
	lab, err := newSrvLab(sc, dir)
	if err != nil {
		return err
	}
	defer lab.close()
	T := sc.Tables[0]
	db := lab.db
	writer, err := lab.dial()
	if err != nil {
		return err
	}
	defer writer.close()
	cl, err := client.NewOVSDBClient(db.Client, client.WithEndpoint("unix:"+lab.sock))
	if err != nil {
		return err
	}
	ctx, cancel := context.WithTimeout(context.Background(), 10*time.Second)
	defer cancel()
	if err := cl.Connect(ctx); err != nil {
		return fmt.Errorf("connect: %v", err)
	}
	defer cl.Close()
	var evModels []model.Model
	evCh := make(chan model.Model, 256)
	cl.Cache().AddEventHandler(&cache.EventHandlerFuncs{
		AddFunc:    func(t string, m model.Model) { evCh <- m },
		UpdateFunc: func(t string, o, n model.Model) { evCh <- o; evCh <- n },
	})
	if _, err := cl.MonitorAll(ctx); err != nil {
		return fmt.Errorf("monitor: %v", err)
	}
	var ops []TOp
	for i := 0; i < 4; i++ {
		r := map[string]val.Val{}
		for _, c := range T.Cols {
			r[c.Name] = g.Value(c, 6, 3)
		}
		r["name"] = val.VA(gen.AtomN('s', i+1))
		ops = append(ops, TOp{Kind: "insert", Table: "T", UUID: gen.UUIDn(i + 1), Row: r})
	}
	ob := lab.runWith(ops, writer.transactor(sc.Name))
	if !ob.Committed {
		return fmt.Errorf("populate: not committed")
	}
	// an update, to get update events
	ob = lab.runWith([]TOp{{Kind: "update", Table: "T", Where: nil, Row: map[string]val.Val{"n": val.VA(val.Int(77))}}}, writer.transactor(sc.Name))
	want := ob.State["T"]
	deadline := time.Now().Add(2 * time.Second)
	for len(evModels) < 12 && time.Now().Before(deadline) {
		select {
		case m := <-evCh:
			evModels = append(evModels, m)
		case <-time.After(20 * time.Millisecond):
		}
	}
	readAll := func() map[string]map[string]val.Val {
		out := map[string]map[string]val.Val{}
		for u, m := range cl.Cache().Table("T").Rows() {
			out[u] = db.RowMap(m, "T")
		}
		return out
	}
	check := func(kind string) {
		got := readAll()
		if len(got) != len(want) {
			goFail(kind, fmt.Sprintf("after changing a model obtained through %s the cache holds %d rows, the database %d", kind, len(got), len(want)))
			return
		}
		for u, r := range want {
			if !rowsEqual(got[u], r) {
				goFail(kind, fmt.Sprintf("after changing a model obtained through %s, row %s read from the cache differs from the database", kind, u))
				return
			}
		}
		w.Count("client:" + kind)
	}
	check("nothing")
	for _, m := range evModels {
		c13MutateAll(g, db, T, m)
	}
	check("event handler")
	// Get
	for u := range want {
		m := db.Make("T", u, nil)
		if err := cl.Get(ctx, m); err != nil {
			goFail("Get", "Get: "+err.Error())
			continue
		}
		if !rowsEqual(db.RowMap(m, "T"), want[u]) {
			goFail("Get", "Get returns a different row")
		}
		c13MutateAll(g, db, T, m)
	}
	check("Get")
	// Get into a model that was used before: what it held must be replaced, not merged with the cached row
	for u := range want {
		pre := map[string]val.Val{}
		for _, c := range T.Cols {
			pre[c.Name] = g.Value(c, 9, 3)
		}
		m := db.Make("T", u, pre)
		if err := cl.Get(ctx, m); err != nil {
			goFail("Get", "Get into a used model: "+err.Error())
			continue
		}
		if !rowsEqual(db.RowMap(m, "T"), want[u]) {
			goFail("Get", fmt.Sprintf("Get into a model that held other values returns a row that differs from the cached one (row %s)", u))
		}
	}
	check("Get into a used model")
	// List
	lp := reflect.New(reflect.SliceOf(reflect.TypeOf(db.New("T"))))
	if err := cl.List(ctx, lp.Interface()); err != nil {
		goFail("List", "List: "+err.Error())
	}
	for i := 0; i < lp.Elem().Len(); i++ {
		c13MutateAll(g, db, T, lp.Elem().Index(i).Interface())
	}
	check("List")
	// List into a slice of structs: the elements are values, their slices, maps and pointers must still be the caller's own
	lv := reflect.New(reflect.SliceOf(reflect.TypeOf(db.New("T")).Elem()))
	if err := cl.List(ctx, lv.Interface()); err != nil {
		goFail("List(values)", "List into a slice of values: "+err.Error())
	}
	for i := 0; i < lv.Elem().Len(); i++ {
		c13MutateAll(g, db, T, lv.Elem().Index(i).Addr().Interface())
	}
	check("List into a slice of values")
	// conditional lists, into both kinds of slice
	mt := reflect.TypeOf(db.New("T"))
	pred := reflect.MakeFunc(reflect.FuncOf([]reflect.Type{mt}, []reflect.Type{reflect.TypeOf(true)}, false),
		func(args []reflect.Value) []reflect.Value { return []reflect.Value{reflect.ValueOf(true)} })
	condModel := db.New("T")
	conds := []model.Condition{{Field: db.FieldPtr(condModel, "T", "n"), Function: ovsdb.ConditionEqual, Value: 77}}
	for name, capi := range map[string]client.ConditionalAPI{
		"WhereCache.List": cl.WhereCache(pred.Interface()),
		"WhereAll.List":   cl.WhereAll(condModel, conds...),
		"WhereAny.List":   cl.WhereAny(condModel, conds...),
	} {
		for _, byValue := range []bool{false, true} {
			et := mt
			if byValue {
				et = mt.Elem()
			}
			lp := reflect.New(reflect.SliceOf(et))
			if err := capi.List(ctx, lp.Interface()); err != nil {
				goFail(name, name+": "+err.Error())
				continue
			}
			if lp.Elem().Len() != len(want) {
				goFail(name, fmt.Sprintf("%s reports %d of %d rows", name, lp.Elem().Len(), len(want)))
			}
			for i := 0; i < lp.Elem().Len(); i++ {
				e := lp.Elem().Index(i)
				if byValue {
					e = e.Addr()
				}
				c13MutateAll(g, db, T, e.Interface())
			}
			check(fmt.Sprintf("%s (by value: %v)", name, byValue))
		}
	}
	// Where(model).List and WhereAll
	for u := range want {
		lp := reflect.New(reflect.SliceOf(reflect.TypeOf(db.New("T"))))
		if err := cl.Where(db.Make("T", u, nil)).List(ctx, lp.Interface()); err != nil {
			goFail("Where.List", "Where.List: "+err.Error())
		}
		for i := 0; i < lp.Elem().Len(); i++ {
			c13MutateAll(g, db, T, lp.Elem().Index(i).Interface())
		}
	}
	check("Where.List")
	return nil
}
