package main

import (
	"fmt"
	"os"
	"os/exec"
	"path/filepath"
	"sort"
	"strings"
)

func init() { drivers["LOCKS"] = driveLocksDebug }

var lockFiles = []struct {
	rel, pkg string
	vars     map[string]string
}{
	{"client/client.go", "client", map[string]string{"db": "database"}},
	{"client/api.go", "client", map[string]string{}},
	{"cache/cache.go", "cache", map[string]string{"rowCache": "RowCache", "tCache": "RowCache", "table": "RowCache"}},
	{"server/server.go", "server", map[string]string{}},
	{"server/monitor.go", "server", map[string]string{}},
	{"database/inmemory/inmemory.go", "inmemory", map[string]string{}},
}

func driveLocksDebug(o opts) error {
	repo := os.Getenv("VERIF_REPO")
	if repo == "" {
		repo = "/repo"
	}
	if o.out != "." {
		fo := lockDiscipline(repo, "/verif", o.out)
		fmt.Println(fo["ok"], fo["detail"])
		return nil
	}
	for _, lf := range lockFiles {
		facts, err := extractLockFacts(repo, lf.rel, lf.pkg, lf.vars)
		if err != nil {
			return err
		}
		for _, f := range facts {
			if len(f.Leaks)+len(f.Edges)+len(f.Calls) == 0 {
				continue
			}
			fmt.Println(f.Name)
			for _, l := range f.Leaks {
				fmt.Println("   LEAK", l)
			}
			seen := map[string]bool{}
			for _, e := range f.Edges {
				k := e[0] + " -> " + e[1]
				if !seen[k] {
					seen[k] = true
					fmt.Println("   edge", k)
				}
			}
			for _, c := range f.Calls {
				if len(c.Held) > 0 {
					k := fmt.Sprint(c.Held, " calls ", c.Callee)
					if !seen[k] {
						seen[k] = true
						fmt.Println("   ", k)
					}
				}
			}
		}
	}
	return nil
}

// lockDiscipline extracts the lock facts of the listed files, writes them as a Coq file whose lemma
// [discipline_ok summaries = true] is checked with coqc, and returns the fact obligation.
func lockDiscipline(repo, root, outDir string) map[string]interface{} {
	fo := map[string]interface{}{"name": "discipline_ok extracted_summaries (no lock leaked on any path; acquisition order acyclic)", "ok": false}
	var all []funcFacts
	for _, lf := range lockFiles {
		facts, err := extractLockFacts(repo, lf.rel, lf.pkg, lf.vars)
		if err != nil {
			fo["detail"] = "extraction failed: " + err.Error()
			return fo
		}
		all = append(all, facts...)
	}
	uh := funcFacts{Name: userHandler}
	for _, c := range userHandlerCalls {
		uh.Calls = append(uh.Calls, callUnder{nil, c})
	}
	all = append(all, uh)
	lockID := map[string]int{"": 0}
	var lockNames []string
	lid := func(l string) int {
		if id, ok := lockID[l]; ok {
			return id
		}
		lockID[l] = len(lockID)
		lockNames = append(lockNames, l)
		return lockID[l]
	}
	funcID := map[string]int{}
	for i, f := range all {
		funcID[f.Name] = i + 1
	}
	var leaks []string
	var sums []string
	edgeSet := map[[2]string]string{}
	for i, f := range all {
		var lk []string
		for _, l := range f.Leaks {
			leaks = append(leaks, f.Name+" "+l)
			var ids []string
			for _, n := range strings.Split(l[strings.Index(l, ": ")+2:], ", ") {
				ids = append(ids, fmt.Sprintf("%d%%N", lid(n)))
			}
			lk = append(lk, "["+strings.Join(ids, "; ")+"]")
		}
		seen := map[string]bool{}
		var es []string
		for _, e := range f.Edges {
			k := fmt.Sprintf("(%d%%N, %d%%N)", lid(e[0]), lid(e[1]))
			if !seen[k] {
				seen[k] = true
				es = append(es, k)
			}
			if e[0] != "" {
				edgeSet[e] = f.Name
			}
		}
		var cs []string
		for _, c := range f.Calls {
			id, ok := funcID[c.Callee]
			if !ok {
				continue
			}
			// calls made without a lock held are kept: what the callee acquires is acquired by every caller up the chain
			var hs []string
			for _, h := range c.Held {
				hs = append(hs, fmt.Sprintf("%d%%N", lid(h)))
			}
			k := fmt.Sprintf("([%s], %d%%N)", strings.Join(hs, "; "), id)
			if !seen[k] {
				seen[k] = true
				cs = append(cs, k)
			}
		}
		sums = append(sums, fmt.Sprintf("  (* %s *) mkF %d%%N [%s] [%s] [%s]", f.Name, i+1, strings.Join(lk, "; "), strings.Join(es, "; "), strings.Join(cs, "; ")))
	}
	var names []string
	for i, n := range lockNames {
		names = append(names, fmt.Sprintf("(* %d = %s *)", i+1, n))
	}
	src := "From LOV Require Import Cli.Locks.\nFrom Coq Require Import List.\nImport ListNotations.\n(* generated from the source on every run *)\n" +
		strings.Join(names, "\n") + "\nDefinition extracted_summaries : list fsummary := [\n" + strings.Join(sums, ";\n") + "\n].\n" +
		"Lemma extracted_discipline : discipline_ok extracted_summaries = true.\nProof. vm_compute. reflexivity. Qed.\n"
	_ = os.MkdirAll(outDir, 0o755)
	_ = os.WriteFile(filepath.Join(outDir, "facts_C18.v"), []byte(src), 0o644)
	cmd := exec.Command("coqc", "-Q", filepath.Join(root, "coq"), "LOV", "facts_C18.v")
	cmd.Dir = outDir
	outb, err := cmd.CombinedOutput()
	fo["functions"] = len(all)
	fo["locks"] = lockNames
	if err == nil {
		fo["ok"] = true
		return fo
	}
	// explain: leaks, and a cycle among the direct edges if there is one
	detail := ""
	if len(leaks) > 0 {
		sort.Strings(leaks)
		detail += "locks held at a return: " + strings.Join(leaks, "; ") + ". "
	}
	// edges through calls: what a callee acquires (transitively) is acquired under the caller's locks
	byName := map[string]*funcFacts{}
	for i := range all {
		byName[all[i].Name] = &all[i]
	}
	var acquires func(fn string, depth int, seen map[string]bool) map[string]string
	acquires = func(fn string, depth int, seen map[string]bool) map[string]string {
		out := map[string]string{}
		f := byName[fn]
		if f == nil || seen[fn] || depth > len(all) {
			return out
		}
		seen[fn] = true
		for _, e := range f.Edges {
			out[e[1]] = fn
		}
		for _, c := range f.Calls {
			for l, via := range acquires(c.Callee, depth+1, seen) {
				if _, ok := out[l]; !ok {
					out[l] = c.Callee + " <- " + via
				}
			}
		}
		delete(seen, fn)
		return out
	}
	for _, f := range all {
		for _, c := range f.Calls {
			if len(c.Held) == 0 {
				continue
			}
			for l, via := range acquires(c.Callee, 0, map[string]bool{}) {
				for _, h := range c.Held {
					e := [2]string{h, l}
					if _, ok := edgeSet[e]; !ok {
						edgeSet[e] = f.Name + " calling " + via
					}
				}
			}
		}
	}
	adj := map[string][]string{}
	for e := range edgeSet {
		adj[e[0]] = append(adj[e[0]], e[1])
	}
	var cycle []string
	var dfs func(n string, path []string, on map[string]bool) bool
	dfs = func(n string, path []string, on map[string]bool) bool {
		if on[n] {
			for i, p := range path {
				if p == n {
					cycle = append(append([]string{}, path[i:]...), n)
					return true
				}
			}
		}
		if len(path) > 12 {
			return false
		}
		on[n] = true
		for _, m := range adj[n] {
			if dfs(m, append(path, n), on) {
				return true
			}
		}
		on[n] = false
		return false
	}
	for n := range adj {
		if dfs(n, nil, map[string]bool{}) {
			break
		}
	}
	if cycle != nil {
		var where []string
		for i := 0; i+1 < len(cycle); i++ {
			where = append(where, fmt.Sprintf("%s -> %s (%s)", cycle[i], cycle[i+1], edgeSet[[2]string{cycle[i], cycle[i+1]}]))
		}
		detail += "acquisition cycle: " + strings.Join(where, "; ") + ". "
	}
	if detail == "" {
		detail = strings.TrimSpace(string(outb))
	}
	fo["detail"] = detail
	return fo
}

func init() {
	drivers["C18"] = driveC18
	drivers["C18race"] = driveC18race
}
