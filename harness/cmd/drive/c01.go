package main

import (
	"context"
	"fmt"
	"sort"
	"strings"
	"time"

	"github.com/ovn-org/libovsdb/client"
	"github.com/ovn-org/libovsdb/model"
	"github.com/ovn-org/libovsdb/ovsdb"

	"verifharness/dyn"
	"verifharness/emit"
	"verifharness/gen"
	"verifharness/val"
)

func init() { drivers["C01"] = driveC01 }

type cliMon struct {
	method string
	req    map[string]monReq // tables -> columns (nil = all); select always default
	after  int
	done   bool
	window bool // the next notification is handled between the monitor reply and its application
}

func (m *cliMon) coqReq(s *val.Syms) string {
	var names []string
	for t := range m.req {
		names = append(names, t)
	}
	sort.Strings(names)
	var ts []string
	for _, t := range names {
		ts = append(ts, fmt.Sprintf("(%d%%N, mkReq %s true true true true)", s.ID(t), symList(s, m.req[t].Cols)))
	}
	return "[" + strings.Join(ts, "; ") + "]"
}

func ctxT() (context.Context, context.CancelFunc) {
	return context.WithTimeout(context.Background(), 10*time.Second)
}

// readCache reads the client's cache for every table.
func readCache(cl client.Client, db *dyn.DB) map[string]map[string]map[string]val.Val {
	out := map[string]map[string]map[string]val.Val{}
	for _, t := range db.Spec.Tables {
		out[t.Name] = map[string]map[string]val.Val{}
		tc := cl.Cache().Table(t.Name)
		if tc == nil {
			continue
		}
		for u, m := range tc.Rows() {
			out[t.Name][u] = db.RowMap(m, t.Name)
		}
	}
	return out
}

func driveC01(o opts) error {
	quietStderr()
	g := gen.New(o.seed)
	syms := val.NewSyms()
	syms.ID("_uuid")
	w := emit.New("C01", o.out)
	w.Module, w.CaseType, w.Run = "Corr.C01", "C01.case", "C01.run"
	w.ShardSize = 20
	ncases, ntxn := 40, 7
	if o.tier == "thorough" {
		ncases, ntxn = 1500, 14
	}
	if o.n > 0 {
		ncases = o.n
	}
	scBase := c02Schema()
	scBase.Name = "C01"
	for i := range scBase.Tables[0].Cols {
		if scBase.Tables[0].Cols[i].Name == "w1" {
			scBase.Tables[0].Cols[i].Min = 0 // fewer commit-time rejections than in the C02 schema
		}
	}
	scBase.Tables[0].Indexes = nil
	// after the regular cases: cascade cases (c07chain.go), a quarter as many
	for ci := 0; ci < ncases+(ncases+3)/4; ci++ {
		cascade := ci >= ncases
		sc := scBase
		if cascade {
			sc = cascadeSchema("C01")
		}
		lab, err := newSrvLab(sc, o.out)
		if err != nil {
			return err
		}
		writer, err := lab.dial()
		if err != nil {
			return err
		}
		// a third of the cases: the client's model of P has no field for one or two (unindexed, unreferenced) columns
		// of the schema; monitors without a field list still ask for every column of the schema
		cdb := lab.db
		hidden := map[string]bool{}
		if g.Chance(0.3) && !cascade {
			for _, cn := range []string{"n", "ss", "m", "bs"} {
				if g.Chance(0.4) {
					hidden[cn] = true
				}
			}
			if len(hidden) > 0 {
				cdb, err = sc.BuildHiding(map[string]map[string]bool{"P": hidden})
				if err != nil {
					return err
				}
				w.Count("client model covers a subset of the columns")
			}
		}
		cl, err := client.NewOVSDBClient(cdb.Client, client.WithEndpoint("unix:"+lab.sock))
		if err != nil {
			return err
		}
		ctx, cancel := ctxT()
		err = cl.Connect(ctx)
		cancel()
		if err != nil {
			return fmt.Errorf("connect: %v", err)
		}
		nt := 2 + g.Intn(ntxn-1)
		if cascade && nt < 4 {
			nt = 4
		}
		// one or two monitors on disjoint tables
		tabs := g.R.Perm(len(sc.Tables))
		nm := 1 + g.Intn(3)
		var mons []*cliMon
		split := 1 + g.Intn(len(tabs)-1)
		groups := [][]int{tabs}
		if nm == 2 {
			groups = [][]int{tabs[:split], tabs[split:]}
		} else if nm == 3 && len(tabs) >= 3 {
			groups = [][]int{tabs[:1], tabs[1:2], tabs[2:]}
		}
		// one connection-wide method in half of the cases (several monitor_cond_since monitors
		// receive one update3 each, with the same transaction id, for a transaction touching their tables)
		methods := []string{ovsdb.MonitorRPC, ovsdb.ConditionalMonitorRPC, ovsdb.ConditionalMonitorSinceRPC, ovsdb.ConditionalMonitorSinceRPC}
		same := ""
		if g.Chance(0.5) {
			same = methods[g.Intn(len(methods))]
		}
		for _, grp := range groups {
			method := methods[g.Intn(len(methods))]
			if same != "" {
				method = same
			}
			m := &cliMon{method: method,
				req: map[string]monReq{}, after: g.Intn(nt), window: g.Chance(0.4)}
			for _, ti := range grp {
				t := sc.Tables[ti]
				r := monReq{}
				if g.Chance(0.5) {
					for _, c := range t.Cols {
						if g.Chance(0.6) {
							r.Cols = append(r.Cols, c.Name)
						}
					}
				}
				if t.Name == "P" && len(hidden) > 0 {
					// what the client can hold: the requested columns its model has a field for
					all := len(r.Cols) == 0
					var vis []string
					for _, c := range t.Cols {
						in := all
						for _, rc := range r.Cols {
							in = in || rc == c.Name
						}
						if in && !hidden[c.Name] {
							vis = append(vis, c.Name)
						}
					}
					if len(vis) == 0 {
						vis = []string{"name"}
					}
					r.Cols, r.NoFields = vis, all
				}
				m.req[t.Name] = r
			}
			mons = append(mons, m)
		}
		tg := &txnGen{g: g, sc: sc, state: map[string]map[string]map[string]val.Val{}, pool: 6, pSelect: 0.05, pWait: 0.02, pInvalid: 0.08, dangling: 0.03, pBounded: 0.12}
		st, _, _ := lab.state()
		tg.state = st
		if cascade {
			tg.custom, tg.pCustom = c04ChainTxn, 0.5
			w.Count("cascade cases")
		}
		oracle := ""
		fail := func(format string, a ...interface{}) {
			if oracle == "" {
				oracle = fmt.Sprintf(format, a...)
			}
		}
		var pendingRelease func() error
		establish := func(i int) error {
			for _, m := range mons {
				if m.after != i || m.done {
					continue
				}
				if pendingRelease != nil {
					m.after = i + 1 // one window at a time: establish it after the next transaction
					continue
				}
				var optsM []client.MonitorOption
				for t, r := range m.req {
					mdl := cdb.New(t)
					var fields []interface{}
					for _, c := range r.Cols {
						if !r.NoFields {
							fields = append(fields, cdb.FieldPtr(mdl, t, c))
						}
					}
					optsM = append(optsM, client.WithTable(mdl, fields...))
				}
				mon := cl.NewMonitor(optsM...)
				mon.Method = m.method
				if m.window {
					// pause the client between receiving the monitor reply and applying it;
					// the transaction that follows is notified inside that window
					reached := make(chan struct{})
					release := make(chan struct{})
					armed := true
					client.VerifHook = func(point string) {
						if point == "monitor.replyReceived" && armed {
							armed = false
							close(reached)
							<-release
						}
					}
					result := make(chan error, 1)
					go func() {
						ctx, cancel := ctxT()
						defer cancel()
						_, err := cl.Monitor(ctx, mon)
						result <- err
					}()
					select {
					case <-reached:
					case err := <-result:
						return fmt.Errorf("monitor (window): returned early: %v", err)
					case <-time.After(10 * time.Second):
						return fmt.Errorf("monitor (window): pause point not reached")
					}
					pendingRelease = func() error {
						close(release)
						client.VerifHook = nil
						select {
						case err := <-result:
							if err != nil {
								return fmt.Errorf("monitor (window): %v", err)
							}
						case <-time.After(10 * time.Second):
							return fmt.Errorf("monitor (window): did not return after release")
						}
						return nil
					}
					w.Count("window")
				} else {
					ctx, cancel := ctxT()
					_, err := cl.Monitor(ctx, mon)
					cancel()
					if err != nil {
						return fmt.Errorf("monitor: %v", err)
					}
				}
				m.done = true
			}
			return nil
		}
		covering := func(i int, t string) (monReq, bool) {
			for _, m := range mons {
				if m.after <= i {
					if r, ok := m.req[t]; ok {
						return r, true
					}
				}
			}
			return monReq{}, false
		}
		var txnTerms []string
		var txnJ []interface{}
		nontrivial := false
		mods, dels := 0, 0
		for ti := 0; ti < nt; ti++ {
			if err := establish(ti); err != nil {
				return err
			}
			ops := tg.txn(4)
			if cascade && ti == 0 {
				ops = cascadeSeed(tg)
			} else if cascade && ti == 1+ci%2 {
				ops = cascadeRelease(tg, ci/2)
			} else if ti == 0 {
				// populate: a few rows in every table, children referenced by parents
				ops = nil
				for i := 0; i < 3; i++ {
					cu, qu := tg.fresh(), tg.fresh()
					ops = append(ops,
						TOp{Kind: "insert", Table: "Q", UUID: qu, Row: map[string]val.Val{"name": val.VA(gen.AtomN('s', i))}},
						TOp{Kind: "insert", Table: "C", UUID: cu, Row: map[string]val.Val{"k": val.VA(gen.AtomN('s', i+1)), "friend": val.VSome(val.Uuid(qu))}},
						TOp{Kind: "insert", Table: "P", UUID: tg.fresh(), Row: map[string]val.Val{"name": val.VA(gen.AtomN('s', i)), "kids": val.VS(val.Uuid(cu)), "w1": val.VS(val.Uuid(qu)),
							"m1":  {K: 'm', Map: [][2]val.Atom{{gen.AtomN('s', i), gen.AtomN('s', i+2)}}},
							"ims": val.VS(gen.AtomN('s', i), gen.AtomN('s', i+1), gen.AtomN('s', i+2)),
							"ss":  val.VS(gen.AtomN('s', i), gen.AtomN('s', i+1), gen.AtomN('s', i+2)).Canon(),
							"m":   val.VM([2]val.Atom{gen.AtomN('s', i), gen.AtomN('s', i+1)}, [2]val.Atom{gen.AtomN('s', i+3), gen.AtomN('s', i)}).Canon(),
							"imm": {K: 'm', Map: [][2]val.Atom{{gen.AtomN('s', i), gen.AtomN('s', i+1)}, {gen.AtomN('s', i+3), gen.AtomN('s', i)}}}}})
				}
			}
			if len(hidden) > 0 && ti == nt-1 {
				// a column the client's model lacks changes together with one it has, and another table changes too
				row := map[string]val.Val{}
				for _, c := range sc.Tables[0].Cols {
					if hidden[c.Name] {
						row[c.Name] = tg.value(c, nil)
					}
				}
				row["im"] = val.VA(val.Str("")) // unchanged immutable value: no effect
				delete(row, "im")
				ops = []TOp{
					{Kind: "update", Table: "P", Where: []Cond{}, Row: row},
					{Kind: "mutate", Table: "P", Where: []Cond{}, Muts: []Mut{{Col: "bi", Mutator: "insert", Arg: val.VS(val.Int(int64(ti % 2)))}}},
					{Kind: "insert", Table: "Q", UUID: tg.fresh(), Row: map[string]val.Val{"name": val.VA(val.Str("late"))}},
				}
			}
			viaClient := g.Chance(0.3) && pendingRelease == nil
			for _, op := range ops {
				if sc.Table(op.Table) == nil {
					// the client refuses operations on tables its schema lacks before it sends anything
					viaClient = false
				}
			}
			var ob tObs
			if viaClient {
				// the client's own transaction: its effects must be in its cache when Transact returns
				ob = lab.runWith(ops, func(oops []ovsdb.Operation) ([]*ovsdb.OperationResult, bool, string) {
					ctx, cancel := ctxT()
					defer cancel()
					res, err := cl.Transact(ctx, oops...)
					if err != nil {
						return nil, false, "client transact: " + err.Error()
					}
					out := make([]*ovsdb.OperationResult, len(res))
					committed := true
					failed := false
					for i := range res {
						r := res[i]
						out[i] = &r
						// the client API flattens the JSON nulls that follow a failed operation into empty results
						if failed && r.Error == "" && r.Count == 0 && r.UUID.GoUUID == "" && r.Rows == nil {
							out[i] = nil
						}
						if r.Error != "" {
							committed = false
							failed = true
						}
					}
					return out, committed, ""
				})
			} else {
				ob = lab.runWith(ops, writer.transactor(sc.Name))
			}
			if pendingRelease != nil {
				if err := pendingRelease(); err != nil {
					fail("transaction %d: %v", ti, err)
				}
				pendingRelease = nil
			}
			cacheNow := readCache(cl, cdb) // read immediately after the call returned
			for i := range ops {
				if ops[i].Kind == "insert" && ops[i].UUID == "" {
					ops[i].UUID = gen.UUIDn(700000 + ti*16 + i)
				}
			}
			if ob.Panic != "" {
				fail("transaction %d: %s", ti, ob.Panic)
			}
			if ob.CommitErr != "" {
				fail("transaction %d: %s", ti, ob.CommitErr)
			}
			before := tg.state
			tg.state = ob.State
			// direct oracle: cache == monitored part of the database
			var cacheTerms []string
			for _, t := range sc.Tables {
				rq, cov := covering(ti, t.Name)
				var rows []string
				var us []string
				for u := range cacheNow[t.Name] {
					us = append(us, u)
				}
				sort.Strings(us)
				for _, u := range us {
					rows = append(rows, fmt.Sprintf("(%d%%N, %s)", syms.ID(u), dyn.CoqRow(syms, cacheNow[t.Name][u])))
				}
				cacheTerms = append(cacheTerms, fmt.Sprintf("(%d%%N, [%s])", syms.ID(t.Name), strings.Join(rows, "; ")))
				if !cov {
					if len(cacheNow[t.Name]) > 0 {
						fail("transaction %d: the cache holds rows of table %s which no monitor covers", ti, t.Name)
					}
					continue
				}
				if len(cacheNow[t.Name]) != len(ob.State[t.Name]) {
					fail("transaction %d (%s): the cache holds %d rows of table %s, the database %d", ti, map[bool]string{true: "own", false: "other client"}[viaClient], len(cacheNow[t.Name]), t.Name, len(ob.State[t.Name]))
					continue
				}
				for u, row := range ob.State[t.Name] {
					crow, ok := cacheNow[t.Name][u]
					if !ok {
						fail("transaction %d: row %s of table %s is missing from the cache", ti, u, t.Name)
						continue
					}
					if !rowsEqual(project(rq, row), project(rq, crow)) {
						fail("transaction %d: row %s of table %s differs between cache and database in a monitored column", ti, u, t.Name)
					}
					if prev, ok := before[t.Name][u]; ok && !rowsEqual(prev, row) {
						mods++
					}
				}
				for u := range before[t.Name] {
					if _, ok := ob.State[t.Name][u]; !ok {
						dels++
					}
				}
			}
			var opTerms []string
			var opJ []interface{}
			for _, op := range ops {
				opTerms = append(opTerms, op.coqNamed(syms))
				opJ = append(opJ, op.json())
				w.Count("op:" + op.Kind)
			}
			if viaClient {
				w.Count("own-transaction")
			}
			if ob.Committed {
				w.Count("committed")
			} else {
				w.Count("not-committed")
			}
			txnTerms = append(txnTerms, fmt.Sprintf("([%s],\n     %s,\n     [%s])", strings.Join(opTerms, ";\n      "), lab.coqObs(syms, ob), strings.Join(cacheTerms, "; ")))
			rowsN := 0
			for _, t := range cacheNow {
				rowsN += len(t)
			}
			txnJ = append(txnJ, map[string]interface{}{"ops": opJ, "via_client": viaClient, "observed": jsonObs(ob), "cache_rows": rowsN})
		}
		var monTerms []string
		var monJ []interface{}
		for _, m := range mons {
			monTerms = append(monTerms, fmt.Sprintf("C01.mkCMon %s %d%%nat", m.coqReq(syms), m.after))
			monJ = append(monJ, map[string]interface{}{"method": m.method, "tables": m.req, "after": m.after})
			w.Count("method:" + m.method)
		}
		if mods >= 1 && dels >= 1 {
			nontrivial = true
		}
		cl.Disconnect()
		cl.Close()
		writer.close()
		lab.close()
		term := fmt.Sprintf("C01.mk (%s)\n   [%s]\n   [%s]", dyn.CoqSchema(syms, sc), strings.Join(monTerms, "; "), strings.Join(txnTerms, ";\n    "))
		w.Add(emit.Case{Term: term, JSON: map[string]interface{}{"monitors": monJ, "transactions": txnJ}, Key: term,
			Nontrivial: nontrivial, Class: fmt.Sprintf("mons%d", nm), Oracle: oracle})
	}
	known, err := c01Witnesses(o, scBase)
	if err != nil {
		return err
	}
	w.Extra["oracle_known"] = known
	return w.Flush()
}

var _ = model.Clone
