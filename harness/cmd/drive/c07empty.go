package main

// C07: "any subset of columns per table" includes the empty one. A monitor whose request names no column
// ({"columns": []}) is told which rows appear and disappear, and nothing about columns (outside the Coq model, whose
// requests use [] for "columns omitted").

import (
	"encoding/json"
	"fmt"

	"verifharness/dyn"
	"verifharness/emit"
	"verifharness/gen"
	"verifharness/val"
)

func c07EmptyColumns(o opts, sc dyn.Schema, w *emit.Writer) error {
	for _, method := range []string{"monitor", "monitor_cond", "monitor_cond_since"} {
		lab, err := newSrvLab(sc, o.out)
		if err != nil {
			return err
		}
		oracle := ""
		fail := func(format string, a ...interface{}) {
			if oracle == "" {
				oracle = method + " with {\"columns\": []}: " + fmt.Sprintf(format, a...)
			}
		}
		func() {
			defer lab.close()
			writer, err := lab.dial()
			if err != nil {
				fail("dial: %v", err)
				return
			}
			defer writer.close()
			mon, err := lab.dial()
			if err != nil {
				fail("dial: %v", err)
				return
			}
			defer mon.close()
			args := []interface{}{sc.Name, json.RawMessage(`"e"`), map[string]interface{}{"Q": map[string]interface{}{"columns": []string{}}}}
			if method == "monitor_cond_since" {
				args = append(args, "00000000-0000-0000-0000-000000000000")
			}
			var reply interface{}
			if err := mon.c.Call(method, args, &reply); err != nil {
				fail("request refused: %v", err)
				return
			}
			u := gen.UUIDn(1)
			steps := [][]TOp{
				{{Kind: "insert", Table: "Q", UUID: u, Row: map[string]val.Val{"name": val.VA(val.Str("a")), "oi": val.VSome(val.Int(1))}}},
				{{Kind: "update", Table: "Q", Where: []Cond{}, Row: map[string]val.Val{"name": val.VA(val.Str("b"))}}},
				{{Kind: "delete", Table: "Q", Where: []Cond{}}},
			}
			for si, ops := range steps {
				if ob := lab.runWith(ops, writer.transactor(sc.Name)); !ob.Committed {
					fail("step %d not committed", si)
					return
				}
				v1, v2 := mon.take(`"e"`)
				cols := 0
				n := len(v1) + len(v2)
				for _, tu := range v1 {
					for _, ru := range tu["Q"] {
						for _, r := range []*map[string]interface{}{(*map[string]interface{})(ru.Old), (*map[string]interface{})(ru.New)} {
							if r != nil {
								for c := range *r {
									if c != "_uuid" {
										cols++
									}
								}
							}
						}
					}
				}
				for _, tu := range v2 {
					for _, ru := range tu["Q"] {
						for _, r := range []*map[string]interface{}{(*map[string]interface{})(ru.Insert), (*map[string]interface{})(ru.Modify)} {
							if r != nil {
								for c := range *r {
									if c != "_uuid" {
										cols++
									}
								}
							}
						}
					}
				}
				switch {
				case cols > 0:
					fail("step %d: the notification carries %d column values although no column was selected", si, cols)
				case si == 1 && n > 0:
					fail("a change of a column that was not selected is notified")
				case si != 1 && n != 1:
					fail("step %d (a row %s): %d notifications", si, []string{"appears", "", "disappears"}[si], n)
				}
			}
		}()
		w.Count("empty column list:" + method)
		w.Add(emit.Case{Term: "C07.mk (mkSchema []) [] []", JSON: map[string]interface{}{"empty_columns": method}, Key: "emptycols:" + method,
			Nontrivial: true, Class: "empty-columns", Oracle: oracle})
	}
	return nil
}
