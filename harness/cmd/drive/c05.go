package main

import (
	"fmt"
	"sort"
	"strings"

	"github.com/ovn-org/libovsdb/cache"
	"github.com/ovn-org/libovsdb/model"

	"verifharness/dyn"
	"verifharness/emit"
	"verifharness/gen"
	"verifharness/val"
)

func init() { drivers["C05"] = driveC05 }

type ckey struct {
	Col string
	Key *val.Atom
}

type ispec struct {
	Cols   []ckey
	Schema bool
}

func (s ispec) name() string {
	var parts []string
	seen := map[string]bool{}
	for _, c := range s.Cols {
		p := c.Col
		if c.Key != nil {
			p = fmt.Sprintf("%s|%v", c.Col, c.Key.Native())
		}
		if !seen[p] {
			parts = append(parts, p)
			seen[p] = true
		}
	}
	sort.Strings(parts)
	return strings.Join(parts, ",")
}

func (s ispec) parts() []string { return strings.Split(s.name(), ",") }

func (s ispec) coq(sy *val.Syms) string {
	var cs []string
	for _, c := range s.Cols {
		k := "None"
		if c.Key != nil {
			k = "(Some (" + sy.Atom(*c.Key) + "))"
		}
		cs = append(cs, fmt.Sprintf("(%d%%N, %s)", sy.ID(c.Col), k))
	}
	return fmt.Sprintf("mkISpec [%s] %v", strings.Join(cs, "; "), s.Schema)
}

type idxConfig struct {
	Name   string
	Schema [][]string
	Client [][]ckey
}

// specs mirrors cache.newRowCache: schema indexes first, then the client
// indexes whose name is not already taken.
func (c idxConfig) specs() []ispec {
	var out []ispec
	seen := map[string]bool{}
	for _, cols := range c.Schema {
		s := ispec{Schema: true}
		for _, col := range cols {
			s.Cols = append(s.Cols, ckey{Col: col})
		}
		out = append(out, s)
		seen[s.name()] = true
	}
	for _, cks := range c.Client {
		s := ispec{Cols: cks}
		if seen[s.name()] {
			continue
		}
		seen[s.name()] = true
		out = append(out, s)
	}
	return out
}

func c05Cols() []val.Col {
	return []val.Col{
		{Name: "name", K: 'a', KT: 's'}, {Name: "n", K: 'a', KT: 'i'},
		{Name: "os", K: 'o', KT: 's'}, {Name: "oi", K: 'o', KT: 'i'}, {Name: "os2", K: 'o', KT: 's'},
		{Name: "m", K: 'm', KT: 's', VT: 's', Max: -1}, {Name: "tag", K: 'a', KT: 's'},
		{Name: "ss", K: 's', KT: 's', Max: -1},
	}
}

func c05Configs(thorough bool) []idxConfig {
	k1 := val.Str("k1")
	k2 := val.Str("k2")
	cfgs := []idxConfig{
		{Name: "none"},
		{Name: "schema1", Schema: [][]string{{"name"}}},
		{Name: "schema2", Schema: [][]string{{"name"}, {"n"}}},
		{Name: "schemaMulti", Schema: [][]string{{"name", "n"}}},
		{Name: "clientPlain", Client: [][]ckey{{{Col: "tag"}}}},
		{Name: "clientOpt", Client: [][]ckey{{{Col: "os"}}}},
		{Name: "clientMapKey", Client: [][]ckey{{{Col: "m", Key: &k1}}, {{Col: "m", Key: &k2}, {Col: "tag"}}}},
		{Name: "overlap", Schema: [][]string{{"name"}}, Client: [][]ckey{{{Col: "name"}}, {{Col: "tag"}, {Col: "n"}}, {{Col: "name"}, {Col: "tag"}}}},
		{Name: "schemaOpt", Schema: [][]string{{"os"}}},
		// several columns of which some are optional: an unset column and one set to the zero value must not meet
		{Name: "clientOptMulti", Client: [][]ckey{{{Col: "tag"}, {Col: "os"}}, {{Col: "oi"}, {Col: "n"}}, {{Col: "os"}, {Col: "os2"}}}},
		{Name: "schemaOptMulti", Schema: [][]string{{"name", "os"}}, Client: [][]ckey{{{Col: "tag"}, {Col: "oi"}}}},
	}
	return cfgs
}

type orderedUpdate struct {
	table string
	chs   []ordChange
}
type ordChange struct {
	uuid     string
	old, new model.Model
}

func (o orderedUpdate) GetUpdatedTables() []string { return []string{o.table} }
func (o orderedUpdate) ForEachModelUpdate(table string, do func(uuid string, old, new model.Model) error) error {
	for _, c := range o.chs {
		if err := do(c.uuid, c.old, c.new); err != nil {
			return err
		}
	}
	return nil
}

func errCode(err error) int {
	if err == nil {
		return 0
	}
	switch err.(type) {
	case *cache.ErrCacheInconsistent:
		return 1
	case *cache.ErrIndexExists:
		return 2
	}
	if strings.Contains(err.Error(), "identical indexes") {
		return 2 // Update wraps the index errors in a plain error
	}
	return 3
}

// propKey is the property's notion of "the same values": the tuple of
// column-key values, nil kept in place.
func propKey(db *dyn.DB, s ispec, row map[string]val.Val) string {
	var parts []string
	for _, c := range s.Cols {
		v := row[c.Col]
		switch {
		case c.Key != nil:
			found := "\x00zero"
			for _, p := range v.Map {
				if p[0].Key() == c.Key.Key() {
					found = p[1].Key()
				}
			}
			if found == "\x00zero" {
				// a map without the key has no value for it (not the zero value a map holding the key may have)
				found = "<nil>"
			}
			parts = append(parts, found)
		case v.K == 'o' && !v.Has:
			parts = append(parts, "<nil>")
		case v.K == 'o':
			parts = append(parts, v.A.Key())
		default:
			parts = append(parts, v.Key())
		}
	}
	return strings.Join(parts, "\x01")
}

func driveC05(o opts) error {
	g := gen.New(o.seed)
	syms := val.NewSyms()
	w := emit.New("C05", o.out)
	w.ShardSize = 150
	const T = "T"
	cfgs := c05Configs(o.tier == "thorough")
	dbs := make([]*dyn.DB, len(cfgs))
	for i, cfg := range cfgs {
		sc := dyn.Schema{Name: "C05", Tables: []dyn.Table{{Name: T, Cols: c05Cols(), Indexes: cfg.Schema, IsRoot: true}}}
		var ci map[string][]model.ClientIndex
		if len(cfg.Client) > 0 {
			var l []model.ClientIndex
			for _, cks := range cfg.Client {
				var cols []model.ColumnKey
				for _, ck := range cks {
					var key interface{}
					if ck.Key != nil {
						key = ck.Key.Native()
					}
					cols = append(cols, model.ColumnKey{Column: ck.Col, Key: key})
				}
				l = append(l, model.ClientIndex{Columns: cols})
			}
			ci = map[string][]model.ClientIndex{T: l}
		}
		db, err := sc.BuildWithIndexes(ci)
		if err != nil {
			return err
		}
		dbs[i] = db
	}
	w.Prelude = "Definition T : table := " + dyn.CoqTable(syms, dyn.Table{Name: T, Cols: c05Cols(), IsRoot: true}) + ".\n"
	w.Run = "C05.run T"

	ncases, nsteps := 300, 8
	if o.tier == "thorough" {
		ncases, nsteps = 8000, 14
	}
	if o.n > 0 {
		ncases = o.n
	}
	pool := 5 // small value pools so that values collide and move between rows
	genRow := func() map[string]val.Val {
		r := map[string]val.Val{}
		for _, c := range c05Cols() {
			switch c.Name {
			case "m":
				v := val.Val{K: 'm'}
				for _, k := range []string{"k1", "k2", "k3"} {
					if g.Chance(0.5) {
						v.Map = append(v.Map, [2]val.Atom{val.Str(k), gen.AtomN('s', g.Intn(pool))})
					}
				}
				r[c.Name] = v
			default:
				r[c.Name] = g.Value(c, pool, 2)
			}
		}
		return r
	}
	for ci := 0; ci < ncases; ci++ {
		cfgI := g.Intn(len(cfgs))
		cfg, db := cfgs[cfgI], dbs[cfgI]
		specs := cfg.specs()
		tc, err := cache.NewTableCache(db.Model, nil, nil)
		if err != nil {
			return err
		}
		rcache := tc.Table(T)
		shadow := map[string]map[string]val.Val{}
		nextU := 0
		var stepTerms []string
		var stepsJ []interface{}
		oracle := ""
		handover := false
		bigBatch := false
		follow := "" // the row the last direct Update wrote
		clean := true // every step so far ended in a state that is unique on all schema indexes
		uniqueFinal := func(rows map[string]map[string]val.Val) bool {
			for _, s := range specs {
				if !s.Schema {
					continue
				}
				seen := map[string]bool{}
				for _, r := range rows {
					k := propKey(db, s, r)
					if seen[k] {
						return false
					}
					seen[k] = true
				}
			}
			return true
		}
		ns := 2 + g.Intn(nsteps-1)
		for si := 0; si < ns; si++ {
			var stepTerm string
			var stepJ map[string]interface{}
			var err error
			uuids := make([]string, 0, len(shadow))
			for u := range shadow {
				uuids = append(uuids, u)
			}
			sort.Strings(uuids)
			if len(uuids) > 0 && g.Chance(0.07) {
				// the cache is purged (a reconnection that cannot resume its monitors does this) and filled again by the
				// steps that follow: nothing of the old rows may remain, in the rows or in any index
				tc.Purge(db.Model)
				rcache = tc.Table(T)
				shadow = map[string]map[string]val.Val{}
				stepTerm = "SPurge"
				stepJ = map[string]interface{}{"purge": true}
				w.Count("step:purge")
			} else if g.Chance(0.7) {
				// a batch applied through ApplyCacheUpdate in a PRNG-chosen order
				for try := 0; ; try++ {
					next := map[string]map[string]val.Val{}
					for u, r := range shadow {
						next[u] = r
					}
					var chs []ordChange
					var terms []string
					var chJ []interface{}
					k := 1 + g.Intn(4)
					used := map[string]bool{}
					add := func(u string, old, new map[string]val.Val) {
						var om, nm model.Model
						if old != nil {
							om = db.Make(T, u, old)
						}
						if new != nil {
							nm = db.Make(T, u, new)
							next[u] = new
						} else {
							delete(next, u)
						}
						chs = append(chs, ordChange{u, om, nm})
						terms = append(terms, fmt.Sprintf("LCh %d%%N %s %s", syms.ID(u), dyn.CoqOptRow(syms, old, old != nil), dyn.CoqOptRow(syms, new, new != nil)))
						chJ = append(chJ, map[string]interface{}{"uuid": u, "old": dyn.JSONRow(old), "new": dyn.JSONRow(new)})
						used[u] = true
					}
					ho := false
					if len(uuids) >= 2 && g.Chance(0.35) {
						// hand-over: swap all values of two rows, or move a deleted row's values to another
						a, b := uuids[g.Intn(len(uuids))], uuids[g.Intn(len(uuids))]
						if a != b {
							ho = true
							if g.Chance(0.5) {
								add(a, shadow[a], shadow[b])
								add(b, shadow[b], shadow[a])
							} else {
								add(a, shadow[a], nil)
								add(b, shadow[b], shadow[a])
							}
						}
					}
					for i := 0; i < k; i++ {
						switch x := g.Intn(10); {
						case x < 4 || len(uuids) == 0:
							u := gen.UUIDn(nextU + i + try*10 + 100*si)
							if _, ok := shadow[u]; ok || used[u] {
								continue
							}
							add(u, nil, genRow())
						case x < 8:
							u := uuids[g.Intn(len(uuids))]
							if used[u] {
								continue
							}
							nr := map[string]val.Val{}
							for c, v := range shadow[u] {
								nr[c] = v
							}
							fresh := genRow()
							for _, c := range c05Cols() {
								if g.Chance(0.4) {
									nr[c.Name] = fresh[c.Name]
								}
							}
							add(u, shadow[u], nr)
						default:
							u := uuids[g.Intn(len(uuids))]
							if used[u] {
								continue
							}
							add(u, shadow[u], nil)
						}
					}
					if len(chs) == 0 {
						continue
					}
					if !uniqueFinal(next) && try < 20 {
						continue // keep final states unique on schema indexes, as a server would
					}
					g.R.Shuffle(len(chs), func(i, j int) {
						chs[i], chs[j] = chs[j], chs[i]
						terms[i], terms[j] = terms[j], terms[i]
						chJ[i], chJ[j] = chJ[j], chJ[i]
					})
					err = tc.ApplyCacheUpdate(orderedUpdate{T, chs})
					shadow = next
					nextU += 1000
					stepTerm = "SBatch [" + strings.Join(terms, "; ") + "]"
					stepJ = map[string]interface{}{"batch": chJ}
					if ho {
						handover = true
					}
					if len(chs) >= 2 {
						bigBatch = true
					}
					break
				}
			} else {
				chk := g.Chance(0.5)
				switch x := g.Intn(10); {
				case x < 4 || len(uuids) == 0:
					u := gen.UUIDn(nextU)
					nextU++
					if len(uuids) > 0 && g.Chance(0.15) {
						u = uuids[0] // already exists
					}
					r := genRow()
					err = rcache.Create(u, db.Make(T, u, r), chk)
					if err == nil {
						shadow[u] = r
					}
					stepTerm = fmt.Sprintf("SCreate %d%%N %s %v", syms.ID(u), dyn.CoqRow(syms, r), chk)
					stepJ = map[string]interface{}{"create": u, "row": dyn.JSONRow(r), "check": chk}
				case x < 8:
					u := uuids[g.Intn(len(uuids))]
					if g.Chance(0.1) {
						u = gen.UUIDn(999999)
					}
					r := genRow()
					if prev, ok := shadow[follow]; ok && g.Chance(0.6) {
						// the row that was updated last is updated again, in one column only: the index entries the
						// earlier update wrote for the other columns must stay as they are
						u = follow
						r = map[string]val.Val{}
						for k, v := range prev {
							r[k] = v
						}
						cols := c05Cols()
						c := cols[g.Intn(len(cols))]
						for try := 0; try < 5 && r[c.Name].Key() == prev[c.Name].Key(); try++ {
							r[c.Name] = genRow()[c.Name]
						}
						w.Count("step:same row again, one column")
					}
					follow = u
					_, err = rcache.Update(u, db.Make(T, u, r), chk)
					if err == nil {
						shadow[u] = r
					}
					stepTerm = fmt.Sprintf("SUpdate %d%%N %s %v", syms.ID(u), dyn.CoqRow(syms, r), chk)
					stepJ = map[string]interface{}{"update": u, "row": dyn.JSONRow(r), "check": chk}
				default:
					u := uuids[g.Intn(len(uuids))]
					if g.Chance(0.1) {
						u = gen.UUIDn(999999)
					}
					err = rcache.Delete(u)
					if err == nil {
						delete(shadow, u)
					}
					stepTerm = fmt.Sprintf("SDelete %d%%N", syms.ID(u))
					stepJ = map[string]interface{}{"delete": u}
				}
			}
			// ---- reads must leave the indexes alone: a few queries that go through the indexes (an indexed condition
			// together with a condition only some of the rows satisfy), before the indexes are compared with the rows
			{
				cols := c05Cols()
				var rl []map[string]val.Val
				var ul []string
				for u, m := range rcache.Rows() {
					ul = append(ul, u)
					rl = append(rl, db.RowMap(m, T))
				}
				for q := 0; q < 3 && len(rl) > 0; q++ {
					src := rl[g.Intn(len(rl))]
					var cs []Cond
					for _, s := range specs {
						if g.Chance(0.6) {
							for _, ck := range s.Cols {
								if ck.Key == nil {
									cs = append(cs, Cond{Col: ck.Col, Fn: "==", Arg: src[ck.Col]})
								} else if c := colOf(cols, ck.Col); c != nil {
									v := val.Val{K: 'm'}
									for _, p := range src[ck.Col].Map {
										if p[0].Key() == ck.Key.Key() {
											v.Map = append(v.Map, p)
										}
									}
									cs = append(cs, Cond{Col: ck.Col, Fn: "includes", Arg: v})
								}
							}
						}
					}
					cs = append(cs, genCond(g, cols, rl, ul, 4, 2))
					_, _ = rcache.RowsByCondition(toOvsConds(cols, cs))
				}
				w.Count("queries before the snapshot")
			}
			// ---- snapshot
			code := errCode(err)
			rows := rcache.Rows()
			var rowTerms []string
			cur := map[string]map[string]val.Val{}
			ru := make([]string, 0, len(rows))
			for u := range rows {
				ru = append(ru, u)
			}
			sort.Strings(ru)
			for _, u := range ru {
				cur[u] = db.RowMap(rows[u], T)
				rowTerms = append(rowTerms, fmt.Sprintf("(%d%%N, %s)", syms.ID(u), dyn.CoqRow(syms, cur[u])))
			}
			if !uniqueFinal(cur) {
				clean = false
			}
			var groupTerms []string
			for _, s := range specs {
				parts := s.parts()
				dump, derr := rcache.Index(parts...)
				if derr != nil {
					return fmt.Errorf("Index(%v): %v", parts, derr)
				}
				var gs []string
				byKey := map[string][]string{}
				for _, us := range dump {
					sort.Strings(us)
					var ids []string
					for _, u := range us {
						ids = append(ids, fmt.Sprintf("%d%%N", syms.ID(u)))
					}
					gs = append(gs, "["+strings.Join(ids, "; ")+"]")
					byKey[strings.Join(us, ",")] = us
				}
				sort.Strings(gs)
				groupTerms = append(groupTerms, "["+strings.Join(gs, "; ")+"]")
				// oracle: the index is exactly the grouping of a scan of Rows()
				if clean || !s.Schema {
					scan := map[string][]string{}
					for _, u := range ru {
						k := propKey(db, s, cur[u])
						scan[k] = append(scan[k], u)
					}
					want := map[string]bool{}
					for _, us := range scan {
						want[strings.Join(us, ",")] = true
					}
					if len(want) != len(byKey) && oracle == "" {
						oracle = fmt.Sprintf("step %d: index %s has %d entries but a scan of the rows yields %d distinct values", si, s.name(), len(byKey), len(want))
					}
					for k := range byKey {
						if !want[k] && oracle == "" {
							oracle = fmt.Sprintf("step %d: index %s entry {%s} is not the set of rows a scan returns for that value", si, s.name(), k)
						}
					}
				}
			}
			// probes
			var probeTerms []string
			np := 3
			for pi := 0; pi < np && len(ru) > 0; pi++ {
				src := cur[ru[g.Intn(len(ru))]]
				if g.Chance(0.2) {
					src = genRow()
				}
				pv := map[string]val.Val{}
				for _, c := range c05Cols() {
					if g.Chance(0.6) {
						pv[c.Name] = src[c.Name]
					} else {
						pv[c.Name] = c.Default()
					}
				}
				pu := ""
				if g.Chance(0.25) {
					pu = ru[g.Intn(len(ru))]
				} else if g.Chance(0.1) {
					pu = gen.UUIDn(888888)
				}
				client := g.Chance(0.6)
				pm := db.Make(T, pu, pv)
				var hits []string
				if client {
					res, perr := rcache.RowsByModels([]model.Model{pm})
					if perr != nil {
						return perr
					}
					for u := range res {
						hits = append(hits, u)
					}
				} else {
					u, m, perr := rcache.RowByModel(pm)
					if perr != nil {
						return perr
					}
					if m != nil {
						hits = append(hits, u)
					}
				}
				sort.Strings(hits)
				var hs []string
				for _, u := range hits {
					hs = append(hs, fmt.Sprintf("%d%%N", syms.ID(u)))
				}
				pus := "None"
				if pu != "" {
					pus = fmt.Sprintf("(Some %d%%N)", syms.ID(pu))
				}
				probeTerms = append(probeTerms, fmt.Sprintf("C05.mkProbe %s %s %v [%s]", pus, dyn.CoqRow(syms, pv), client, strings.Join(hs, "; ")))
				// oracle: a hit through an index must carry the probed values on that index
			}
			stepTerms = append(stepTerms, fmt.Sprintf("(%s, C05.mkSnap %d%%nat [%s] [%s] [%s])", stepTerm, code,
				strings.Join(rowTerms, "; "), strings.Join(groupTerms, "; "), strings.Join(probeTerms, "; ")))
			stepJ["obs_err"] = code
			stepJ["obs_rows"] = len(rows)
			stepsJ = append(stepsJ, stepJ)
		}
		var specTerms []string
		for _, s := range specs {
			specTerms = append(specTerms, s.coq(syms))
		}
		term := fmt.Sprintf("C05.mk [%s] [%s]", strings.Join(specTerms, "; "), strings.Join(stepTerms, ";\n    "))
		w.Count("cfg:" + cfg.Name)
		if handover {
			w.Count("handover")
		}
		w.Add(emit.Case{
			Term:       term,
			JSON:       map[string]interface{}{"config": cfg.Name, "steps": stepsJ},
			Key:        term,
			Nontrivial: bigBatch && handover,
			Class:      fmt.Sprintf("steps%d", ns),
			Oracle:     oracle,
		})
	}
	if err := c05Collections(o, g, w); err != nil {
		return err
	}
	return w.Flush()
}
