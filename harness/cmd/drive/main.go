// drive runs the real libovsdb code (built from the repository named by the
// go.mod replace directive) on generated inputs and writes the observed
// cases as Gallina files for the correspondence check.
package main

import (
	"flag"
	"fmt"
	"os"
	"sort"
)

type opts struct {
	seed   int64
	tier   string
	out    string
	replay string
	n      int
}

var drivers = map[string]func(o opts) error{}

func main() {
	if len(os.Args) < 2 {
		usage()
	}
	prop := os.Args[1]
	fs := flag.NewFlagSet(prop, flag.ExitOnError)
	var o opts
	fs.Int64Var(&o.seed, "seed", 1, "PRNG seed")
	fs.StringVar(&o.tier, "tier", "quick", "quick|thorough")
	fs.StringVar(&o.out, "out", ".", "output directory")
	fs.StringVar(&o.replay, "replay", "", "replay file")
	fs.IntVar(&o.n, "n", 0, "override case count")
	fs.Parse(os.Args[2:])
	d, ok := drivers[prop]
	if !ok {
		usage()
	}
	if err := d(o); err != nil {
		fmt.Fprintf(os.Stderr, "drive %s: %v\n", prop, err)
		os.Exit(2)
	}
}

func usage() {
	var names []string
	for k := range drivers {
		names = append(names, k)
	}
	sort.Strings(names)
	fmt.Fprintf(os.Stderr, "usage: drive <%v> -seed N -tier quick|thorough -out DIR\n", names)
	os.Exit(2)
}
