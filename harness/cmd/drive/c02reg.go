package main

import (
	"encoding/json"
	"fmt"
	"math"
	"strings"

	"github.com/ovn-org/libovsdb/ovsdb"
	"github.com/ovn-org/libovsdb/server"

	"verifharness/dyn"
	"verifharness/emit"
	"verifharness/gen"
	"verifharness/val"
)

// regLab: a lab plus raw access to Transact / Commit of the in-memory database (recovering panics).
type regLab struct {
	lab *txnLab
}

func (r regLab) raw(dbName string, ops ...ovsdb.Operation) (res []*ovsdb.OperationResult, committed bool, panicked string) {
	defer func() {
		if p := recover(); p != nil {
			panicked = fmt.Sprint(p)
		}
	}()
	tr := r.lab.imdb.NewTransaction(dbName)
	res, upd := tr.Transact(ops...)
	for _, x := range res {
		if x != nil && x.Error != "" {
			return res, false, ""
		}
	}
	return res, r.lab.imdb.Commit(dbName, [16]byte{9}, upd) == nil, ""
}

func regReport(w *emit.Writer, name, failure string) {
	w.Count("regression:" + name)
	w.Add(emit.Case{Term: "Txn.mkCreate [] []", JSON: map[string]interface{}{"regression": name}, Key: "regression:" + name, Nontrivial: true, Class: "regression", Oracle: failure})
}

// c02Regressions: hand-written transactions about the shape of the reply of a failing transaction and about what a
// failing transaction leaves behind, for inputs the history generator cannot express (unknown columns, malformed
// uuids, a missing database, one uuid in two tables).
func c02Regressions(o opts, g *gen.G, syms *val.Syms, w *emit.Writer) error {
	lab, err := newTxnLab(c02Schema())
	if err != nil {
		return err
	}
	r := regLab{lab}
	q0 := gen.UUIDn(31)
	if ob := lab.run([]TOp{{Kind: "insert", Table: "Q", UUID: q0, Row: map[string]val.Val{"name": val.VA(val.Str("q0"))}}}); !ob.Committed {
		return fmt.Errorf("c02 regressions: populate failed")
	}
	// one result per operation up to and including the failing one: [select, insert, <bad>]
	bads := []struct {
		name string
		op   ovsdb.Operation
	}{
		{"unknown table", ovsdb.Operation{Op: "delete", Table: "Nope"}},
		{"unknown column in row", ovsdb.Operation{Op: "insert", Table: "Q", Row: ovsdb.Row{"nope": "x"}}},
		{"unknown column in where", ovsdb.Operation{Op: "select", Table: "Q", Where: []ovsdb.Condition{ovsdb.NewCondition("nope", ovsdb.ConditionEqual, "x")}}},
		{"invalid uuid", ovsdb.Operation{Op: "insert", Table: "Q", UUID: "not-a-uuid", Row: ovsdb.Row{"name": "x"}}},
		{"uuid-name given to two rows", ovsdb.Operation{Op: "insert", Table: "Q", UUIDName: "n1", Row: ovsdb.Row{"name": "y"}}},
	}
	for _, b := range bads {
		before, beforeRefs, _ := lab.state()
		good0 := ovsdb.Operation{Op: "select", Table: "Q", Where: []ovsdb.Condition{}}
		good1 := ovsdb.Operation{Op: "insert", Table: "Q", UUIDName: "n1", Row: ovsdb.Row{"name": "fresh"}}
		res, committed, panicked := r.raw(lab.name, good0, good1, b.op)
		failure := ""
		switch {
		case panicked != "":
			failure = "panic: " + panicked
		case committed:
			failure = "the transaction is committed"
		case len(res) != 3 || res[0] == nil || res[0].Error != "" || res[1] == nil || res[1].Error != "" || res[2] == nil || res[2].Error == "":
			failure = fmt.Sprintf("[select, insert, %s]: expected [result, result, error], got %s", b.name, showResults(res))
		}
		after, afterRefs, _ := lab.state()
		if failure == "" && stateKey(before, beforeRefs) != stateKey(after, afterRefs) {
			failure = "the failed transaction changed the database"
		}
		regReport(w, "reply shape: "+b.name, failure)
	}
	// a transaction without operations on a database that does not exist
	{
		_, committed, panicked := r.raw("no-such-database")
		failure := ""
		if panicked != "" {
			failure = "Transact() without operations on a missing database panics: " + panicked
		} else if committed {
			failure = "a transaction on a missing database is committed"
		}
		regReport(w, "empty transaction, missing database", failure)
	}
	// one uuid in two tables: deleting the row of one table must not hide the row of the other
	{
		u := gen.UUIDn(32)
		ob1 := lab.run([]TOp{{Kind: "insert", Table: "Q", UUID: u, Row: map[string]val.Val{"name": val.VA(val.Str("qu"))}}})
		ob2 := lab.run([]TOp{{Kind: "insert", Table: "P", UUID: u, Row: map[string]val.Val{"name": val.VA(val.Str("pu")), "w1": val.VS(val.Uuid(q0))}}})
		failure := ""
		if !ob1.Committed || !ob2.Committed {
			failure = "one uuid cannot be given to rows of two tables (set-up)"
		} else {
			before, beforeRefs, _ := lab.state()
			res, committed, panicked := r.raw(lab.name,
				ovsdb.Operation{Op: "delete", Table: "Q", Where: []ovsdb.Condition{ovsdb.NewCondition("_uuid", ovsdb.ConditionEqual, ovsdb.UUID{GoUUID: u})}},
				ovsdb.Operation{Op: "insert", Table: "P", UUID: u, Row: ovsdb.Row{"name": "other", "w1": ovsdb.UUID{GoUUID: q0}}})
			after, afterRefs, _ := lab.state()
			switch {
			case panicked != "":
				failure = "panic: " + panicked
			case committed:
				failure = "delete Q/u; insert P uuid=u is committed although P holds a row u"
			case len(res) < 2 || res[1] == nil || res[1].Error == "":
				failure = fmt.Sprintf("delete Q/u; insert P uuid=u (P holds a row u): the insert reports no error, the reply is %s although the transaction is not committed", showResults(res))
			case stateKey(before, beforeRefs) != stateKey(after, afterRefs):
				failure = "the refused transaction changed the database"
			}
		}
		regReport(w, "one uuid in two tables", failure)
	}
	return c02Requests(o, g, syms, w)
}

func showResults(res []*ovsdb.OperationResult) string {
	s := "["
	for i, r := range res {
		if i > 0 {
			s += ", "
		}
		switch {
		case r == nil:
			s += "null"
		case r.Error != "":
			s += "error(" + r.Error + ")"
		default:
			s += "result"
		}
	}
	return s + "]"
}

// c06Regressions: index configurations and values the history generator does not draw.
func c06Regressions(o opts, g *gen.G, syms *val.Syms, w *emit.Writer) error {
	if err := c06UpdateHistory(syms, w); err != nil {
		return err
	}
	sch := dyn.Schema{Name: "C06R", Tables: []dyn.Table{
		{Name: "A", IsRoot: true, Indexes: [][]string{{"r", "s"}}, Cols: []val.Col{{Name: "r", K: 'a', KT: 'r'}, {Name: "s", K: 'a', KT: 's'}}},
		{Name: "X", IsRoot: true, Indexes: [][]string{{"a", "b"}, {"b", "a"}}, Cols: []val.Col{{Name: "a", K: 'a', KT: 's'}, {Name: "b", K: 'a', KT: 's'}}},
		{Name: "T", IsRoot: true, Indexes: [][]string{{"name"}}, Cols: []val.Col{{Name: "name", K: 'a', KT: 's'}}},
		{Name: "O", IsRoot: true, Cols: []val.Col{{Name: "name", K: 'a', KT: 's'}}},
		{Name: "Y", IsRoot: true, Indexes: [][]string{{"p"}, {"q"}}, Cols: []val.Col{{Name: "p", K: 'a', KT: 's'}, {Name: "q", K: 'a', KT: 's'}}},
	}}
	lab, err := newTxnLab(sch)
	if err != nil {
		return err
	}
	r := regLab{lab}
	count := func(table string, pred func(ovsdb.Row) bool) int {
		res, _, _ := r.raw(lab.name, ovsdb.Operation{Op: "select", Table: table, Where: []ovsdb.Condition{}})
		n := 0
		if len(res) > 0 && res[0] != nil {
			for _, row := range res[0].Rows {
				if pred(row) {
					n++
				}
			}
		}
		return n
	}
	// zero and negative zero are one real
	{
		_, c1, p1 := r.raw(lab.name, ovsdb.Operation{Op: "insert", Table: "A", Row: ovsdb.Row{"r": 0.0, "s": "k"}})
		_, c2, p2 := r.raw(lab.name, ovsdb.Operation{Op: "insert", Table: "A", Row: ovsdb.Row{"r": math.Copysign(0, -1), "s": "k"}})
		failure := ""
		n := count("A", func(row ovsdb.Row) bool { f, _ := row["r"].(float64); return f == 0 && row["s"] == "k" })
		switch {
		case p1 != "" || p2 != "":
			failure = "panic: " + p1 + p2
		case !c1:
			failure = "insert A (0.0, k) is refused"
		case c2 || n > 1:
			failure = fmt.Sprintf("index [r s]: (0.0, k) is stored and insert (-0.0, k) is committed=%v; %d rows with r == 0 and s == k", c2, n)
		}
		regReport(w, "negative zero in a multi-column index", failure)
	}
	// the same index declared twice, columns in another order
	{
		_, c1, p1 := r.raw(lab.name, ovsdb.Operation{Op: "insert", Table: "X", Row: ovsdb.Row{"a": "x", "b": "y"}})
		_, c2, p2 := r.raw(lab.name, ovsdb.Operation{Op: "insert", Table: "X", Row: ovsdb.Row{"a": "y", "b": "x"}})
		failure := ""
		switch {
		case p1 != "" || p2 != "":
			failure = "panic: " + p1 + p2
		case !c1 || !c2:
			failure = fmt.Sprintf("indexes [a b] and [b a]: rows (x,y) and (y,x) differ in both columns, yet the inserts are committed=%v,%v", c1, c2)
		}
		if failure == "" {
			_, c3, _ := r.raw(lab.name, ovsdb.Operation{Op: "insert", Table: "X", Row: ovsdb.Row{"a": "x", "b": "y"}})
			if c3 {
				failure = "indexes [a b] and [b a]: a second row (x,y) is committed"
			}
		}
		regReport(w, "index declared twice", failure)
	}
	// deleting the row of another table with the same uuid must not hide a duplicate
	{
		u := gen.UUIDn(41)
		_, c1, _ := r.raw(lab.name, ovsdb.Operation{Op: "insert", Table: "T", UUID: u, Row: ovsdb.Row{"name": "x"}})
		_, c2, _ := r.raw(lab.name, ovsdb.Operation{Op: "insert", Table: "O", UUID: u, Row: ovsdb.Row{"name": "o"}})
		failure := ""
		if !c1 || !c2 {
			failure = "one uuid cannot be given to rows of two tables (set-up)"
		} else {
			_, c3, p3 := r.raw(lab.name,
				ovsdb.Operation{Op: "delete", Table: "O", Where: []ovsdb.Condition{ovsdb.NewCondition("_uuid", ovsdb.ConditionEqual, ovsdb.UUID{GoUUID: u})}},
				ovsdb.Operation{Op: "insert", Table: "T", Row: ovsdb.Row{"name": "x"}})
			n := count("T", func(row ovsdb.Row) bool { return row["name"] == "x" })
			switch {
			case p3 != "":
				failure = "panic: " + p3
			case c3 || n > 1:
				failure = fmt.Sprintf("T/u has name x, O/u exists; delete O/u; insert T{name:x} is committed=%v and T holds %d rows named x", c3, n)
			}
		}
		regReport(w, "duplicate hidden by a delete in another table", failure)
	}
	// a conflict with a row that leaves on one index must not hide the conflict with a row that stays on another
	for vi, variant := range []string{"delete", "update"} {
		a, b := gen.UUIDn(50+2*vi), gen.UUIDn(51+2*vi)
		pa, qa, pb, qb := fmt.Sprintf("p%da", vi), fmt.Sprintf("q%da", vi), fmt.Sprintf("p%db", vi), fmt.Sprintf("q%db", vi)
		_, c1, _ := r.raw(lab.name, ovsdb.Operation{Op: "insert", Table: "Y", UUID: a, Row: ovsdb.Row{"p": pa, "q": qa}},
			ovsdb.Operation{Op: "insert", Table: "Y", UUID: b, Row: ovsdb.Row{"p": pb, "q": qb}})
		failure := ""
		if !c1 {
			failure = "set-up of table Y failed"
		}
		byA := []ovsdb.Condition{ovsdb.NewCondition("_uuid", ovsdb.ConditionEqual, ovsdb.UUID{GoUUID: a})}
		leave := ovsdb.Operation{Op: "delete", Table: "Y", Where: byA}
		if variant == "update" {
			leave = ovsdb.Operation{Op: "update", Table: "Y", Where: byA, Row: ovsdb.Row{"p": pa + "-moved", "q": qa + "-moved"}}
		}
		for _, nr := range []ovsdb.Row{{"p": pa, "q": qb}, {"p": pb, "q": qa}} {
			if failure != "" {
				break
			}
			_, c2, p2 := r.raw(lab.name, leave, ovsdb.Operation{Op: "insert", Table: "Y", Row: nr})
			np := count("Y", func(row ovsdb.Row) bool { return row["p"] == nr["p"] })
			nq := count("Y", func(row ovsdb.Row) bool { return row["q"] == nr["q"] })
			switch {
			case p2 != "":
				failure = "panic: " + p2
			case c2 || np > 1 || nq > 1:
				failure = fmt.Sprintf("indexes [p] [q], rows A(%s,%s) B(%s,%s): %s A; insert (%v,%v) is committed=%v - %d rows with that p, %d with that q", pa, qa, pb, qb, variant, nr["p"], nr["q"], c2, np, nq)
			}
		}
		regReport(w, "conflict with a departing row hides one with a row that stays ("+variant+")", failure)
	}
	return nil
}

// c02Requests: "transact" requests as the server receives them, one argument of which cannot be decoded as an
// operation. The operations before it are executed and have their results, the syntax error follows (whatever the
// checks made at the end of a transaction would say about them), nothing is committed. Compared with
// [server_transact] (Db/NamedUUID.v) and judged by a direct oracle.
func c02Requests(o opts, g *gen.G, syms *val.Syms, w *emit.Writer) error {
	n := 30
	if o.tier == "thorough" {
		n = 600
	}
	garbage := []string{
		`{"op":"insert","table":42}`,
		`{"op":"mutate","table":"P","where":[],"mutations":[["n","bogus",1]]}`,
		`["set",5]`,
		`{"op":"select","table":"P","where":[["name","=="]]}`,
		`{"op":"select","table":"P","where":[["name","~~","x"]]}`,
		`{"op":"wait","table":"P","timeout":"soon","where":[],"until":"==","rows":[]}`,
		`5`,
		`{"op":"update","table":"P","where":[],"row":{"ss":["set",5]}}`,
	}
	for ci := 0; ci < n; ci++ {
		sc := c02Schema()
		lab, err := newTxnLab(sc)
		if err != nil {
			return err
		}
		srv, err := server.NewOvsdbServer(lab.imdb, lab.db.Model)
		if err != nil {
			return err
		}
		tg := &txnGen{g: g, sc: sc, state: map[string]map[string]map[string]val.Val{}, pool: 3, pSelect: 0.15, pWait: 0.05, pInvalid: 0.25, dangling: 0.1}
		st, refs, _ := lab.state()
		tg.state = st
		var txnTerms []string
		var txnJ []interface{}
		failure := ""
		nt := 1 + g.Intn(2)
		for ti := 0; ti < nt; ti++ {
			ops := tg.txn(4)
			if ti == 0 {
				ops = c02Seed(tg)
			}
			ob := lab.run(ops)
			for i := range ops {
				if ops[i].Kind == "insert" && ops[i].UUID == "" {
					if i < len(ob.Results) && ob.Results[i].Kind == "uuid" {
						ops[i].UUID = ob.Results[i].UUID
					} else {
						ops[i].UUID = gen.UUIDn(710000 + ti*16 + i)
					}
				}
			}
			if ob.Panic != "" && failure == "" {
				failure = fmt.Sprintf("transaction %d: panic: %s", ti, ob.Panic)
			}
			st, refs = ob.State, ob.Refs
			tg.state = st
			var opJ []interface{}
			for _, op := range ops {
				opJ = append(opJ, op.json())
			}
			txnTerms = append(txnTerms, fmt.Sprintf("(%s,\n     %s)", coqTxn(syms, ops), lab.coqObs(syms, ob)))
			txnJ = append(txnJ, map[string]interface{}{"ops": opJ, "observed": jsonObs(ob)})
		}
		// the request
		var ops []TOp
		switch ci % 5 {
		case 0:
			// two rows that collide in the index on "name": only the check at the end of a transaction would notice
			nm := val.VA(val.Str(fmt.Sprintf("dup%d", ci)))
			q := tg.uuidsOf("Q")
			w1 := val.VS(val.Uuid(q[0]))
			ops = []TOp{{Kind: "insert", Table: "P", UUID: tg.fresh(), Row: map[string]val.Val{"name": nm, "w1": w1}},
				{Kind: "insert", Table: "P", UUID: tg.fresh(), Row: map[string]val.Val{"name": nm, "w1": w1}}}
		case 1:
			// a strong reference to a row that does not exist: refused at the end of a transaction only
			q := tg.uuidsOf("Q")
			ops = []TOp{{Kind: "insert", Table: "P", UUID: tg.fresh(), Row: map[string]val.Val{"name": val.VA(val.Str(fmt.Sprintf("dangling%d", ci))),
				"w1": val.VS(val.Uuid(q[0])), "kids": val.VS(val.Uuid(gen.UUIDn(999000 + ci)))}}}
		default:
			ops = tg.txn(4)
		}
		k := g.Intn(len(ops) + 1)
		if ci%5 < 2 {
			k = len(ops)
		}
		bad := garbage[g.Intn(len(garbage))]
		var probe ovsdb.Operation
		if json.Unmarshal([]byte(bad), &probe) == nil {
			failure = fmt.Sprintf("the argument %s is decoded as an operation", bad)
		}
		args := []json.RawMessage{json.RawMessage(fmt.Sprintf("%q", lab.name))}
		var argTerms []string
		var argJ []interface{}
		var shown []TOp
		for i := 0; i <= len(ops); i++ {
			if i == k {
				args = append(args, json.RawMessage(bad))
				argTerms = append(argTerms, "None")
				argJ = append(argJ, json.RawMessage(bad))
				shown = append(shown, TOp{Kind: "other"})
			}
			if i < len(ops) {
				b, err := json.Marshal(ops[i].operation(lab.db))
				if err != nil {
					return err
				}
				args = append(args, b)
			}
		}
		var reply []*ovsdb.OperationResult
		panicked := ""
		var rerr error
		func() {
			defer func() {
				if p := recover(); p != nil {
					panicked = fmt.Sprint(p)
				}
			}()
			rerr = srv.Transact(nil, args, &reply)
		}()
		// uuids the server chose for the inserts it executed
		ri := 0
		for i := 0; i <= len(ops); i++ {
			if i == k {
				ri++
			}
			if i < len(ops) {
				if ops[i].Kind == "insert" && ops[i].UUID == "" {
					if ri < len(reply) && reply[ri] != nil && reply[ri].Error == "" {
						ops[i].UUID = reply[ri].UUID.GoUUID
					} else {
						ops[i].UUID = gen.UUIDn(720000 + i)
					}
				}
				ri++
			}
		}
		shown = nil
		for i := 0; i <= len(ops); i++ {
			if i == k {
				shown = append(shown, TOp{Kind: "other"})
			}
			if i < len(ops) {
				shown = append(shown, ops[i])
			}
		}
		argTerms = nil
		argJ = nil
		for _, op := range shown {
			if op.Kind == "other" && op.OpName == "" && op.Table == "" {
				argTerms = append(argTerms, "None")
				argJ = append(argJ, bad)
			} else {
				argTerms = append(argTerms, "Some "+op.coqNamed(syms))
				argJ = append(argJ, op.json())
			}
		}
		results := lab.convertResults(shown, reply)
		after, afterRefs, _ := lab.state()
		if failure == "" {
			switch {
			case panicked != "":
				failure = "the server's Transact panics: " + panicked
			case rerr != nil:
				failure = fmt.Sprintf("the request is answered with an error instead of results: %v", rerr)
			case len(results) != len(shown):
				failure = fmt.Sprintf("the reply has %d results for %d operations: %s", len(results), len(shown), showResults(reply))
			case stateKey(st, refs) != stateKey(after, afterRefs):
				failure = "a request with an operation that cannot be decoded changed the database"
			default:
				first := -1
				for i, r := range results {
					if r.Kind == "err" && first < 0 {
						first = i
					}
					if first < 0 && r.Kind == "null" {
						failure = fmt.Sprintf("result %d is null although no operation before it failed: %s", i, showResults(reply))
					}
					if first >= 0 && i > first && r.Kind != "null" {
						failure = fmt.Sprintf("operation %d failed but result %d is not null: %s", first, i, showResults(reply))
					}
				}
				if failure == "" && (first < 0 || first > k) {
					failure = fmt.Sprintf("operation %d cannot be decoded but the first error is at %d: %s", k, first, showResults(reply))
				}
				if failure == "" && first == k && reply[k].Error != "syntax error" {
					failure = fmt.Sprintf("every operation before operation %d succeeded and it cannot be decoded, but its result is %q (%s), not a syntax error", k, reply[k].Error, reply[k].Details)
				}
			}
		}
		term := fmt.Sprintf("Txn.mkReq (%s)\n   [%s]\n   [%s]\n   %s", dyn.CoqSchema(syms, sc), strings.Join(txnTerms, ";\n    "), strings.Join(argTerms, ";\n    "), coqResults(syms, results))
		w.Count("request:undecodable operation")
		w.Count(fmt.Sprintf("request:garbage at %d of %d", k, len(ops)))
		w.Add(emit.Case{Term: term, JSON: map[string]interface{}{"schema": sc.JSON(), "transactions": txnJ, "request": argJ, "reply": showResults(reply)},
			Key: term, Nontrivial: k > 0, Class: "request", Oracle: failure})
	}
	return nil
}

// c06UpdateHistory: the values of two declared indexes of a row move in one committed update, then the value of one of
// them moves alone; the row still owns its value of the other index, so a second row claiming it is refused - and the
// same with the roles of the indexes exchanged (a correspondence case: the model runs the same history).
func c06UpdateHistory(syms *val.Syms, w *emit.Writer) error {
	sc := c06SchemaN(0) // indexes [name] and [x y]
	r1, r2 := gen.UUIDn(31), gen.UUIDn(32)
	by := func(u string) []Cond { return []Cond{{Col: "_uuid", Fn: "==", Arg: val.VA(val.Uuid(u))}} }
	row := func(name string, x int64, y string) map[string]val.Val {
		return map[string]val.Val{"name": val.VA(val.Str(name)), "x": val.VA(val.Int(x)), "y": val.VA(val.Str(y))}
	}
	refused := map[int]string{}
	var txns [][]TOp
	add := func(mustRefuse string, ops ...TOp) {
		if mustRefuse != "" {
			refused[len(txns)] = mustRefuse
		}
		txns = append(txns, ops)
	}
	add("", TOp{Kind: "insert", Table: "A", UUID: r1, Row: row("a", 1, "p")}, TOp{Kind: "insert", Table: "A", UUID: r2, Row: row("b", 2, "q")})
	add("", TOp{Kind: "update", Table: "A", Where: by(r1), Row: map[string]val.Val{"name": val.VA(val.Str("a2")), "x": val.VA(val.Int(5))}})
	add("", TOp{Kind: "update", Table: "A", Where: by(r1), Row: map[string]val.Val{"name": val.VA(val.Str("a3"))}})
	add("a second row with the (x, y) of the first", TOp{Kind: "insert", Table: "A", UUID: gen.UUIDn(33), Row: row("c", 5, "p")})
	add("", TOp{Kind: "update", Table: "A", Where: by(r2), Row: map[string]val.Val{"name": val.VA(val.Str("b2")), "y": val.VA(val.Str("q2"))}})
	add("", TOp{Kind: "update", Table: "A", Where: by(r2), Row: map[string]val.Val{"x": val.VA(val.Int(7))}})
	add("a second row with the name of the second", TOp{Kind: "insert", Table: "A", UUID: gen.UUIDn(34), Row: row("b2", 9, "z")})
	add("", TOp{Kind: "insert", Table: "A", UUID: gen.UUIDn(35), Row: row("a2", 1, "p")}) // values the first row has left are free again
	return emitHistory(w, syms, sc, "indexes after updates", txns,
		func(ti int, ops []TOp, before map[string]map[string]map[string]val.Val, ob tObs) string {
			if what, ok := refused[ti]; ok {
				if ob.Committed {
					return what + " is committed"
				}
				return ""
			}
			if !ob.Committed {
				return "a transaction that creates no duplicate is refused: " + describeOp(ops[0])
			}
			return ""
		})
}
