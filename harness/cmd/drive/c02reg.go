package main

import (
	"fmt"
	"math"

	"github.com/ovn-org/libovsdb/ovsdb"

	"verifharness/dyn"
	"verifharness/emit"
	"verifharness/gen"
	"verifharness/val"
)

// regLab: a lab plus raw access to Transact / Commit of the in-memory database (recovering panics).
type regLab struct {
	lab *txnLab
}

func (r regLab) raw(dbName string, ops ...ovsdb.Operation) (res []*ovsdb.OperationResult, committed bool, panicked string) {
	defer func() {
		if p := recover(); p != nil {
			panicked = fmt.Sprint(p)
		}
	}()
	tr := r.lab.imdb.NewTransaction(dbName)
	res, upd := tr.Transact(ops...)
	for _, x := range res {
		if x != nil && x.Error != "" {
			return res, false, ""
		}
	}
	return res, r.lab.imdb.Commit(dbName, [16]byte{9}, upd) == nil, ""
}

func regReport(w *emit.Writer, name, failure string) {
	w.Count("regression:" + name)
	w.Add(emit.Case{Term: "Txn.mkCreate [] []", JSON: map[string]interface{}{"regression": name}, Key: "regression:" + name, Nontrivial: true, Class: "regression", Oracle: failure})
}

// c02Regressions: hand-written transactions about the shape of the reply of a failing transaction and about what a
// failing transaction leaves behind, for inputs the history generator cannot express (unknown columns, malformed
// uuids, a missing database, one uuid in two tables).
func c02Regressions(o opts, g *gen.G, syms *val.Syms, w *emit.Writer) error {
	lab, err := newTxnLab(c02Schema())
	if err != nil {
		return err
	}
	r := regLab{lab}
	q0 := gen.UUIDn(31)
	if ob := lab.run([]TOp{{Kind: "insert", Table: "Q", UUID: q0, Row: map[string]val.Val{"name": val.VA(val.Str("q0"))}}}); !ob.Committed {
		return fmt.Errorf("c02 regressions: populate failed")
	}
	// one result per operation up to and including the failing one: [select, insert, <bad>]
	bads := []struct {
		name string
		op   ovsdb.Operation
	}{
		{"unknown table", ovsdb.Operation{Op: "delete", Table: "Nope"}},
		{"unknown column in row", ovsdb.Operation{Op: "insert", Table: "Q", Row: ovsdb.Row{"nope": "x"}}},
		{"unknown column in where", ovsdb.Operation{Op: "select", Table: "Q", Where: []ovsdb.Condition{ovsdb.NewCondition("nope", ovsdb.ConditionEqual, "x")}}},
		{"invalid uuid", ovsdb.Operation{Op: "insert", Table: "Q", UUID: "not-a-uuid", Row: ovsdb.Row{"name": "x"}}},
		{"uuid-name given to two rows", ovsdb.Operation{Op: "insert", Table: "Q", UUIDName: "n1", Row: ovsdb.Row{"name": "y"}}},
	}
	for _, b := range bads {
		before, beforeRefs, _ := lab.state()
		good0 := ovsdb.Operation{Op: "select", Table: "Q", Where: []ovsdb.Condition{}}
		good1 := ovsdb.Operation{Op: "insert", Table: "Q", UUIDName: "n1", Row: ovsdb.Row{"name": "fresh"}}
		res, committed, panicked := r.raw(lab.name, good0, good1, b.op)
		failure := ""
		switch {
		case panicked != "":
			failure = "panic: " + panicked
		case committed:
			failure = "the transaction is committed"
		case len(res) != 3 || res[0] == nil || res[0].Error != "" || res[1] == nil || res[1].Error != "" || res[2] == nil || res[2].Error == "":
			failure = fmt.Sprintf("[select, insert, %s]: expected [result, result, error], got %s", b.name, showResults(res))
		}
		after, afterRefs, _ := lab.state()
		if failure == "" && stateKey(before, beforeRefs) != stateKey(after, afterRefs) {
			failure = "the failed transaction changed the database"
		}
		regReport(w, "reply shape: "+b.name, failure)
	}
	// a transaction without operations on a database that does not exist
	{
		_, committed, panicked := r.raw("no-such-database")
		failure := ""
		if panicked != "" {
			failure = "Transact() without operations on a missing database panics: " + panicked
		} else if committed {
			failure = "a transaction on a missing database is committed"
		}
		regReport(w, "empty transaction, missing database", failure)
	}
	// one uuid in two tables: deleting the row of one table must not hide the row of the other
	{
		u := gen.UUIDn(32)
		ob1 := lab.run([]TOp{{Kind: "insert", Table: "Q", UUID: u, Row: map[string]val.Val{"name": val.VA(val.Str("qu"))}}})
		ob2 := lab.run([]TOp{{Kind: "insert", Table: "P", UUID: u, Row: map[string]val.Val{"name": val.VA(val.Str("pu")), "w1": val.VS(val.Uuid(q0))}}})
		failure := ""
		if !ob1.Committed || !ob2.Committed {
			failure = "one uuid cannot be given to rows of two tables (set-up)"
		} else {
			before, beforeRefs, _ := lab.state()
			res, committed, panicked := r.raw(lab.name,
				ovsdb.Operation{Op: "delete", Table: "Q", Where: []ovsdb.Condition{ovsdb.NewCondition("_uuid", ovsdb.ConditionEqual, ovsdb.UUID{GoUUID: u})}},
				ovsdb.Operation{Op: "insert", Table: "P", UUID: u, Row: ovsdb.Row{"name": "other", "w1": ovsdb.UUID{GoUUID: q0}}})
			after, afterRefs, _ := lab.state()
			switch {
			case panicked != "":
				failure = "panic: " + panicked
			case committed:
				failure = "delete Q/u; insert P uuid=u is committed although P holds a row u"
			case len(res) < 2 || res[1] == nil || res[1].Error == "":
				failure = fmt.Sprintf("delete Q/u; insert P uuid=u (P holds a row u): the insert reports no error, the reply is %s although the transaction is not committed", showResults(res))
			case stateKey(before, beforeRefs) != stateKey(after, afterRefs):
				failure = "the refused transaction changed the database"
			}
		}
		regReport(w, "one uuid in two tables", failure)
	}
	return nil
}

func showResults(res []*ovsdb.OperationResult) string {
	s := "["
	for i, r := range res {
		if i > 0 {
			s += ", "
		}
		switch {
		case r == nil:
			s += "null"
		case r.Error != "":
			s += "error(" + r.Error + ")"
		default:
			s += "result"
		}
	}
	return s + "]"
}

// c06Regressions: index configurations and values the history generator does not draw.
func c06Regressions(o opts, g *gen.G, syms *val.Syms, w *emit.Writer) error {
	sch := dyn.Schema{Name: "C06R", Tables: []dyn.Table{
		{Name: "A", IsRoot: true, Indexes: [][]string{{"r", "s"}}, Cols: []val.Col{{Name: "r", K: 'a', KT: 'r'}, {Name: "s", K: 'a', KT: 's'}}},
		{Name: "X", IsRoot: true, Indexes: [][]string{{"a", "b"}, {"b", "a"}}, Cols: []val.Col{{Name: "a", K: 'a', KT: 's'}, {Name: "b", K: 'a', KT: 's'}}},
		{Name: "T", IsRoot: true, Indexes: [][]string{{"name"}}, Cols: []val.Col{{Name: "name", K: 'a', KT: 's'}}},
		{Name: "O", IsRoot: true, Cols: []val.Col{{Name: "name", K: 'a', KT: 's'}}},
	}}
	lab, err := newTxnLab(sch)
	if err != nil {
		return err
	}
	r := regLab{lab}
	count := func(table string, pred func(ovsdb.Row) bool) int {
		res, _, _ := r.raw(lab.name, ovsdb.Operation{Op: "select", Table: table, Where: []ovsdb.Condition{}})
		n := 0
		if len(res) > 0 && res[0] != nil {
			for _, row := range res[0].Rows {
				if pred(row) {
					n++
				}
			}
		}
		return n
	}
	// zero and negative zero are one real
	{
		_, c1, p1 := r.raw(lab.name, ovsdb.Operation{Op: "insert", Table: "A", Row: ovsdb.Row{"r": 0.0, "s": "k"}})
		_, c2, p2 := r.raw(lab.name, ovsdb.Operation{Op: "insert", Table: "A", Row: ovsdb.Row{"r": math.Copysign(0, -1), "s": "k"}})
		failure := ""
		n := count("A", func(row ovsdb.Row) bool { f, _ := row["r"].(float64); return f == 0 && row["s"] == "k" })
		switch {
		case p1 != "" || p2 != "":
			failure = "panic: " + p1 + p2
		case !c1:
			failure = "insert A (0.0, k) is refused"
		case c2 || n > 1:
			failure = fmt.Sprintf("index [r s]: (0.0, k) is stored and insert (-0.0, k) is committed=%v; %d rows with r == 0 and s == k", c2, n)
		}
		regReport(w, "negative zero in a multi-column index", failure)
	}
	// the same index declared twice, columns in another order
	{
		_, c1, p1 := r.raw(lab.name, ovsdb.Operation{Op: "insert", Table: "X", Row: ovsdb.Row{"a": "x", "b": "y"}})
		_, c2, p2 := r.raw(lab.name, ovsdb.Operation{Op: "insert", Table: "X", Row: ovsdb.Row{"a": "y", "b": "x"}})
		failure := ""
		switch {
		case p1 != "" || p2 != "":
			failure = "panic: " + p1 + p2
		case !c1 || !c2:
			failure = fmt.Sprintf("indexes [a b] and [b a]: rows (x,y) and (y,x) differ in both columns, yet the inserts are committed=%v,%v", c1, c2)
		}
		if failure == "" {
			_, c3, _ := r.raw(lab.name, ovsdb.Operation{Op: "insert", Table: "X", Row: ovsdb.Row{"a": "x", "b": "y"}})
			if c3 {
				failure = "indexes [a b] and [b a]: a second row (x,y) is committed"
			}
		}
		regReport(w, "index declared twice", failure)
	}
	// deleting the row of another table with the same uuid must not hide a duplicate
	{
		u := gen.UUIDn(41)
		_, c1, _ := r.raw(lab.name, ovsdb.Operation{Op: "insert", Table: "T", UUID: u, Row: ovsdb.Row{"name": "x"}})
		_, c2, _ := r.raw(lab.name, ovsdb.Operation{Op: "insert", Table: "O", UUID: u, Row: ovsdb.Row{"name": "o"}})
		failure := ""
		if !c1 || !c2 {
			failure = "one uuid cannot be given to rows of two tables (set-up)"
		} else {
			_, c3, p3 := r.raw(lab.name,
				ovsdb.Operation{Op: "delete", Table: "O", Where: []ovsdb.Condition{ovsdb.NewCondition("_uuid", ovsdb.ConditionEqual, ovsdb.UUID{GoUUID: u})}},
				ovsdb.Operation{Op: "insert", Table: "T", Row: ovsdb.Row{"name": "x"}})
			n := count("T", func(row ovsdb.Row) bool { return row["name"] == "x" })
			switch {
			case p3 != "":
				failure = "panic: " + p3
			case c3 || n > 1:
				failure = fmt.Sprintf("T/u has name x, O/u exists; delete O/u; insert T{name:x} is committed=%v and T holds %d rows named x", c3, n)
			}
		}
		regReport(w, "duplicate hidden by a delete in another table", failure)
	}
	return nil
}
