package main

import (
	"fmt"
	"github.com/ovn-org/libovsdb/ovsdb"
	"sort"
	"strings"

	"verifharness/dyn"
	"verifharness/emit"
	"verifharness/gen"
	"verifharness/val"
)

func init() {
	drivers["C02"] = driveC02
	drivers["C06"] = driveC06
	drivers["C04"] = driveC04
}

// ---------------------------------------------------------------------------
// direct oracles on the implementation (independent of the Coq model)

func hasError(ob tObs) bool {
	for _, r := range ob.Results {
		if r.Kind == "err" {
			return true
		}
	}
	return false
}

// oracleAtomic: a failed transaction changes nothing; the reply has a legal shape.
func oracleAtomic(lab *txnLab, before map[string]map[string]map[string]val.Val, beforeRefs []oRef, ops []TOp, ob tObs) string {
	n := len(ops)
	firstErr := -1
	for i, r := range ob.Results {
		if r.Kind == "err" && firstErr < 0 {
			firstErr = i
		}
	}
	switch {
	case firstErr < 0:
		if len(ob.Results) != n {
			return fmt.Sprintf("reply has %d results for %d operations", len(ob.Results), n)
		}
		for i, r := range ob.Results {
			if r.Kind == "null" {
				return fmt.Sprintf("result %d is null although no operation failed", i)
			}
		}
	case firstErr < n:
		if len(ob.Results) != n {
			return fmt.Sprintf("operation %d failed but the reply has %d results for %d operations", firstErr, len(ob.Results), n)
		}
		for i := firstErr + 1; i < n; i++ {
			if ob.Results[i].Kind != "null" {
				return fmt.Sprintf("operation %d failed but result %d is not null", firstErr, i)
			}
		}
		for i := 0; i < firstErr; i++ {
			if ob.Results[i].Kind == "null" {
				return fmt.Sprintf("operation %d is the first to fail but result %d, of an operation before it, is null", firstErr, i)
			}
		}
	default:
		if len(ob.Results) != n+1 || firstErr != n {
			return fmt.Sprintf("commit-time error at position %d of %d results for %d operations", firstErr, len(ob.Results), n)
		}
	}
	if firstErr >= 0 && stateKey(before, beforeRefs) != stateKey(ob.State, ob.Refs) {
		return fmt.Sprintf("the transaction failed (result %d: %s) but the database or its reference index changed", firstErr, ob.Results[firstErr].Msg)
	}
	if firstErr >= 0 {
		// ... also as seen through its indexes: every row is found by the value it holds in an indexed column
		if msg := lab.indexProbe(ob.State); msg != "" {
			return fmt.Sprintf("the transaction failed (result %d: %s) and left the database changed: %s", firstErr, ob.Results[firstErr].Msg, msg)
		}
	}
	// all: a committed transaction applied every operation - an insert into a root table that reported success
	// and is not deleted again later in the transaction is stored
	if firstErr < 0 && ob.Committed {
		for i, op := range ops {
			if op.Kind != "insert" || op.UUID == "" || i >= len(ob.Results) || ob.Results[i].Kind != "uuid" {
				continue
			}
			t := lab.db.Spec.Table(op.Table)
			if t == nil || !t.IsRoot {
				continue
			}
			deletedLater := false
			for _, op2 := range ops[i+1:] {
				if op2.Kind == "delete" && op2.Table == op.Table {
					deletedLater = true
				}
			}
			if _, ok := ob.State[op.Table][op.UUID]; !ok && !deletedLater {
				return fmt.Sprintf("the transaction committed and operation %d reported the insert of row %s into %s, but the row is not stored (only part of the transaction was applied)", i, op.UUID, op.Table)
			}
		}
	}
	return ""
}

// oracleUnique: no two rows agree on all columns of a schema index.
func oracleUnique(lab *txnLab, before map[string]map[string]map[string]val.Val, beforeRefs []oRef, ops []TOp, ob tObs) string {
	for _, t := range lab.db.Spec.Tables {
		for _, idx := range t.Indexes {
			seen := map[string]string{}
			for u, r := range ob.State[t.Name] {
				var ks []string
				for _, c := range idx {
					ks = append(ks, r[c].Key())
				}
				k := strings.Join(ks, "\x01")
				if other, ok := seen[k]; ok {
					return fmt.Sprintf("rows %s and %s of table %s have equal values in index %v after the transaction", other, u, t.Name, idx)
				}
				seen[k] = u
			}
		}
	}
	return oracleAtomic(lab, before, beforeRefs, ops, ob)
}

type refPos struct {
	table, uuid, col string
	isValue          bool
	toTable, to      string
	strong           bool
}

func rowRefs(t *dyn.Table, u string, r map[string]val.Val) []refPos {
	var out []refPos
	add := func(c val.Col, isVal bool, rt, rty string, a val.Atom) {
		if rt != "" && a.T == 'u' && a.S != "" {
			out = append(out, refPos{t.Name, u, c.Name, isVal, rt, a.S, rty != "weak"})
		}
	}
	for _, c := range t.Cols {
		v := r[c.Name]
		switch v.K {
		case 'a':
			add(c, false, c.RefTable, c.RefType, v.A)
		case 'o':
			if v.Has {
				add(c, false, c.RefTable, c.RefType, v.A)
			}
		case 's':
			for _, a := range v.Set {
				add(c, false, c.RefTable, c.RefType, a)
			}
		case 'm':
			for _, p := range v.Map {
				add(c, false, c.RefTable, c.RefType, p[0])
				add(c, true, c.VRefTable, c.VRefType, p[1])
			}
		}
	}
	return out
}

func isRootTable(sc dyn.Schema, t *dyn.Table) bool {
	any := false
	for _, x := range sc.Tables {
		if x.IsRoot {
			any = true
		}
	}
	return !any || t.IsRoot
}

// oracleRI recomputes referential integrity and the reference index from the stored rows.
func oracleRI(lab *txnLab, before map[string]map[string]map[string]val.Val, beforeRefs []oRef, ops []TOp, ob tObs) string {
	sc := lab.db.Spec
	var all []refPos
	for i := range sc.Tables {
		t := &sc.Tables[i]
		for u, r := range ob.State[t.Name] {
			all = append(all, rowRefs(t, u, r)...)
			// weak references were pruned below the column's minimum: the column had enough elements before the
			// transaction and no operation of the transaction writes it (the library does not check the bounds of what
			// operations write - known finding C03 class 14 - so only the pruning can be blamed)
			prev, existed := before[t.Name][u]
			if !existed || !ob.Committed {
				continue
			}
			for _, c := range t.Cols {
				n := len(r[c.Name].Set) + len(r[c.Name].Map)
				pn := len(prev[c.Name].Set) + len(prev[c.Name].Map)
				if (c.K != 's' && c.K != 'm') || n >= c.Min || pn < c.Min {
					continue
				}
				written := false
				for _, op := range ops {
					if op.Table != t.Name {
						continue
					}
					if _, ok := op.Row[c.Name]; ok {
						written = true
					}
					for _, m := range op.Muts {
						written = written || m.Col == c.Name
					}
				}
				if !written {
					return fmt.Sprintf("row %s of %s: removing weak references left column %s with %d elements, its minimum is %d, and the transaction was committed", u, t.Name, c.Name, n, c.Min)
				}
			}
		}
	}
	strongTo := map[string]bool{}
	for _, rp := range all {
		_, exists := ob.State[rp.toTable][rp.to]
		if !exists && rp.strong {
			return fmt.Sprintf("row %s of %s column %s holds a strong reference to missing row %s of %s", rp.uuid, rp.table, rp.col, rp.to, rp.toTable)
		}
		if !exists && !rp.strong {
			return fmt.Sprintf("row %s of %s column %s holds a weak reference to missing row %s of %s", rp.uuid, rp.table, rp.col, rp.to, rp.toTable)
		}
		if rp.strong {
			strongTo[rp.toTable+"/"+rp.to] = true
		}
	}
	for i := range sc.Tables {
		t := &sc.Tables[i]
		if isRootTable(sc, t) {
			continue
		}
		for u := range ob.State[t.Name] {
			if !strongTo[t.Name+"/"+u] {
				return fmt.Sprintf("row %s of non-root table %s is not strongly referenced by any row", u, t.Name)
			}
		}
	}
	// the reference index equals the references recomputed from the rows
	var want []string
	for _, rp := range all {
		want = append(want, fmt.Sprint(oRef{rp.table, rp.uuid, rp.col, rp.isValue, rp.toTable, rp.to}))
	}
	var got []string
	for _, r := range ob.Refs {
		got = append(got, fmt.Sprint(r))
	}
	sort.Strings(want)
	sort.Strings(got)
	want = uniq(want)
	got = uniq(got)
	if strings.Join(want, ";") != strings.Join(got, ";") {
		return fmt.Sprintf("GetReferences differs from the references recomputed from the stored rows: index has %d entries, rows hold %d", len(got), len(want))
	}
	return oracleAtomic(lab, before, beforeRefs, ops, ob)
}

func uniq(l []string) []string {
	var out []string
	for i, x := range l {
		if i == 0 || x != l[i-1] {
			out = append(out, x)
		}
	}
	return out
}

// ---------------------------------------------------------------------------
// schemas

func c02Schema() dyn.Schema {
	return dyn.Schema{Name: "C02", Tables: []dyn.Table{
		{Name: "P", IsRoot: true, Indexes: [][]string{{"name"}}, Cols: []val.Col{
			{Name: "name", K: 'a', KT: 's'}, {Name: "n", K: 'a', KT: 'i'}, {Name: "im", K: 'a', KT: 's', Immutable: true},
			{Name: "kids", K: 's', KT: 'u', Max: -1, RefTable: "C", RefType: "strong"},
			{Name: "w1", K: 's', KT: 'u', Min: 1, Max: -1, RefTable: "Q", RefType: "weak"},
			{Name: "wo", K: 'o', KT: 'u', RefTable: "Q", RefType: "weak"},
			{Name: "ss", K: 's', KT: 's', Max: -1}, {Name: "m", K: 'm', KT: 's', VT: 's', Max: -1},
			{Name: "bs", K: 's', KT: 's', Max: 3}, {Name: "bi", K: 's', KT: 'i', Min: 0, Max: 2},
			{Name: "m1", K: 'm', KT: 's', VT: 's', Max: 1},
			{Name: "ims", K: 's', KT: 's', Max: -1, Immutable: true}, {Name: "imm", K: 'm', KT: 's', VT: 's', Max: -1, Immutable: true}}},
		{Name: "C", Indexes: [][]string{{"k"}}, Cols: []val.Col{
			{Name: "k", K: 'a', KT: 's'}, {Name: "v", K: 'a', KT: 'i'},
			{Name: "friend", K: 'o', KT: 'u', RefTable: "Q", RefType: "weak"}}},
		{Name: "Q", IsRoot: true, Cols: []val.Col{{Name: "name", K: 'a', KT: 's'}, {Name: "oi", K: 'o', KT: 'i'}}},
	}}
}

func c06Schema() dyn.Schema { return c06SchemaN(0) }

// c06SchemaN: the arrangement of the indexes of table A varies - disjoint, one index within another declared before or
// after it, two that share a column, one set of columns declared twice in another order. Each is unique on its own.
func c06SchemaN(i int) dyn.Schema {
	arrangements := [][][]string{
		{{"name"}, {"x", "y"}},
		{{"x", "y"}, {"x"}, {"name"}},
		{{"name", "t"}, {"name"}, {"x", "y"}},
		{{"x", "y"}, {"y", "t"}, {"name"}},
		{{"y"}, {"x", "y"}, {"y", "x"}, {"name"}},
	}
	return dyn.Schema{Name: "C06", Tables: []dyn.Table{
		{Name: "A", IsRoot: true, Indexes: arrangements[i%len(arrangements)], Cols: []val.Col{
			{Name: "name", K: 'a', KT: 's'}, {Name: "x", K: 'a', KT: 'i'}, {Name: "y", K: 'a', KT: 's'}, {Name: "t", K: 'a', KT: 's'},
			{Name: "kids", K: 's', KT: 'u', Max: -1, RefTable: "B", RefType: "strong"}}},
		{Name: "B", Indexes: [][]string{{"k"}}, Cols: []val.Col{{Name: "k", K: 'a', KT: 's'}, {Name: "ok", K: 'o', KT: 's'}}},
	}}
}

// c04Schema draws a reference layout: root / non-root tables, strong / weak
// references in scalar, optional, set, map-key and map-value positions,
// self references, cycles and chains of non-root tables, min 0 / 1.
// c04ChainSchema: a root row heads a chain of non-root rows (collected one level per round when the head lets go),
// and a root row watches the chain through a weak set with a minimum and through a weak map.
func c04ChainSchema() dyn.Schema {
	return dyn.Schema{Name: "C04", Tables: []dyn.Table{
		{Name: "R", IsRoot: true, Cols: []val.Col{{Name: "name", K: 'a', KT: 's'},
			{Name: "head", K: 'o', KT: 'u', RefTable: "A", RefType: "strong"}}},
		{Name: "A", Cols: []val.Col{{Name: "name", K: 'a', KT: 's'},
			{Name: "next", K: 'o', KT: 'u', RefTable: "A", RefType: "strong"}}},
		{Name: "B", IsRoot: true, Cols: []val.Col{{Name: "name", K: 'a', KT: 's'},
			{Name: "nodes", K: 's', KT: 'u', Min: 1, Max: -1, RefTable: "A", RefType: "weak"},
			{Name: "tags", K: 'm', KT: 's', VT: 'u', Max: -1, VRefTable: "A", VRefType: "weak"}}},
	}}
}

func c04ChainSeed(tg *txnGen) []TOp {
	n := []string{tg.fresh(), tg.fresh(), tg.fresh()}
	g := tg.g
	watch := val.Val{K: 's'}
	for i := range n {
		if i > 0 || g.Chance(0.5) {
			watch.Set = append(watch.Set, val.Uuid(n[i]))
		}
	}
	return []TOp{
		{Kind: "insert", Table: "A", UUID: n[2], Row: map[string]val.Val{"name": val.VA(val.Str("n3"))}},
		{Kind: "insert", Table: "A", UUID: n[1], Row: map[string]val.Val{"name": val.VA(val.Str("n2")), "next": val.VSome(val.Uuid(n[2]))}},
		{Kind: "insert", Table: "A", UUID: n[0], Row: map[string]val.Val{"name": val.VA(val.Str("n1")), "next": val.VSome(val.Uuid(n[1]))}},
		{Kind: "insert", Table: "R", UUID: tg.fresh(), Row: map[string]val.Val{"name": val.VA(val.Str("owner")), "head": val.VSome(val.Uuid(n[0]))}},
		{Kind: "insert", Table: "B", UUID: tg.fresh(), Row: map[string]val.Val{"name": val.VA(val.Str("watcher")), "nodes": watch,
			"tags": {K: 'm', Map: [][2]val.Atom{{val.Str("a"), val.Uuid(n[1])}, {val.Str("b"), val.Uuid(n[2])}}}}},
	}
}

// c04ChainTxn: let go of the chain at its head or in the middle, alone or together with other changes.
func c04ChainTxn(tg *txnGen) []TOp {
	g := tg.g
	var ops []TOp
	as := tg.uuidsOf("A")
	switch g.Intn(5) {
	case 0:
		ops = append(ops, TOp{Kind: "update", Table: "R", Where: []Cond{}, Row: map[string]val.Val{"head": val.VNone()}})
	case 1:
		if len(as) > 0 {
			ops = append(ops, TOp{Kind: "update", Table: "R", Where: []Cond{}, Row: map[string]val.Val{"head": val.VSome(val.Uuid(as[g.Intn(len(as))]))}})
		}
	case 2:
		if len(as) > 0 {
			ops = append(ops, TOp{Kind: "update", Table: "A", Where: []Cond{{Col: "_uuid", Fn: "==", Arg: val.VA(val.Uuid(as[g.Intn(len(as))]))}},
				Row: map[string]val.Val{"next": val.VNone()}})
		}
	case 3:
		ops = append(ops, TOp{Kind: "delete", Table: "R", Where: []Cond{}})
	default:
		return c04Txn(tg)
	}
	if g.Chance(0.3) && len(as) > 0 {
		ops = append(ops, TOp{Kind: "mutate", Table: "B", Where: []Cond{}, Muts: []Mut{{Col: "nodes", Mutator: []string{"insert", "delete"}[g.Intn(2)],
			Arg: val.VS(val.Uuid(as[g.Intn(len(as))]))}}})
	}
	return ops
}

func c04Schema(g *gen.G, i int) dyn.Schema {
	if i%6 == 5 {
		return c04ChainSchema()
	}
	names := []string{"R", "A", "B", "C"}
	nt := 2 + g.Intn(3)
	var tabs []dyn.Table
	for ti := 0; ti < nt; ti++ {
		t := dyn.Table{Name: names[ti], IsRoot: ti == 0 || g.Chance(0.25)}
		t.Cols = append(t.Cols, val.Col{Name: "name", K: 'a', KT: 's'})
		nrefs := 1 + g.Intn(3)
		for ri := 0; ri < nrefs; ri++ {
			target := names[g.Intn(nt)]
			rty := "strong"
			if g.Chance(0.4) {
				rty = "weak"
			}
			cname := fmt.Sprintf("r%d", ri)
			switch g.Intn(6) {
			case 0:
				t.Cols = append(t.Cols, val.Col{Name: cname, K: 'o', KT: 'u', RefTable: target, RefType: rty})
			case 1:
				min := 0
				if g.Chance(0.3) {
					min = 1
				}
				t.Cols = append(t.Cols, val.Col{Name: cname, K: 's', KT: 'u', Min: min, Max: -1, RefTable: target, RefType: rty})
			case 2:
				t.Cols = append(t.Cols, val.Col{Name: cname, K: 'm', KT: 'u', VT: 's', Max: -1, RefTable: target, RefType: rty})
			case 3:
				t.Cols = append(t.Cols, val.Col{Name: cname, K: 'm', KT: 's', VT: 'u', Max: -1, VRefTable: target, VRefType: rty})
			case 4:
				t2 := names[g.Intn(nt)]
				rty2 := []string{"strong", "weak"}[g.Intn(2)]
				t.Cols = append(t.Cols, val.Col{Name: cname, K: 'm', KT: 'u', VT: 'u', Max: -1, RefTable: target, RefType: rty, VRefTable: t2, VRefType: rty2})
			default:
				t.Cols = append(t.Cols, val.Col{Name: cname, K: 's', KT: 'u', Max: -1, RefTable: target, RefType: rty})
			}
		}
		tabs = append(tabs, t)
	}
	return dyn.Schema{Name: "C04", Tables: tabs}
}

// ---------------------------------------------------------------------------

// c02Seed populates the C02 schema: parents sharing a child and a weakly referenced row, so that failing
// transactions have references to move.
func c02Seed(tg *txnGen) []TOp {
	var ops []TOp
	var qs, cs []string
	for i := 0; i < 3; i++ {
		q, c := tg.fresh(), tg.fresh()
		qs, cs = append(qs, q), append(cs, c)
		ops = append(ops,
			TOp{Kind: "insert", Table: "Q", UUID: q, Row: map[string]val.Val{"name": val.VA(gen.AtomN('s', i))}},
			TOp{Kind: "insert", Table: "C", UUID: c, Row: map[string]val.Val{"k": val.VA(gen.AtomN('s', i+1)), "friend": val.VSome(val.Uuid(q))}})
	}
	kids := [][]string{{cs[0]}, {cs[0], cs[1]}, {cs[2], cs[0]}}
	for i := 0; i < 3; i++ {
		ks := val.Val{K: 's'}
		for _, k := range kids[i] {
			ks.Set = append(ks.Set, val.Uuid(k))
		}
		ops = append(ops, TOp{Kind: "insert", Table: "P", UUID: tg.fresh(), Row: map[string]val.Val{
			"name": val.VA(gen.AtomN('s', i)), "kids": ks, "w1": val.VS(val.Uuid(qs[i%2]), val.Uuid(qs[2])), "wo": val.VSome(val.Uuid(qs[i%2]))}})
	}
	return ops
}

func driveC02(o opts) error {
	p := txnProfile{prop: "C02", ncases: 120, ntxn: 6, maxOps: 5, shard: 30,
		schemas: func(g *gen.G, i int) dyn.Schema { return c02Schema() },
		tune: func(tg *txnGen) {
			tg.pInvalid = 0.45
			tg.dangling = 0.12
			tg.pSelect = 0.1
			tg.pWait = 0.1
			tg.pool = 3
		},
		oracle: oracleAtomic,
		seed:   c02Seed,
		nontriv: func(ops []TOp, ob tObs) bool {
			// the failing operation is not the first and an earlier one changed a row
			for i, r := range ob.Results {
				if r.Kind == "err" && i > 0 {
					for j := 0; j < i && j < len(ob.Results); j++ {
						if ob.Results[j].Kind == "uuid" || (ob.Results[j].Kind == "count" && ob.Results[j].Count > 0) {
							return true
						}
					}
				}
			}
			return false
		},
		classify: func(ops []TOp, ob tObs) string {
			for i, r := range ob.Results {
				if r.Kind == "err" {
					if i >= len(ops) {
						return "fail:commit-time"
					}
					return "fail:op-" + ops[i].Kind
				}
			}
			return ""
		},
	}
	if o.tier == "thorough" {
		p.ncases, p.ntxn, p.maxOps = 4000, 10, 7
	}
	p.extra = c02Regressions
	return runTxnHistories(o, p)
}

func driveC06(o opts) error {
	p := txnProfile{prop: "C06", ncases: 120, ntxn: 8, maxOps: 4, shard: 30,
		schemas: func(g *gen.G, i int) dyn.Schema { return c06SchemaN(i) },
		tune:    func(tg *txnGen) { tg.pInvalid = 0.02; tg.pool = 3; tg.pSelect = 0.05; tg.pWait = 0.0; tg.swaps = 0.3 },
		oracle:  oracleUnique,
		seed: func(tg *txnGen) []TOp {
			// a few rows with distinct index values, children referenced by their parents
			var ops []TOp
			n := 2 + tg.g.Intn(3)
			for i := 0; i < n; i++ {
				b := tg.fresh()
				ops = append(ops, TOp{Kind: "insert", Table: "B", UUID: b, Row: map[string]val.Val{"k": val.VA(gen.AtomN('s', i+1))}})
				ops = append(ops, TOp{Kind: "insert", Table: "A", UUID: tg.fresh(), Row: map[string]val.Val{
					"name": val.VA(gen.AtomN('s', i)), "x": val.VA(val.Int(int64(i % 2))), "y": val.VA(gen.AtomN('s', i/2)),
					"kids": val.VS(val.Uuid(b))}})
			}
			return ops
		},
		nontriv: func(ops []TOp, ob tObs) bool {
			// an index value is touched by >= 2 rows within the transaction
			seen := map[string]int{}
			for _, op := range ops {
				for _, c := range []string{"name", "k"} {
					if v, ok := op.Row[c]; ok {
						seen[c+v.Key()]++
					}
				}
			}
			for _, n := range seen {
				if n >= 2 {
					return true
				}
			}
			return false
		},
		classify: func(ops []TOp, ob tObs) string {
			for i, r := range ob.Results {
				if r.Kind == "err" && i >= len(ops) {
					return "rejected:" + r.Err
				}
			}
			return ""
		},
	}
	if o.tier == "thorough" {
		p.ncases, p.ntxn = 4000, 14
	}
	p.extra = c06Regressions
	return runTxnHistories(o, p)
}

func driveC04(o opts) error {
	p := txnProfile{prop: "C04", ncases: 120, ntxn: 8, maxOps: 4, shard: 30,
		schemas: c04Schema,
		tune: func(tg *txnGen) {
			tg.pInvalid = 0.02
			tg.pool = 3
			tg.pSelect = 0.03
			tg.pWait = 0.0
			tg.dangling = 0.05
			tg.custom = c04Txn
			tg.pCustom = 0.55
			if len(tg.sc.Tables) == 3 && tg.sc.Tables[0].Cols[len(tg.sc.Tables[0].Cols)-1].Name == "head" {
				tg.custom = c04ChainTxn
				tg.pCustom = 0.7
			}
		},
		seed: func(tg *txnGen) []TOp {
			if len(tg.sc.Tables) == 3 && tg.sc.Tables[0].Cols[len(tg.sc.Tables[0].Cols)-1].Name == "head" {
				return c04ChainSeed(tg)
			}
			return nil
		},
		oracle: oracleRI,
		nontriv: func(ops []TOp, ob tObs) bool {
			for i, r := range ob.Results {
				if r.Kind == "err" && i >= len(ops) {
					return true
				}
			}
			return ob.Committed && ob.gcOrPrune
		},
		classify: func(ops []TOp, ob tObs) string {
			for i, r := range ob.Results {
				if r.Kind == "err" && i >= len(ops) {
					return "rejected:" + r.Err
				}
			}
			if ob.gcOrPrune {
				return "gc-or-prune"
			}
			return ""
		},
	}
	if o.tier == "thorough" {
		p.ncases, p.ntxn = 4000, 14
	}
	if err := runTxnHistories(o, p); err != nil {
		return err
	}
	return c04Witnesses(o)
}

// c04Witnesses replays the witness of the recorded C04 finding (class 31): a weak reference held in an immutable
// column cannot be pruned, so the row it points to can never be deleted.
func c04Witnesses(o opts) error {
	sc := dyn.Schema{Name: "C04w", Tables: []dyn.Table{
		{Name: "R", IsRoot: true, Cols: []val.Col{{Name: "name", K: 'a', KT: 's'},
			{Name: "w", K: 's', KT: 'u', Max: -1, RefTable: "A", RefType: "weak", Immutable: true}}},
		{Name: "A", IsRoot: true, Cols: []val.Col{{Name: "name", K: 'a', KT: 's'}}},
	}}
	lab, err := newTxnLab(sc)
	if err != nil {
		return err
	}
	a, r := gen.UUIDn(1), gen.UUIDn(2)
	known := map[string]int{}
	if ob := lab.run([]TOp{
		{Kind: "insert", Table: "A", UUID: a, Row: map[string]val.Val{"name": val.VA(val.Str("target"))}},
		{Kind: "insert", Table: "R", UUID: r, Row: map[string]val.Val{"name": val.VA(val.Str("holder")), "w": val.VS(val.Uuid(a))}},
	}); ob.Committed {
		ob2 := lab.run([]TOp{{Kind: "delete", Table: "A", Where: []Cond{}}})
		if !ob2.Committed {
			known["31"] = 1
		}
	}
	return emit.PatchStats(o.out, "C04", func(extra map[string]interface{}) { extra["oracle_known"] = known })
}

// c04Txn: transactions that move, add and remove references to *existing*
// rows while also touching the rows involved (the referrer, the referenced
// row, or both) in the same transaction.
func c04Txn(tg *txnGen) []TOp {
	g := tg.g
	type refcol struct {
		t *dyn.Table
		c val.Col
	}
	var rcs []refcol
	for i := range tg.sc.Tables {
		t := &tg.sc.Tables[i]
		for _, c := range t.Cols {
			if c.RefTable != "" || c.VRefTable != "" {
				rcs = append(rcs, refcol{t, c})
			}
		}
	}
	byU := func(u string) []Cond { return []Cond{{Col: "_uuid", Fn: "==", Arg: val.VA(val.Uuid(u))}} }
	pending := map[string][]string{}
	var ops []TOp
	n := 1 + g.Intn(3)
	for i := 0; i < n && len(rcs) > 0; i++ {
		rc := rcs[g.Intn(len(rcs))]
		referrers := tg.uuidsOf(rc.t.Name)
		if len(referrers) == 0 {
			// create a referrer (and maybe a target) first
			row := map[string]val.Val{rc.c.Name: tg.value(rc.c, pending)}
			u := tg.fresh()
			ops = append(ops, TOp{Kind: "insert", Table: rc.t.Name, UUID: u, Row: row})
			pending[rc.t.Name] = append(pending[rc.t.Name], u)
			continue
		}
		r := referrers[g.Intn(len(referrers))]
		target := rc.c.RefTable
		if target == "" {
			target = rc.c.VRefTable
		}
		switch g.Intn(5) {
		case 0: // replace the whole reference column of the referrer
			ops = append(ops, TOp{Kind: "update", Table: rc.t.Name, Where: byU(r), Row: map[string]val.Val{rc.c.Name: tg.value(rc.c, pending)}})
		case 1: // touch a referenced row and change who references it
			if ts := tg.uuidsOf(target); len(ts) > 0 {
				x := ts[g.Intn(len(ts))]
				ops = append(ops, TOp{Kind: "update", Table: target, Where: byU(x), Row: map[string]val.Val{"name": val.VA(gen.AtomN('s', g.Intn(4)))}})
			}
			ops = append(ops, TOp{Kind: "update", Table: rc.t.Name, Where: byU(r), Row: map[string]val.Val{rc.c.Name: tg.value(rc.c, pending)}})
		case 2: // empty the reference column
			ops = append(ops, TOp{Kind: "update", Table: rc.t.Name, Where: byU(r), Row: map[string]val.Val{rc.c.Name: rc.c.Default()}})
		case 3: // delete the referrer, or a referenced row
			if g.Chance(0.5) {
				ops = append(ops, TOp{Kind: "delete", Table: rc.t.Name, Where: byU(r)})
			} else if ts := tg.uuidsOf(target); len(ts) > 0 {
				ops = append(ops, TOp{Kind: "delete", Table: target, Where: byU(ts[g.Intn(len(ts))])})
			}
		default: // touch the referrer's name and its references in two operations
			ops = append(ops, TOp{Kind: "update", Table: rc.t.Name, Where: byU(r), Row: map[string]val.Val{"name": val.VA(gen.AtomN('s', g.Intn(4)))}})
			ops = append(ops, TOp{Kind: "update", Table: rc.t.Name, Where: byU(r), Row: map[string]val.Val{rc.c.Name: tg.value(rc.c, pending)}})
		}
	}
	return ops
}

// indexProbe selects every row by the value it holds in each single-column index of its table (a transaction of
// selects that is not committed) and reports a row that is not found.
func (l *txnLab) indexProbe(state map[string]map[string]map[string]val.Val) (msg string) {
	defer func() {
		if r := recover(); r != nil {
			msg = fmt.Sprint("select by an indexed value panics: ", r)
		}
	}()
	for _, t := range l.db.Spec.Tables {
		for _, idx := range t.Indexes {
			if len(idx) != 1 {
				continue
			}
			var us []string
			for u := range state[t.Name] {
				us = append(us, u)
			}
			sort.Strings(us)
			for _, u := range us {
				op := TOp{Kind: "select", Table: t.Name, Where: []Cond{{Col: idx[0], Fn: "==", Arg: state[t.Name][u][idx[0]]}}}
				res, _ := l.imdb.NewTransaction(l.name).Transact(op.operation(l.db))
				found := false
				if len(res) == 1 && res[0] != nil && res[0].Error == "" {
					for _, row := range res[0].Rows {
						if id, ok := row["_uuid"].(ovsdb.UUID); ok && id.GoUUID == u {
							found = true
						}
					}
				}
				if !found {
					return fmt.Sprintf("row %s of %s is stored with %s = %s but a select by that value does not return it", u, t.Name, idx[0], state[t.Name][u][idx[0]].Key())
				}
			}
		}
	}
	return ""
}
