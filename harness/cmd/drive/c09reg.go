package main

import (
	"encoding/json"
	"fmt"

	"github.com/ovn-org/libovsdb/mapper"
	"github.com/ovn-org/libovsdb/ovsdb"

	"verifharness/dyn"
	"verifharness/emit"
	"verifharness/gen"
	"verifharness/val"
)

// c09Regressions: conversions the value generators do not reach - the key list of a map delete mutation, a nil
// mutation value, numbers outside the 64-bit range, a set written with a repeated element.
func c09Regressions(w *emit.Writer) error {
	sc := dyn.Schema{Name: "C09R", Tables: []dyn.Table{{Name: "T", IsRoot: true, Cols: []val.Col{
		{Name: "mu", K: 'm', KT: 'u', VT: 's', Max: -1}, {Name: "mi", K: 'm', KT: 'i', VT: 's', Max: -1},
		{Name: "ss", K: 's', KT: 's', Max: -1}, {Name: "n", K: 'a', KT: 'i'}}}}}
	db, err := sc.Build()
	if err != nil {
		return err
	}
	ts := db.Schema.Table("T")
	report := func(name, failure string) {
		w.Count("regression:" + name)
		w.Add(emit.Case{Term: "CGet [] [] [] 0%nat []", JSON: map[string]interface{}{"regression": name},
			Key: "regression:" + name, Nontrivial: true, Class: "regression", Oracle: failure})
	}
	info, err := mapper.NewInfo("T", ts, db.New("T"))
	if err != nil {
		return err
	}
	// delete by key list: the keys take the wire form of the key type
	{
		k1, k2 := gen.UUIDn(51), gen.UUIDn(52)
		failure := ""
		_, class, msg := guarded(func() (interface{}, error) {
			m, err := db.Model.Mapper.NewMutation(info, "mu", ovsdb.MutateOperationDelete, []string{k1, k2})
			if err != nil {
				return nil, err
			}
			b, err := json.Marshal(m)
			if err != nil {
				return nil, err
			}
			want, _ := json.Marshal([]interface{}{"mu", "delete", []interface{}{"set", []interface{}{[]string{"uuid", k1}, []string{"uuid", k2}}}})
			if string(b) != string(want) {
				failure = fmt.Sprintf("NewMutation(mu, delete, [k1 k2]) on a map with uuid keys is encoded as %s, expected %s", b, want)
			}
			return nil, nil
		})
		if class != 0 && failure == "" {
			failure = "NewMutation(mu, delete, [k1 k2]) on a map with uuid keys fails: " + msg
		}
		report("delete mutation by uuid key list", failure)
	}
	// a nil mutation value is rejected, not a crash
	{
		failure := ""
		for _, col := range []string{"ss", "mu", "n"} {
			_, class, msg := guarded(func() (interface{}, error) {
				return db.Model.Mapper.NewMutation(info, col, ovsdb.MutateOperationInsert, nil)
			})
			if class == 2 {
				failure = fmt.Sprintf("NewMutation(%s, insert, nil) panics: %s", col, msg)
			} else if class == 0 {
				failure = fmt.Sprintf("NewMutation(%s, insert, nil) is accepted", col)
			}
		}
		report("nil mutation value", failure)
	}
	// numbers outside the 64-bit range are not integers of the column
	{
		failure := ""
		for _, f := range []float64{1e19, -1e19, 9223372036854775808, 1e300} {
			nat, err := ovsdb.OvsToNativeAtomic(ovsdb.TypeInteger, f)
			if err == nil {
				failure = fmt.Sprintf("integer column: the number %v is accepted and becomes %v", f, nat)
			}
		}
		if nat, err := ovsdb.OvsToNativeAtomic(ovsdb.TypeInteger, float64(-9223372036854775808)); err != nil || nat != int(-9223372036854775808) {
			failure = fmt.Sprintf("integer column: -2^63 gives %v, %v", nat, err)
		}
		report("number outside the 64-bit range", failure)
	}
	// a set written with a repeated element holds it once
	{
		failure := ""
		nat, err := ovsdb.OvsToNative(ts.Column("ss"), ovsdb.OvsSet{GoSet: []interface{}{"y", "x", "y"}})
		if l, ok := nat.([]string); err != nil || !ok || len(l) != 2 {
			failure = fmt.Sprintf(`["set",["y","x","y"]] becomes %v (%v), expected the two elements y and x`, nat, err)
		}
		report("set with a repeated element", failure)
	}
	// a uuid written with capitals is the uuid
	{
		failure := ""
		var u ovsdb.UUID
		err := json.Unmarshal([]byte(`["uuid","ABCDEF00-0000-4000-8000-00000000000A"]`), &u)
		b, _ := json.Marshal(u)
		if err != nil || string(b) != `["uuid","abcdef00-0000-4000-8000-00000000000a"]` {
			failure = fmt.Sprintf(`["uuid","ABCDEF00-0000-4000-8000-00000000000A"] decodes and encodes again as %s (%v), expected the same uuid in lower case`, b, err)
		}
		report("uuid in upper case", failure)
	}
	return nil
}
