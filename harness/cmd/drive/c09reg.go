package main

import (
	"encoding/json"
	"fmt"

	"github.com/ovn-org/libovsdb/mapper"
	"github.com/ovn-org/libovsdb/ovsdb"

	"verifharness/dyn"
	"verifharness/emit"
	"verifharness/gen"
	"verifharness/val"
)

// c09Regressions: conversions the value generators do not reach - the key list of a map delete mutation, a nil
// mutation value, numbers outside the 64-bit range, a set written with a repeated element.
func c09Regressions(w *emit.Writer) error {
	sc := dyn.Schema{Name: "C09R", Tables: []dyn.Table{{Name: "T", IsRoot: true, Cols: []val.Col{
		{Name: "mu", K: 'm', KT: 'u', VT: 's', Max: -1}, {Name: "mi", K: 'm', KT: 'i', VT: 's', Max: -1},
		{Name: "ss", K: 's', KT: 's', Max: -1}, {Name: "n", K: 'a', KT: 'i'}}}}}
	db, err := sc.Build()
	if err != nil {
		return err
	}
	ts := db.Schema.Table("T")
	report := func(name, failure string) {
		w.Count("regression:" + name)
		w.Add(emit.Case{Term: "CGet [] [] [] 0%nat []", JSON: map[string]interface{}{"regression": name},
			Key: "regression:" + name, Nontrivial: true, Class: "regression", Oracle: failure})
	}
	info, err := mapper.NewInfo("T", ts, db.New("T"))
	if err != nil {
		return err
	}
	// delete by key list: the keys take the wire form of the key type
	{
		k1, k2 := gen.UUIDn(51), gen.UUIDn(52)
		failure := ""
		_, class, msg := guarded(func() (interface{}, error) {
			m, err := db.Model.Mapper.NewMutation(info, "mu", ovsdb.MutateOperationDelete, []string{k1, k2})
			if err != nil {
				return nil, err
			}
			b, err := json.Marshal(m)
			if err != nil {
				return nil, err
			}
			want, _ := json.Marshal([]interface{}{"mu", "delete", []interface{}{"set", []interface{}{[]string{"uuid", k1}, []string{"uuid", k2}}}})
			if string(b) != string(want) {
				failure = fmt.Sprintf("NewMutation(mu, delete, [k1 k2]) on a map with uuid keys is encoded as %s, expected %s", b, want)
			}
			return nil, nil
		})
		if class != 0 && failure == "" {
			failure = "NewMutation(mu, delete, [k1 k2]) on a map with uuid keys fails: " + msg
		}
		report("delete mutation by uuid key list", failure)
	}
	// a nil mutation value is rejected, not a crash
	{
		failure := ""
		for _, col := range []string{"ss", "mu", "n"} {
			_, class, msg := guarded(func() (interface{}, error) {
				return db.Model.Mapper.NewMutation(info, col, ovsdb.MutateOperationInsert, nil)
			})
			if class == 2 {
				failure = fmt.Sprintf("NewMutation(%s, insert, nil) panics: %s", col, msg)
			} else if class == 0 {
				failure = fmt.Sprintf("NewMutation(%s, insert, nil) is accepted", col)
			}
		}
		report("nil mutation value", failure)
	}
	// numbers outside the 64-bit range are not integers of the column
	{
		failure := ""
		for _, f := range []float64{1e19, -1e19, 9223372036854775808, 1e300} {
			nat, err := ovsdb.OvsToNativeAtomic(ovsdb.TypeInteger, f)
			if err == nil {
				failure = fmt.Sprintf("integer column: the number %v is accepted and becomes %v", f, nat)
			}
		}
		if nat, err := ovsdb.OvsToNativeAtomic(ovsdb.TypeInteger, float64(-9223372036854775808)); err != nil || nat != int(-9223372036854775808) {
			failure = fmt.Sprintf("integer column: -2^63 gives %v, %v", nat, err)
		}
		report("number outside the 64-bit range", failure)
	}
	// a set written with a repeated element holds it once
	{
		failure := ""
		nat, err := ovsdb.OvsToNative(ts.Column("ss"), ovsdb.OvsSet{GoSet: []interface{}{"y", "x", "y"}})
		if l, ok := nat.([]string); err != nil || !ok || len(l) != 2 {
			failure = fmt.Sprintf(`["set",["y","x","y"]] becomes %v (%v), expected the two elements y and x`, nat, err)
		}
		report("set with a repeated element", failure)
	}
	// a uuid written with capitals is the uuid
	{
		failure := ""
		var u ovsdb.UUID
		err := json.Unmarshal([]byte(`["uuid","ABCDEF00-0000-4000-8000-00000000000A"]`), &u)
		b, _ := json.Marshal(u)
		if err != nil || string(b) != `["uuid","abcdef00-0000-4000-8000-00000000000a"]` {
			failure = fmt.Sprintf(`["uuid","ABCDEF00-0000-4000-8000-00000000000A"] decodes and encodes again as %s (%v), expected the same uuid in lower case`, b, err)
		}
		report("uuid in upper case", failure)
	}
	return c09Names(w)
}

// c09Names: a uuid-typed field may hold the name of a row that the same transaction inserts. A name is text: it goes
// through the row and back with its spelling, in every position of every uuid column kind (names that differ only in
// case stay apart).
func c09Names(w *emit.Writer) error {
	sc := c09Schema()
	db, err := sc.Build()
	if err != nil {
		return err
	}
	names := []val.Atom{val.Uuid("Port_A"), val.Uuid("rowX1"), val.Uuid("row"), val.Uuid("Row"), val.Uuid("lower_only")}
	failure := ""
	for _, c := range sc.Tables[0].Cols {
		if len(c.Enum) > 0 || (c.KT != 'u' && c.VT != 'u') {
			continue
		}
		var vals []val.Val
		switch c.K {
		case 'a':
			vals = []val.Val{val.VA(names[0]), val.VA(names[4])}
		case 'o':
			vals = []val.Val{val.VSome(names[1])}
		case 's':
			vals = []val.Val{val.Val{K: 's', Set: []val.Atom{names[0]}}.Canon(), val.Val{K: 's', Set: []val.Atom{names[2], names[3], names[1]}}.Canon()}
		case 'm':
			ot := c.VT
			if c.KT != 'u' {
				ot = c.KT
			}
			if c.KT == 'u' && c.VT == 'u' {
				continue
			}
			other := func(i int) val.Atom { return gen.AtomN(ot, i) }
			var m1, m2 val.Val
			m1.K, m2.K = 'm', 'm'
			if c.KT == 'u' {
				m1.Map = [][2]val.Atom{{names[0], other(1)}}
				m2.Map = [][2]val.Atom{{names[2], other(1)}, {names[3], other(2)}}
			} else {
				m1.Map = [][2]val.Atom{{other(1), names[0]}}
				m2.Map = [][2]val.Atom{{other(1), names[2]}, {other(2), names[3]}}
			}
			vals = []val.Val{m1.Canon(), m2.Canon()}
		}
		for _, v := range vals {
			_, class, msg := guarded(func() (interface{}, error) {
				m := db.Make("T", gen.UUIDn(1), map[string]val.Val{c.Name: v})
				info, err := db.Model.NewModelInfo(m)
				if err != nil {
					return nil, err
				}
				row, err := db.Model.Mapper.NewRow(info)
				if err != nil {
					return nil, fmt.Errorf("NewRow: %v", err)
				}
				b, err := json.Marshal(row)
				if err != nil {
					return nil, fmt.Errorf("marshal: %v", err)
				}
				var back ovsdb.Row
				if err := json.Unmarshal(b, &back); err != nil {
					return nil, fmt.Errorf("row decoding of %s: %v", b, err)
				}
				fresh := db.New("T")
				finfo, _ := db.Model.NewModelInfo(fresh)
				if err := db.Model.Mapper.GetRowData(&back, finfo); err != nil {
					return nil, fmt.Errorf("GetRowData of %s: %v", b, err)
				}
				if got := db.Get(fresh, "T", c.Name); !got.Equal(v) {
					return nil, fmt.Errorf("comes back as %s through %s", got.Key(), b)
				}
				return nil, nil
			})
			w.Count("names:" + string(c.K))
			if class != 0 && failure == "" {
				failure = fmt.Sprintf("column %s (%s) holding the row name(s) %s: %s", c.Name, c.SchemaJSON(), v.Key(), msg)
			}
		}
	}
	w.Count("regression:names in uuid positions")
	w.Add(emit.Case{Term: "CGet [] [] [] 0%nat []", JSON: map[string]interface{}{"regression": "names in uuid positions"},
		Key: "regression:names in uuid positions", Nontrivial: true, Class: "regression", Oracle: failure})
	return nil
}
