package main

// C08, second sentence: the conditional API (Where / WhereAll / WhereAny /
// WhereCache followed by List / Delete / Update / Mutate) of a real client
// whose cache is synchronised with a real server.  For one conditional the
// driver records what List() reports, the where clause of every operation an
// API call generates, and the table after the operations were executed.

import (
	"encoding/json"
	"fmt"
	"reflect"
	"sort"
	"strings"

	"github.com/ovn-org/libovsdb/client"
	"github.com/ovn-org/libovsdb/model"
	"github.com/ovn-org/libovsdb/ovsdb"

	"verifharness/dyn"
	"verifharness/emit"
	"verifharness/gen"
	"verifharness/val"
)

type apiLab struct {
	cfg idxConfig
	lab *srvLab
	cl  client.Client
}

func newAPILab(cols []val.Col, cfg idxConfig, dir string) (*apiLab, error) {
	db, err := buildIdxDB(cols, cfg)
	if err != nil {
		return nil, err
	}
	lab, err := newSrvLabDB(db, dir)
	if err != nil {
		return nil, err
	}
	cl, err := client.NewOVSDBClient(db.Client, client.WithEndpoint("unix:"+lab.sock))
	if err != nil {
		return nil, err
	}
	ctx, cancel := ctxT()
	defer cancel()
	if err := cl.Connect(ctx); err != nil {
		return nil, fmt.Errorf("connect: %v", err)
	}
	if _, err := cl.MonitorAll(ctx); err != nil {
		return nil, fmt.Errorf("monitor: %v", err)
	}
	return &apiLab{cfg: cfg, lab: lab, cl: cl}, nil
}

func (a *apiLab) close() {
	a.cl.Disconnect()
	a.cl.Close()
	a.lab.close()
}

// transact runs operations through the client (its cache is updated when the call returns).
func (a *apiLab) transact(ops []ovsdb.Operation) (committed bool, counts []int, err error) {
	ctx, cancel := ctxT()
	defer cancel()
	res, err := a.cl.Transact(ctx, ops...)
	if err != nil {
		return false, nil, err
	}
	committed = true
	for _, r := range res {
		if r.Error != "" {
			committed = false
		}
		counts = append(counts, r.Count)
	}
	return committed, counts, nil
}

func mutNative(c *val.Col, m Mut) interface{} {
	switch {
	case c.K == 'a':
		return m.Arg.A.Native()
	case c.K == 'm' && m.Arg.K == 's':
		return val.Col{Name: c.Name, K: 's', KT: c.KT, Max: -1}.ToNative(m.Arg)
	default:
		return c.ToNative(m.Arg)
	}
}

func c08API(o opts, g *gen.G, syms *val.Syms, w *emit.Writer, cols []val.Col, cfgs []idxConfig) error {
	const T = "T"
	ncases := 160
	if o.tier == "thorough" {
		ncases = 2500
	}
	if o.n > 0 {
		ncases = o.n
	}
	labs := make([]*apiLab, len(cfgs))
	for i, cfg := range cfgs {
		l, err := newAPILab(cols, cfg, o.out)
		if err != nil {
			return err
		}
		defer l.close()
		labs[i] = l
	}
	pool := 4
	tspec := dyn.Table{Name: T, Cols: cols, IsRoot: true}
	mutableCols := []string{}
	for _, c := range cols {
		if !c.Immutable {
			mutableCols = append(mutableCols, c.Name)
		}
	}
	for ci := 0; ci < ncases; ci++ {
		al := labs[g.Intn(len(labs))]
		db := al.lab.db
		// fresh contents: empty the table, then insert (two transactions: a row deleted and
		// re-inserted under the same uuid in one transaction is refused)
		if _, _, err := al.transact([]ovsdb.Operation{{Op: ovsdb.OperationDelete, Table: T, Where: []ovsdb.Condition{}}}); err != nil {
			return fmt.Errorf("reset: %v", err)
		}
		nrows := g.Intn(8)
		var uuids []string
		rows := map[string]map[string]val.Val{}
		var rowList []map[string]val.Val
		names := map[string]bool{}
		var ins []ovsdb.Operation
		for i := 0; i < nrows; i++ {
			u := gen.UUIDn(i)
			r := map[string]val.Val{}
			for _, c := range cols {
				switch c.Name {
				case "m":
					v := val.Val{K: 'm'}
					for _, k := range []string{"k1", "k2", "k3"} {
						if g.Chance(0.6) {
							v.Map = append(v.Map, [2]val.Atom{val.Str(k), gen.AtomN('s', g.Intn(pool))})
						}
					}
					r[c.Name] = v
				case "u":
					r[c.Name] = val.VA(val.Uuid(gen.UUIDn(100 + i)))
				case "name":
					for {
						a := gen.AtomN('s', g.Intn(12))
						if !names[a.S] {
							names[a.S] = true
							r[c.Name] = val.VA(a)
							break
						}
					}
				default:
					r[c.Name] = g.Value(c, pool, 3)
				}
			}
			uuids = append(uuids, u)
			rows[u] = r
			rowList = append(rowList, r)
			ins = append(ins, TOp{Kind: "insert", Table: T, UUID: u, Row: r}.operation(db))
		}
		if len(ins) > 0 {
			ok, _, err := al.transact(ins)
			if err != nil || !ok {
				return fmt.Errorf("populate: committed=%v err=%v", ok, err)
			}
		}
		oracle := ""
		fail := func(format string, a ...interface{}) {
			if oracle == "" {
				oracle = fmt.Sprintf(format, a...)
			}
		}
		// the conditional
		var capi client.ConditionalAPI
		var condTerm, condKind string
		var condJ interface{}
		var want map[string]bool // RFC reading, when the conditional has one
		mkConds := func(cs []Cond) []model.Condition {
			m := db.New(T)
			var out []model.Condition
			for _, c := range cs {
				col := colOf(cols, c.Col)
				var fp interface{}
				if c.Col == "_uuid" {
					fp = db.FieldPtr(m, T, "_uuid")
				} else {
					fp = db.FieldPtr(m, T, c.Col)
				}
				out = append(out, model.Condition{Field: fp, Function: ovsdb.ConditionFunction(c.Fn), Value: col.ToNative(c.Arg)})
			}
			// the conditions' field pointers must point into the model given to WhereAll / WhereAny
			capiModel = m
			return out
		}
		switch k := g.Intn(20); {
		case k < 7:
			condKind = "models"
			nm := 1 + g.Intn(3)
			var ms []model.Model
			var terms []string
			var js []interface{}
			for i := 0; i < nm; i++ {
				u := ""
				vals := map[string]val.Val{}
				var src map[string]val.Val
				if len(rowList) > 0 {
					src = rowList[g.Intn(len(rowList))]
				}
				stale := false
				switch z := g.Intn(10); {
				case z < 3 && len(uuids) > 0:
					u = uuids[g.Intn(len(uuids))]
				case z < 4:
					u = gen.UUIDn(555000 + g.Intn(3))
				case z < 6 && src != nil:
					// an object kept from before: a uuid the cache does not know, index values of a live row
					u = gen.UUIDn(555000 + g.Intn(3))
					stale = true
				}
				// fields: index columns of an existing row, partially, or random values
				for _, grp := range [][]string{{"name"}, {"name", "n"}, {"u"}, {"tag"}, {"os"}, {"n"}, {"m"}} {
					if !g.Chance(0.35) && !(stale && grp[0] != "m" && g.Chance(0.5)) {
						continue
					}
					for _, cn := range grp {
						c := colOf(cols, cn)
						if stale {
							vals[cn] = src[cn]
							continue
						}
						if src != nil && g.Chance(0.75) {
							vals[cn] = src[cn]
						} else {
							vals[cn] = g.Value(*c, pool, 3)
						}
					}
				}
				ms = append(ms, db.Make(T, u, vals))
				ut := "None"
				if u != "" {
					ut = fmt.Sprintf("(Some %d%%N)", syms.ID(u))
				}
				terms = append(terms, fmt.Sprintf("(%s, %s)", ut, dyn.CoqRow(syms, vals)))
				js = append(js, map[string]interface{}{"uuid": u, "fields": dyn.JSONRow(vals)})
			}
			capi = al.cl.Where(ms...)
			condTerm = "C08.LModels [" + strings.Join(terms, "; ") + "]"
			condJ = js
		case k < 12:
			condKind = "all"
			n := 1 + g.Intn(3)
			var cs []Cond
			for j := 0; j < n; j++ {
				cs = append(cs, genCond(g, cols, rowList, uuids, pool, 3))
			}
			mc := mkConds(cs)
			capi = al.cl.WhereAll(capiModel, mc...)
			condTerm = "C08.LExplicit [" + coqConds(syms, cs) + "]"
			condJ = jsonConds(cs)
			want = map[string]bool{}
			for _, u := range uuids {
				if rfcMatch(u, rows[u], cs) {
					want[u] = true
				}
			}
		case k < 17:
			condKind = "any"
			n := 1 + g.Intn(3)
			var cs []Cond
			var parts []string
			for j := 0; j < n; j++ {
				c := genCond(g, cols, rowList, uuids, pool, 3)
				cs = append(cs, c)
				parts = append(parts, coqConds(syms, []Cond{c}))
			}
			mc := mkConds(cs)
			capi = al.cl.WhereAny(capiModel, mc...)
			condTerm = "C08.LExplicit [" + strings.Join(parts, "; ") + "]"
			condJ = jsonConds(cs)
			want = map[string]bool{}
			for _, u := range uuids {
				for _, c := range cs {
					if rfcMatch(u, rows[u], []Cond{c}) {
						want[u] = true
					}
				}
			}
		default:
			condKind = "predicate"
			n := 1 + g.Intn(2)
			var cs []Cond
			for j := 0; j < n; j++ {
				cs = append(cs, genCond(g, cols, rowList, uuids, pool, 3))
			}
			mt := reflect.TypeOf(db.New(T))
			pred := reflect.MakeFunc(reflect.FuncOf([]reflect.Type{mt}, []reflect.Type{reflect.TypeOf(true)}, false),
				func(args []reflect.Value) []reflect.Value {
					m := args[0].Interface()
					return []reflect.Value{reflect.ValueOf(rfcMatch(db.UUID(m), db.RowMap(m, T), cs))}
				})
			capi = al.cl.WhereCache(pred.Interface())
			condTerm = "C08.LPredicate " + coqConds(syms, cs)
			condJ = jsonConds(cs)
			want = map[string]bool{}
			for _, u := range uuids {
				if rfcMatch(u, rows[u], cs) {
					want[u] = true
				}
			}
		}
		w.Count("api-cond:" + condKind)
		// List()
		listTerm := "None"
		var listed []string
		lp := reflect.New(reflect.SliceOf(reflect.TypeOf(db.New(T))))
		ctx, cancel := ctxT()
		err := capi.List(ctx, lp.Interface())
		cancel()
		if err != nil {
			fail("%s: List() fails for a well-typed conditional: %v", condKind, err)
		} else {
			for i := 0; i < lp.Elem().Len(); i++ {
				listed = append(listed, db.UUID(lp.Elem().Index(i).Interface()))
			}
			sort.Strings(listed)
			var ids []string
			for _, u := range listed {
				ids = append(ids, fmt.Sprintf("%d%%N", syms.ID(u)))
			}
			listTerm = "(Some [" + strings.Join(ids, "; ") + "])"
			if want != nil {
				var ws []string
				for u := range want {
					ws = append(ws, u)
				}
				sort.Strings(ws)
				if strings.Join(ws, ",") != strings.Join(listed, ",") {
					fail("%s: List() reports {%s} but exactly {%s} satisfy the conditions", condKind, strings.Join(listed, ","), strings.Join(ws, ","))
				}
			}
		}
		inList := map[string]bool{}
		for _, u := range listed {
			inList[u] = true
		}
		// the API call
		var ops []ovsdb.Operation
		var opErr error
		var kindTerm, kindName string
		var kindJ interface{}
		switch k := g.Intn(10); {
		case k < 3:
			kindName = "delete"
			kindTerm = "C08.LDelete"
			ops, opErr = capi.Delete()
		case k < 7:
			explicit := g.Chance(0.6)
			kindName = map[bool]string{true: "update-fields", false: "update-model"}[explicit]
			vals := map[string]val.Val{}
			for _, cn := range mutableCols {
				p := 0.2
				if cn == "name" || cn == "u" {
					p = 0.05 // changing an index column of several rows is a constraint violation
				}
				if g.Chance(p) {
					vals[cn] = g.Value(*colOf(cols, cn), pool+2, 3)
				}
			}
			if len(vals) == 0 && g.Chance(0.9) {
				vals["tag"] = val.VA(gen.AtomN('s', 1+g.Intn(pool)))
			}
			if len(vals) == 0 {
				explicit = false // Update(model) without field pointers means "every non-default field"
			}
			m := db.Make(T, "", vals)
			var fields []interface{}
			sent := map[string]val.Val{}
			for cn, v := range vals {
				if explicit {
					fields = append(fields, db.FieldPtr(m, T, cn))
					sent[cn] = v
				} else if c := colOf(cols, cn); !v.Equal(c.Default()) || (c.K == 'a' && c.KT == 'b') {
					sent[cn] = v
				}
			}
			if !explicit {
				// mapper.NewRow without fields skips default values; a boolean is never taken for a default (ovsdb.IsDefaultValue)
				for _, c := range cols {
					if _, ok := vals[c.Name]; !ok && c.K == 'a' && c.KT == 'b' {
						sent[c.Name] = c.Default()
					}
				}
			}
			kindTerm = fmt.Sprintf("(C08.LUpdate %s %s)", emit.Bool(explicit), dyn.CoqRow(syms, sent))
			kindJ = dyn.JSONRow(sent)
			ops, opErr = capi.Update(m, fields...)
		default:
			kindName = "mutate"
			var muts []Mut
			for tries := 0; tries < 6 && len(muts) < 1+g.Intn(2); tries++ {
				c := *colOf(cols, []string{"n", "r", "ss", "si", "m"}[g.Intn(5)])
				var cur val.Val
				if len(rowList) > 0 {
					cur = rowList[g.Intn(len(rowList))][c.Name]
				}
				if mu, ok := genMut(g, c, cur, pool, 3); ok {
					muts = append(muts, mu)
				}
			}
			m := db.New(T)
			var mobjs []model.Mutation
			var mts []string
			var mj []interface{}
			for _, mu := range muts {
				mobjs = append(mobjs, model.Mutation{Field: db.FieldPtr(m, T, mu.Col), Mutator: ovsdb.Mutator(mu.Mutator), Value: mutNative(colOf(cols, mu.Col), mu)})
				mts = append(mts, coqMut(syms, mu))
				mj = append(mj, []interface{}{mu.Col, mu.Mutator, mu.Arg.JSONable()})
			}
			kindTerm = "(C08.LMutate [" + strings.Join(mts, "; ") + "])"
			kindJ = mj
			ops, opErr = capi.Mutate(m, mobjs...)
		}
		w.Count("api-call:" + kindName)
		wheresTerm := "None"
		afterTerm := "None"
		var wheresJ []interface{}
		executed := false
		if opErr == nil {
			var wts []string
			for _, op := range ops {
				var cs []Cond
				for _, oc := range op.Where {
					col := colOf(cols, oc.Column)
					if col == nil {
						fail("generated condition on unknown column %s", oc.Column)
						continue
					}
					v, err := col.FromOvs(oc.Value)
					if err != nil {
						fail("generated condition value of column %s: %v", oc.Column, err)
						continue
					}
					cs = append(cs, Cond{Col: oc.Column, Fn: string(oc.Function), Arg: v})
				}
				wts = append(wts, coqConds(syms, cs))
				wheresJ = append(wheresJ, jsonConds(cs))
			}
			wheresTerm = "(Some [" + strings.Join(wts, "; ") + "])"
			if len(listed) > 0 {
				w.Count("api-gen:by-uuid")
			} else {
				w.Count("api-gen:given-conditions")
			}
			// execute
			committed := true
			var counts []int
			if len(ops) > 0 {
				var err error
				committed, counts, err = al.transact(ops)
				if err != nil {
					fail("Transact of the generated operations: %v", err)
					committed = false
				}
			}
			if committed {
				executed = true
				st, _, err := al.lab.state()
				if err != nil {
					return err
				}
				after := st[T]
				var ats []string
				for _, u := range sortedRowKeys(after) {
					ats = append(ats, fmt.Sprintf("(%d%%N, %s)", syms.ID(u), dyn.CoqRow(syms, after[u])))
				}
				afterTerm = "(Some [" + strings.Join(ats, "; ") + "])"
				// direct oracle: the operations affected exactly the rows List() reported
				total := 0
				for _, n := range counts {
					total += n
				}
				if total != len(listed) {
					fail("%s/%s: the operations affected %d rows, List() reported %d", condKind, kindName, total, len(listed))
				}
				for _, u := range uuids {
					ar, present := after[u]
					switch {
					case kindName == "delete" && inList[u] && present:
						fail("%s/delete: row %s is reported by List() but survives the delete", condKind, u)
					case kindName == "delete" && !inList[u] && !present:
						fail("%s/delete: row %s is not reported by List() but was deleted", condKind, u)
					case kindName != "delete" && !present:
						fail("%s/%s: row %s disappeared", condKind, kindName, u)
					case kindName != "delete" && !inList[u] && !rowsEqual(ar, rows[u]):
						fail("%s/%s: row %s is not reported by List() but was changed", condKind, kindName, u)
					}
				}
				// the client's cache followed
				for u, m := range al.cl.Cache().Table(T).Rows() {
					if ar, ok := after[u]; !ok || !rowsEqual(ar, db.RowMap(m, T)) {
						fail("after the call the cache row %s differs from the database", u)
					}
				}
			} else {
				w.Count("api-exec:not-committed")
			}
		} else {
			w.Count("api-call-error")
		}
		var specTerms []string
		for _, s := range al.cfg.specs() {
			specTerms = append(specTerms, s.coq(syms))
		}
		var idxTerms []string
		for _, idx := range al.cfg.Schema {
			idxTerms = append(idxTerms, symList(syms, idx))
		}
		var rowTerms []string
		rowsJ := map[string]interface{}{}
		for _, u := range uuids {
			rowTerms = append(rowTerms, fmt.Sprintf("(%d%%N, %s)", syms.ID(u), dyn.CoqRow(syms, rows[u])))
			rowsJ[u] = dyn.JSONRow(rows[u])
		}
		term := fmt.Sprintf("C08.CApi (C08.mkApi [%s] [%s]\n   [%s]\n   (%s) %s\n   %s %s\n   %s)", strings.Join(specTerms, "; "), strings.Join(idxTerms, "; "),
			strings.Join(rowTerms, "; "), condTerm, kindTerm, listTerm, wheresTerm, afterTerm)
		_ = tspec
		w.Add(emit.Case{Term: term, JSON: map[string]interface{}{"config": al.cfg.Name, "rows": rowsJ, "conditional": map[string]interface{}{"kind": condKind, "spec": condJ},
			"call": map[string]interface{}{"kind": kindName, "arg": kindJ}, "list": listed, "wheres": wheresJ, "executed": executed, "operations": opsJSON(ops)},
			Key: term, Nontrivial: len(listed) > 0 && len(listed) < len(uuids) && executed, Class: "api:" + condKind, Oracle: oracle})
	}
	return nil
}

var capiModel model.Model

func opsJSON(ops []ovsdb.Operation) interface{} {
	var out []interface{}
	for _, op := range ops {
		b, err := json.Marshal(op)
		if err != nil {
			out = append(out, err.Error())
			continue
		}
		var x interface{}
		_ = json.Unmarshal(b, &x)
		out = append(out, x)
	}
	return out
}
