package main

// C16: after losing its connection the client resynchronises completely.
// A fault-injecting proxy sits between a real client (reconnect on) and a
// real server: it forwards whole JSON-RPC messages and can cut the connection
// after a chosen number of messages in either direction, or go silent (for the
// inactivity probe). A writer peer, connected directly, keeps committing while
// the client is away. After every cut the driver waits until the client reports
// being connected and its cache equals the monitored part of the database.
// Transact calls carrying unique marker rows are issued around the cuts.

import (
	"context"
	"encoding/json"
	"fmt"
	"net"
	"os"
	"path/filepath"
	"strings"
	"sync"
	"time"

	"github.com/cenkalti/backoff/v4"
	"github.com/go-logr/logr/funcr"
	"github.com/ovn-org/libovsdb/client"
	"github.com/ovn-org/libovsdb/ovsdb"

	"verifharness/dyn"
	"verifharness/emit"
	"verifharness/gen"
	"verifharness/val"
)

func init() { drivers["C16"] = driveC16 }

var c16Debug *os.File

func c16Log(format string, a ...interface{}) {
	if c16Debug != nil {
		fmt.Fprintf(c16Debug, format+"\n", a...)
	}
}

type cutProxy struct {
	ln     net.Listener
	target string
	path   string
	mu     sync.Mutex
	// per accepted connection
	s2c, c2s int  // messages forwarded since the connection was accepted
	cutS2C   int  // cut when s2c reaches this (0 = never)
	cutC2S   int  // cut when c2s reaches this (0 = never)
	silent   bool // stop forwarding without closing
	conns    []net.Conn
	accepted int
	cuts     int
	// history mode: the proxy may answer a monitor_cond_since request on behalf of the server
	// (result = the server's own reply [found, last-txn-id, updates]; nil = forward it unchanged)
	holding bool // refuse new connections (the server is unreachable for a while)
	onSince func(cookie string, requests json.RawMessage, lastID string, result []json.RawMessage) []interface{}
	pending map[string]sinceReq // by JSON-RPC id
}

type sinceReq struct {
	cookie   string
	requests json.RawMessage
	lastID   string
}

func newCutProxy(dir, target string, n int) (*cutProxy, error) {
	p := &cutProxy{target: target, path: filepath.Join(dir, fmt.Sprintf("proxy%d_%d.sock", os.Getpid(), n))}
	os.Remove(p.path)
	ln, err := net.Listen("unix", p.path)
	if err != nil {
		return nil, err
	}
	p.ln = ln
	go p.serve()
	return p, nil
}

func (p *cutProxy) serve() {
	for {
		c, err := p.ln.Accept()
		if err != nil {
			return
		}
		p.mu.Lock()
		refuse := p.holding
		p.mu.Unlock()
		if refuse {
			c.Close()
			continue
		}
		s, err := net.Dial("unix", p.target)
		if err != nil {
			c.Close()
			continue
		}
		p.mu.Lock()
		p.s2c, p.c2s, p.cutS2C, p.cutC2S, p.silent = 0, 0, 0, 0, false
		p.pending = nil // request ids start again on a new connection
		p.conns = []net.Conn{c, s}
		p.accepted++
		p.mu.Unlock()
		pipe := func(dst, src net.Conn, fromServer bool) {
			dec := json.NewDecoder(src)
			for {
				var raw json.RawMessage
				if err := dec.Decode(&raw); err != nil {
					dst.Close()
					src.Close()
					return
				}
				p.mu.Lock()
				if p.silent {
					// a black hole: the message is swallowed; closing either side still ends both
					p.mu.Unlock()
					continue
				}
				cut := false
				if fromServer {
					p.s2c++
					cut = p.cutS2C > 0 && p.s2c >= p.cutS2C
				} else {
					p.c2s++
					cut = p.cutC2S > 0 && p.c2s >= p.cutC2S
				}
				if cut {
					p.cutS2C, p.cutC2S = 0, 0
					p.cuts++
				}
				p.mu.Unlock()
				if cut {
					// the message that reaches the threshold is lost with the connection
					dst.Close()
					src.Close()
					return
				}
				if p.onSince != nil {
					raw = p.intercept(raw, fromServer)
				}
				if _, err := dst.Write(raw); err != nil {
					dst.Close()
					src.Close()
					return
				}
			}
		}
		go pipe(c, s, true)
		go pipe(s, c, false)
	}
}

// intercept remembers monitor_cond_since requests and lets onSince replace the server's reply.
func (p *cutProxy) intercept(raw json.RawMessage, fromServer bool) json.RawMessage {
	var msg struct {
		Method string            `json:"method"`
		Params []json.RawMessage `json:"params"`
		ID     json.RawMessage   `json:"id"`
		Result json.RawMessage   `json:"result"`
		Error  json.RawMessage   `json:"error"`
	}
	if json.Unmarshal(raw, &msg) != nil {
		return raw
	}
	if c16Debug != nil && fromServer && msg.Method != "" && msg.Method != "echo" {
		fmt.Fprintf(c16Debug, "  s2c %s %.600s\n", msg.Method, string(raw))
	}
	if len(msg.ID) == 0 || string(msg.ID) == "null" {
		return raw
	}
	if c16Debug != nil && fromServer && msg.Method == "" {
		fmt.Fprintf(c16Debug, "  s2c reply id=%s %.300s\n", msg.ID, string(msg.Result))
	}
	if c16Debug != nil && !fromServer {
		fmt.Fprintf(c16Debug, "  c2s %s id=%s %.400s\n", msg.Method, msg.ID, string(raw))
	}
	if !fromServer {
		if msg.Method == "monitor_cond_since" && len(msg.Params) == 4 {
			var last string
			_ = json.Unmarshal(msg.Params[3], &last)
			p.mu.Lock()
			if p.pending == nil {
				p.pending = map[string]sinceReq{}
			}
			p.pending[string(msg.ID)] = sinceReq{cookie: string(msg.Params[1]), requests: msg.Params[2], lastID: last}
			p.mu.Unlock()
		}
		return raw
	}
	if msg.Method != "" {
		return raw
	}
	p.mu.Lock()
	rq, ok := p.pending[string(msg.ID)]
	delete(p.pending, string(msg.ID))
	p.mu.Unlock()
	if !ok || (len(msg.Error) > 0 && string(msg.Error) != "null") {
		return raw
	}
	var result []json.RawMessage
	if json.Unmarshal(msg.Result, &result) != nil || len(result) != 3 {
		return raw
	}
	nr := p.onSince(rq.cookie, rq.requests, rq.lastID, result)
	if nr == nil {
		return raw
	}
	if c16Debug != nil {
		b, _ := json.Marshal(nr)
		fmt.Fprintf(c16Debug, "  REWRITE since %s -> %.1500s\n", rq.lastID, string(b))
	}
	out, err := json.Marshal(map[string]interface{}{"id": msg.ID, "result": nr, "error": nil})
	if err != nil {
		return raw
	}
	return out
}

func (p *cutProxy) cutNow() {
	p.mu.Lock()
	for _, c := range p.conns {
		c.Close()
	}
	p.cuts++
	p.mu.Unlock()
}

func (p *cutProxy) arm(s2c, c2s int) {
	p.mu.Lock()
	if s2c > 0 {
		p.cutS2C = p.s2c + s2c
	}
	if c2s > 0 {
		p.cutC2S = p.c2s + c2s
	}
	p.mu.Unlock()
}

func (p *cutProxy) hold(on bool) { p.mu.Lock(); p.holding = on; p.mu.Unlock() }
func (p *cutProxy) goSilent() { p.mu.Lock(); p.silent = true; p.mu.Unlock() }
func (p *cutProxy) close()    { p.ln.Close(); p.cutNow(); os.Remove(p.path) }

func c16Schema() dyn.Schema {
	sc := c02Schema()
	sc.Name = "C16"
	sc.Tables = append(sc.Tables, dyn.Table{Name: "M", IsRoot: true, Cols: []val.Col{{Name: "c", K: 'a', KT: 'i'}}})
	return sc
}

func coqTables(s *val.Syms, sc dyn.Schema, st map[string]map[string]map[string]val.Val) string {
	var ts []string
	for _, t := range sc.Tables {
		var rows []string
		for _, u := range sortedRowKeys(st[t.Name]) {
			rows = append(rows, fmt.Sprintf("(%d%%N, %s)", s.ID(u), dyn.CoqRow(s, st[t.Name][u])))
		}
		ts = append(ts, fmt.Sprintf("(%d%%N, [%s])", s.ID(t.Name), strings.Join(rows, "; ")))
	}
	return "[" + strings.Join(ts, ";\n      ") + "]"
}

func driveC16(o opts) error {
	quietStderr()
	g := gen.New(o.seed)
	w := emit.New("C16", o.out)
	w.ShardSize = 10
	ncases, ncuts := 14, 3
	if o.tier == "thorough" {
		ncases, ncuts = 150, 5
	}
	if o.n > 0 {
		ncases = o.n
	}
	sc := c16Schema()
	if p := os.Getenv("VERIF_C16_DEBUG"); p != "" {
		c16Debug, _ = os.Create(p)
	}
	for ci := 0; ci < ncases; ci++ {
		c16Log("=== case %d", ci)
		syms := val.NewSyms()
		syms.ID("_uuid")
		lab, err := newSrvLab(sc, o.out)
		if err != nil {
			return err
		}
		err = func() error {
			defer lab.close()
			px, err := newCutProxy(o.out, lab.sock, ci)
			if err != nil {
				return err
			}
			defer px.close()
			writer, err := lab.dial()
			if err != nil {
				return err
			}
			defer writer.close()
			oracle := ""
			fail := func(format string, a ...interface{}) {
				if oracle == "" {
					oracle = fmt.Sprintf(format, a...)
				}
			}
			// history mode: the proxy answers monitor_cond_since as a server that knows past transaction ids would
			// (only a client with a single monitor_cond_since monitor sends its last id)
			// case 0 is scripted: history, no forgetting, and in its first round the exact sequence "notification while
			// connected; unreachable while a set and a map of a monitored row change; back; quiet second cut"
			scripted := ci == 0
			historyMode := g.Chance(0.4) || scripted || ci%5 == 4
			var hist *c16History
			record := func() {}
			if historyMode {
				hist, err = newC16History(lab, g)
				if err != nil {
					return err
				}
				defer hist.close()
				px.onSince = hist.onSince
				record = hist.record
				if scripted {
					hist.pForget = 0
				}
				w.Count("mode:history")
			}
			silentMode := g.Chance(0.2) && !scripted
			opt := client.WithReconnect(2*time.Second, backoff.NewConstantBackOff(15*time.Millisecond))
			if silentMode {
				opt = client.WithInactivityCheck(250*time.Millisecond, 2*time.Second, backoff.NewConstantBackOff(15*time.Millisecond))
			}
			copts := []client.Option{client.WithEndpoint("unix:" + px.path), opt}
			if c16Debug != nil {
				lg := funcr.New(func(prefix, args string) {
					if strings.Contains(args, "rror") {
						c16Log("  CLIENT %s %.600s", prefix, args)
					}
				}, funcr.Options{Verbosity: 3})
				copts = append(copts, client.WithLogger(&lg))
			}
			cl, err := client.NewOVSDBClient(lab.db.Client, copts...)
			if err != nil {
				return err
			}
			defer cl.Close()
			ctxT := func(d time.Duration) (context.Context, context.CancelFunc) {
				return context.WithTimeout(context.Background(), d)
			}
			// a cut during connect / schema fetch in some cases
			if g.Chance(0.25) {
				px.mu.Lock()
				px.cutS2C = 1 + g.Intn(2)
				px.mu.Unlock()
				// the proxy resets its counters on accept, so arm again right after accept
				go func() {
					for i := 0; i < 200; i++ {
						px.mu.Lock()
						if px.accepted > 0 {
							if px.cuts == 0 && px.cutS2C == 0 {
								px.cutS2C = px.s2c + 1
							}
							px.mu.Unlock()
							return
						}
						px.mu.Unlock()
						time.Sleep(time.Millisecond)
					}
				}()
				w.Count("cut:during connect")
			}
			connected := false
			for try := 0; try < 8 && !connected; try++ {
				ctx, cancel := ctxT(3 * time.Second)
				err := cl.Connect(ctx)
				cancel()
				if err == nil || err == client.ErrAlreadyConnected {
					connected = true
				} else {
					time.Sleep(20 * time.Millisecond)
				}
			}
			if !connected {
				fail("the client cannot connect after a cut during its first connection attempts")
				w.Add(emit.Case{Term: "C16.CSteps []", JSON: map[string]interface{}{"case": ci}, Key: fmt.Sprint("noconnect", ci), Oracle: oracle})
				return nil
			}
			// populate
			scGen := c02Schema() // the generated transactions leave the marker table alone
			scGen.Name = sc.Name
			tg := &txnGen{g: g, sc: scGen, state: map[string]map[string]map[string]val.Val{}, pool: 5, pSelect: 0.02, pWait: 0.0, pInvalid: 0.05, dangling: 0.02}
			var ops []TOp
			for i := 0; i < 3; i++ {
				cu, qu := tg.fresh(), tg.fresh()
				ops = append(ops,
					TOp{Kind: "insert", Table: "Q", UUID: qu, Row: map[string]val.Val{"name": val.VA(gen.AtomN('s', i))}},
					TOp{Kind: "insert", Table: "C", UUID: cu, Row: map[string]val.Val{"k": val.VA(gen.AtomN('s', i+1)), "friend": val.VSome(val.Uuid(qu))}},
					TOp{Kind: "insert", Table: "P", UUID: tg.fresh(), Row: map[string]val.Val{"name": val.VA(gen.AtomN('s', i)), "kids": val.VS(val.Uuid(cu)), "w1": val.VS(val.Uuid(qu))}})
			}
			if ob := lab.runWith(ops, writer.transactor(sc.Name)); !ob.Committed {
				return fmt.Errorf("populate failed")
			}
			record()
			// monitors on disjoint table groups
			tabs := g.R.Perm(3) // P, C, Q; M is left unmonitored or joins the first group
			nm := 1 + g.Intn(3)
			// history mode has one monitor (the only arrangement in which the client may resume from its last id), except in
			// every third history case: two or three monitor_cond_since monitors, for which a reconnecting client must ask
			// for everything again (a server that knows the ids it sends would otherwise answer with a difference)
			multiHist := historyMode && !scripted && (ci%5 == 4 || ci%3 == 2)
			if historyMode && !multiHist {
				nm = 1
			}
			if multiHist {
				if nm == 1 {
					nm = 2
				}
				w.Count("mode:history with several monitors")
			}
			groups := [][]string{{}, {}, {}}[:nm]
			for i, ti := range tabs {
				groups[i%nm] = append(groups[i%nm], sc.Tables[ti].Name)
			}
			if g.Chance(0.5) {
				groups[0] = append(groups[0], "M")
			}
			methods := []string{ovsdb.MonitorRPC, ovsdb.ConditionalMonitorRPC, ovsdb.ConditionalMonitorSinceRPC}
			monitored := map[string]bool{}
			var monTerm []string
			for gi, grp := range groups {
				var optsM []client.MonitorOption
				var ts []string
				for _, t := range grp {
					optsM = append(optsM, client.WithTable(lab.db.New(t)))
					monitored[t] = true
					ts = append(ts, fmt.Sprintf("%d%%N", syms.ID(t)))
				}
				monTerm = append(monTerm, "["+strings.Join(ts, "; ")+"]")
				method := methods[g.Intn(3)]
				if historyMode {
					method = ovsdb.ConditionalMonitorSinceRPC
				}
				if gi == 1 && g.Chance(0.3) {
					px.arm(1+g.Intn(2), 0) // cut during this monitor's set-up
					w.Count("cut:during monitor set-up")
				}
				ok := false
				for try := 0; try < 10 && !ok; try++ {
					mon := cl.NewMonitor(optsM...)
					mon.Method = method
					ctx, cancel := ctxT(3 * time.Second)
					_, err := cl.Monitor(ctx, mon)
					cancel()
					if err == nil {
						ok = true
					} else {
						time.Sleep(30 * time.Millisecond)
					}
				}
				if !ok {
					fail("monitor %d cannot be established after a cut during its set-up", gi)
				}
				w.Count("monitor:" + method)
			}
			monitorsTerm := "[" + strings.Join(monTerm, "; ") + "]"
			readCacheAll := func() map[string]map[string]map[string]val.Val {
				out := map[string]map[string]map[string]val.Val{}
				for _, t := range sc.Tables {
					out[t.Name] = map[string]map[string]val.Val{}
					rc := cl.Cache().Table(t.Name)
					if rc == nil {
						continue
					}
					for u, m := range rc.Rows() {
						out[t.Name][u] = lab.db.RowMap(m, t.Name)
					}
				}
				return out
			}
			matches := func(cache, dbst map[string]map[string]map[string]val.Val) string {
				for _, t := range sc.Tables {
					want := dbst[t.Name]
					if !monitored[t.Name] {
						want = nil
					}
					if len(cache[t.Name]) != len(want) {
						return fmt.Sprintf("table %s: the cache holds %d rows, the database %d", t.Name, len(cache[t.Name]), len(want))
					}
					for u, r := range want {
						cr, ok := cache[t.Name][u]
						if !ok {
							return fmt.Sprintf("table %s: row %s is missing in the cache", t.Name, u)
						}
						for c, v := range r {
							if !v.Equal(cr[c]) {
								return fmt.Sprintf("table %s: row %s column %s is %s in the cache, %s in the database", t.Name, u, c, cr[c].Key(), v.Key())
							}
						}
					}
				}
				return ""
			}
			var stepTerms []string
			var stepJ []interface{}
			settle := func(label string) {
				c16Log("settle: %s", label)
				deadline := time.Now().Add(8 * time.Second)
				var cache, dbst map[string]map[string]map[string]val.Val
				diff := "never connected"
				for time.Now().Before(deadline) {
					if cl.Connected() && cl.CurrentEndpoint() != "" {
						dbst, _, _ = lab.state()
						cache = readCacheAll()
						if diff = matches(cache, dbst); diff == "" {
							break
						}
					}
					time.Sleep(10 * time.Millisecond)
				}
				if dbst == nil {
					dbst, _, _ = lab.state()
					cache = readCacheAll()
				}
				if diff != "" {
					c16Log("FAIL %s: %s", label, diff)
					fail("%s: 8 s after the cut the client does not mirror the database: %s", label, diff)
				}
				stepTerms = append(stepTerms, fmt.Sprintf("mkStep %s\n     %s\n     %s", monitorsTerm, coqTables(syms, sc, dbst), coqTables(syms, sc, cache)))
				stepJ = append(stepJ, label)
			}
			settle("after monitor set-up")
			// markers
			markerN := 0
			type markerRec struct {
				value int64
				ok    bool
			}
			var markers []markerRec
			clientTransact := func() {
				markerN++
				v := int64(1000000 + markerN)
				// no uuid given: a request applied twice would store two rows
				op := TOp{Kind: "insert", Table: "M", Row: map[string]val.Val{"c": val.VA(val.Int(v))}}
				ctx, cancel := ctxT(4 * time.Second)
				res, err := cl.Transact(ctx, op.operation(lab.db))
				cancel()
				good := err == nil && len(res) == 1 && res[0].Error == ""
				markers = append(markers, markerRec{v, good})
				record()
			}
			for k := 0; k < ncuts; k++ {
				st, _, _ := lab.state()
				tg.state = st
				kind := g.Intn(4)
				if silentMode {
					kind = 4 // only a client with the inactivity probe can notice a silent peer
				}
				if scripted && k == 0 {
					var pu string
					for u := range st["P"] {
						if pu == "" || u < pu {
							pu = u
						}
					}
					byU := []Cond{{Col: "_uuid", Fn: "==", Arg: val.VA(val.Uuid(pu))}}
					step := func(ss []string, m [][2]string) {
						sv := val.Val{K: 's'}
						for _, x := range ss {
							sv.Set = append(sv.Set, val.Str(x))
						}
						mv := val.Val{K: 'm'}
						for _, p := range m {
							mv.Map = append(mv.Map, [2]val.Atom{val.Str(p[0]), val.Str(p[1])})
						}
						lab.runWith([]TOp{{Kind: "update", Table: "P", Where: byU, Row: map[string]val.Val{"ss": sv, "m": mv}}}, writer.transactor(sc.Name))
						record()
					}
					step([]string{"a", "b"}, [][2]string{{"k1", "x"}, {"k2", "y"}})
					settle("scripted: notified while connected")
					px.hold(true)
					px.cutNow()
					step([]string{"b", "c"}, [][2]string{{"k1", "z"}, {"k3", "w"}})
					px.hold(false)
					settle("scripted: back after changes made while unreachable")
					px.cutNow()
					settle("scripted: quiet second cut")
					w.Count("scripted history round")
					continue
				}
				if historyMode && g.Chance(0.8) {
					// a transaction while the client is connected: its update3 gives the client a last-transaction-id
					lab.runWith(tg.txn(4), writer.transactor(sc.Name))
					record()
					settle(fmt.Sprintf("before cut %d", k))
					st, _, _ := lab.state()
					tg.state = st
				}
				held := false
				if historyMode && kind <= 1 && g.Chance(0.7) {
					// the server stays unreachable while other clients commit: the changes reach the client
					// only through the reply to its re-established monitor
					held = true
					kind = 0
					px.hold(true)
					w.Count("cut:server unreachable while others commit")
				}
				switch kind {
				case 0: // cut between notifications
					px.cutNow()
					w.Count("cut:idle")
				case 1: // cut inside the notification stream: the n-th next message from the server is lost
					px.arm(1+g.Intn(3), 0)
					w.Count("cut:inside notifications")
				case 2: // cut while the client's own transaction is in flight (request lost)
					px.arm(0, 1)
					clientTransact()
					w.Count("cut:transaction request lost")
				case 3: // ... (reply lost)
					px.arm(1, 0)
					clientTransact()
					w.Count("cut:transaction reply lost")
				default:
					px.goSilent()
					w.Count("cut:silent peer")
				}
				// committed by another client while this one is away / cut
				for j := 1 + g.Intn(3); j > 0; j-- {
					st, _, _ := lab.state()
					tg.state = st
					lab.runWith(tg.txn(4), writer.transactor(sc.Name))
					record()
				}
				if held {
					px.hold(false)
				}
				if historyMode && g.Chance(0.5) {
					// a second cut after a quiet session: no notification between two reconnections
					settle(fmt.Sprintf("cut %d (kind %d), before the quiet second cut", k, kind))
					away := g.Chance(0.5)
					if away {
						px.hold(true)
					}
					px.cutNow()
					w.Count("cut:idle, again after a quiet session")
					if away {
						st, _, _ := lab.state()
						tg.state = st
						lab.runWith(tg.txn(4), writer.transactor(sc.Name))
						record()
						px.hold(false)
					}
				}
				if g.Chance(0.5) {
					clientTransact()
				}
				if silentMode {
					time.Sleep(400 * time.Millisecond)
				}
				settle(fmt.Sprintf("cut %d (kind %d)", k, kind))
			}
			// exactly once / at most once
			st, _, _ := lab.state()
			for _, m := range markers {
				stored := 0
				for _, row := range st["M"] {
					if row["c"].A.I == m.value {
						stored++
					}
				}
				if m.ok && stored != 1 {
					fail("a Transact call returned results but its marker %d is stored %d times", m.value, stored)
				}
				if !m.ok && stored > 1 {
					fail("a Transact call returned an error but its marker %d is stored %d times", m.value, stored)
				}
				if m.ok {
					w.Count("transact:returned results")
				} else {
					w.Count(fmt.Sprintf("transact:returned an error (applied %d times)", stored))
				}
			}
			foundAnswers := 0
			if hist != nil {
				hist.mu.Lock()
				for k, n := range hist.counts {
					w.Dist[k] += n
					if strings.HasPrefix(k, "since:found") {
						foundAnswers += n
					}
				}
				hist.mu.Unlock()
			}
			term := "C16.CSteps [" + strings.Join(stepTerms, ";\n    ") + "]"
			w.Add(emit.Case{Term: term, JSON: map[string]interface{}{"monitors": groups, "steps": stepJ, "silent": silentMode, "history": historyMode}, Key: term,
				Nontrivial: nm >= 2 || foundAnswers > 0, Oracle: oracle})
			return nil
		}()
		if err != nil {
			return err
		}
	}
	if err := c16Leader(o, g, w); err != nil {
		return err
	}
	w.Extra["fact_obligations"] = []interface{}{c16TrafficFact(o)}
	return w.Flush()
}
