package main

// C16, leader-only mode: real servers that also serve the _Server database,
// whose Database table says, per database, whether it is clustered and whether
// this server is the leader. A leader-only client must attach only to an
// endpoint that does not report "clustered, not the leader" for its database,
// and must leave an endpoint that announces the loss of leadership.

import (
	"context"
	"fmt"
	"os"
	"path/filepath"
	"strings"
	"time"

	"github.com/cenkalti/backoff/v4"
	"github.com/go-logr/logr"
	"github.com/ovn-org/libovsdb/client"
	"github.com/ovn-org/libovsdb/database/inmemory"
	"github.com/ovn-org/libovsdb/model"
	"github.com/ovn-org/libovsdb/ovsdb/serverdb"
	"github.com/ovn-org/libovsdb/server"

	"verifharness/dyn"
	"verifharness/emit"
	"verifharness/gen"
	"verifharness/val"
)

type srvRow struct {
	name      string
	clustered bool
	leader    bool
}

type leaderLab struct {
	*srvLab
	admin *peer
	rows  []srvRow
}

func newLeaderLab(sc dyn.Schema, dir string) (*leaderLab, error) {
	db, err := sc.Build()
	if err != nil {
		return nil, err
	}
	serverDBModel, err := serverdb.FullDatabaseModel()
	if err != nil {
		return nil, err
	}
	serverSchema := serverdb.Schema()
	im := inmemory.NewDatabase(map[string]model.ClientDBModel{sc.Name: db.Client, serverSchema.Name: serverDBModel})
	servMod, errs := model.NewDatabaseModel(serverSchema, serverDBModel)
	if len(errs) > 0 {
		return nil, fmt.Errorf("_Server model: %v", errs)
	}
	srv, err := server.NewOvsdbServer(im, db.Model, servMod)
	if err != nil {
		return nil, err
	}
	sockCounter++
	sock := filepath.Join(dir, fmt.Sprintf("lsrv%d_%d.sock", os.Getpid(), sockCounter))
	os.Remove(sock)
	go func() { _ = srv.Serve("unix", sock) }()
	for i := 0; i < 500 && !srv.Ready(); i++ {
		time.Sleep(2 * time.Millisecond)
	}
	if !srv.Ready() {
		return nil, fmt.Errorf("server did not become ready")
	}
	l := &leaderLab{srvLab: &srvLab{txnLab: &txnLab{db: db, imdb: im, name: sc.Name}, srv: srv, sock: sock}}
	l.admin, err = l.dial()
	if err != nil {
		l.close()
		return nil, err
	}
	return l, nil
}

func (l *leaderLab) shut() {
	l.admin.close()
	l.close()
}

func (l *leaderLab) adminTransact(ops ...map[string]interface{}) error {
	args := []interface{}{"_Server"}
	for _, o := range ops {
		args = append(args, o)
	}
	var reply []map[string]interface{}
	if err := l.admin.c.Call("transact", args, &reply); err != nil {
		return err
	}
	for _, r := range reply {
		if e, ok := r["error"]; ok && e != nil && e != "" {
			return fmt.Errorf("_Server transaction: %v", r)
		}
	}
	return nil
}

// list adds a row of _Server.Database.
func (l *leaderLab) list(r srvRow, n int) error {
	row := map[string]interface{}{"name": r.name, "connected": true, "leader": r.leader, "model": "standalone"}
	if r.clustered {
		row["model"] = "clustered"
		row["sid"] = []interface{}{"uuid", gen.UUIDn(880000 + n)}
	}
	l.rows = append(l.rows, r)
	return l.adminTransact(map[string]interface{}{"op": "insert", "table": "Database", "row": row})
}

func (l *leaderLab) setLeader(db string, leader bool) error {
	for i := range l.rows {
		if l.rows[i].name == db {
			l.rows[i].leader = leader
		}
	}
	return l.adminTransact(map[string]interface{}{"op": "update", "table": "Database",
		"where": []interface{}{[]interface{}{"name", "==", db}}, "row": map[string]interface{}{"leader": leader}})
}

func (l *leaderLab) coqRows(syms *val.Syms) string {
	var rs []string
	for _, r := range l.rows {
		rs = append(rs, fmt.Sprintf("mkSRow %d%%N %v %v", syms.ID(r.name), r.clustered, r.leader))
	}
	return "[" + strings.Join(rs, "; ") + "]"
}

func c16Leader(o opts, g *gen.G, w *emit.Writer) error {
	ncases := 6
	if o.tier == "thorough" {
		ncases = 40
	}
	sc := c16Schema()
	quiet := logr.Discard()
	for ci := 0; ci < ncases; ci++ {
		syms := val.NewSyms()
		syms.ID("_uuid")
		oracle := ""
		fail := func(format string, a ...interface{}) {
			if oracle == "" {
				oracle = fmt.Sprintf(format, a...)
			}
		}
		// the role of an endpoint for the client's database
		mkLab := func(role string, n int) (*leaderLab, error) {
			l, err := newLeaderLab(sc, o.out)
			if err != nil {
				return nil, err
			}
			// the other databases a server lists (itself, others), before and after the client's database
			var rows []srvRow
			extra := g.Intn(7)
			for i := 0; i < extra; i++ {
				name := fmt.Sprintf("aux%d", i)
				if i == 0 {
					name = "_Server"
				}
				rows = append(rows, srvRow{name: name, clustered: g.Chance(0.2), leader: g.Chance(0.7)})
			}
			switch role {
			case "leader":
				rows = append(rows, srvRow{sc.Name, true, true})
			case "follower":
				rows = append(rows, srvRow{sc.Name, true, false})
			case "standalone":
				rows = append(rows, srvRow{sc.Name, false, g.Chance(0.5)})
			}
			g.R.Shuffle(len(rows), func(i, j int) { rows[i], rows[j] = rows[j], rows[i] })
			for i, r := range rows {
				if err := l.list(r, n*100+i); err != nil {
					l.shut()
					return nil, err
				}
			}
			return l, nil
		}
		decision := func(labs []*leaderLab, obs int) string {
			var eps []string
			for _, l := range labs {
				eps = append(eps, l.coqRows(syms))
			}
			ot := "None"
			if obs >= 0 {
				ot = fmt.Sprintf("(Some %d%%nat)", obs)
			}
			return fmt.Sprintf("C16.CLeader (C16.mkLeader %d%%N [%s] %s)", syms.ID(sc.Name), strings.Join(eps, "; "), ot)
		}
		indexOf := func(labs []*leaderLab, endpoint string) int {
			for i, l := range labs {
				if endpoint == "unix:"+l.sock {
					return i
				}
			}
			return -1
		}
		ctxD := func(d time.Duration) (context.Context, context.CancelFunc) {
			return context.WithTimeout(context.Background(), d)
		}
		scenario := []string{"attach", "attach", "moves", "lost"}[g.Intn(4)]
		if ci < 4 {
			scenario = []string{"attach", "moves", "lost", "attach3"}[ci]
		}
		w.Count("leader:" + scenario)
		var terms []string
		switch scenario {
		case "attach", "attach3":
			n := 1 + g.Intn(3)
			// attach3: three or four endpoints, the only acceptable one neither first nor last; the client must name it
			// as its endpoint, and leave it when it loses the leadership to the first one
			var fixed []string
			if scenario == "attach3" {
				fixed = [][]string{{"follower", "leader", "follower"}, {"follower", "follower", "leader", "follower"}, {"follower", "leader", "follower", "follower"}}[g.Intn(3)]
				n = len(fixed)
			}
			var labs []*leaderLab
			var roles []string
			for i := 0; i < n; i++ {
				role := []string{"leader", "follower", "follower", "standalone", "norow"}[g.Intn(5)]
				if fixed != nil {
					role = fixed[i]
				}
				l, err := mkLab(role, i)
				if err != nil {
					return err
				}
				defer l.shut()
				labs = append(labs, l)
				roles = append(roles, role)
			}
			copts := []client.Option{client.WithLeaderOnly(true), client.WithLogger(&quiet)}
			if fixed != nil {
				copts = append(copts, client.WithReconnect(2*time.Second, backoff.NewConstantBackOff(15*time.Millisecond)))
			}
			for _, l := range labs {
				copts = append(copts, client.WithEndpoint("unix:"+l.sock))
			}
			cl, err := client.NewOVSDBClient(labs[0].db.Client, copts...)
			if err != nil {
				return err
			}
			ctx, cancel := ctxD(3 * time.Second)
			err = cl.Connect(ctx)
			cancel()
			obs := -1
			if err == nil {
				obs = indexOf(labs, cl.CurrentEndpoint())
				if obs < 0 {
					fail("connected to an unknown endpoint %q", cl.CurrentEndpoint())
				} else if roles[obs] == "follower" {
					fail("the leader-only client attached to endpoint %d, which reports that it is not the leader (roles %v)", obs, roles)
				}
			} else if cl.Connected() {
				fail("Connect failed (%v) but the client says it is connected", err)
			}
			if err != nil {
				for _, r := range roles {
					if r != "follower" {
						fail("Connect failed (%v) although an endpoint is acceptable (roles %v)", err, roles)
					}
				}
			}
			terms = append(terms, decision(labs, obs))
			if fixed != nil && err == nil && obs > 0 {
				// the leadership moves from the endpoint in the middle to the first one of the list
				ctx, cancel := ctxD(3 * time.Second)
				_, merr := cl.MonitorAll(ctx)
				cancel()
				if merr != nil {
					fail("monitor: %v", merr)
				}
				if err := labs[obs].setLeader(sc.Name, false); err != nil {
					return err
				}
				if err := labs[0].setLeader(sc.Name, true); err != nil {
					return err
				}
				deadline := time.Now().Add(8 * time.Second)
				moved := false
				for time.Now().Before(deadline) && !moved {
					moved = cl.Connected() && cl.CurrentEndpoint() == "unix:"+labs[0].sock
					if !moved {
						time.Sleep(10 * time.Millisecond)
					}
				}
				if !moved {
					fail("roles %v: 8 s after the leadership moved from endpoint %d to endpoint 0 the client is on %q (connected %v)", roles, obs, cl.CurrentEndpoint(), cl.Connected())
				}
			}
			cl.Close()
		case "moves":
			a, err := mkLab("leader", 1)
			if err != nil {
				return err
			}
			defer a.shut()
			b, err := mkLab("follower", 2)
			if err != nil {
				return err
			}
			defer b.shut()
			labs := []*leaderLab{a, b}
			// different contents on the two servers
			for i, l := range labs {
				ob := l.runWith([]TOp{{Kind: "insert", Table: "Q", UUID: gen.UUIDn(4000 + i), Row: map[string]val.Val{"name": val.VA(gen.AtomN('s', i+1))}}}, l.admin.transactor(sc.Name))
				if !ob.Committed {
					return fmt.Errorf("leader scenario: populate failed")
				}
			}
			cl, err := client.NewOVSDBClient(a.db.Client, client.WithLeaderOnly(true), client.WithLogger(&quiet),
				client.WithReconnect(2*time.Second, backoff.NewConstantBackOff(15*time.Millisecond)),
				client.WithEndpoint("unix:"+a.sock), client.WithEndpoint("unix:"+b.sock))
			if err != nil {
				return err
			}
			ctx, cancel := ctxD(3 * time.Second)
			err = cl.Connect(ctx)
			cancel()
			if err != nil {
				fail("cannot connect to the leader: %v", err)
				cl.Close()
				break
			}
			terms = append(terms, decision(labs, indexOf(labs, cl.CurrentEndpoint())))
			ctx, cancel = ctxD(3 * time.Second)
			_, err = cl.MonitorAll(ctx)
			cancel()
			if err != nil {
				fail("monitor: %v", err)
			}
			// leadership moves from a to b
			if err := a.setLeader(sc.Name, false); err != nil {
				return err
			}
			time.Sleep(time.Duration(g.Intn(60)) * time.Millisecond)
			if err := b.setLeader(sc.Name, true); err != nil {
				return err
			}
			deadline := time.Now().Add(8 * time.Second)
			okNow := false
			for time.Now().Before(deadline) && !okNow {
				if cl.Connected() && cl.CurrentEndpoint() == "unix:"+b.sock {
					st, _, _ := b.state()
					rows := cl.Cache().Table("Q").Rows()
					okNow = len(rows) == len(st["Q"])
					for u := range st["Q"] {
						if _, ok := rows[u]; !ok {
							okNow = false
						}
					}
				}
				if !okNow {
					time.Sleep(10 * time.Millisecond)
				}
			}
			if !okNow {
				fail("8 s after the leadership moved the client is on %q (connected %v) and does not mirror the new leader", cl.CurrentEndpoint(), cl.Connected())
			}
			cl.Close()
			// the list after the rotation: b first
			terms = append(terms, decision([]*leaderLab{b, a}, 0))
		default: // lost
			a, err := mkLab("leader", 1)
			if err != nil {
				return err
			}
			defer a.shut()
			labs := []*leaderLab{a}
			cl, err := client.NewOVSDBClient(a.db.Client, client.WithLeaderOnly(true), client.WithLogger(&quiet),
				client.WithReconnect(2*time.Second, backoff.NewConstantBackOff(15*time.Millisecond)),
				client.WithEndpoint("unix:"+a.sock))
			if err != nil {
				return err
			}
			ctx, cancel := ctxD(3 * time.Second)
			err = cl.Connect(ctx)
			cancel()
			if err != nil {
				fail("cannot connect to the leader: %v", err)
				cl.Close()
				break
			}
			terms = append(terms, decision(labs, 0))
			if err := a.setLeader(sc.Name, false); err != nil {
				return err
			}
			// after a grace period the client must not be attached to the endpoint that says it is not the leader
			time.Sleep(1500 * time.Millisecond)
			attached := 0
			for i := 0; i < 20; i++ {
				if cl.Connected() {
					attached++
				}
				time.Sleep(25 * time.Millisecond)
			}
			if attached == 20 {
				fail("1.5 s after its only endpoint announced it is no longer the leader the client is still attached to it")
			}
			terms = append(terms, decision(labs, -1))
			if err := a.setLeader(sc.Name, true); err != nil {
				return err
			}
			deadline := time.Now().Add(8 * time.Second)
			for time.Now().Before(deadline) && !cl.Connected() {
				time.Sleep(10 * time.Millisecond)
			}
			if !cl.Connected() {
				fail("8 s after the endpoint became the leader again the client is not connected")
			}
			cl.Close()
			terms = append(terms, decision(labs, 0))
		}
		for i, t := range terms {
			orc := ""
			if i == len(terms)-1 {
				orc = oracle
			}
			w.Add(emit.Case{Term: t, JSON: map[string]interface{}{"leader_scenario": scenario, "case": ci, "decision": i}, Key: fmt.Sprintf("leader%d.%d:%s", ci, i, t),
				Nontrivial: scenario != "attach" || strings.Contains(t, "true false"), Class: "leader:" + scenario, Oracle: orc})
		}
		if len(terms) == 0 && oracle != "" {
			w.Add(emit.Case{Term: "C16.CSteps []", JSON: map[string]interface{}{"leader_scenario": scenario, "case": ci}, Key: fmt.Sprintf("leader%d", ci), Oracle: oracle})
		}
	}
	return nil
}
