package main

// C19: no input can crash the library.
//  part A: every wire decoder on structurally corrupted (and valid) trees, and on
//          garbled bytes; outcome class and decoded value compared with the model;
//  part B: Transact of structurally corrupted operation lists on the in-memory
//          database (in process, panics recovered and classified), followed by a
//          valid select that must still be answered;
//  part C: the same kind of requests as raw JSON-RPC "transact" to a real server,
//          each followed by an "echo" on the same connection.

import (
	"context"
	"encoding/json"
	"fmt"
	"github.com/ovn-org/libovsdb/cache"
	"github.com/ovn-org/libovsdb/client"
	"github.com/ovn-org/libovsdb/model"
	"io"
	"net"
	"os"
	"os/exec"
	"path/filepath"
	"runtime/debug"
	"sort"
	"strings"
	"sync"
	"time"

	"github.com/ovn-org/libovsdb/ovsdb"

	"verifharness/dyn"
	"verifharness/emit"
	"verifharness/gen"
	"verifharness/val"
)

func init() { drivers["C19"] = driveC19 }

type decTarget struct {
	name   string
	coq    string // constructor of Corr.C19.target ("" = implementation only)
	valid  func(w *wgen) interface{}
	decode func(b []byte) (interface{}, error) // returns the decoded value in comparable form
}

func tripleOut(col, fn string, v interface{}) interface{} {
	return []interface{}{col, fn, v}
}

func remarshal(x interface{}) (interface{}, error) {
	return toTree(x)
}

func decTargets() []decTarget {
	tree := func(x interface{}) interface{} { t, _ := toTree(x); return t }
	return []decTarget{
		{"set", "TSet", func(w *wgen) interface{} { return tree(w.set(w.atype(), w.g.Intn(4))) },
			func(b []byte) (interface{}, error) { var x ovsdb.OvsSet; err := json.Unmarshal(b, &x); return x, err }},
		{"map", "TMap", func(w *wgen) interface{} { return tree(w.omap(w.g.Intn(4))) },
			func(b []byte) (interface{}, error) { var x ovsdb.OvsMap; err := json.Unmarshal(b, &x); return x, err }},
		{"uuid", "TUuid", func(w *wgen) interface{} { return tree(w.uuid()) },
			func(b []byte) (interface{}, error) { var x ovsdb.UUID; err := json.Unmarshal(b, &x); return x, err }},
		{"row", "TRow", func(w *wgen) interface{} { return tree(w.row()) },
			func(b []byte) (interface{}, error) { var x ovsdb.Row; err := json.Unmarshal(b, &x); return x, err }},
		{"condition", "TCond", func(w *wgen) interface{} { return tree(w.condition()) },
			func(b []byte) (interface{}, error) {
				var x ovsdb.Condition
				err := json.Unmarshal(b, &x)
				return tripleOut(x.Column, string(x.Function), x.Value), err
			}},
		{"mutation", "TMut", func(w *wgen) interface{} { return tree(w.mutation()) },
			func(b []byte) (interface{}, error) {
				var x ovsdb.Mutation
				err := json.Unmarshal(b, &x)
				return tripleOut(x.Column, string(x.Mutator), x.Value), err
			}},
		{"basetype", "TBase", func(w *wgen) interface{} { return w.baseJSON(false) },
			func(b []byte) (interface{}, error) {
				var x ovsdb.BaseType
				if err := json.Unmarshal(b, &x); err != nil {
					return nil, err
				}
				return remarshal(x)
			}},
		{"columntype", "TColTy", func(w *wgen) interface{} { return w.coltyJSON() },
			func(b []byte) (interface{}, error) {
				var x ovsdb.ColumnType
				if err := json.Unmarshal(b, &x); err != nil {
					return nil, err
				}
				return remarshal(x)
			}},
		{"column", "TColumn", func(w *wgen) interface{} { return w.columnJSON() },
			func(b []byte) (interface{}, error) {
				var x ovsdb.ColumnSchema
				if err := json.Unmarshal(b, &x); err != nil {
					return nil, err
				}
				_ = x.String()
				return remarshal(x)
			}},
		// implementation only (struct-tag decoding of encoding/json around the modelled decoders)
		{"operation", "", func(w *wgen) interface{} { return tree(w.operation()) },
			func(b []byte) (interface{}, error) {
				var x ovsdb.Operation
				err := json.Unmarshal(b, &x)
				return nil, err
			}},
		{"operations", "", func(w *wgen) interface{} {
			return tree([]ovsdb.Operation{w.operation(), w.operation()})
		},
			func(b []byte) (interface{}, error) {
				var x []ovsdb.Operation
				err := json.Unmarshal(b, &x)
				return nil, err
			}},
		{"tableupdates", "TRu", func(w *wgen) interface{} { return tree(w.rowUpdates()) },
			func(b []byte) (interface{}, error) {
				var x ovsdb.TableUpdates
				err := json.Unmarshal(b, &x)
				return nil, err
			}},
		{"tableupdates2", "TRu2", func(w *wgen) interface{} { return tree(w.rowUpdates2()) },
			func(b []byte) (interface{}, error) {
				var x ovsdb.TableUpdates2
				err := json.Unmarshal(b, &x)
				return nil, err
			}},
		{"monitor_cond_since_reply", "TSince", func(w *wgen) interface{} {
			return tree(ovsdb.MonitorCondSinceReply{Found: w.g.Chance(0.5), LastTransactionID: gen.UUIDn(2), Updates: w.rowUpdates2()})
		},
			func(b []byte) (interface{}, error) {
				var x ovsdb.MonitorCondSinceReply
				err := json.Unmarshal(b, &x)
				return nil, err
			}},
		{"schema", "", func(w *wgen) interface{} { return w.schemaJSON() },
			func(b []byte) (interface{}, error) {
				var x ovsdb.DatabaseSchema
				if err := json.Unmarshal(b, &x); err != nil {
					return nil, err
				}
				_, err := json.Marshal(x)
				return nil, err
			}},
		{"result", "TRes", func(w *wgen) interface{} { return tree(w.result()) },
			func(b []byte) (interface{}, error) {
				var x ovsdb.OperationResult
				err := json.Unmarshal(b, &x)
				return nil, err
			}},
		{"monitor_request", "TMon", func(w *wgen) interface{} { return tree(w.monitorRequest()) },
			func(b []byte) (interface{}, error) {
				var x ovsdb.MonitorRequest
				err := json.Unmarshal(b, &x)
				return nil, err
			}},
	}
}

// lateTargets: the message decoders of coq/Wire/Messages.v; model and implementation are compared on the outcome class.
var lateTargets = map[string]bool{"TRu": true, "TRu2": true, "TSince": true, "TRes": true, "TMon": true}

// guarded runs f and classifies: 0 value, 1 error, 2 panic.
func guarded(f func() (interface{}, error)) (out interface{}, class int, msg string) {
	defer func() {
		if r := recover(); r != nil {
			out, class = nil, 2
			msg = fmt.Sprintf("panic: %v\n%s", r, trimStack(string(debug.Stack())))
		}
	}()
	out, err := f()
	if err != nil {
		return nil, 1, err.Error()
	}
	return out, 0, ""
}

func trimStack(s string) string {
	var keep []string
	for _, l := range strings.Split(s, "\n") {
		if strings.Contains(l, "libovsdb") && !strings.Contains(l, "verifharness") {
			keep = append(keep, strings.TrimSpace(l))
		}
		if len(keep) >= 6 {
			break
		}
	}
	return strings.Join(keep, " | ")
}

func c19Schema() dyn.Schema {
	cols := append(c08Cols(), val.Col{Name: "r2", K: 'a', KT: 'r'}, val.Col{Name: "im", K: 'a', KT: 's', Immutable: true},
		val.Col{Name: "msi", K: 'm', KT: 's', VT: 'i', Max: -1}, val.Col{Name: "or", K: 'o', KT: 'r'},
		val.Col{Name: "sr", K: 's', KT: 'r', Max: -1},
		val.Col{Name: "kids", K: 's', KT: 'u', Max: -1, RefTable: "R", RefType: "weak"})
	return dyn.Schema{Name: "C19", Tables: []dyn.Table{
		{Name: "T", Cols: cols, IsRoot: true, Indexes: [][]string{{"name"}}},
		{Name: "R", Cols: []val.Col{{Name: "name", K: 'a', KT: 's'}, {Name: "n", K: 'a', KT: 'i'}, {Name: "ss", K: 's', KT: 's', Max: -1}}, IsRoot: true},
	}}
}

// degenerate arithmetic and other hand-picked ill-formed operations (as JSON trees)
func c19Special() [][]interface{} {
	mut := func(col, m string, v interface{}) interface{} {
		return map[string]interface{}{"op": "mutate", "table": "T", "where": []interface{}{}, "mutations": []interface{}{[]interface{}{col, m, v}}}
	}
	var out [][]interface{}
	for _, col := range []string{"n", "r", "r2", "si", "sr", "oi", "or", "name", "b", "u", "m", "ss", "e", "nope"} {
		for _, m := range []string{"/=", "%=", "+=", "*=", "insert", "delete"} {
			for _, v := range []interface{}{0.0, 0.5, nil, "x", []interface{}{"set", []interface{}{}}, []interface{}{"set", []interface{}{0.0}},
				[]interface{}{"map", []interface{}{}}, true, []interface{}{"uuid", "x"}} {
				out = append(out, []interface{}{mut(col, m, v)})
			}
		}
	}
	// every condition function on every kind of column, with values of every shape, evaluated on a row that has the
	// columns set (the insert comes first in the same transaction; a unique name per transaction)
	nth := 0
	for _, col := range []string{"n", "r", "oi", "or", "os", "name", "b", "u", "e", "ss", "si", "sr", "m", "msi", "kids", "_uuid", "nope"} {
		for _, fn := range []string{"<", "<=", ">", ">=", "==", "!=", "includes", "excludes", "bogus"} {
			for _, v := range []interface{}{0.0, 0.5, nil, "x", true, []interface{}{"set", []interface{}{}}, []interface{}{"set", []interface{}{0.0, 1.0}},
				[]interface{}{"map", []interface{}{}}, []interface{}{"uuid", "x"}, []interface{}{"set", []interface{}{"x"}}} {
				nth++
				ins := map[string]interface{}{"op": "insert", "table": "T", "row": map[string]interface{}{
					"name": fmt.Sprintf("cond%d", nth), "n": 3.0, "r": 1.5, "oi": 4.0, "or": 2.5, "os": "o", "b": true,
					"ss": []interface{}{"set", []interface{}{"p", "q"}}, "si": []interface{}{"set", []interface{}{1.0, 2.0}},
					"m": []interface{}{"map", []interface{}{[]interface{}{"k", "v"}}}}}
				out = append(out, []interface{}{ins, map[string]interface{}{"op": "select", "table": "T", "where": []interface{}{[]interface{}{col, fn, v}}}})
			}
		}
	}
	for _, op := range []string{"insert", "select", "update", "mutate", "delete", "wait", "commit", "abort", "comment", "assert", "", "bogus"} {
		out = append(out, []interface{}{map[string]interface{}{"op": op}})
		out = append(out, []interface{}{map[string]interface{}{"op": op, "table": "nope"}})
		out = append(out, []interface{}{map[string]interface{}{"op": op, "table": "T"}})
		out = append(out, []interface{}{map[string]interface{}{"op": op, "table": "T", "where": []interface{}{[]interface{}{"e", "==", "e1"}}}})
		out = append(out, []interface{}{map[string]interface{}{"op": op, "table": "T", "where": []interface{}{[]interface{}{"nope", "==", 1.0}}}})
		out = append(out, []interface{}{map[string]interface{}{"op": op, "table": "T", "where": []interface{}{[]interface{}{"n", "==", nil}}}})
		out = append(out, []interface{}{map[string]interface{}{"op": op, "table": "T", "where": []interface{}{[]interface{}{"ss", "includes", nil}}}})
		out = append(out, []interface{}{map[string]interface{}{"op": op, "table": "T", "row": map[string]interface{}{"n": nil}, "where": []interface{}{}}})
		out = append(out, []interface{}{map[string]interface{}{"op": op, "table": "T", "row": map[string]interface{}{"ss": nil, "m": nil, "os": nil}, "where": []interface{}{}}})
		out = append(out, []interface{}{map[string]interface{}{"op": op, "table": "T", "row": map[string]interface{}{"nope": 1.0}, "where": []interface{}{}}})
		out = append(out, []interface{}{map[string]interface{}{"op": op, "table": "T", "columns": []interface{}{"nope"}, "where": []interface{}{}}})
		out = append(out, []interface{}{map[string]interface{}{"op": op, "table": "T", "columns": []interface{}{"n"}, "until": "==", "timeout": 0.0,
			"rows": []interface{}{map[string]interface{}{"n": nil}}, "where": []interface{}{}}})
		out = append(out, []interface{}{map[string]interface{}{"op": op, "table": "T", "columns": []interface{}{"n"}, "until": "bogus", "timeout": 0.0,
			"rows": []interface{}{map[string]interface{}{"nope": 1.0}}, "where": []interface{}{}}})
	}
	// a wait without the timeout member whose expectation does not hold (RFC 7047: wait indefinitely)
	out = append(out, []interface{}{map[string]interface{}{"op": "wait", "table": "T", "columns": []interface{}{"n"}, "until": "==",
		"rows": []interface{}{map[string]interface{}{"n": 123456.0}}, "where": []interface{}{}}})
	out = append(out, []interface{}{}) // no operation at all
	return out
}

func driveC19(o opts) error {
	quietStderr()
	g := gen.New(o.seed)
	wg := &wgen{g: g}
	syms := newWireSyms()
	w := emit.New("C19", o.out)
	w.ShardSize = 400
	nDec, nTxn, nSrv := 700, 400, 60
	if o.tier == "thorough" {
		nDec, nTxn, nSrv = 8000, 4000, 400
	}
	if o.n > 0 {
		nDec, nTxn, nSrv = o.n, o.n/2, o.n/10
	}
	current := filepath.Join(o.out, "current_input.json")
	_ = os.MkdirAll(o.out, 0o755)
	note := func(what string, x interface{}) {
		b, _ := json.Marshal(map[string]interface{}{"stage": what, "input": x})
		_ = os.WriteFile(current, b, 0o644)
	}
	var goFails []map[string]interface{}
	goFail := func(stage, what string, input interface{}) {
		w.Count("FAIL:" + stage)
		if len(goFails) < 20 {
			goFails = append(goFails, map[string]interface{}{"stage": stage, "what": what, "input": input})
		}
	}

	// ---- part A
	targets := decTargets()
	// a grid first, independent of the seed: every hostile leaf at every position of a valid encoding of every wire
	// type (and on its own) - decoding returns a value or an error
	{
		var hostile []interface{}
		for _, h := range []string{`{}`, `{"a":1}`, `[]`, `[[]]`, `null`, `true`, `""`, `1.5`, `-1`, `["set"]`, `["map"]`, `["uuid"]`, `["uuid",{}]`, `["uuid",null]`,
			`["named-uuid",1]`, `["set",[{}]]`, `["set",{}]`, `["set",[["set",[]]]]`, `["map",[[{},1]]]`, `["map",[[{"k":"v"},"x"]]]`, `["map",[[[],1]]]`, `["map",[[null,1]]]`,
			`["map",[{}]]`, `["map",{}]`, `["map",[[1]]]`, `["map",[[1,2,3]]]`, `[null,null,null]`, `["==","==","=="]`} {
			var x interface{}
			if json.Unmarshal([]byte(h), &x) == nil || h == "null" {
				hostile = append(hostile, x)
			}
		}
		grid := 0
		for _, t := range targets {
			tree := t.valid(wg)
			b0, err := json.Marshal(tree)
			if err != nil {
				continue
			}
			var base interface{}
			_ = json.Unmarshal(b0, &base)
			npos := countPositions(base)
			step := 1
			if npos > 24 {
				step = npos / 24
			}
			for _, h := range hostile {
				for pos := -1; pos < npos; pos += step {
					var variant interface{} = h
					if pos >= 0 {
						k := pos
						variant = substituteAt(base, &k, h)
					}
					b, err := json.Marshal(variant)
					if err != nil {
						continue
					}
					grid++
					note("decode "+t.name, variant)
					out, class, msg := guarded(func() (interface{}, error) { return t.decode(b) })
					if class == 2 {
						goFail("decode "+t.name, fmt.Sprintf("decoding %s as %s panics: %s", string(b), t.name, msg), variant)
					}
					// the hostile leaf on its own (null, {}, [], a bare atom ... as the whole input) also goes to the model
					if pos == -1 && t.coq != "" && class != 2 {
						outTerm := "GNull"
						if class == 0 && !lateTargets[t.coq] {
							outTerm = gvalTerm(syms, out)
						}
						w.Add(emit.Case{Term: fmt.Sprintf("mkCase %s (%s) %d%%nat (%s)", t.coq, gvalTerm(syms, lowerUUIDTagged(variant)), class, outTerm),
							JSON: map[string]interface{}{"target": t.name, "input": variant, "class": class, "message": msg},
							Key:  "grid" + t.name + string(b), Nontrivial: true, Class: ""})
					}
				}
				// ... and as the value of every member a schema or request object may have, at the top and one level down
				if obj, ok := base.(map[string]interface{}); ok {
					for _, member := range []string{"enum", "type", "key", "value", "min", "max", "refTable", "refType", "columns", "indexes", "where", "select", "minInteger", "maxLength", "uuid", "rows", "mutations", "timeout", "until"} {
						variants := []interface{}{withMember(obj, member, h)}
						for k, v := range obj {
							if inner, ok := v.(map[string]interface{}); ok {
								variants = append(variants, withMember(obj, k, withMember(inner, member, h)))
							}
						}
						for _, variant := range variants {
							b, err := json.Marshal(variant)
							if err != nil {
								continue
							}
							grid++
							note("decode "+t.name, variant)
							if _, class, msg := guarded(func() (interface{}, error) { return t.decode(b) }); class == 2 {
								goFail("decode "+t.name, fmt.Sprintf("decoding %s as %s panics: %s", string(b), t.name, msg), variant)
							}
						}
					}
				}
			}
		}
		w.Dist["decode:grid"] = grid
	}
	for i := 0; i < nDec; i++ {
		t := targets[g.Intn(len(targets))]
		if (t.coq == "" || lateTargets[t.coq]) && g.Chance(0.5) {
			t = targets[g.Intn(9)] // favour the decoders modelled first (the draw is as it was before the message decoders were)
		}
		tree := t.valid(wg)
		nc := []int{0, 1, 1, 1, 2, 3}[g.Intn(6)]
		for k := 0; k < nc; k++ {
			tree = wg.corrupt(tree)
		}
		b, err := json.Marshal(tree)
		if err != nil {
			continue
		}
		// what the decoder sees (the corruptor may have put Go ints etc.)
		var seen interface{}
		_ = json.Unmarshal(b, &seen)
		// the decoders keep one spelling per uuid (["uuid", x] is lower-cased, repair d3cffdb); the model's symbols have
		// no case, so the random stream does not write capitals under that tag (the lower-casing itself is checked by
		// the regression "uuid in upper case" of C09)
		seen = lowerUUIDTagged(seen)
		b, _ = json.Marshal(seen)
		note("decode "+t.name, seen)
		out, class, msg := guarded(func() (interface{}, error) { return t.decode(b) })
		w.Count(fmt.Sprintf("decode:%s:%s", t.name, []string{"value", "error", "panic"}[class]))
		oracle := ""
		if class == 2 {
			oracle = fmt.Sprintf("decoding %s as %s panics: %s", string(b), t.name, msg)
		}
		twin := map[string]interface{}{"target": t.name, "input": seen, "class": class, "message": msg}
		if t.coq == "" {
			if oracle != "" {
				goFail("decode "+t.name, oracle, seen)
			}
			continue
		}
		outTerm := "GNull"
		if class == 0 && !lateTargets[t.coq] {
			outTerm = gvalTerm(syms, out)
		}
		w.Add(emit.Case{
			Term:       fmt.Sprintf("mkCase %s (%s) %d%%nat (%s)", t.coq, gvalTerm(syms, seen), class, outTerm),
			JSON:       twin,
			Key:        t.name + string(b),
			Nontrivial: nc > 0,
			Class:      "",
			Oracle:     oracle,
		})
	}
	// garbled bytes (implementation only)
	for i := 0; i < nDec/2; i++ {
		t := targets[g.Intn(len(targets))]
		b, _ := json.Marshal(t.valid(wg))
		switch g.Intn(4) {
		case 0:
			b = b[:g.Intn(len(b)+1)]
		case 1:
			if len(b) > 0 {
				b[g.Intn(len(b))] = "[]{},:\"0a\\ "[g.Intn(11)]
			}
		case 2:
			k := g.Intn(len(b) + 1)
			b = append(append(append([]byte{}, b[:k]...), "[]{},:\"0 null"[g.Intn(8)]), b[k:]...)
		default:
			k := g.Intn(len(b) + 1)
			b = append(append([]byte{}, b[k:]...), b[:k]...)
		}
		note("bytes "+t.name, string(b))
		_, class, msg := guarded(func() (interface{}, error) { return t.decode(b) })
		w.Count(fmt.Sprintf("bytes:%s", []string{"value", "error", "panic"}[class]))
		if class == 2 {
			goFail("bytes "+t.name, fmt.Sprintf("decoding %q as %s panics: %s", string(b), t.name, msg), string(b))
		}
	}

	// ---- part B: corrupted transactions, in process
	sc := c19Schema()
	lab, err := newTxnLab(sc)
	if err != nil {
		return err
	}
	tg := &txnGen{g: g, sc: sc, state: map[string]map[string]map[string]val.Val{}, pool: 6, pSelect: 0.15, pWait: 0.1, pInvalid: 0.1, dangling: 0.05}
	hung := false
	runTrees := func(stage string, opsTree []interface{}, transact func([]ovsdb.Operation) ([]*ovsdb.OperationResult, bool, string)) {
		b, _ := json.Marshal(opsTree)
		var oops []ovsdb.Operation
		note(stage, opsTree)
		_, class, msg := guarded(func() (interface{}, error) { return nil, json.Unmarshal(b, &oops) })
		if class == 2 {
			goFail(stage, "decoding the operations panics: "+msg, opsTree)
			return
		}
		if class == 1 {
			w.Count(stage + ":undecodable")
			return
		}
		type outcome struct {
			class int
			msg   string
		}
		done := make(chan outcome, 1)
		go func() {
			_, class, msg := guarded(func() (interface{}, error) {
				results, _, cerr := transact(oops)
				if cerr != "" {
					return nil, fmt.Errorf("%s", cerr)
				}
				if len(results) < len(oops) && len(oops) > 0 {
					return nil, fmt.Errorf("only %d results for %d operations", len(results), len(oops))
				}
				return nil, nil
			})
			done <- outcome{class, msg}
		}()
		select {
		case oc := <-done:
			class, msg = oc.class, oc.msg
		case <-time.After(10 * time.Second):
			// no generated wait carries a timeout above a few milliseconds
			goFail(stage, fmt.Sprintf("transact %s is not answered within 10 s (the database never finishes the transaction)", string(b)), opsTree)
			hung = true
			return
		}
		switch class {
		case 2:
			goFail(stage, fmt.Sprintf("transact %s panics: %s", string(b), msg), opsTree)
		case 1:
			if strings.HasPrefix(msg, "only ") || strings.HasPrefix(msg, "rpc:") {
				goFail(stage, fmt.Sprintf("transact %s: %s", string(b), msg), opsTree)
			} else {
				w.Count(stage + ":commit-error")
			}
		default:
			w.Count(stage + ":answered")
		}
	}
	inProcess := func(oops []ovsdb.Operation) ([]*ovsdb.OperationResult, bool, string) {
		tr := lab.imdb.NewTransaction(lab.name)
		results, update := tr.Transact(oops...)
		for _, r := range results {
			if r != nil && r.Error != "" {
				return results, false, ""
			}
		}
		_ = lab.imdb.Commit(lab.name, [16]byte{1}, update)
		return results, true, ""
	}
	stillServes := func(stage string, transact func([]ovsdb.Operation) ([]*ovsdb.OperationResult, bool, string)) {
		_, class, msg := guarded(func() (interface{}, error) {
			res, _, cerr := transact([]ovsdb.Operation{{Op: "select", Table: "R", Where: []ovsdb.Condition{}}})
			if cerr != "" || len(res) != 1 || res[0] == nil || res[0].Error != "" {
				return nil, fmt.Errorf("select after the request: %v %v", cerr, res)
			}
			return nil, nil
		})
		if class != 0 {
			goFail(stage, "the database does not answer a valid select afterwards: "+msg, nil)
		}
	}
	genOpsTree := func() []interface{} { return c19OpsTree(lab, tg, wg) }
	special := c19Special()
	for i := 0; i < nTxn; i++ {
		var opsTree []interface{}
		if i < len(special) && (o.tier == "thorough" || i%3 == int(o.seed%3)) {
			opsTree = special[i]
		} else {
			opsTree = genOpsTree()
		}
		runTrees("transact", opsTree, inProcess)
		if hung {
			break
		}
		if i%10 == 9 {
			stillServes("transact", inProcess)
		}
	}
	if o.tier != "thorough" && !hung {
		// the hand-picked degenerate operations always run
		for _, opsTree := range special {
			runTrees("transact-special", opsTree, inProcess)
			if hung {
				break
			}
		}
		stillServes("transact-special", inProcess)
	}

	// ---- a schema whose index has no column (or an unknown one): rejected, or harmless once accepted
	for _, idx := range []string{`[[]]`, `[null]`, `[["nope"]]`, `[["name"],[]]`} {
		text := `{"name":"db","version":"1.0.0","tables":{"T":{"columns":{"name":{"type":"string"}},"indexes":` + idx + `}}}`
		note("schema with a degenerate index", text)
		_, class, msg := guarded(func() (interface{}, error) {
			var schema ovsdb.DatabaseSchema
			if err := json.Unmarshal([]byte(text), &schema); err != nil {
				return nil, nil // rejected
			}
			type row struct {
				UUID string `ovsdb:"_uuid"`
				Name string `ovsdb:"name"`
			}
			cdm, err := model.NewClientDBModel("db", map[string]model.Model{"T": &row{}})
			if err != nil {
				return nil, nil
			}
			dbm, errs := model.NewDatabaseModel(schema, cdm)
			if len(errs) > 0 {
				return nil, nil
			}
			tc, err := cache.NewTableCache(dbm, nil, nil)
			if err != nil {
				return nil, nil
			}
			_ = tc.Table("T").Create("00000000-0000-4000-8000-000000000001", &row{UUID: "00000000-0000-4000-8000-000000000001", Name: "a"}, true)
			_ = tc.Table("T").Create("00000000-0000-4000-8000-000000000002", &row{UUID: "00000000-0000-4000-8000-000000000002", Name: "b"}, true)
			return nil, nil
		})
		if class == 2 {
			goFail("schema", "a schema with \"indexes\": "+idx+" is accepted and the first row panics: "+msg, text)
		}
	}

	// ---- part C: raw JSON-RPC to a real server, in a child process (a panic in a
	// connection goroutine of the server takes the whole process down)
	{
		cmd := exec.Command(os.Args[0], "C19srv", "-seed", fmt.Sprint(o.seed), "-tier", o.tier, "-out", o.out, "-n", fmt.Sprint(nSrv))
		outb, err := cmd.CombinedOutput()
		var rep struct {
			Answered int                      `json:"answered"`
			Fails    []map[string]interface{} `json:"fails"`
		}
		if err != nil {
			var cur map[string]interface{}
			if cb, rerr := os.ReadFile(filepath.Join(o.out, "current_input_srv.json")); rerr == nil {
				_ = json.Unmarshal(cb, &cur)
			}
			goFail("server", fmt.Sprintf("the process died at stage %q (input in the replay): ", cur["stage"])+trimStack(string(outb)), cur)
		} else if rb, rerr := os.ReadFile(filepath.Join(o.out, "c19srv.json")); rerr == nil && json.Unmarshal(rb, &rep) == nil {
			w.Dist["server:answered+echo"] += rep.Answered
			for _, f := range rep.Fails {
				goFail("server", fmt.Sprint(f["what"]), f["input"])
			}
		} else {
			return fmt.Errorf("server child: no report")
		}
	}
	_ = os.Remove(current)

	w.Extra["implementation_failures"] = goFails
	w.Extra["parts"] = map[string]int{"decode_cases": nDec, "garbled_byte_strings": nDec / 2, "transactions_in_process": nTxn, "transactions_over_rpc": nSrv}
	if len(goFails) > 0 {
		f := goFails[0]
		w.Add(emit.Case{Term: "mkCase TUuid GNull 1%nat GNull", JSON: f, Key: "implementation-failure", Oracle: fmt.Sprint(f["what"])})
	}
	return w.Flush()
}

func init() { drivers["C19srv"] = driveC19srv }

// driveC19srv is the child process of part C.
func driveC19srv(o opts) error {
	quietStderr()
	g := gen.New(o.seed + 1000)
	wg := &wgen{g: g}
	sc := c19Schema()
	nSrv := o.n
	current := filepath.Join(o.out, "current_input_srv.json")
	note := func(what string, x interface{}) {
		b, _ := json.Marshal(map[string]interface{}{"stage": what, "input": x})
		_ = os.WriteFile(current, b, 0o644)
	}
	var fails []map[string]interface{}
	answered := 0
	goFail := func(stage, what string, input interface{}) {
		fails = append(fails, map[string]interface{}{"stage": stage, "what": what, "input": input})
	}
	special := c19Special()
	slab, err := newSrvLab(sc, o.out)
	if err != nil {
		return err
	}
	defer slab.close()
	p, err := slab.dial()
	if err != nil {
		return err
	}
	defer p.close()
	lab := slab.txnLab
	tg := &txnGen{g: g, sc: sc, state: map[string]map[string]map[string]val.Val{}, pool: 6, pSelect: 0.15, pWait: 0.1, pInvalid: 0.1, dangling: 0.05}
	genOpsTree := func() []interface{} { return c19OpsTree(lab, tg, wg) }
	wedged := false
	rawTransact := func(opsTree []interface{}) {
		note("server transact", opsTree)
		args := append([]interface{}{sc.Name}, opsTree...)
		var reply interface{}
		done := make(chan error, 1)
		go func() { done <- p.c.Call("transact", args, &reply) }()
		select {
		case <-done:
			// an error reply is an answer
		case <-time.After(5 * time.Second):
			goFail("server", "no answer to the transact request within 5s", opsTree)
			wedged = true
			return
		}
		var echo interface{}
		go func() { done <- p.c.Call("echo", []interface{}{"ping"}, &echo) }()
		select {
		case err := <-done:
			if err != nil {
				goFail("server", "echo after the transact request fails: "+err.Error(), opsTree)
			} else {
				answered++
			}
		case <-time.After(5 * time.Second):
			goFail("server", "no answer to echo after the transact request", opsTree)
		}
	}
	// requests other than transact with too few parameters, and messages that are neither request nor response
	rawCall := func(method string, params []interface{}) {
		note("server "+method, params)
		var reply interface{}
		done := make(chan error, 1)
		go func() { done <- p.c.Call(method, params, &reply) }()
		select {
		case <-done:
		case <-time.After(5 * time.Second):
			goFail("server", "no answer to the "+method+" request within 5s", params)
			wedged = true
			return
		}
		var echo interface{}
		go func() { done <- p.c.Call("echo", []interface{}{"ping"}, &echo) }()
		select {
		case err := <-done:
			if err != nil {
				goFail("server", "echo after the "+method+" request fails: "+err.Error(), params)
			} else {
				answered++
			}
		case <-time.After(5 * time.Second):
			goFail("server", "no answer to echo after the "+method+" request", params)
		}
	}
	for _, m := range []string{"get_schema", "monitor", "monitor_cond", "monitor_cond_since", "list_dbs", "monitor_cancel", "lock", "echo"} {
		for k := 0; k < 3 && !wedged; k++ {
			rawCall(m, []interface{}{sc.Name, "cookie"}[:k])
		}
	}
	for _, raw := range []string{`{}`, `{"method":"","params":[]}`, `{"result":[],"error":null}`, `{"id":null}`, `[]`, `null`} {
		if wedged {
			break
		}
		note("server raw message", raw)
		if conn, err := net.Dial("unix", slab.sock); err == nil {
			_, _ = conn.Write([]byte(raw))
			time.Sleep(50 * time.Millisecond)
			conn.Close()
		}
		rawCall("echo", []interface{}{"after " + raw})
	}
	// a well-typed where clause with many equality conditions is answered in reasonable time
	{
		t0 := *sc.Table("R")
		var where []interface{}
		for i := 0; i < 24; i++ {
			c := t0.Cols[i%2]
			cond := toOvsConds(t0.Cols, []Cond{{Col: c.Name, Fn: "==", Arg: g.Value(c, 3, 3)}})
			if tree, err := toTree(cond[0]); err == nil {
				where = append(where, tree)
			}
		}
		rawTransact([]interface{}{map[string]interface{}{"op": "select", "table": t0.Name, "where": where}})
	}
	// ... and so is one with many conditions of another function, on any kind of column (a condition on a map, an atom
	// or an optional column may be answered through an index too)
	{
		t0 := *sc.Table("T")
		for _, fn := range []string{"includes", "==", "excludes"} {
			for _, c := range t0.Cols {
				if wedged {
					break
				}
				var where []interface{}
				for i := 0; i < 20; i++ {
					v := g.Value(c, 3, 3)
					for k := 0; k < 5 && (c.K == 'm' || c.K == 's') && len(v.Map)+len(v.Set) == 0; k++ {
						v = g.Value(c, 3, 3)
					}
					if c.K == 'm' && len(v.Map) > 0 && c.KT == 's' {
						v.Map = [][2]val.Atom{{val.Str(fmt.Sprintf("k%d", i)), v.Map[0][1]}}
					}
					cond := toOvsConds(t0.Cols, []Cond{{Col: c.Name, Fn: fn, Arg: v}})
					if tree, err := toTree(cond[0]); err == nil {
						where = append(where, tree)
					}
				}
				rawTransact([]interface{}{map[string]interface{}{"op": "select", "table": t0.Name, "where": where}})
			}
		}
	}
	// client side: notifications with too few parameters, injected into the byte stream a libovsdb client reads
	if err := c19ClientNotifications(slab, o.out, note, goFail); err != nil {
		return err
	}
	for i := 0; i < nSrv && !wedged; i++ {
		if i%2 == 0 {
			rawTransact(special[g.Intn(len(special))])
		} else {
			rawTransact(genOpsTree())
		}
	}

	_ = os.Remove(current)
	b, _ := json.Marshal(map[string]interface{}{"answered": answered, "fails": fails})
	return os.WriteFile(filepath.Join(o.out, "c19srv.json"), b, 0o644)
}

func c19OpsTree(lab *txnLab, tg *txnGen, wg *wgen) []interface{} {
	g := wg.g
	st, _, _ := lab.state()
	tg.state = st
	ops := tg.txn(4)
	var trees []interface{}
	for _, op := range ops {
		t, err := toTree(op.operation(lab.db))
		if err == nil {
			trees = append(trees, t)
		}
	}
	var tree interface{} = trees
	for k := []int{0, 1, 1, 2, 3}[g.Intn(5)]; k > 0; k-- {
		tree = wg.corrupt(tree)
	}
	if l, ok := tree.([]interface{}); ok {
		return l
	}
	return []interface{}{tree}
}

// c19ClientNotifications puts a libovsdb client behind a byte-copying relay and writes malformed notifications into
// the stream it reads while the session is idle; the client must answer an echo afterwards (a panic in its read loop
// takes the process down, which the parent reports with the noted input).
func c19ClientNotifications(slab *srvLab, dir string, note func(string, interface{}), goFail func(string, string, interface{})) error {
	relaySock := filepath.Join(dir, fmt.Sprintf("relay%d.sock", os.Getpid()))
	os.Remove(relaySock)
	ln, err := net.Listen("unix", relaySock)
	if err != nil {
		return err
	}
	defer ln.Close()
	defer os.Remove(relaySock)
	var mu sync.Mutex
	var toClient net.Conn
	go func() {
		for {
			cc, err := ln.Accept()
			if err != nil {
				return
			}
			sc, err := net.Dial("unix", slab.sock)
			if err != nil {
				cc.Close()
				continue
			}
			mu.Lock()
			toClient = cc
			mu.Unlock()
			go func() { _, _ = io.Copy(sc, cc); sc.Close() }()
			go func() {
				buf := make([]byte, 65536)
				for {
					n, err := sc.Read(buf)
					if n > 0 {
						mu.Lock()
						_, _ = cc.Write(buf[:n])
						mu.Unlock()
					}
					if err != nil {
						cc.Close()
						return
					}
				}
			}()
		}
	}()
	cli, err := client.NewOVSDBClient(slab.db.Client, client.WithEndpoint("unix:"+relaySock))
	if err != nil {
		return err
	}
	ctx, cancel := context.WithTimeout(context.Background(), 10*time.Second)
	defer cancel()
	if err := cli.Connect(ctx); err != nil {
		return fmt.Errorf("c19 client: connect: %v", err)
	}
	defer cli.Close()
	if _, err := cli.MonitorAll(ctx); err != nil {
		return fmt.Errorf("c19 client: monitor: %v", err)
	}
	for _, m := range []string{"update", "update2", "update3"} {
		for _, params := range []string{`[]`, `["x"]`, `[null]`, `[{"databaseName":"` + slab.name + `","id":"x"},{"T":{"00000000-0000-4000-8000-00000000aaaa":null}}]`} {
			raw := `{"method":"` + m + `","params":` + params + `,"id":null}`
			note("client notification", raw)
			time.Sleep(20 * time.Millisecond)
			mu.Lock()
			if toClient != nil {
				_, _ = toClient.Write([]byte(raw))
			}
			mu.Unlock()
			time.Sleep(30 * time.Millisecond)
			ectx, ecancel := context.WithTimeout(context.Background(), 5*time.Second)
			err := cli.Echo(ectx)
			ecancel()
			if err != nil && !cli.Connected() {
				// the client may drop the session on a malformed message; it must be able to come back
				rctx, rcancel := context.WithTimeout(context.Background(), 5*time.Second)
				rerr := cli.Connect(rctx)
				rcancel()
				if rerr != nil {
					goFail("client", "after the notification "+raw+" the client neither answers nor reconnects: "+rerr.Error(), raw)
					return nil
				}
				if _, err := cli.MonitorAll(ctx); err != nil {
					goFail("client", "after the notification "+raw+" the client cannot monitor again: "+err.Error(), raw)
					return nil
				}
			}
		}
	}
	return nil
}

// countPositions counts the nodes of a JSON tree; substituteAt returns a copy with the k-th node (pre-order) replaced.
func countPositions(x interface{}) int {
	n := 1
	switch v := x.(type) {
	case []interface{}:
		for _, e := range v {
			n += countPositions(e)
		}
	case map[string]interface{}:
		for _, e := range v {
			n += countPositions(e)
		}
	}
	return n
}

func substituteAt(x interface{}, k *int, h interface{}) interface{} {
	if *k == 0 {
		*k = -1
		return h
	}
	*k--
	switch v := x.(type) {
	case []interface{}:
		out := make([]interface{}, len(v))
		for i, e := range v {
			if *k >= 0 {
				out[i] = substituteAt(e, k, h)
			} else {
				out[i] = e
			}
		}
		return out
	case map[string]interface{}:
		keys := make([]string, 0, len(v))
		for key := range v {
			keys = append(keys, key)
		}
		sort.Strings(keys)
		out := make(map[string]interface{}, len(v))
		for _, key := range keys {
			if *k >= 0 {
				out[key] = substituteAt(v[key], k, h)
			} else {
				out[key] = v[key]
			}
		}
		return out
	}
	return x
}

func withMember(obj map[string]interface{}, member string, v interface{}) map[string]interface{} {
	out := make(map[string]interface{}, len(obj)+1)
	for k, x := range obj {
		out[k] = x
	}
	out[member] = v
	return out
}

// lowerUUIDTagged lower-cases the text of every two-element array whose first element is "uuid".
func lowerUUIDTagged(x interface{}) interface{} {
	switch v := x.(type) {
	case []interface{}:
		out := make([]interface{}, len(v))
		for i, e := range v {
			out[i] = lowerUUIDTagged(e)
		}
		if len(out) == 2 && out[0] == "uuid" {
			if t, ok := out[1].(string); ok {
				out[1] = strings.ToLower(t)
			}
		}
		return out
	case map[string]interface{}:
		out := map[string]interface{}{}
		for k, e := range v {
			out[k] = lowerUUIDTagged(e)
		}
		return out
	}
	return x
}
