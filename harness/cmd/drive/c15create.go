package main

// C15, the client API's Create(): several models in one call, whose _uuid fields hold a name, a uuid, nothing,
// or text that is neither; models refer to each other by name. The generated inserts must carry each model's own
// identity; executed in one transaction every row is stored under the uuid reported for it and every name refers
// to the row inserted under it.

import (
	"fmt"
	"regexp"
	"strings"

	"github.com/ovn-org/libovsdb/client"
	"github.com/ovn-org/libovsdb/model"

	"verifharness/emit"
	"verifharness/gen"
	"verifharness/val"
)

var (
	c15UUIDRe = regexp.MustCompile(`^[0-9a-fA-F]{8}-[0-9a-fA-F]{4}-[0-9a-fA-F]{4}-[0-9a-fA-F]{4}-[0-9a-fA-F]{12}$`)
)

// a name is any non-empty text that is not a well-formed uuid (ovsdb.IsNamedUUID is that lenient)
func c15IsName(s string) bool { return s != "" && !c15UUIDRe.MatchString(s) }

func c15Create(o opts, g *gen.G, syms *val.Syms, w *emit.Writer) error {
	sc := c15Schema()
	ncases := 40
	if o.tier == "thorough" {
		ncases = 600
	}
	lab, err := newSrvLab(sc, o.out)
	if err != nil {
		return err
	}
	defer lab.close()
	cl, err := client.NewOVSDBClient(lab.db.Client, client.WithEndpoint("unix:"+lab.sock))
	if err != nil {
		return err
	}
	ctx, cancel := ctxT()
	err = cl.Connect(ctx)
	cancel()
	if err != nil {
		return fmt.Errorf("connect: %v", err)
	}
	defer cl.Close()
	ctx, cancel = ctxT()
	_, err = cl.MonitorAll(ctx)
	cancel()
	if err != nil {
		return fmt.Errorf("monitor: %v", err)
	}
	uuidN := 0
	for ci := 0; ci < ncases; ci++ {
		oracle := ""
		fail := func(format string, a ...interface{}) {
			if oracle == "" {
				oracle = fmt.Sprintf(format, a...)
			}
		}
		n := 2 + g.Intn(3)
		type mdl struct {
			table, id string
			vals      map[string]val.Val
		}
		var ms []mdl
		var names []string // names of N models inserted by this call
		for i := 0; i < n; i++ {
			m := mdl{table: "N", vals: map[string]val.Val{}}
			switch k := g.Intn(10); {
			case k < 4:
				m.id = fmt.Sprintf("row%d_%d", ci, i)
			case k < 6:
				uuidN++
				m.id = gen.UUIDn(300000 + uuidN)
			case k < 7:
				// text that is no identifier (for the library every non-uuid text is a name); distinct per model:
				// two inserts under one name are rightly refused
				m.id = []string{"9lives", "a-b", "row 1"}[g.Intn(3)] + fmt.Sprint(ci, "_", i)
			}
			uuidN++
			m.vals["name"] = val.VA(val.Str(fmt.Sprintf("c%d_%d", ci, i)))
			// refer to the named rows before it (set of uuids, map values)
			if len(names) > 0 && g.Chance(0.6) {
				refs := val.Val{K: 's'}
				for _, nm := range names {
					if g.Chance(0.6) {
						refs.Set = append(refs.Set, val.Uuid(nm))
					}
				}
				m.vals["su"] = refs
			}
			if c15IsName(m.id) {
				names = append(names, m.id)
				// text equal to the name in a string column stays text
				m.vals["label"] = val.VS(val.Str(m.id))
			}
			ms = append(ms, m)
		}
		var models []model.Model
		var mterms, mj []string
		for _, m := range ms {
			models = append(models, lab.db.Make(m.table, m.id, m.vals))
			mterms = append(mterms, fmt.Sprintf("(%d%%N, %v, %v)", syms.ID(m.id), c15UUIDRe.MatchString(m.id), c15IsName(m.id)))
			mj = append(mj, m.id)
		}
		ops, err := cl.Create(models...)
		if err != nil {
			fail("Create(%s): %v", strings.Join(mj, ", "), err)
			w.Add(emit.Case{Term: "Txn.mkCreate [] []", JSON: map[string]interface{}{"models": mj}, Key: fmt.Sprintf("create%d", ci), Oracle: oracle})
			continue
		}
		var ids []string
		for i, op := range ops {
			ids = append(ids, fmt.Sprintf("(%d%%N, %d%%N)", syms.ID(op.UUID), syms.ID(op.UUIDName)))
			if i < len(ms) {
				wantU, wantN := "", ""
				if c15UUIDRe.MatchString(ms[i].id) {
					wantU = ms[i].id
				} else if c15IsName(ms[i].id) {
					wantN = ms[i].id
				}
				if op.UUID != wantU || op.UUIDName != wantN {
					fail("Create(%s): the insert for model %d carries uuid %q and uuid-name %q, its _uuid field is %q", strings.Join(mj, ", "), i, op.UUID, op.UUIDName, ms[i].id)
				}
			}
		}
		if len(ops) != len(ms) {
			fail("Create of %d models gives %d operations", len(ms), len(ops))
		}
		// execute
		ctx, cancel := ctxT()
		res, terr := cl.Transact(ctx, ops...)
		cancel()
		executed := false
		if terr != nil {
			fail("Transact(Create(%s)): %v", strings.Join(mj, ", "), terr)
		} else {
			committed := true
			for _, r := range res {
				if r.Error != "" {
					committed = false
					fail("Transact(Create(%s)) is refused: %s %s", strings.Join(mj, ", "), r.Error, r.Details)
				}
			}
			if committed && len(res) >= len(ms) {
				executed = true
				st, _, _ := lab.state()
				byName := map[string]string{}
				for i, m := range ms {
					u := res[i].UUID.GoUUID
					if c15UUIDRe.MatchString(m.id) && u != m.id {
						fail("model %d was given uuid %s but its insert reports %s", i, m.id, u)
					}
					row, ok := st[m.table][u]
					if !ok {
						fail("the row of model %d is not stored under the uuid %s reported for it", i, u)
						continue
					}
					if row["name"].A.S != m.vals["name"].A.S {
						fail("uuid %s reported for model %d holds another model's row (name %s)", u, i, row["name"].A.S)
					}
					if c15IsName(m.id) {
						byName[m.id] = u
					}
				}
				for i, m := range ms {
					row := st[m.table][res[i].UUID.GoUUID]
					for _, a := range m.vals["su"].Set {
						want := byName[a.S]
						found := false
						for _, b := range row["su"].Set {
							found = found || b.S == want
						}
						if !found {
							fail("model %d refers to %s by name: its stored row does not hold the uuid %s that name was inserted under", i, a.S, want)
						}
					}
					for _, a := range m.vals["label"].Set {
						found := false
						for _, b := range row["label"].Set {
							found = found || b.S == a.S
						}
						if !found {
							fail("the text %q equal to a name was not left untouched in model %d", a.S, i)
						}
					}
				}
			}
		}
		w.Count("create:models")
		w.Add(emit.Case{Term: fmt.Sprintf("Txn.mkCreate [%s] [%s]", strings.Join(mterms, "; "), strings.Join(ids, "; ")),
			JSON: map[string]interface{}{"create_models": mj, "operations": opsJSON(ops), "executed": executed}, Key: fmt.Sprintf("create%d:%s", ci, strings.Join(mj, ",")),
			Nontrivial: len(names) > 0 && executed, Class: "create", Oracle: oracle})
	}
	return nil
}
