package main

import (
	"fmt"
	"strings"

	"github.com/ovn-org/libovsdb/ovsdb"

	"verifharness/dyn"
	"verifharness/gen"
	"verifharness/val"
)

// Mut is one mutation of a row operation.
type Mut struct {
	Col     string
	Mutator string
	Arg     val.Val // for map delete-by-keys: a set value
	Single  bool    // a one-element set argument goes on the wire as the bare atom (RFC 7047 5.1: <set> or <atom>)
}

// RowOp is an operation on one row (insert/update/mutate/delete).
type RowOp struct {
	Kind string // insert|update|mutate|delete
	Row  map[string]val.Val
	Muts []Mut
}

var coqMutator = map[string]string{"+=": "MAdd", "-=": "MSub", "*=": "MMul", "/=": "MDiv", "%=": "MMod", "insert": "MInsert", "delete": "MDelete"}

func coqMut(s *val.Syms, m Mut) string {
	return fmt.Sprintf("LMut %d%%N %s (%s)", s.ID(m.Col), coqMutator[m.Mutator], s.LVal(m.Arg))
}

func coqRowOp(s *val.Syms, op RowOp) string {
	switch op.Kind {
	case "insert":
		return "LInsert " + dyn.CoqRow(s, op.Row)
	case "update":
		return "LUpdate " + dyn.CoqRow(s, op.Row)
	case "mutate":
		var ms []string
		for _, m := range op.Muts {
			ms = append(ms, coqMut(s, m))
		}
		return "LMutate [" + strings.Join(ms, "; ") + "]"
	default:
		return "LDelete"
	}
}

func jsonRowOp(op RowOp) interface{} {
	out := map[string]interface{}{"op": op.Kind}
	if op.Row != nil {
		out["row"] = dyn.JSONRow(op.Row)
	}
	var ms []interface{}
	for _, m := range op.Muts {
		ms = append(ms, []interface{}{m.Col, m.Mutator, m.Arg.JSONable()})
	}
	if ms != nil {
		out["mutations"] = ms
	}
	return out
}

// mutOvsArg renders the mutation argument in OVS notation for column c.
func mutOvsArg(c *val.Col, m Mut) interface{} {
	if m.Single && m.Arg.K == 's' && len(m.Arg.Set) == 1 && (c.K == 's' || c.K == 'm') {
		return m.Arg.Set[0].Ovs()
	}
	switch c.K {
	case 'a':
		return m.Arg.A.Ovs()
	case 'm':
		if m.Arg.K == 's' { // delete by key set
			s := make([]interface{}, 0, len(m.Arg.Set))
			for _, a := range m.Arg.Set {
				s = append(s, a.Ovs())
			}
			return ovsdb.OvsSet{GoSet: s}
		}
		return c.ToOvs(m.Arg)
	default:
		if m.Arg.K == 'a' {
			return m.Arg.A.Ovs()
		}
		if m.Arg.K == 's' {
			s := make([]interface{}, 0, len(m.Arg.Set))
			for _, a := range m.Arg.Set {
				s = append(s, a.Ovs())
			}
			return ovsdb.OvsSet{GoSet: s}
		}
		return c.ToOvs(m.Arg)
	}
}

// toOperation builds the ovsdb.Operation for a row operation.
func toOperation(db *dyn.DB, table, uuid string, op RowOp) ovsdb.Operation {
	t := db.Spec.Table(table)
	switch op.Kind {
	case "insert":
		return ovsdb.Operation{Op: ovsdb.OperationInsert, Table: table, UUID: uuid, Row: db.OvsRow(table, op.Row)}
	case "update":
		return ovsdb.Operation{Op: ovsdb.OperationUpdate, Table: table, Row: db.OvsRow(table, op.Row)}
	case "mutate":
		var ms []ovsdb.Mutation
		for _, m := range op.Muts {
			ms = append(ms, ovsdb.Mutation{Column: m.Col, Mutator: ovsdb.Mutator(m.Mutator), Value: mutOvsArg(t.Col(m.Col), m)})
		}
		return ovsdb.Operation{Op: ovsdb.OperationMutate, Table: table, Mutations: ms}
	default:
		return ovsdb.Operation{Op: ovsdb.OperationDelete, Table: table}
	}
}

// genRowOp draws a well-typed row operation on a row whose current value is
// cur (nil if absent) and original value orig (to bias towards restoring).
// rowBigInts: integers at the edge of what a float64 holds exactly (2^53, 2^53+1, 2^53+2: three integers, two
// float64s) are among the values of plain integer columns. Set by the drivers whose path keeps integers exact.
var rowBigInts = false

func rowValue(g *gen.G, c val.Col, u, maxn int) val.Val {
	v := g.Value(c, u, maxn)
	if rowBigInts && c.K == 'a' && c.KT == 'i' && len(c.Enum) == 0 && g.Chance(0.3) {
		v = val.VA(val.Int(int64(1)<<53 + int64(g.Intn(3))))
	}
	return v
}

func genRowOp(g *gen.G, t *dyn.Table, cur, orig map[string]val.Val, u, maxn int, allowDelete bool) RowOp {
	if cur == nil {
		row := map[string]val.Val{}
		for _, c := range t.Cols {
			if g.Chance(0.5) {
				row[c.Name] = rowValue(g, c, u, maxn)
			}
		}
		return RowOp{Kind: "insert", Row: row}
	}
	if orig != nil && g.Chance(0.18) {
		// one key that a map column held from the start is worked on again and again: given another value, removed as a
		// pair or by key, inserted again - so that the difference accumulated so far and the next one concern the same
		// key, and may even look alike, while the original pair is a third value
		var mcols []val.Col
		for _, c := range t.Cols {
			if c.K == 'm' && !c.Immutable && len(orig[c.Name].Map) > 0 {
				mcols = append(mcols, c)
			}
		}
		if len(mcols) > 0 {
			c := mcols[g.Intn(len(mcols))]
			k := orig[c.Name].Map[g.Intn(len(orig[c.Name].Map))][0]
			var curv val.Atom
			has := false
			for _, p := range cur[c.Name].Map {
				if p[0].Key() == k.Key() {
					curv, has = p[1], true
				}
			}
			other := g.Atom(c.VT, u, nil)
			switch y := g.Intn(5); {
			case y == 0 || !has:
				m := val.Val{K: 'm'}
				for _, p := range cur[c.Name].Map {
					if p[0].Key() != k.Key() {
						m.Map = append(m.Map, p)
					}
				}
				m.Map = append(m.Map, [2]val.Atom{k, other})
				return RowOp{Kind: "update", Row: map[string]val.Val{c.Name: m.Canon()}}
			case y == 1:
				return RowOp{Kind: "mutate", Muts: []Mut{{Col: c.Name, Mutator: "delete", Arg: val.VM([2]val.Atom{k, curv})}}}
			case y == 2:
				return RowOp{Kind: "mutate", Muts: []Mut{{Col: c.Name, Mutator: "delete", Arg: val.Val{K: 's', Set: []val.Atom{k}}}}}
			case y == 3:
				return RowOp{Kind: "mutate", Muts: []Mut{{Col: c.Name, Mutator: "insert", Arg: val.VM([2]val.Atom{k, other})}}}
			default:
				// the pair as it was at the start
				for _, p := range orig[c.Name].Map {
					if p[0].Key() == k.Key() {
						other = p[1]
					}
				}
				return RowOp{Kind: "mutate", Muts: []Mut{{Col: c.Name, Mutator: "delete", Arg: val.VM([2]val.Atom{k, curv})}, {Col: c.Name, Mutator: "insert", Arg: val.VM([2]val.Atom{k, other})}}}
			}
		}
	}
	if rowBigInts && orig != nil && g.Chance(0.15) {
		// an integer that started at the edge of float64 precision moves among its neighbours (2^53 and 2^53+1 are one
		// float64): whether it is back at its first value is a matter of integers
		var icols []val.Col
		for _, c := range t.Cols {
			if c.K == 'a' && c.KT == 'i' && len(c.Enum) == 0 && !c.Immutable && orig[c.Name].A.I >= 1<<53 {
				icols = append(icols, c)
			}
		}
		if len(icols) > 0 {
			c := icols[g.Intn(len(icols))]
			switch g.Intn(3) {
			case 0:
				return RowOp{Kind: "update", Row: map[string]val.Val{c.Name: val.VA(val.Int(int64(1)<<53 + int64(g.Intn(3))))}}
			case 1:
				return RowOp{Kind: "mutate", Muts: []Mut{{Col: c.Name, Mutator: "+=", Arg: val.VA(val.Int(1))}}}
			default:
				return RowOp{Kind: "mutate", Muts: []Mut{{Col: c.Name, Mutator: "-=", Arg: val.VA(val.Int(1))}}}
			}
		}
	}
	x := g.Intn(100)
	switch {
	case allowDelete && x < 12:
		return RowOp{Kind: "delete"}
	case x < 55:
		row := map[string]val.Val{}
		n := 1 + g.Intn(3)
		for i := 0; i < n; i++ {
			c := t.Cols[g.Intn(len(t.Cols))]
			if c.Immutable && !g.Chance(0.05) {
				continue
			}
			switch {
			case orig != nil && g.Chance(0.35):
				row[c.Name] = orig[c.Name]
			case g.Chance(0.1):
				row[c.Name] = cur[c.Name]
			default:
				row[c.Name] = rowValue(g, c, u, maxn)
			}
		}
		return RowOp{Kind: "update", Row: row}
	default:
		var ms []Mut
		n := 1 + g.Intn(3)
		for i := 0; i < n; i++ {
			c := t.Cols[g.Intn(len(t.Cols))]
			if m, ok := genMut(g, c, cur[c.Name], u, maxn); ok {
				ms = append(ms, m)
			}
		}
		return RowOp{Kind: "mutate", Muts: ms}
	}
}

func genMut(g *gen.G, c val.Col, cur val.Val, u, maxn int) (Mut, bool) {
	switch c.K {
	case 'a':
		if len(c.Enum) > 0 || (c.KT != 'i' && c.KT != 'r') {
			if g.Chance(0.97) {
				return Mut{}, false
			}
			return Mut{Col: c.Name, Mutator: "+=", Arg: val.VA(g.Atom(c.KT, u, c.Enum))}, true // rejected
		}
		ops := []string{"+=", "-=", "*=", "/="}
		if c.KT == 'i' {
			ops = append(ops, "%=")
		}
		op := ops[g.Intn(len(ops))]
		arg := g.Atom(c.KT, u, nil)
		if (op == "/=" || op == "%=") && ((arg.T == 'i' && arg.I == 0) || (arg.T == 'r' && arg.R == 0)) {
			arg = gen.AtomN(c.KT, 3)
		}
		if c.KT == 'r' && op == "/=" {
			arg = val.Real([]float64{2, 4, -2, 0.5, 8}[g.Intn(5)])
		}
		return Mut{Col: c.Name, Mutator: op, Arg: val.VA(arg)}, true
	case 's':
		op := []string{"insert", "delete"}[g.Intn(2)]
		arg := g.Value(c, u, 3)
		if g.Chance(0.4) && len(cur.Set) > 0 {
			// overlap with current elements
			arg = val.VS(cur.Set[g.Intn(len(cur.Set))])
			if g.Chance(0.5) {
				arg.Set = append(arg.Set, g.Atom(c.KT, u, c.Enum))
				arg = arg.Canon()
			}
		}
		return Mut{Col: c.Name, Mutator: op, Arg: arg}, true
	case 'm':
		switch g.Intn(3) {
		case 0:
			arg := g.Value(c, u, 3)
			if len(cur.Map) > 0 && g.Chance(0.6) {
				// keys the map already has, with other values: insert must keep what is there - also a value that is the zero value
				have := map[string]bool{}
				for _, p := range arg.Map {
					have[p[0].Key()] = true
				}
				for _, p := range cur.Map {
					if g.Chance(0.6) && !have[p[0].Key()] {
						nv := g.Atom(c.VT, u+2, nil)
						arg.Map = append(arg.Map, [2]val.Atom{p[0], nv})
					}
				}
				arg = arg.Canon()
			}
			return Mut{Col: c.Name, Mutator: "insert", Arg: arg}, true
		case 1: // delete by keys
			var keys []val.Atom
			for _, p := range cur.Map {
				if g.Chance(0.4) {
					keys = append(keys, p[0])
				}
			}
			if g.Chance(0.5) {
				keys = append(keys, g.Atom(c.KT, u, nil))
			}
			return Mut{Col: c.Name, Mutator: "delete", Arg: val.VS(keys...).Canon()}, true
		default: // delete by pairs
			var ps [][2]val.Atom
			for _, p := range cur.Map {
				if g.Chance(0.4) {
					if g.Chance(0.3) {
						ps = append(ps, [2]val.Atom{p[0], g.Atom(c.VT, u, nil)})
					} else {
						ps = append(ps, p)
					}
				}
			}
			return Mut{Col: c.Name, Mutator: "delete", Arg: val.VM(ps...)}, true
		}
	default:
		if g.Chance(0.97) {
			return Mut{}, false
		}
		// mutations of optional columns are rejected by the library
		return Mut{Col: c.Name, Mutator: "insert", Arg: val.VS(g.Atom(c.KT, u, c.Enum))}, true
	}
}
