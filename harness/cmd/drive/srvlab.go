package main

import (
	"encoding/json"
	"fmt"
	"net"
	"os"
	"path/filepath"
	"sync"
	"time"

	"github.com/cenkalti/rpc2"
	"github.com/cenkalti/rpc2/jsonrpc"
	"github.com/ovn-org/libovsdb/database/inmemory"
	"github.com/ovn-org/libovsdb/model"
	"github.com/ovn-org/libovsdb/ovsdb"
	"github.com/ovn-org/libovsdb/server"

	"verifharness/dyn"
)

// srvLab runs a real OvsdbServer (in-memory database) on a unix socket.
type srvLab struct {
	*txnLab
	srv  *server.OvsdbServer
	sock string
}

var sockCounter int

func quietStderr() {
	if os.Getenv("VERIF_VERBOSE") == "" {
		if f, err := os.OpenFile(os.DevNull, os.O_WRONLY, 0); err == nil {
			os.Stderr = f
		}
	}
}

func newSrvLab(sc dyn.Schema, dir string) (*srvLab, error) {
	db, err := sc.Build()
	if err != nil {
		return nil, err
	}
	return newSrvLabDB(db, dir)
}

// newSrvLabDB: the same for an already built database model (e.g. one with client indexes).
func newSrvLabDB(db *dyn.DB, dir string) (*srvLab, error) {
	sc := db.Spec
	im := inmemory.NewDatabase(map[string]model.ClientDBModel{sc.Name: db.Client})
	srv, err := server.NewOvsdbServer(im, db.Model)
	if err != nil {
		return nil, err
	}
	sockCounter++
	sock := filepath.Join(dir, fmt.Sprintf("srv%d_%d.sock", os.Getpid(), sockCounter))
	os.Remove(sock)
	go func() { _ = srv.Serve("unix", sock) }()
	for i := 0; i < 500 && !srv.Ready(); i++ {
		time.Sleep(2 * time.Millisecond)
	}
	if !srv.Ready() {
		return nil, fmt.Errorf("server did not become ready")
	}
	return &srvLab{txnLab: &txnLab{db: db, imdb: im, name: sc.Name}, srv: srv, sock: sock}, nil
}

func (l *srvLab) close() {
	l.srv.Close()
	os.Remove(l.sock)
}

// peer is a raw JSON-RPC peer of the server.
type peer struct {
	c    *rpc2.Client
	mu   sync.Mutex
	v1   map[string][]ovsdb.TableUpdates  // by cookie
	v2   map[string][]ovsdb.TableUpdates2 // by cookie (update2 and update3)
	ids  map[string][]string              // by cookie: the transaction ids of the update3 notifications, in order
	errs []string
}

func (l *srvLab) dial() (*peer, error) {
	conn, err := net.Dial("unix", l.sock)
	if err != nil {
		return nil, err
	}
	p := &peer{v1: map[string][]ovsdb.TableUpdates{}, v2: map[string][]ovsdb.TableUpdates2{}, ids: map[string][]string{}}
	p.c = rpc2.NewClientWithCodec(&harnessCodec{Codec: jsonrpc.NewJSONCodec(conn)})
	p.c.SetBlocking(true)
	p.c.Handle("echo", func(_ *rpc2.Client, args []interface{}, reply *[]interface{}) error {
		*reply = args
		return nil
	})
	p.c.Handle("update", func(_ *rpc2.Client, params []json.RawMessage, reply *[]interface{}) error {
		*reply = []interface{}{}
		var tu ovsdb.TableUpdates
		if len(params) != 2 || json.Unmarshal(params[1], &tu) != nil {
			p.note("undecodable update notification")
			return nil
		}
		p.mu.Lock()
		p.v1[string(params[0])] = append(p.v1[string(params[0])], tu)
		p.mu.Unlock()
		return nil
	})
	h2 := func(n int) func(_ *rpc2.Client, params []json.RawMessage, reply *[]interface{}) error {
		return func(_ *rpc2.Client, params []json.RawMessage, reply *[]interface{}) error {
			*reply = []interface{}{}
			var tu ovsdb.TableUpdates2
			if len(params) != n || json.Unmarshal(params[n-1], &tu) != nil {
				p.note(fmt.Sprintf("undecodable update%d notification", n))
				return nil
			}
			p.mu.Lock()
			p.v2[string(params[0])] = append(p.v2[string(params[0])], tu)
			if n == 3 {
				var id string
				_ = json.Unmarshal(params[1], &id)
				p.ids[string(params[0])] = append(p.ids[string(params[0])], id)
			}
			p.mu.Unlock()
			return nil
		}
	}
	p.c.Handle("update2", h2(2))
	p.c.Handle("update3", h2(3))
	go p.c.Run()
	return p, nil
}

func (p *peer) note(s string) {
	p.mu.Lock()
	p.errs = append(p.errs, s)
	p.mu.Unlock()
}

func (p *peer) close() { p.c.Close() }

// transactor sends the operations as a "transact" request.
func (p *peer) transactor(db string) func([]ovsdb.Operation) ([]*ovsdb.OperationResult, bool, string) {
	return func(ops []ovsdb.Operation) ([]*ovsdb.OperationResult, bool, string) {
		args := []interface{}{db}
		for _, o := range ops {
			args = append(args, o)
		}
		var reply []*ovsdb.OperationResult
		if err := p.c.Call("transact", args, &reply); err != nil {
			return nil, false, "rpc: " + err.Error()
		}
		committed := true
		for _, r := range reply {
			if r != nil && r.Error != "" {
				committed = false
			}
		}
		return reply, committed, ""
	}
}

// take returns and clears the messages received for a cookie.
func (p *peer) take(cookie string) ([]ovsdb.TableUpdates, []ovsdb.TableUpdates2) {
	p.mu.Lock()
	defer p.mu.Unlock()
	a, b := p.v1[cookie], p.v2[cookie]
	delete(p.v1, cookie)
	delete(p.v2, cookie)
	return a, b
}

// harnessCodec serialises the writes of the harness' own raw peers (the jsonrpc codec shares one encoder).
type harnessCodec struct {
	rpc2.Codec
	mu sync.Mutex
}

func (c *harnessCodec) WriteRequest(r *rpc2.Request, v interface{}) error {
	c.mu.Lock()
	defer c.mu.Unlock()
	return c.Codec.WriteRequest(r, v)
}

func (c *harnessCodec) WriteResponse(r *rpc2.Response, v interface{}) error {
	c.mu.Lock()
	defer c.mu.Unlock()
	return c.Codec.WriteResponse(r, v)
}
