package main

import (
	"encoding/json"
	"fmt"
	"sort"
	"strings"
	"time"

	"github.com/ovn-org/libovsdb/ovsdb"
	"github.com/ovn-org/libovsdb/server"

	"verifharness/dyn"
	"verifharness/emit"
	"verifharness/gen"
	"verifharness/val"
)

func init() { drivers["C07"] = driveC07 }

type monReq struct {
	Cols                            []string // nil = omitted (all columns)
	HasSelect                       bool
	Initial, Insert, Delete, Modify bool
	NoFields                        bool // (C01) the monitor is established without a field list although Cols names the model's columns
}

type monSpec struct {
	v1     bool
	method string
	cookie string
	req    map[string]monReq // empty = all tables
	after  int
	p      *peer
	dump   map[string]map[string]map[string]val.Val
	// the peer's own copy of the monitored part (direct oracle)
	copy    map[string]map[string]map[string]val.Val
	allKind bool
}

func (m *monSpec) reqFor(t string) (monReq, bool) {
	if len(m.req) == 0 {
		return monReq{Initial: true, Insert: true, Delete: true, Modify: true}, true
	}
	r, ok := m.req[t]
	if ok && !r.HasSelect {
		r.Initial, r.Insert, r.Delete, r.Modify = true, true, true, true
	}
	return r, ok
}

func (m *monSpec) requestJSON() map[string]interface{} {
	out := map[string]interface{}{}
	for t, r := range m.req {
		q := map[string]interface{}{}
		if r.Cols != nil {
			q["columns"] = r.Cols
		}
		if r.HasSelect {
			q["select"] = map[string]bool{"initial": r.Initial, "insert": r.Insert, "delete": r.Delete, "modify": r.Modify}
		}
		out[t] = q
	}
	return out
}

func (m *monSpec) coqReq(s *val.Syms) string {
	var ts []string
	var names []string
	for t := range m.req {
		names = append(names, t)
	}
	sort.Strings(names)
	for _, t := range names {
		r, _ := m.reqFor(t)
		ts = append(ts, fmt.Sprintf("(%d%%N, mkReq %s %v %v %v %v)", s.ID(t), symList(s, r.Cols), r.Initial, r.Insert, r.Delete, r.Modify))
	}
	return "[" + strings.Join(ts, "; ") + "]"
}

func project(r monReq, row map[string]val.Val) map[string]val.Val {
	if len(r.Cols) == 0 {
		return row
	}
	out := map[string]val.Val{}
	for _, c := range r.Cols {
		if v, ok := row[c]; ok {
			out[c] = v
		}
	}
	return out
}

// applyDiff applies an update2 modify entry to a column value (RFC / ovsdb-server(7)).
func applyDiff(cur, d val.Val) val.Val {
	switch cur.K {
	case 's':
		in := map[string]val.Atom{}
		for _, a := range cur.Set {
			in[a.Key()] = a
		}
		for _, a := range d.Set {
			if _, ok := in[a.Key()]; ok {
				delete(in, a.Key())
			} else {
				in[a.Key()] = a
			}
		}
		out := val.Val{K: 's'}
		for _, a := range in {
			out.Set = append(out.Set, a)
		}
		return out.Canon()
	case 'm':
		in := map[string][2]val.Atom{}
		for _, p := range cur.Map {
			in[p[0].Key()] = p
		}
		for _, p := range d.Map {
			if q, ok := in[p[0].Key()]; ok && q[1].Key() == p[1].Key() {
				delete(in, p[0].Key())
			} else {
				in[p[0].Key()] = p
			}
		}
		out := val.Val{K: 'm'}
		for _, p := range in {
			out.Map = append(out.Map, p)
		}
		return out.Canon()
	default:
		return d
	}
}

func coqOptLRow(s *val.Syms, r map[string]val.Val, present bool) string {
	return dyn.CoqOptRow(s, r, present)
}

func driveC07(o opts) error {
	quietStderr()
	g := gen.New(o.seed)
	syms := val.NewSyms()
	syms.ID("_uuid")
	w := emit.New("C07", o.out)
	w.Module, w.CaseType, w.Run = "Corr.C07", "C07.case", "C07.run"
	w.ShardSize = 25
	ncases, ntxn := 60, 6
	if o.tier == "thorough" {
		ncases, ntxn = 2500, 12
	}
	if o.n > 0 {
		ncases = o.n
	}
	scBase := c02Schema()
	scBase.Name = "C07"
	// after the regular cases: cascade cases (c07chain.go), a quarter as many
	for ci := 0; ci < ncases+(ncases+3)/4; ci++ {
		cascade := ci >= ncases
		sc := scBase
		if cascade {
			sc = cascadeSchema("C07")
		}
		lab, err := newSrvLab(sc, o.out)
		if err != nil {
			return err
		}
		writer, err := lab.dial()
		if err != nil {
			return err
		}
		nt := 2 + g.Intn(ntxn-1)
		if cascade && nt < 4 {
			nt = 4
		}
		// monitors
		nm := 1 + g.Intn(3)
		var mons []*monSpec
		for mi := 0; mi < nm; mi++ {
			m := &monSpec{cookie: fmt.Sprintf("\"m%d\"", mi), after: g.Intn(nt), req: map[string]monReq{}, copy: map[string]map[string]map[string]val.Val{}}
			switch g.Intn(3) {
			case 0:
				m.v1, m.method = true, "monitor"
			case 1:
				m.method = "monitor_cond"
			default:
				m.method = "monitor_cond_since"
			}
			m.allKind = true
			if !g.Chance(0.15) { // else: no table named = all tables
				for _, t := range sc.Tables {
					if !g.Chance(0.7) {
						continue
					}
					r := monReq{}
					if g.Chance(0.6) {
						r.Cols = []string{}
						for _, c := range t.Cols {
							if g.Chance(0.5) {
								r.Cols = append(r.Cols, c.Name)
							}
						}
						if len(r.Cols) == 0 {
							r.Cols = nil
						}
					}
					if g.Chance(0.7) {
						r.HasSelect = true
						// all 16 combinations of the four kinds
						r.Initial, r.Insert, r.Delete, r.Modify = g.Chance(0.6), g.Chance(0.5), g.Chance(0.6), g.Chance(0.5)
						if !(r.Initial && r.Insert && r.Delete && r.Modify) {
							m.allKind = false
						}
					}
					m.req[t.Name] = r
				}
				if len(m.req) == 0 {
					m.req[sc.Tables[0].Name] = monReq{}
				}
			}
			mons = append(mons, m)
		}
		// a third of the cases: one monitor follows exactly one kind of change on every table, and the history ends with
		// the life of a parent and its child: inserted, changed, deleted (the child by garbage collection)
		lifecycle := g.Chance(0.35) && !cascade
		if lifecycle {
			m := mons[0]
			m.req = map[string]monReq{}
			kind := g.Intn(3)
			for _, t := range sc.Tables {
				m.req[t.Name] = monReq{HasSelect: true, Initial: g.Chance(0.5), Insert: kind == 0, Modify: kind == 1, Delete: kind == 2}
			}
			m.allKind = false
			m.after = g.Intn(2)
			nt += 3
			w.Count("lifecycle:" + []string{"insert-only", "modify-only", "delete-only"}[kind])
		}
		var lifeP, lifeC, lifeQ string
		tg := &txnGen{g: g, sc: sc, state: map[string]map[string]map[string]val.Val{}, pool: 3, pSelect: 0.05, pWait: 0.03, pInvalid: 0.15, dangling: 0.05}
		st, refs, _ := lab.state()
		tg.state = st
		_ = refs
		if cascade {
			tg.custom, tg.pCustom = c04ChainTxn, 0.5
			w.Count("cascade cases")
		}
		oracle := ""
		fail := func(format string, a ...interface{}) {
			if oracle == "" {
				oracle = fmt.Sprintf(format, a...)
			}
		}
		establish := func(i int) error {
			for _, m := range mons {
				if m.after != i {
					continue
				}
				p, err := lab.dial()
				if err != nil {
					return err
				}
				m.p = p
				args := []interface{}{sc.Name, json.RawMessage(m.cookie), m.requestJSON()}
				m.dump = map[string]map[string]map[string]val.Val{}
				readRows := func(t string, u string, row *ovsdb.Row) {
					if row == nil {
						return
					}
					r, err := lab.db.ReadOvsRow(t, *row)
					if err != nil {
						fail("undecodable initial row: %v", err)
						return
					}
					if m.dump[t] == nil {
						m.dump[t] = map[string]map[string]val.Val{}
					}
					m.dump[t][u] = r
				}
				switch m.method {
				case "monitor":
					var reply ovsdb.TableUpdates
					if err := p.c.Call(m.method, args, &reply); err != nil {
						return fmt.Errorf("monitor: %v", err)
					}
					for t, tu := range reply {
						for u, ru := range tu {
							readRows(t, u, ru.New)
						}
					}
				case "monitor_cond":
					var reply ovsdb.TableUpdates2
					if err := p.c.Call(m.method, args, &reply); err != nil {
						return fmt.Errorf("monitor_cond: %v", err)
					}
					for t, tu := range reply {
						for u, ru := range tu {
							readRows(t, u, ru.Initial)
						}
					}
				default:
					var reply ovsdb.MonitorCondSinceReply
					args = append(args, "00000000-0000-0000-0000-000000000000")
					if err := p.c.Call(m.method, args, &reply); err != nil {
						return fmt.Errorf("monitor_cond_since: %v", err)
					}
					for t, tu := range reply.Updates {
						for u, ru := range tu {
							readRows(t, u, ru.Initial)
						}
					}
				}
				// the peer's copy starts from the dump (defaults filled, projected)
				for _, t := range sc.Tables {
					r, ok := m.reqFor(t.Name)
					if !ok {
						continue
					}
					m.copy[t.Name] = map[string]map[string]val.Val{}
					for u, row := range m.dump[t.Name] {
						full := map[string]val.Val{}
						for _, c := range t.Cols {
							if v, ok := row[c.Name]; ok {
								full[c.Name] = v
							} else {
								full[c.Name] = c.Default()
							}
						}
						m.copy[t.Name][u] = project(r, full)
					}
					// oracle on the dump itself
					if r.Initial {
						want := map[string]map[string]val.Val{}
						for u, row := range tg.state[t.Name] {
							want[u] = project(r, row)
						}
						if len(want) != len(m.copy[t.Name]) {
							fail("monitor %s: initial contents of table %s have %d rows, the database has %d", m.cookie, t.Name, len(m.copy[t.Name]), len(want))
						}
						for u, row := range want {
							if !rowsEqual(row, m.copy[t.Name][u]) {
								fail("monitor %s: initial row %s of table %s differs from the database", m.cookie, u, t.Name)
							}
						}
					} else if len(m.dump[t.Name]) > 0 {
						fail("monitor %s: initial contents sent for table %s although select.initial is false", m.cookie, t.Name)
					}
				}
			}
			return nil
		}
		var txnTerms []string
		var txnJ []interface{}
		nontrivial := false
		for ti := 0; ti < nt; ti++ {
			if err := establish(ti); err != nil {
				return err
			}
			ops := tg.txn(4)
			if ti == 0 && g.Chance(0.6) {
				// a populated database: parents with children, weak references in a set and in an optional column of one row
				ops = c02Seed(tg)
			}
			if cascade && ti == 0 {
				ops = cascadeSeed(tg)
			} else if cascade && ti == 1+ci%2 {
				ops = cascadeRelease(tg, ci/2)
			}
			if lifecycle && ti >= nt-3 {
				switch ti - (nt - 3) {
				case 0:
					lifeP, lifeC, lifeQ = tg.fresh(), tg.fresh(), tg.fresh()
					ops = []TOp{
						{Kind: "insert", Table: "Q", UUID: lifeQ, Row: map[string]val.Val{"name": val.VA(val.Str("life"))}},
						{Kind: "insert", Table: "C", UUID: lifeC, Row: map[string]val.Val{"k": val.VA(val.Str("life-child")), "v": val.VA(val.Int(1))}},
						{Kind: "insert", Table: "P", UUID: lifeP, Row: map[string]val.Val{"name": val.VA(val.Str("life-parent")), "kids": val.VS(val.Uuid(lifeC)), "w1": val.VS(val.Uuid(lifeQ))}},
					}
				case 1:
					ops = []TOp{
						{Kind: "update", Table: "P", Where: []Cond{{Col: "_uuid", Fn: "==", Arg: val.VA(val.Uuid(lifeP))}}, Row: map[string]val.Val{"n": val.VA(val.Int(5)), "ss": val.VS(val.Str("x"))}},
						{Kind: "update", Table: "C", Where: []Cond{{Col: "_uuid", Fn: "==", Arg: val.VA(val.Uuid(lifeC))}}, Row: map[string]val.Val{"v": val.VA(val.Int(2))}},
					}
				default:
					ops = []TOp{{Kind: "delete", Table: "P", Where: []Cond{{Col: "_uuid", Fn: "==", Arg: val.VA(val.Uuid(lifeP))}}}}
				}
			} else if ti > 0 && g.Chance(0.3) {
				// a row that goes away: by a delete of a root row, or by garbage collection when its last referrer lets go
				for _, tn := range []string{"P", "Q"}[g.Intn(2):] {
					if us := tg.uuidsOf(tn); len(us) > 0 {
						ops = append(ops, TOp{Kind: "delete", Table: tn, Where: []Cond{{Col: "_uuid", Fn: "==", Arg: val.VA(val.Uuid(us[g.Intn(len(us))]))}}})
						break
					}
				}
			}
			ob := lab.runWith(ops, writer.transactor(sc.Name))
			for i := range ops {
				if ops[i].Kind == "insert" && ops[i].UUID == "" {
					ops[i].UUID = gen.UUIDn(700000 + ti*16 + i)
				}
			}
			if ob.Panic != "" {
				fail("transaction %d: %s", ti, ob.Panic)
			}
			if ob.CommitErr != "" {
				fail("transaction %d: %s", ti, ob.CommitErr)
			}
			beforeTxn := tg.state
			tg.state = ob.State
			var slotTerms []string
			var slotJ []interface{}
			for _, m := range mons {
				kinds := map[string]map[string]string{} // table -> uuid -> kind of the entry this monitor received
				if m.p == nil {
					slotTerms = append(slotTerms, "None")
					slotJ = append(slotJ, nil)
					continue
				}
				v1, v2 := m.p.take(m.cookie)
				if len(m.p.errs) > 0 {
					fail("monitor %s: %s", m.cookie, m.p.errs[0])
				}
				if len(v1)+len(v2) > 1 {
					fail("transaction %d: monitor %s received %d notifications for one transaction", ti, m.cookie, len(v1)+len(v2))
				}
				if m.v1 && len(v2) > 0 || !m.v1 && len(v1) > 0 {
					fail("transaction %d: monitor %s (%s) was notified in the other encoding", ti, m.cookie, m.method)
				}
				if len(v1)+len(v2) == 0 {
					slotTerms = append(slotTerms, "None")
					slotJ = append(slotJ, "no message")
				} else {
					if !ob.Committed {
						fail("transaction %d failed but monitor %s was notified", ti, m.cookie)
					}
					var tabTerms []string
					msgJ := map[string]interface{}{}
					handle := func(t string, u string, kind string, a, b *ovsdb.Row) {
						if kinds[t] == nil {
							kinds[t] = map[string]string{}
						}
						k := kind
						if kind == "v1" {
							switch {
							case a != nil && b != nil:
								k = "mod"
							case b != nil:
								k = "ins"
							default:
								k = "del"
							}
						}
						kinds[t][u] = k
						rd := func(r *ovsdb.Row) (map[string]val.Val, bool) {
							if r == nil {
								return nil, false
							}
							x, err := lab.db.ReadOvsRow(t, *r)
							if err != nil {
								fail("undecodable notification row: %v", err)
							}
							return x, true
						}
						ra, ha := rd(a)
						rb, hb := rd(b)
						tt := sc.Table(t)
						rq, monitored := m.reqFor(t)
						if !monitored || tt == nil {
							fail("transaction %d: monitor %s notified about table %s it does not monitor", ti, m.cookie, t)
							return
						}
						if m.copy[t] == nil {
							m.copy[t] = map[string]map[string]val.Val{}
						}
						switch kind {
						case "ins":
							full := map[string]val.Val{}
							for _, c := range tt.Cols {
								if v, ok := ra[c.Name]; ok {
									full[c.Name] = v
								} else {
									full[c.Name] = c.Default()
								}
							}
							m.copy[t][u] = project(rq, full)
						case "mod":
							cur, ok := m.copy[t][u]
							if !ok {
								if m.allKind {
									fail("transaction %d: monitor %s got a modify for row %s it does not have", ti, m.cookie, u)
								}
								return
							}
							nr := map[string]val.Val{}
							for c, v := range cur {
								nr[c] = v
							}
							if len(ra) == 0 {
								fail("transaction %d: monitor %s got an empty modify for row %s", ti, m.cookie, u)
							}
							for c, d := range ra {
								if _, ok := cur[c]; !ok {
									fail("transaction %d: monitor %s got column %s it did not request", ti, m.cookie, c)
									continue
								}
								nr[c] = applyDiff(cur[c], d)
							}
							m.copy[t][u] = nr
						case "del":
							delete(m.copy[t], u)
						case "v1":
							if hb {
								m.copy[t][u] = rb
							} else {
								delete(m.copy[t], u)
							}
							_ = ha
						}
					}
					entries := map[string][]string{}
					addEntry := func(t, u, term string) { entries[t] = append(entries[t], fmt.Sprintf("(%d%%N, %s)", syms.ID(u), term)) }
					for _, tu := range v2 {
						for t, rows := range tu {
							if len(rows) == 0 {
								fail("transaction %d: monitor %s got an empty table update for %s", ti, m.cookie, t)
							}
							for u, ru := range rows {
								switch {
								case ru.Insert != nil:
									r, _ := lab.db.ReadOvsRow(t, *ru.Insert)
									addEntry(t, u, "OIns "+dyn.CoqRow(syms, r))
									handle(t, u, "ins", ru.Insert, nil)
								case ru.Modify != nil:
									r, _ := lab.db.ReadOvsRow(t, *ru.Modify)
									addEntry(t, u, "OMod "+dyn.CoqRow(syms, r))
									handle(t, u, "mod", ru.Modify, nil)
								case ru.Delete != nil:
									addEntry(t, u, "ODel")
									handle(t, u, "del", nil, nil)
								default:
									fail("transaction %d: monitor %s got an update2 row that is neither insert, modify nor delete", ti, m.cookie)
								}
							}
							msgJ[t] = len(rows)
						}
					}
					for _, tu := range v1 {
						for t, rows := range tu {
							if len(rows) == 0 {
								fail("transaction %d: monitor %s got an empty table update for %s", ti, m.cookie, t)
							}
							for u, ru := range rows {
								var ro, rn map[string]val.Val
								if ru.Old != nil {
									ro, _ = lab.db.ReadOvsRow(t, *ru.Old)
								}
								if ru.New != nil {
									rn, _ = lab.db.ReadOvsRow(t, *ru.New)
								}
								addEntry(t, u, fmt.Sprintf("O1 %s %s", coqOptLRow(syms, ro, ru.Old != nil), coqOptLRow(syms, rn, ru.New != nil)))
								handle(t, u, "v1", ru.Old, ru.New)
							}
							msgJ[t] = len(rows)
						}
					}
					var tnames []string
					for t := range entries {
						tnames = append(tnames, t)
					}
					sort.Strings(tnames)
					for _, t := range tnames {
						tabTerms = append(tabTerms, fmt.Sprintf("(%d%%N, [%s])", syms.ID(t), strings.Join(entries[t], "; ")))
					}
					slotTerms = append(slotTerms, "(Some ["+strings.Join(tabTerms, "; ")+"])")
					slotJ = append(slotJ, msgJ)
					if ob.Committed {
						nontrivial = true
					}
				}
				// direct oracle: exactly the selected kinds of change are notified, for exactly the rows that changed
				if ob.Committed {
					for _, t := range sc.Tables {
						rq, ok := m.reqFor(t.Name)
						if !ok {
							continue
						}
						got := func(u string) string { return kinds[t.Name][u] }
						expect := func(u, what, kind string, selected bool) {
							switch {
							case selected && got(u) != kind:
								fail("transaction %d: row %s of %s was %s but monitor %s, which selected that kind of change, received %q for it", ti, u, t.Name, what, m.cookie, got(u))
							case !selected && got(u) != "":
								fail("transaction %d: row %s of %s was %s and monitor %s, which did not select that kind of change, received %q for it", ti, u, t.Name, what, m.cookie, got(u))
							}
						}
						for u, br := range beforeTxn[t.Name] {
							ar, still := ob.State[t.Name][u]
							switch {
							case !still:
								expect(u, "deleted", "del", rq.Delete)
							case !rowsEqual(project(rq, br), project(rq, ar)):
								expect(u, "modified", "mod", rq.Modify)
							case got(u) != "":
								fail("transaction %d: monitor %s received %q for row %s of %s whose monitored columns did not change", ti, m.cookie, got(u), u, t.Name)
							}
						}
						for u := range ob.State[t.Name] {
							if _, was := beforeTxn[t.Name][u]; !was {
								expect(u, "inserted", "ins", rq.Insert)
							}
						}
					}
				}
				// direct oracle: the peer's copy equals the monitored part of the database
				if m.allKind {
					for _, t := range sc.Tables {
						rq, ok := m.reqFor(t.Name)
						if !ok {
							continue
						}
						if len(m.copy[t.Name]) != len(ob.State[t.Name]) {
							fail("transaction %d: after applying the notification, monitor %s holds %d rows of %s, the database %d", ti, m.cookie, len(m.copy[t.Name]), t.Name, len(ob.State[t.Name]))
							continue
						}
						for u, row := range ob.State[t.Name] {
							if !rowsEqual(project(rq, row), m.copy[t.Name][u]) {
								fail("transaction %d: after applying the notification, row %s of %s at monitor %s differs from the database", ti, u, t.Name, m.cookie)
							}
						}
					}
				}
			}
			var opTerms []string
			var opJ []interface{}
			for _, op := range ops {
				opTerms = append(opTerms, op.coqNamed(syms))
				opJ = append(opJ, op.json())
				w.Count("op:" + op.Kind)
			}
			if ob.Committed {
				w.Count("committed")
			} else {
				w.Count("not-committed")
			}
			txnTerms = append(txnTerms, fmt.Sprintf("([%s],\n     %s,\n     [%s])", strings.Join(opTerms, ";\n      "), lab.coqObs(syms, ob), strings.Join(slotTerms, "; ")))
			txnJ = append(txnJ, map[string]interface{}{"ops": opJ, "observed": jsonObs(ob), "messages": slotJ})
		}
		if err := establish(nt); err != nil {
			return err
		}
		var monTerms []string
		var monJ []interface{}
		for _, m := range mons {
			enc := "V2"
			if m.v1 {
				enc = "V1"
			}
			var dts []string
			var tn []string
			for t := range m.dump {
				tn = append(tn, t)
			}
			sort.Strings(tn)
			for _, t := range tn {
				var rows []string
				var us []string
				for u := range m.dump[t] {
					us = append(us, u)
				}
				sort.Strings(us)
				for _, u := range us {
					rows = append(rows, fmt.Sprintf("(%d%%N, %s)", syms.ID(u), dyn.CoqRow(syms, m.dump[t][u])))
				}
				dts = append(dts, fmt.Sprintf("(%d%%N, [%s])", syms.ID(t), strings.Join(rows, "; ")))
			}
			monTerms = append(monTerms, fmt.Sprintf("C07.mkMon %s %s %d%%nat [%s]", enc, m.coqReq(syms), m.after, strings.Join(dts, "; ")))
			monJ = append(monJ, map[string]interface{}{"method": m.method, "request": m.requestJSON(), "after": m.after})
			w.Count("method:" + m.method)
			if m.p != nil {
				m.p.close()
			}
		}
		// a monitor set up while a transaction is between notifying the monitors and committing
		// must learn of that transaction (in its initial contents or by a notification)
		if g.Chance(0.4) && !cascade {
			if msg := c07RacingSetup(lab, writer, sc, ci); msg != "" {
				fail("%s", msg)
			}
			w.Count("racing monitor set-up")
		}
		writer.close()
		lab.close()
		term := fmt.Sprintf("C07.mk (%s)\n   [%s]\n   [%s]", dyn.CoqSchema(syms, sc), strings.Join(monTerms, ";\n    "), strings.Join(txnTerms, ";\n    "))
		w.Add(emit.Case{Term: term, JSON: map[string]interface{}{"monitors": monJ, "transactions": txnJ}, Key: term,
			Nontrivial: nontrivial, Class: fmt.Sprintf("mons%d", nm), Oracle: oracle})
	}
	if err := c07EmptyColumns(o, scBase, w); err != nil {
		return err
	}
	return w.Flush()
}

// c07RacingSetup pauses a transaction at the verif point transact.notified, sends a monitor
// request from another connection meanwhile, and checks that the new monitor knows the
// transaction's row afterwards.
func c07RacingSetup(lab *srvLab, writer *peer, sc dyn.Schema, ci int) string {
	p2, err := lab.dial()
	if err != nil {
		return ""
	}
	defer p2.close()
	reached, release := make(chan struct{}), make(chan struct{})
	armed := true
	server.VerifHook = func(point string) {
		if point == "transact.notified" && armed {
			armed = false
			close(reached)
			<-release
		}
	}
	defer func() { server.VerifHook = nil }()
	u := gen.UUIDn(950000 + ci)
	op := TOp{Kind: "insert", Table: "Q", UUID: u, Row: map[string]val.Val{"name": val.VA(val.Str(fmt.Sprintf("racing%d", ci)))}}
	txDone := make(chan bool, 1)
	go func() {
		res, committed, _ := writer.transactor(sc.Name)([]ovsdb.Operation{op.operation(lab.db)})
		txDone <- committed && len(res) > 0
	}()
	select {
	case <-reached:
	case ok := <-txDone:
		server.VerifHook = nil
		if !ok {
			return ""
		}
		return "the verif pause point transact.notified was not reached by a committed transaction"
	case <-time.After(5 * time.Second):
		return "transaction did not reach transact.notified"
	}
	reqs := map[string]interface{}{}
	for _, t := range sc.Tables {
		reqs[t.Name] = map[string]interface{}{}
	}
	monDone := make(chan *ovsdb.TableUpdates2, 1)
	go func() {
		var reply ovsdb.TableUpdates2
		if err := p2.c.Call("monitor_cond", []interface{}{sc.Name, json.RawMessage(`"race"`), reqs}, &reply); err != nil {
			monDone <- nil
			return
		}
		monDone <- &reply
	}()
	time.Sleep(30 * time.Millisecond)
	close(release)
	var dump *ovsdb.TableUpdates2
	select {
	case dump = <-monDone:
	case <-time.After(5 * time.Second):
		return "monitor request sent during a transaction is not answered"
	}
	select {
	case <-txDone:
	case <-time.After(5 * time.Second):
		return "transaction does not finish after the pause"
	}
	if dump == nil {
		return "monitor request sent during a transaction fails"
	}
	known := false
	if ru, ok := (*dump)["Q"][u]; ok && ru.Initial != nil {
		known = true
	}
	_, v2 := p2.take(`"race"`)
	for _, tu := range v2 {
		if ru, ok := tu["Q"][u]; ok && ru.Insert != nil {
			if known {
				return "a monitor set up during a transaction got the transaction's row both in its initial contents and as an insert"
			}
			known = true
		}
	}
	if !known {
		return fmt.Sprintf("a monitor set up while a transaction was between notifying the monitors and committing never learns of its row %s", u)
	}
	return ""
}
