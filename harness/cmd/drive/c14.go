package main

// C14: cache events form a faithful, ordered change log.
// A real server is driven by a writer peer; a raw monitoring peer (all tables,
// all columns, 'monitor' or 'monitor_cond') collects the notifications, which
// are fed to a real cache.TableCache (Update / Update2, what the client's
// handlers call) with two event handlers registered before the history starts
// (one of them slow) and the dispatcher goroutine running. After every
// notification the handlers' logs and the cache contents are read.
// Some histories also inject notifications the cache must refuse (a change to
// a row it does not hold).

import (
	"encoding/json"
	"fmt"
	"strings"
	"sync"
	"time"

	"github.com/ovn-org/libovsdb/cache"
	"github.com/ovn-org/libovsdb/model"
	"github.com/ovn-org/libovsdb/ovsdb"

	"verifharness/dyn"
	"verifharness/emit"
	"verifharness/gen"
	"verifharness/val"
)

func init() { drivers["C14"] = driveC14 }

type c14Event struct {
	kind     string // add|update|delete
	table    string
	uuid     string
	old, new map[string]val.Val
}

type c14Handler struct {
	mu    sync.Mutex
	db    *dyn.DB
	log   []c14Event
	delay time.Duration
}

func (h *c14Handler) rec(kind, table string, old, new model.Model) {
	if h.delay > 0 {
		time.Sleep(h.delay)
	}
	e := c14Event{kind: kind, table: table}
	if old != nil {
		e.old = h.db.RowMap(old, table)
		e.uuid = h.db.UUID(old)
	}
	if new != nil {
		e.new = h.db.RowMap(new, table)
		e.uuid = h.db.UUID(new)
	}
	h.mu.Lock()
	h.log = append(h.log, e)
	h.mu.Unlock()
}
func (h *c14Handler) OnAdd(table string, m model.Model)       { h.rec("add", table, nil, m) }
func (h *c14Handler) OnUpdate(table string, o, n model.Model) { h.rec("update", table, o, n) }
func (h *c14Handler) OnDelete(table string, m model.Model)    { h.rec("delete", table, m, nil) }
func (h *c14Handler) length() int                             { h.mu.Lock(); defer h.mu.Unlock(); return len(h.log) }
func (h *c14Handler) from(i int) []c14Event {
	h.mu.Lock()
	defer h.mu.Unlock()
	return append([]c14Event{}, h.log[i:]...)
}

func c14EvTerm(s *val.Syms, e c14Event) string {
	switch e.kind {
	case "add":
		return fmt.Sprintf("OAdd %d%%N %d%%N %s", s.ID(e.table), s.ID(e.uuid), dyn.CoqRow(s, e.new))
	case "update":
		return fmt.Sprintf("OUpd %d%%N %d%%N %s %s", s.ID(e.table), s.ID(e.uuid), dyn.CoqRow(s, e.old), dyn.CoqRow(s, e.new))
	}
	return fmt.Sprintf("ODel %d%%N %d%%N %s", s.ID(e.table), s.ID(e.uuid), dyn.CoqRow(s, e.old))
}

func driveC14(o opts) error {
	quietStderr()
	g := gen.New(o.seed)
	w := emit.New("C14", o.out)
	w.ShardSize = 20
	ncases, ntxn := 40, 10
	if o.tier == "thorough" {
		ncases, ntxn = 500, 12
	}
	if o.n > 0 {
		ncases = o.n
	}
	sc := c02Schema()
	sc.Name = "C14"
	for ci := 0; ci < ncases; ci++ {
		syms := val.NewSyms()
		syms.ID("_uuid")
		lab, err := newSrvLab(sc, o.out)
		if err != nil {
			return err
		}
		err = func() error {
			defer lab.close()
			writer, err := lab.dial()
			if err != nil {
				return err
			}
			defer writer.close()
			mon, err := lab.dial()
			if err != nil {
				return err
			}
			defer mon.close()
			tc, err := cache.NewTableCache(lab.db.Model, nil, nil)
			if err != nil {
				return err
			}
			handlers := []*c14Handler{{db: lab.db}, {db: lab.db, delay: time.Duration(g.Intn(3)) * 200 * time.Microsecond}}
			for _, h := range handlers {
				tc.AddEventHandler(h)
			}
			// the dispatcher; the client starts one per connection, so it may stop and start again while events are queued
			var stop, done chan struct{}
			startRun := func() {
				stop, done = make(chan struct{}), make(chan struct{})
				go func(stop, done chan struct{}) {
					tc.Run(stop)
					close(done)
				}(stop, done)
			}
			stopRun := func() {
				close(stop)
				<-done
			}
			startRun()
			defer func() { close(stop) }()

			v1 := g.Chance(0.5)
			method := "monitor_cond"
			if v1 {
				method = "monitor"
			}
			reqs := map[string]interface{}{}
			for _, t := range sc.Tables {
				reqs[t.Name] = map[string]interface{}{}
			}
			cookie := `"c14"`
			nt := 2 + g.Intn(ntxn-1)
			startAt := g.Intn(2) // monitor established before transaction 0 or 1
			tg := &txnGen{g: g, sc: sc, state: map[string]map[string]map[string]val.Val{}, pool: 5, pSelect: 0.03, pWait: 0.02, pInvalid: 0.1, dangling: 0.03}
			oracle := ""
			fail := func(format string, a ...interface{}) {
				if oracle == "" {
					oracle = fmt.Sprintf(format, a...)
				}
			}
			var stepTerms []string
			var stepJ []interface{}
			shadow := map[string]map[string]map[string]val.Val{} // what the event log reproduces (handler 0)
			for _, t := range sc.Tables {
				shadow[t.Name] = map[string]map[string]val.Val{}
			}
			seen := []int{0, 0}
			nontrivial := false
			kinds := map[string]int{}
			// one step: feed a notification, wait for the dispatcher, record
			feed := func(label string, before, after map[string]map[string]map[string]val.Val, apply func() error, expectOK bool, forced []string) {
				// rows whose state differs
				var changes []string
				expected := 0
				for _, t := range sc.Tables {
					us := map[string]bool{}
					for u := range before[t.Name] {
						us[u] = true
					}
					for u := range after[t.Name] {
						us[u] = true
					}
					for _, u := range sortedBoolKeys(us) {
						b, inB := before[t.Name][u]
						a, inA := after[t.Name][u]
						if inB && inA && rowsEqual(a, b) {
							continue
						}
						expected++
						changes = append(changes, fmt.Sprintf("(%d%%N, %d%%N, %v, %s)", syms.ID(t.Name), syms.ID(u), !inB, dyn.CoqOptRow(syms, a, inA)))
					}
				}
				changes = append(changes, forced...)
				err := apply()
				if (err == nil) != expectOK {
					fail("%s: the cache answers %v", label, err)
				}
				if g.Chance(0.25) {
					// the dispatcher stops while events may still be queued and a new one takes over: nothing may be lost
					stopRun()
					startRun()
					kinds["dispatcher restarted"]++
				}
				// wait for the dispatcher: both handlers at the expected count (or quiescent)
				deadline := time.Now().Add(3 * time.Second)
				for time.Now().Before(deadline) {
					if handlers[0].length()-seen[0] >= expected && handlers[1].length()-seen[1] >= expected {
						break
					}
					time.Sleep(200 * time.Microsecond)
				}
				time.Sleep(300 * time.Microsecond)
				var logs [][]c14Event
				for i, h := range handlers {
					l := h.from(seen[i])
					seen[i] += len(l)
					logs = append(logs, l)
				}
				if len(logs[0]) != len(logs[1]) {
					fail("%s: the handlers saw %d and %d events", label, len(logs[0]), len(logs[1]))
				}
				if len(logs[0]) != expected {
					fail("%s: %d events delivered for %d changed rows", label, len(logs[0]), expected)
				}
				// direct oracle: apply handler 0's events to the shadow copy, checking legality
				for _, e := range logs[0] {
					cur, have := shadow[e.table][e.uuid]
					kinds[e.kind]++
					switch e.kind {
					case "add":
						if have {
							fail("%s: add event for row %s of %s which the log already holds", label, e.uuid, e.table)
						}
						shadow[e.table][e.uuid] = e.new
					case "update":
						if !have || !rowsEqual(cur, e.old) {
							fail("%s: update event for row %s of %s whose old model is not the previous state", label, e.uuid, e.table)
						}
						shadow[e.table][e.uuid] = e.new
					default:
						if !have || !rowsEqual(cur, e.old) {
							fail("%s: delete event for row %s of %s whose model is not the previous state", label, e.uuid, e.table)
						}
						delete(shadow[e.table], e.uuid)
					}
				}
				for i := range logs[0] {
					if i < len(logs[1]) && (logs[0][i].kind != logs[1][i].kind || logs[0][i].uuid != logs[1][i].uuid) {
						fail("%s: the handlers saw different sequences", label)
					}
				}
				// cache contents
				var cacheTerms []string
				for _, t := range sc.Tables {
					var rows []string
					got := map[string]map[string]val.Val{}
					rc := tc.Table(t.Name)
					for u, m := range rc.Rows() {
						got[u] = lab.db.RowMap(m, t.Name)
					}
					for _, u := range sortedRowKeys(got) {
						rows = append(rows, fmt.Sprintf("(%d%%N, %s)", syms.ID(u), dyn.CoqRow(syms, got[u])))
					}
					cacheTerms = append(cacheTerms, fmt.Sprintf("(%d%%N, [%s])", syms.ID(t.Name), strings.Join(rows, "; ")))
					if len(got) != len(shadow[t.Name]) {
						fail("%s: the event log reproduces %d rows of %s, the cache holds %d", label, len(shadow[t.Name]), t.Name, len(got))
					}
					for u, r := range got {
						if !rowsEqual(r, shadow[t.Name][u]) {
							fail("%s: row %s of %s reproduced from the event log differs from the cache", label, u, t.Name)
						}
					}
				}
				var logTerms []string
				for _, l := range logs {
					var es []string
					for _, e := range l {
						es = append(es, c14EvTerm(syms, e))
					}
					logTerms = append(logTerms, "["+strings.Join(es, "; ")+"]")
				}
				stepTerms = append(stepTerms, fmt.Sprintf("mkStep [%s] %s [%s] [%s]", strings.Join(changes, "; "), emit.Bool(expectOK),
					strings.Join(logTerms, "; "), strings.Join(cacheTerms, "; ")))
				stepJ = append(stepJ, map[string]interface{}{"step": label, "changed_rows": expected, "events": len(logs[0])})
			}
			empty := map[string]map[string]map[string]val.Val{}
			established := false
			cur := empty
			for ti := 0; ti < nt; ti++ {
				if ti == startAt && !established {
					args := []interface{}{sc.Name, json.RawMessage(cookie), reqs}
					dbNow, _, _ := lab.state()
					if v1 {
						var reply ovsdb.TableUpdates
						if err := mon.c.Call(method, args, &reply); err != nil {
							return fmt.Errorf("monitor: %v", err)
						}
						feed("initial contents", cur, dbNow, func() error { return tc.Update(nil, reply) }, true, nil)
					} else {
						var reply ovsdb.TableUpdates2
						if err := mon.c.Call(method, args, &reply); err != nil {
							return fmt.Errorf("monitor_cond: %v", err)
						}
						feed("initial contents", cur, dbNow, func() error { return tc.Update2(nil, reply) }, true, nil)
					}
					cur = dbNow
					established = true
				}
				st, _, _ := lab.state()
				tg.state = st
				ops := tg.txn(4)
				if ti == 0 {
					ops = nil
					for i := 0; i < 3; i++ {
						cu, qu := tg.fresh(), tg.fresh()
						ops = append(ops,
							TOp{Kind: "insert", Table: "Q", UUID: qu, Row: map[string]val.Val{"name": val.VA(gen.AtomN('s', i))}},
							TOp{Kind: "insert", Table: "C", UUID: cu, Row: map[string]val.Val{"k": val.VA(gen.AtomN('s', i+1)), "friend": val.VSome(val.Uuid(qu))}},
							TOp{Kind: "insert", Table: "P", UUID: tg.fresh(), Row: map[string]val.Val{"name": val.VA(gen.AtomN('s', i)), "kids": val.VS(val.Uuid(cu)), "w1": val.VS(val.Uuid(qu))}})
					}
				}
				ob := lab.runWith(ops, writer.transactor(sc.Name))
				if ob.Panic != "" {
					return fmt.Errorf("transaction: %s", ob.Panic)
				}
				if !established {
					continue
				}
				a, b := mon.take(cookie)
				label := fmt.Sprintf("transaction %d", ti)
				switch {
				case len(a)+len(b) == 0:
					feed(label+" (no notification)", cur, cur, func() error { return nil }, true, nil)
				case len(a) == 1:
					feed(label, cur, ob.State, func() error { return tc.Update(nil, a[0]) }, true, nil)
				case len(b) == 1:
					feed(label, cur, ob.State, func() error { return tc.Update2(nil, b[0]) }, true, nil)
				default:
					return fmt.Errorf("%d notifications for one transaction", len(a)+len(b))
				}
				if len(a)+len(b) > 0 {
					for _, t := range sc.Tables {
						if len(cur[t.Name]) > 0 && len(ob.State[t.Name]) < len(cur[t.Name]) {
							nontrivial = true
						}
					}
					cur = ob.State
				}
				// a notification the cache must refuse: a change to a row it does not hold
				if g.Chance(0.2) {
					ghost := gen.UUIDn(900000 + ti)
					forced := []string{fmt.Sprintf("(%d%%N, %d%%N, false, None)", syms.ID("Q"), syms.ID(ghost))}
					if v1 {
						old := ovsdb.Row{"name": "x"}
						tu := ovsdb.TableUpdates{"Q": ovsdb.TableUpdate{ghost: &ovsdb.RowUpdate{Old: &old}}}
						feed(label+" + refused notification", cur, cur, func() error { return tc.Update(nil, tu) }, false, forced)
					} else {
						del := ovsdb.Row{}
						tu := ovsdb.TableUpdates2{"Q": ovsdb.TableUpdate2{ghost: &ovsdb.RowUpdate2{Delete: &del}}}
						feed(label+" + refused notification", cur, cur, func() error { return tc.Update2(nil, tu) }, false, forced)
					}
					w.Count("refused-notification")
				}
				// ... and a row it already holds announced again as an insert (what an overlapping monitor sends)
				if g.Chance(0.25) && len(cur["Q"]) > 0 {
					us := sortedRowKeys(cur["Q"])
					u := us[g.Intn(len(us))]
					forced := []string{fmt.Sprintf("(%d%%N, %d%%N, true, %s)", syms.ID("Q"), syms.ID(u), dyn.CoqOptRow(syms, cur["Q"][u], true))}
					row := lab.db.OvsRow("Q", cur["Q"][u])
					if v1 {
						tu := ovsdb.TableUpdates{"Q": ovsdb.TableUpdate{u: &ovsdb.RowUpdate{New: &row}}}
						feed(label+" + re-announced insert", cur, cur, func() error { return tc.Update(nil, tu) }, false, forced)
					} else {
						tu := ovsdb.TableUpdates2{"Q": ovsdb.TableUpdate2{u: &ovsdb.RowUpdate2{Insert: &row}}}
						feed(label+" + re-announced insert", cur, cur, func() error { return tc.Update2(nil, tu) }, false, forced)
					}
					w.Count("refused-reinsert")
				}
			}
			for k, n := range kinds {
				w.Dist["event:"+k] += n
			}
			w.Count("method:" + method)
			term := "[" + strings.Join(stepTerms, ";\n     ") + "]"
			w.Add(emit.Case{Term: term, JSON: map[string]interface{}{"method": method, "steps": stepJ}, Key: term,
				Nontrivial: nontrivial && kinds["update"] > 0 && kinds["delete"] > 0, Oracle: oracle})
			return nil
		}()
		if err != nil {
			return err
		}
	}
	if err := c14Custom(o, g, w); err != nil {
		return err
	}
	return w.Flush()
}

func sortedBoolKeys(m map[string]bool) []string {
	ks := make([]string, 0, len(m))
	for k := range m {
		ks = append(ks, k)
	}
	sortStrings(ks)
	return ks
}

func sortedRowKeys(m map[string]map[string]val.Val) []string {
	ks := make([]string, 0, len(m))
	for k := range m {
		ks = append(ks, k)
	}
	sortStrings(ks)
	return ks
}

func sortStrings(s []string) {
	for i := 1; i < len(s); i++ {
		for j := i; j > 0 && s[j] < s[j-1]; j-- {
			s[j], s[j-1] = s[j-1], s[j]
		}
	}
}
