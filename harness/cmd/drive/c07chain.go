package main

// Cascade cases shared by C07 and C01: a chain of non-root rows collected one
// level per round, and a root row that weakly references rows of every level
// (and one that stays), so that one surviving row is pruned in several rounds
// of the same transaction. The shared C02 schema has no two-level cascade.

import (
	"verifharness/dyn"
	"verifharness/val"
)

func cascadeSchema(name string) dyn.Schema {
	sc := c04ChainSchema()
	sc.Name = name
	return sc
}

// cascadeSeed: owner -> n1 -> n2 -> n3, keeper -> n0; the watcher references all four in its set and three in its map.
func cascadeSeed(tg *txnGen) []TOp {
	n := []string{tg.fresh(), tg.fresh(), tg.fresh(), tg.fresh()}
	return []TOp{
		{Kind: "insert", Table: "A", UUID: n[0], Row: map[string]val.Val{"name": val.VA(val.Str("n0"))}},
		{Kind: "insert", Table: "A", UUID: n[3], Row: map[string]val.Val{"name": val.VA(val.Str("n3"))}},
		{Kind: "insert", Table: "A", UUID: n[2], Row: map[string]val.Val{"name": val.VA(val.Str("n2")), "next": val.VSome(val.Uuid(n[3]))}},
		{Kind: "insert", Table: "A", UUID: n[1], Row: map[string]val.Val{"name": val.VA(val.Str("n1")), "next": val.VSome(val.Uuid(n[2]))}},
		{Kind: "insert", Table: "R", UUID: tg.fresh(), Row: map[string]val.Val{"name": val.VA(val.Str("owner")), "head": val.VSome(val.Uuid(n[1]))}},
		{Kind: "insert", Table: "R", UUID: tg.fresh(), Row: map[string]val.Val{"name": val.VA(val.Str("keeper")), "head": val.VSome(val.Uuid(n[0]))}},
		{Kind: "insert", Table: "B", UUID: tg.fresh(), Row: map[string]val.Val{"name": val.VA(val.Str("watcher")),
			"nodes": val.VS(val.Uuid(n[0]), val.Uuid(n[1]), val.Uuid(n[2]), val.Uuid(n[3])).Canon(),
			"tags":  {K: 'm', Map: [][2]val.Atom{{val.Str("a"), val.Uuid(n[1])}, {val.Str("b"), val.Uuid(n[3])}, {val.Str("c"), val.Uuid(n[0])}}}}},
	}
}

// cascadeRelease: the owner lets go of the chain (three rounds of collection, the watcher pruned in each);
// variant 1 and 2: the same transaction changes the watcher itself first, in another column or in the pruned one.
func cascadeRelease(tg *txnGen, variant int) []TOp {
	owner := []Cond{{Col: "name", Fn: "==", Arg: val.VA(val.Str("owner"))}}
	var ops []TOp
	switch variant % 4 {
	case 1:
		ops = append(ops, TOp{Kind: "update", Table: "B", Where: []Cond{}, Row: map[string]val.Val{"name": val.VA(val.Str("renamed"))}})
	case 2:
		if as := tg.uuidsOf("A"); len(as) > 0 {
			ops = append(ops, TOp{Kind: "mutate", Table: "B", Where: []Cond{}, Muts: []Mut{{Col: "tags", Mutator: "insert",
				Arg: val.Val{K: 'm', Map: [][2]val.Atom{{val.Str("d"), val.Uuid(as[0])}}}}}})
		}
	}
	if variant%4 == 3 {
		ops = append(ops, TOp{Kind: "update", Table: "R", Where: owner, Row: map[string]val.Val{"head": val.VNone()}})
	} else {
		ops = append(ops, TOp{Kind: "delete", Table: "R", Where: owner})
	}
	return ops
}
