package main

// C18: client and cache are safe and live under concurrent use.
//  - lock-discipline facts (lockfacts.go) as a generated Coq obligation;
//  - liveness scenarios: every API call must return within a generous deadline,
//    including after an earlier call failed in each way it can fail;
//  - a stress scenario (readers, transactor, monitor set-up/cancel, echo, a
//    writer keeping two columns of a row equal, connection cuts) run in this
//    process with deadline watchdogs and, in a child process built with
//    -race, under the race detector.

import (
	"context"
	"encoding/json"
	"fmt"
	"os"
	"os/exec"
	"path/filepath"
	"reflect"
	"strings"
	"sync"
	"sync/atomic"
	"time"

	"github.com/cenkalti/backoff/v4"
	"github.com/go-logr/logr"
	"github.com/ovn-org/libovsdb/client"
	"github.com/ovn-org/libovsdb/model"
	"github.com/ovn-org/libovsdb/ovsdb"

	"verifharness/dyn"
	"verifharness/emit"
	"verifharness/gen"
	"verifharness/val"
)

func c18Schema() dyn.Schema {
	return dyn.Schema{Name: "C18", Tables: []dyn.Table{
		{Name: "T", IsRoot: true, Cols: []val.Col{{Name: "name", K: 'a', KT: 's'}, {Name: "a", K: 'a', KT: 'i'}, {Name: "b", K: 'a', KT: 'i'},
			{Name: "ss", K: 's', KT: 's', Max: -1}}},
		{Name: "U", IsRoot: true, Cols: []val.Col{{Name: "name", K: 'a', KT: 's'}}},
	}}
}

type callLog struct {
	mu    sync.Mutex
	calls []string // "kind:ok" / "kind:late"
}

// timed runs f and reports whether it returned within the deadline.
func (l *callLog) timed(kind string, deadline time.Duration, f func()) bool {
	done := make(chan struct{})
	go func() { f(); close(done) }()
	ok := true
	select {
	case <-done:
	case <-time.After(deadline):
		ok = false
	}
	l.mu.Lock()
	if ok {
		l.calls = append(l.calls, kind+":ok")
	} else {
		l.calls = append(l.calls, kind+":late")
	}
	l.mu.Unlock()
	return ok
}

var c18Kinds = []string{"Connect", "Disconnect", "Close", "Monitor", "MonitorCancel", "Echo", "Transact", "List", "Get", "WhereList", "MonitorUnknownTable", "MonitorAll"}

func c18KindID(k string) int {
	for i, x := range c18Kinds {
		if x == k {
			return i + 1
		}
	}
	return 0
}

func (l *callLog) term(mixed int) (string, []string) {
	l.mu.Lock()
	defer l.mu.Unlock()
	var parts, late []string
	for _, c := range l.calls {
		kv := strings.SplitN(c, ":", 2)
		parts = append(parts, fmt.Sprintf("(%d%%N, %v)", c18KindID(kv[0]), kv[1] == "ok"))
		if kv[1] != "ok" {
			late = append(late, kv[0])
		}
	}
	return fmt.Sprintf("mkCase [%s] %d%%nat", strings.Join(parts, "; "), mixed), late
}

func ctxD(d time.Duration) (context.Context, context.CancelFunc) {
	return context.WithTimeout(context.Background(), d)
}

// scenario: failing calls do not wedge the client
func c18FailingCalls(lab *srvLab, sc dyn.Schema, reconnect bool) (*callLog, string) {
	l := &callLog{}
	const D = 6 * time.Second
	lg := logr.Discard()
	opts := []client.Option{client.WithEndpoint("unix:" + lab.sock), client.WithLogger(&lg)}
	if reconnect {
		opts = append(opts, client.WithReconnect(2*time.Second, backoff.NewConstantBackOff(10*time.Millisecond)))
	}
	cl, err := client.NewOVSDBClient(lab.db.Client, opts...)
	if err != nil {
		return l, err.Error()
	}
	msg := ""
	note := func(s string) {
		if msg == "" {
			msg = s
		}
	}
	wedged := false
	step := func(kind string, f func() error, wantErr bool) {
		if wedged {
			return // a call is blocked for ever: the client is not touched again (its goroutines are abandoned)
		}
		var err error
		if !l.timed(kind, D, func() { err = f() }) {
			note(kind + " does not return within 6 s (after: " + strings.Join(l.calls[:len(l.calls)-1], ", ") + ")")
			wedged = true
			return
		}
		if wantErr && err == nil && !strings.HasSuffix(kind, "(cancelled context)") {
			// (a call made with a context that is already cancelled may still be answered first: either outcome is fine,
			// what matters is that it returns and leaves the client usable)
			note(kind + " succeeds where an error is expected")
		}
		if !wantErr && err != nil {
			note(kind + " fails after an earlier call failed: " + err.Error())
		}
	}
	connect := func() error { ctx, c := ctxD(3 * time.Second); defer c(); return cl.Connect(ctx) }
	step("Echo", func() error { ctx, c := ctxD(time.Second); defer c(); return cl.Echo(ctx) }, true) // not connected
	step("Connect", connect, false)
	// Monitor naming a table the model does not have
	step("MonitorUnknownTable", func() error {
		ctx, c := ctxD(2 * time.Second)
		defer c()
		m := cl.NewMonitor(client.WithTable(lab.db.New("T")))
		m.Tables = append(m.Tables, client.TableMonitor{Table: "NoSuchTable"})
		_, err := cl.Monitor(ctx, m)
		return err
	}, true)
	step("Disconnect", func() error { cl.Disconnect(); return nil }, false)
	// Disconnect is asynchronous: wait until the client has dropped (or replaced) the connection
	for i := 0; i < 300 && (reconnect != cl.Connected() || (!reconnect && cl.CurrentEndpoint() != "")); i++ {
		time.Sleep(5 * time.Millisecond)
	}
	time.Sleep(30 * time.Millisecond)
	if !reconnect {
		step("Connect", connect, false)
	}
	// a cancelled context
	step("Transact (cancelled context)", func() error {
		ctx, c := context.WithCancel(context.Background())
		c()
		_, err := cl.Transact(ctx, ovsdb.Operation{Op: "select", Table: "T", Where: []ovsdb.Condition{}})
		return err
	}, true)
	step("Monitor (cancelled context)", func() error {
		ctx, c := context.WithCancel(context.Background())
		c()
		_, err := cl.Monitor(ctx, cl.NewMonitor(client.WithTable(lab.db.New("U"))))
		return err
	}, true)
	step("MonitorCancel", func() error {
		ctx, c := ctxD(2 * time.Second)
		defer c()
		return cl.MonitorCancel(ctx, client.MonitorCookie{DatabaseName: sc.Name, ID: "no-such-monitor"})
	}, true)
	// ... and the client still works
	var cookie client.MonitorCookie
	step("Monitor", func() error {
		ctx, c := ctxD(3 * time.Second)
		defer c()
		var err error
		cookie, err = cl.Monitor(ctx, cl.NewMonitor(client.WithTable(lab.db.New("T"))))
		return err
	}, false)
	step("Transact", func() error {
		ctx, c := ctxD(3 * time.Second)
		defer c()
		op := TOp{Kind: "insert", Table: "T", Row: map[string]val.Val{"name": val.VA(val.Str("x"))}}
		res, err := cl.Transact(ctx, op.operation(lab.db))
		if err == nil && len(res) == 1 && res[0].Error != "" {
			return fmt.Errorf("%s", res[0].Error)
		}
		return err
	}, false)
	step("List", func() error {
		ctx, c := ctxD(3 * time.Second)
		defer c()
		lp := reflect.New(reflect.SliceOf(reflect.TypeOf(lab.db.New("T"))))
		return cl.List(ctx, lp.Interface())
	}, false)
	// (the built-in server does not implement monitor_cancel: an error reply is an answer)
	if !wedged {
		l.timed("MonitorCancel", D, func() { ctx, c := ctxD(3 * time.Second); defer c(); _ = cl.MonitorCancel(ctx, cookie) })
	}
	step("Echo", func() error { ctx, c := ctxD(2 * time.Second); defer c(); return cl.Echo(ctx) }, false)
	step("Close", func() error { cl.Close(); return nil }, false)
	step("Connect", connect, false)
	step("Close", func() error { cl.Close(); return nil }, false)
	return l, msg
}

// stress: concurrent API use with notifications, monitor set-up/cancel and connection cuts.
// Returns the call log, the number of rows read with a != b, and a message.
func c18Stress(g *gen.G, outDir string, round int, dur time.Duration) (*callLog, int, string) {
	l := &callLog{}
	sc := c18Schema()
	lab, err := newSrvLab(sc, outDir)
	if err != nil {
		return l, 0, err.Error()
	}
	defer lab.close()
	px, err := newCutProxy(outDir, lab.sock, 1000+round)
	if err != nil {
		return l, 0, err.Error()
	}
	defer px.close()
	writer, err := lab.dial()
	if err != nil {
		return l, 0, err.Error()
	}
	defer writer.close()
	const D = 8 * time.Second
	msg := ""
	var msgMu sync.Mutex
	note := func(s string) {
		msgMu.Lock()
		if msg == "" {
			msg = s
		}
		msgMu.Unlock()
	}
	// rows whose columns a and b are always written together
	var ops []TOp
	for i := 0; i < 4; i++ {
		ops = append(ops, TOp{Kind: "insert", Table: "T", UUID: gen.UUIDn(i + 1), Row: map[string]val.Val{
			"name": val.VA(gen.AtomN('s', i+1)), "a": val.VA(val.Int(0)), "b": val.VA(val.Int(0))}})
	}
	lab.runWith(ops, writer.transactor(sc.Name))
	lg := logr.Discard()
	cl, err := client.NewOVSDBClient(lab.db.Client, client.WithEndpoint("unix:"+px.path), client.WithLogger(&lg),
		client.WithReconnect(2*time.Second, backoff.NewConstantBackOff(10*time.Millisecond)))
	if err != nil {
		return l, 0, err.Error()
	}
	{
		ctx, c := ctxD(3 * time.Second)
		err := cl.Connect(ctx)
		c()
		if err != nil {
			return l, 0, "connect: " + err.Error()
		}
		ctx, c = ctxD(3 * time.Second)
		_, err = cl.Monitor(ctx, cl.NewMonitor(client.WithTable(lab.db.New("T"))))
		c()
		if err != nil {
			return l, 0, "monitor: " + err.Error()
		}
	}
	stop := make(chan struct{})
	var wg sync.WaitGroup
	var mixed int64
	worker := func(f func(i int)) {
		wg.Add(1)
		go func() {
			defer wg.Done()
			for i := 0; ; i++ {
				select {
				case <-stop:
					return
				default:
				}
				f(i)
			}
		}()
	}
	aOf := func(m model.Model) (int64, int64) {
		r := lab.db.RowMap(m, "T")
		return r["a"].A.I, r["b"].A.I
	}
	// the foreign writer: a and b move together, ss grows and shrinks
	worker(func(i int) {
		u := gen.UUIDn(1 + i%4)
		n := int64(i + 1)
		lab.runWith([]TOp{{Kind: "update", Table: "T", Where: []Cond{{Col: "_uuid", Fn: "==", Arg: val.VA(val.Uuid(u))}},
			Row: map[string]val.Val{"a": val.VA(val.Int(n)), "b": val.VA(val.Int(n)), "ss": val.VS(val.Str(fmt.Sprint("s", i%3)), val.Str("k"))}}}, writer.transactor(sc.Name))
		time.Sleep(time.Millisecond)
	})
	// readers
	for r := 0; r < 2; r++ {
		worker(func(i int) {
			l.timed("List", D, func() {
				ctx, c := ctxD(2 * time.Second)
				defer c()
				lp := reflect.New(reflect.SliceOf(reflect.TypeOf(lab.db.New("T"))))
				if err := cl.List(ctx, lp.Interface()); err == nil {
					for k := 0; k < lp.Elem().Len(); k++ {
						if a, b := aOf(lp.Elem().Index(k).Interface()); a != b {
							atomic.AddInt64(&mixed, 1)
							note(fmt.Sprintf("List returned a row with a=%d b=%d (the writer always writes them together)", a, b))
						}
					}
				}
			})
			l.timed("Get", D, func() {
				ctx, c := ctxD(2 * time.Second)
				defer c()
				m := lab.db.Make("T", gen.UUIDn(1+i%4), nil)
				if err := cl.Get(ctx, m); err == nil {
					if a, b := aOf(m); a != b {
						atomic.AddInt64(&mixed, 1)
						note(fmt.Sprintf("Get returned a row with a=%d b=%d", a, b))
					}
				}
			})
			l.timed("WhereList", D, func() {
				ctx, c := ctxD(2 * time.Second)
				defer c()
				lp := reflect.New(reflect.SliceOf(reflect.TypeOf(lab.db.New("T"))))
				_ = cl.Where(lab.db.Make("T", gen.UUIDn(1+i%4), nil)).List(ctx, lp.Interface())
			})
			time.Sleep(500 * time.Microsecond)
		})
	}
	// the client's own transactions
	worker(func(i int) {
		l.timed("Transact", D, func() {
			ctx, c := ctxD(2 * time.Second)
			defer c()
			op := TOp{Kind: "insert", Table: "U", Row: map[string]val.Val{"name": val.VA(val.Str(fmt.Sprint("u", i)))}}
			_, _ = cl.Transact(ctx, op.operation(lab.db))
		})
		time.Sleep(2 * time.Millisecond)
	})
	// monitor set-up and cancel, echo
	worker(func(i int) {
		var cookie client.MonitorCookie
		var err error
		l.timed("Monitor", D, func() {
			ctx, c := ctxD(2 * time.Second)
			defer c()
			cookie, err = cl.Monitor(ctx, cl.NewMonitor(client.WithTable(lab.db.New("U"))))
		})
		if err == nil {
			l.timed("MonitorCancel", D, func() {
				ctx, c := ctxD(2 * time.Second)
				defer c()
				_ = cl.MonitorCancel(ctx, cookie)
			})
		}
		l.timed("Echo", D, func() { ctx, c := ctxD(time.Second); defer c(); _ = cl.Echo(ctx) })
		time.Sleep(3 * time.Millisecond)
	})
	// connection cuts and explicit disconnects
	worker(func(i int) {
		time.Sleep(time.Duration(40+g.Intn(80)) * time.Millisecond)
		if i%3 == 2 {
			l.timed("Disconnect", D, func() { cl.Disconnect() })
		} else {
			px.cutNow()
		}
	})
	time.Sleep(dur)
	close(stop)
	allDone := make(chan struct{})
	go func() { wg.Wait(); close(allDone) }()
	select {
	case <-allDone:
	case <-time.After(15 * time.Second):
		note("the worker goroutines do not finish: an API call is blocked for ever")
		_, late := l.term(0)
		if len(late) > 0 {
			note("blocked: " + strings.Join(late, ", "))
		}
		return l, int(mixed), msg
	}
	l.timed("Close", D, func() { cl.Close() })
	_, late := l.term(int(mixed))
	if len(late) > 0 {
		note("API call(s) not returning within 8 s: " + strings.Join(late, ", "))
	}
	return l, int(mixed), msg
}

// scenario: a Monitor call starting while an update3 notification is being applied
// (pause point update3.applied) must return.
func c18MonitorDuringUpdate3(lab *srvLab, sc dyn.Schema) (*callLog, string) {
	l := &callLog{}
	const D = 8 * time.Second
	lg := logr.Discard()
	cl, err := client.NewOVSDBClient(lab.db.Client, client.WithEndpoint("unix:"+lab.sock), client.WithLogger(&lg))
	if err != nil {
		return l, err.Error()
	}
	writer, err := lab.dial()
	if err != nil {
		return l, err.Error()
	}
	defer writer.close()
	ctx, c := ctxD(3 * time.Second)
	err = cl.Connect(ctx)
	c()
	if err != nil {
		return l, "connect: " + err.Error()
	}
	m1 := cl.NewMonitor(client.WithTable(lab.db.New("T")))
	m1.Method = ovsdb.ConditionalMonitorSinceRPC
	ctx, c = ctxD(3 * time.Second)
	_, err = cl.Monitor(ctx, m1)
	c()
	if err != nil {
		return l, "monitor: " + err.Error()
	}
	reached, release := make(chan struct{}), make(chan struct{})
	armed := true
	client.VerifHook = func(point string) {
		if point == "update3.applied" && armed {
			armed = false
			close(reached)
			<-release
		}
	}
	defer func() { client.VerifHook = nil }()
	go lab.runWith([]TOp{{Kind: "insert", Table: "T", Row: map[string]val.Val{"name": val.VA(val.Str("during"))}}}, writer.transactor(sc.Name))
	select {
	case <-reached:
	case <-time.After(5 * time.Second):
		return l, "the update3 notification did not reach the pause point"
	}
	msg := ""
	done := make(chan struct{})
	go func() {
		defer close(done)
		if !l.timed("Monitor", D, func() {
			m2 := cl.NewMonitor(client.WithTable(lab.db.New("U")))
			_, _ = cl.Monitor(context.Background(), m2)
		}) {
			msg = "Monitor(context.Background()) started while an update3 notification was being applied does not return within 8 s"
		}
	}()
	time.Sleep(60 * time.Millisecond)
	close(release)
	<-done
	if msg != "" {
		return l, msg
	}
	l.timed("List", D, func() {
		ctx, c := ctxD(2 * time.Second)
		defer c()
		lp := reflect.New(reflect.SliceOf(reflect.TypeOf(lab.db.New("T"))))
		_ = cl.List(ctx, lp.Interface())
	})
	l.timed("Close", D, func() { cl.Close() })
	return l, ""
}

func driveC18(o opts) error {
	quietStderr()
	g := gen.New(o.seed)
	w := emit.New("C18", o.out)
	repo, root, work := os.Getenv("VERIF_REPO"), os.Getenv("VERIF_ROOT"), os.Getenv("VERIF_WORK")
	if repo == "" {
		repo = "/repo"
	}
	if root == "" {
		root = "/verif"
	}
	if work == "" {
		work = filepath.Join(root, ".work")
	}
	w.Extra["fact_obligations"] = []interface{}{lockDiscipline(repo, root, o.out)}
	sc := c18Schema()
	add := func(name string, l *callLog, mixed int, msg string) {
		term, late := l.term(mixed)
		for _, c := range l.calls {
			w.Dist["call:"+c]++
		}
		if len(late) > 0 && msg == "" {
			msg = "API call(s) not returning in time: " + strings.Join(late, ", ")
		}
		oracle := ""
		if msg != "" {
			oracle = name + ": " + msg
		}
		w.Add(emit.Case{Term: term, JSON: map[string]interface{}{"scenario": name, "calls": len(l.calls), "late": late}, Key: name + term, Nontrivial: len(l.calls) > 10, Oracle: oracle})
	}
	for _, reconnect := range []bool{false, true} {
		lab, err := newSrvLab(sc, o.out)
		if err != nil {
			return err
		}
		type res struct {
			l   *callLog
			msg string
		}
		ch := make(chan res, 1)
		go func() { l, msg := c18FailingCalls(lab, sc, reconnect); ch <- res{l, msg} }()
		select {
		case r := <-ch:
			go lab.close()
			add(fmt.Sprintf("failing calls (reconnect=%v)", reconnect), r.l, 0, r.msg)
		case <-time.After(90 * time.Second):
			add(fmt.Sprintf("failing calls (reconnect=%v)", reconnect), &callLog{calls: []string{"Close:late"}}, 0, "the scenario does not finish within 90 s")
		}
	}
	{
		lab, err := newSrvLab(sc, o.out)
		if err != nil {
			return err
		}
		l, msg := c18MonitorDuringUpdate3(lab, sc)
		go lab.close()
		add("Monitor during update3", l, 0, msg)
	}
	rounds, dur := 2, 1200*time.Millisecond
	if o.tier == "thorough" {
		rounds, dur = 10, 3*time.Second
	}
	for r := 0; r < rounds; r++ {
		l, mixed, msg := c18Stress(g, o.out, r, dur)
		add(fmt.Sprintf("stress round %d", r), l, mixed, msg)
	}
	// the same stress under the race detector, in a child process
	raceBin := filepath.Join(work, "bin", "drive_race")
	build := exec.Command("go", "build", "-race", "-modfile="+filepath.Join(work, "go.mod"), "-tags", "verif", "-o", raceBin, "./cmd/drive")
	build.Dir = filepath.Join(root, "harness")
	build.Env = append(os.Environ(), "GOFLAGS=-mod=mod", "GOPROXY=off", "GOSUMDB=off", "GOTOOLCHAIN=local", "CGO_ENABLED=1")
	if outb, err := build.CombinedOutput(); err != nil {
		return fmt.Errorf("race build: %v: %s", err, lastLines(string(outb), 6))
	}
	child := exec.Command(raceBin, "C18race", "-seed", fmt.Sprint(o.seed), "-tier", o.tier, "-out", o.out)
	child.Env = append(os.Environ(), "GORACE=halt_on_error=0 exitcode=0")
	outb, _ := child.CombinedOutput()
	races := strings.Count(string(outb), "WARNING: DATA RACE")
	w.Dist["race-detector:reports"] = races
	if rb, err := os.ReadFile(filepath.Join(o.out, "c18race.json")); err == nil {
		var rep struct {
			Calls int    `json:"calls"`
			Msg   string `json:"msg"`
		}
		if json.Unmarshal(rb, &rep) == nil {
			w.Dist["race-detector:api calls observed"] = rep.Calls
			if rep.Msg != "" {
				w.Add(emit.Case{Term: "mkCase [(1%N, false)] 0%nat", JSON: map[string]interface{}{"scenario": "stress under -race"}, Key: "race-msg", Oracle: "stress under the race detector: " + rep.Msg})
			}
		}
	} else {
		return fmt.Errorf("race child left no report: %s", lastLines(string(outb), 8))
	}
	if races > 0 {
		// first report, library frames only
		rep := string(outb)
		i := strings.Index(rep, "WARNING: DATA RACE")
		rep = rep[i:]
		if j := strings.Index(rep, "=================="); j > 0 {
			rep = rep[:j]
		}
		var frames []string
		for _, line := range strings.Split(rep, "\n") {
			t := strings.TrimSpace(line)
			if strings.HasPrefix(t, "Write at") || strings.HasPrefix(t, "Read at") || strings.HasPrefix(t, "Previous") || (strings.Contains(t, "libovsdb/") && !strings.Contains(t, "verifharness") && !strings.HasPrefix(t, "/")) {
				frames = append(frames, t)
			}
		}
		w.Add(emit.Case{Term: "mkCase [(1%N, false)] 0%nat", JSON: map[string]interface{}{"scenario": "stress under -race", "report": rep},
			Key: "race", Oracle: fmt.Sprintf("the race detector reports %d data race(s); first: %s", races, strings.Join(frames, " | "))})
	}
	return w.Flush()
}

func driveC18race(o opts) error {
	g := gen.New(o.seed + 77)
	rounds, dur := 2, 1500*time.Millisecond
	if o.tier == "thorough" {
		rounds, dur = 8, 3*time.Second
	}
	calls, msg := 0, ""
	for r := 0; r < rounds; r++ {
		l, _, m := c18Stress(g, o.out, 100+r, dur)
		calls += len(l.calls)
		if m != "" && msg == "" {
			msg = m
		}
	}
	b, _ := json.Marshal(map[string]interface{}{"calls": calls, "msg": msg})
	return os.WriteFile(filepath.Join(o.out, "c18race.json"), b, 0o644)
}
