package main

// C09: model <-> row mapping is lossless for every column type.
// For a table with a column of every supported type shape the driver builds
// run-time struct models, converts them with Mapper.NewRow, sends the row
// through JSON, reads it back with Mapper.GetRowData (fresh and pre-filled
// models) and model.CreateModel, and compares every field. NativeToOvs and
// OvsToNative are also called directly, on matching and mismatching values,
// and compared with the model.

import (
	"encoding/json"
	"fmt"
	"math"

	"github.com/ovn-org/libovsdb/model"
	"github.com/ovn-org/libovsdb/ovsdb"

	"verifharness/dyn"
	"verifharness/emit"
	"verifharness/gen"
	"verifharness/val"
)

func init() { drivers["C09"] = driveC09 }

func c09Schema() dyn.Schema {
	var cols []val.Col
	enumS := []val.Atom{val.Str("e1"), val.Str("e2"), val.Str("e3")}
	enumI := []val.Atom{val.Int(1), val.Int(5), val.Int(9)}
	for _, t := range []byte("irbsu") {
		n := string(t)
		cols = append(cols,
			val.Col{Name: "a" + n, K: 'a', KT: t},
			val.Col{Name: "o" + n, K: 'o', KT: t},
			val.Col{Name: "s" + n, K: 's', KT: t, Min: 0, Max: -1},
			val.Col{Name: "p" + n, K: 's', KT: t, Min: 1, Max: -1},
			val.Col{Name: "q" + n, K: 's', KT: t, Min: 0, Max: 3})
		for _, vt := range []byte("irbsu") {
			if t == 'r' || t == 'b' {
				continue
			}
			cols = append(cols, val.Col{Name: "m" + n + string(vt), K: 'm', KT: t, VT: vt, Min: 0, Max: -1})
		}
	}
	cols = append(cols,
		val.Col{Name: "es", K: 'a', KT: 's', Enum: enumS}, val.Col{Name: "ei", K: 'a', KT: 'i', Enum: enumI},
		val.Col{Name: "oes", K: 'o', KT: 's', Enum: enumS}, val.Col{Name: "ses", K: 's', KT: 's', Enum: enumS, Max: -1},
		val.Col{Name: "sei", K: 's', KT: 'i', Enum: enumI, Max: -1},
		val.Col{Name: "mes", K: 'm', KT: 's', VT: 's', Enum: enumS, Max: -1},
		val.Col{Name: "eu", K: 'a', KT: 'u', Enum: []val.Atom{val.Uuid(gen.UUIDn(71)), val.Uuid(gen.UUIDn(72))}},
		val.Col{Name: "seu", K: 's', KT: 'u', Enum: []val.Atom{val.Uuid(gen.UUIDn(71)), val.Uuid(gen.UUIDn(72))}, Max: -1},
		val.Col{Name: "er", K: 'a', KT: 'r', Enum: []val.Atom{val.Real(1.5), val.Real(-2)}},
		val.Col{Name: "ru", K: 'a', KT: 'u', RefTable: "R", RefType: "strong"},
		val.Col{Name: "rou", K: 'o', KT: 'u', RefTable: "R", RefType: "weak"},
		val.Col{Name: "rsu", K: 's', KT: 'u', RefTable: "R", RefType: "weak", Max: -1},
		val.Col{Name: "rmu", K: 'm', KT: 's', VT: 'u', VRefTable: "R", VRefType: "strong", Max: -1},
		val.Col{Name: "rmk", K: 'm', KT: 'u', VT: 's', RefTable: "R", RefType: "weak", Max: -1},
	)
	return dyn.Schema{Name: "C09", Tables: []dyn.Table{
		{Name: "T", Cols: cols, IsRoot: true},
		{Name: "R", Cols: []val.Col{{Name: "name", K: 'a', KT: 's'}}, IsRoot: true},
	}}
}

var c09BigInts = []int64{1 << 53, 1<<53 + 1, -(1<<53 + 1), 1<<53 + 2, math.MaxInt64, math.MinInt64, math.MaxInt64 - 1, 1 << 62, 1<<62 + 1, 4611686018427387905}

func c09ZeroUUID(v val.Val) bool {
	return v.K == 'a' && v.A.T == 'u' && v.A.S == "00000000-0000-0000-0000-000000000000"
}

func c09Big(v val.Val) bool {
	big := func(a val.Atom) bool { return a.T == 'i' && (a.I > 1<<53 || a.I < -(1<<53)) }
	switch v.K {
	case 'a':
		return big(v.A)
	case 'o':
		return v.Has && big(v.A)
	case 's':
		for _, a := range v.Set {
			if big(a) {
				return true
			}
		}
	case 'm':
		for _, p := range v.Map {
			if big(p[0]) || big(p[1]) {
				return true
			}
		}
	}
	return false
}

func driveC09(o opts) error {
	quietStderr()
	g := gen.New(o.seed)
	sc := c09Schema()
	db, err := sc.Build()
	if err != nil {
		return err
	}
	syms := newWireSyms()
	w := emit.New("C09", o.out)
	w.ShardSize = 400
	n := 900
	if o.tier == "thorough" {
		n = 12000
	}
	if o.n > 0 {
		n = o.n
	}
	T := sc.Tables[0]
	ts := db.Schema.Table("T")
	mp := db.Model.Mapper
	known := map[string]int{}
	genVal := func(c val.Col) val.Val {
		v := g.Value(c, 9, 4)
		if c.K == 'a' && c.KT == 'u' && g.Chance(0.1) {
			v = val.VA(val.Uuid("00000000-0000-0000-0000-000000000000"))
		}
		if len(c.Enum) == 0 && g.Chance(0.12) {
			// integers across the 64-bit range
			bigA := func(a val.Atom) val.Atom {
				if a.T == 'i' {
					return val.Int(c09BigInts[g.Intn(len(c09BigInts))])
				}
				return a
			}
			switch v.K {
			case 'a', 'o':
				v.A = bigA(v.A)
			case 's':
				for i := range v.Set {
					if i == 0 {
						v.Set[i] = bigA(v.Set[i])
					}
				}
			case 'm':
				for i := range v.Map {
					if i == 0 {
						v.Map[i][1] = bigA(v.Map[i][1])
					}
				}
			}
		}
		return v
	}
	classOf := func(err error) int {
		if err != nil {
			return 1
		}
		return 0
	}
	for i := 0; i < n; i++ {
		c := T.Cols[g.Intn(len(T.Cols))]
		cs := ts.Column(c.Name)
		v := genVal(c)
		native := c.ToNative(v)
		oracle := ""
		isBig := c09Big(v)
		fail := func(format string, a ...interface{}) {
			if isBig {
				known["13"]++
				return
			}
			if c09ZeroUUID(v) {
				known["14"]++
				return
			}
			if oracle == "" {
				oracle = fmt.Sprintf("column %s (%s) value %s: ", c.Name, c.SchemaJSON(), v.Key()) + fmt.Sprintf(format, a...)
			}
		}
		// direct conversions
		ovs, err := ovsdb.NativeToOvs(cs, native)
		gfwd := "GNull"
		if err == nil {
			gfwd = gvalTerm(syms, ovs)
		} else {
			fail("NativeToOvs rejects a value of the column's type: %v", err)
		}
		w.Add(emit.Case{Term: fmt.Sprintf("CFwd %s (%s) %d%%nat (%s)", dyn.CoqColTy(syms, c), syms.LVal(v), classOf(err), gfwd),
			JSON: map[string]interface{}{"dir": "NativeToOvs", "column": c.Name, "value": v.JSONable()}, Key: "f" + c.Name + v.OrderedKey(),
			Nontrivial: v.K != 'a', Class: "fwd:" + string(c.K)})
		// whole path: model -> NewRow -> JSON -> Row -> GetRowData / CreateModel
		uuid := gen.UUIDn(1)
		m := db.Make("T", uuid, map[string]val.Val{c.Name: v})
		info, err := db.Model.NewModelInfo(m)
		if err != nil {
			return err
		}
		row, err := mp.NewRow(info)
		if err != nil {
			fail("NewRow: %v", err)
			if oracle != "" {
				w.Add(emit.Case{Term: fmt.Sprintf("CFwd %s (%s) 0%%nat (GNull)", dyn.CoqColTy(syms, c), syms.LVal(v)),
					JSON: map[string]interface{}{"column": c.Name, "schema": c.SchemaJSON(), "value": v.JSONable()},
					Key:  "o" + c.Name + v.OrderedKey(), Oracle: oracle})
			}
			continue
		}
		b, err := json.Marshal(row)
		if err != nil {
			fail("marshal: %v", err)
			if oracle != "" {
				w.Add(emit.Case{Term: fmt.Sprintf("CFwd %s (%s) 0%%nat (GNull)", dyn.CoqColTy(syms, c), syms.LVal(v)),
					JSON: map[string]interface{}{"column": c.Name, "schema": c.SchemaJSON(), "value": v.JSONable()},
					Key:  "o" + c.Name + v.OrderedKey(), Oracle: oracle})
			}
			continue
		}
		var back ovsdb.Row
		if err := json.Unmarshal(b, &back); err != nil {
			fail("row decoding of %s: %v", b, err)
			if oracle != "" {
				w.Add(emit.Case{Term: fmt.Sprintf("CFwd %s (%s) 0%%nat (GNull)", dyn.CoqColTy(syms, c), syms.LVal(v)),
					JSON: map[string]interface{}{"column": c.Name, "schema": c.SchemaJSON(), "value": v.JSONable()},
					Key:  "o" + c.Name + v.OrderedKey(), Oracle: oracle})
			}
			continue
		}
		if _, present := row[c.Name]; !present {
			if !v.Equal(c.Default()) {
				fail("NewRow omits a non-default value")
			}
			w.Count("default-omitted")
		}
		// OvsToNative on what came back (compared with the model)
		if x, present := back[c.Name]; present {
			nat, err := ovsdb.OvsToNative(cs, x)
			vb := "LOpt None"
			if err == nil {
				vb = syms.LVal(c.FromNative(nat))
			}
			w.Add(emit.Case{Term: fmt.Sprintf("CBack %s (%s) %d%%nat (%s)", dyn.CoqColTy(syms, c), gvalTerm(syms, x), classOf(err), vb),
				JSON: map[string]interface{}{"dir": "OvsToNative", "column": c.Name, "ovs": canonText(x)}, Key: "b" + c.Name + canonText(x),
				Nontrivial: v.K != 'a', Class: "back:" + string(c.K)})
		}
		// fresh model
		fresh := db.New("T")
		finfo, _ := db.Model.NewModelInfo(fresh)
		if err := mp.GetRowData(&back, finfo); err != nil {
			fail("GetRowData: %v", err)
		} else if got := db.Get(fresh, "T", c.Name); !got.Equal(v) {
			fail("comes back as %s through %s", got.Key(), b)
		}
		// two columns, pre-filled model: NewRow and GetRowData as wholes (compared with the model);
		// columns absent from the row stay untouched
		other := T.Cols[g.Intn(len(T.Cols))]
		if other.Name != c.Name {
			ov := genVal(other)
			pair := []val.Col{c, other}
			big2 := isBig || c09Big(ov)
			colsTerm := "[" + dyn.CoqCol(syms, c) + "; " + dyn.CoqCol(syms, other) + "]"
			nmTerm := func(vals map[string]val.Val) string {
				return fmt.Sprintf("[(%d%%N, %s); (%d%%N, %s)]", syms.ID(c.Name), syms.LVal(vals[c.Name]), syms.ID(other.Name), syms.LVal(vals[other.Name]))
			}
			restrict := func(r ovsdb.Row) map[string]interface{} {
				out := map[string]interface{}{}
				for _, pc := range pair {
					if x, ok := r[pc.Name]; ok {
						out[pc.Name] = x
					}
				}
				return out
			}
			mv := map[string]val.Val{c.Name: v, other.Name: ov}
			m2 := db.Make("T", uuid, mv)
			info2, _ := db.Model.NewModelInfo(m2)
			explicit := g.Chance(0.4)
			if explicit {
				// half of these with default values, which explicit fields put into the row (e.g. ["set",[]])
				if g.Chance(0.5) {
					mv[c.Name] = c.Default()
					m2 = db.Make("T", uuid, mv)
					info2, _ = db.Model.NewModelInfo(m2)
				}
			}
			var row2 ovsdb.Row
			if explicit {
				row2, err = mp.NewRow(info2, db.FieldPtr(m2, "T", c.Name), db.FieldPtr(m2, "T", other.Name))
			} else {
				row2, err = mp.NewRow(info2)
			}
			rowTerm := "[]"
			if err == nil {
				rowTerm = gobjTerm(syms, restrict(row2))[len("GObj "):]
			}
			caseHead := fmt.Sprintf("CRow %s %s", colsTerm, nmTerm(mv))
			if explicit {
				caseHead = fmt.Sprintf("CRowF %s %s [%d%%N; %d%%N]", colsTerm, nmTerm(mv), syms.ID(c.Name), syms.ID(other.Name))
				w.Count("newrow:explicit fields")
			}
			w.Add(emit.Case{Term: fmt.Sprintf("%s %d%%nat %s", caseHead, classOf(err), rowTerm),
				JSON: map[string]interface{}{"dir": "NewRow", "columns": []string{c.Name, other.Name}, "values": dyn.JSONRow(mv)}, Key: "R" + c.Name + other.Name + v.OrderedKey() + ov.OrderedKey(),
				Nontrivial: true, Class: "newrow"})
			if err == nil {
				b2, _ := json.Marshal(row2)
				var back2 ovsdb.Row
				if err := json.Unmarshal(b2, &back2); err == nil {
					pv := map[string]val.Val{c.Name: genVal(c), other.Name: genVal(other)}
					pre := db.Make("T", "", pv)
					pinfo, _ := db.Model.NewModelInfo(pre)
					gerr := mp.GetRowData(&back2, pinfo)
					after := map[string]val.Val{c.Name: db.Get(pre, "T", c.Name), other.Name: db.Get(pre, "T", other.Name)}
					w.Add(emit.Case{Term: fmt.Sprintf("CGet %s %s %s %d%%nat %s", colsTerm, gobjTerm(syms, restrict(back2))[len("GObj "):], nmTerm(pv), classOf(gerr), nmTerm(after)),
						JSON: map[string]interface{}{"dir": "GetRowData", "columns": []string{c.Name, other.Name}, "row": string(b2), "prefilled": dyn.JSONRow(pv)},
						Key:  "G" + c.Name + other.Name + string(b2) + pv[c.Name].OrderedKey() + pv[other.Name].OrderedKey(), Nontrivial: true, Class: "getrowdata"})
					if gerr != nil {
						if !big2 {
							fail("GetRowData (pre-filled): %v", gerr)
						}
					} else {
						for _, pc := range pair {
							want := pv[pc.Name]
							if _, present := back2[pc.Name]; present {
								want = mv[pc.Name]
							}
							if got := after[pc.Name]; !got.Equal(want) {
								if big2 || c09ZeroUUID(mv[pc.Name]) {
									if big2 {
										known["13"]++
									}
								} else if oracle == "" {
									oracle = fmt.Sprintf("columns %s,%s values %s,%s pre-filled %s,%s through %s: field %s is %s, expected %s", c.Name, other.Name, v.Key(), ov.Key(),
										pv[c.Name].Key(), pv[other.Name].Key(), b2, pc.Name, got.Key(), want.Key())
								}
							}
						}
					}
				}
			}
		}
		// CreateModel
		if cm, err := model.CreateModel(db.Model, "T", &back, uuid); err != nil {
			fail("CreateModel: %v", err)
		} else {
			if got := db.Get(cm, "T", c.Name); !got.Equal(v) {
				fail("CreateModel gives %s", got.Key())
			}
			if db.UUID(cm) != uuid {
				fail("CreateModel gives uuid %s", db.UUID(cm))
			}
		}
		if oracle != "" {
			w.Add(emit.Case{Term: fmt.Sprintf("CFwd %s (%s) 0%%nat (GNull)", dyn.CoqColTy(syms, c), syms.LVal(v)),
				JSON: map[string]interface{}{"column": c.Name, "schema": c.SchemaJSON(), "value": v.JSONable(), "json": string(b)},
				Key:  "o" + c.Name + v.OrderedKey(), Oracle: oracle})
		}
	}
	// mismatching values: the native value / OVS value of another column
	for i := 0; i < n/2; i++ {
		c := T.Cols[g.Intn(len(T.Cols))]
		d := T.Cols[g.Intn(len(T.Cols))]
		cs := ts.Column(c.Name)
		v := g.Value(d, 9, 3)
		if (v.K == 's' && len(v.Set) == 0) || (v.K == 'm' && len(v.Map) == 0) {
			continue // an empty collection carries its Go element type invisibly for the model
		}
		if v.K == 'o' && !v.Has && c.K == 'o' {
			continue // a nil pointer of another element type: same remark
		}
		native := d.ToNative(v)
		ovs, err := ovsdb.NativeToOvs(cs, native)
		gfwd := "GNull"
		if err == nil {
			gfwd = gvalTerm(syms, ovs)
		}
		sameGo := c.NativeType() == d.NativeType()
		if sameGo {
			// a Go string does not say whether it is a uuid: read the value as the target column does
			v = c.FromNative(native)
		}
		oracle := ""
		if err == nil && !sameGo {
			oracle = fmt.Sprintf("NativeToOvs for column %s accepts a %s (column %s's type): %v", c.Name, d.NativeType(), d.Name, native)
		}
		w.Add(emit.Case{Term: fmt.Sprintf("CFwd %s (%s) %d%%nat (%s)", dyn.CoqColTy(syms, c), syms.LVal(v), classOf(err), gfwd),
			JSON: map[string]interface{}{"dir": "NativeToOvs/mismatch", "column": c.Name, "from": d.Name, "value": v.JSONable()}, Key: "F" + c.Name + d.Name + v.OrderedKey(),
			Nontrivial: !sameGo, Class: "fwd-mismatch", Oracle: oracle})
		// OVS-side: what column d's value looks like after JSON, read as column c
		dovs, err := ovsdb.NativeToOvs(ts.Column(d.Name), native)
		if err != nil {
			continue
		}
		b, _ := json.Marshal(ovsdb.Row{"x": dovs})
		var back ovsdb.Row
		if json.Unmarshal(b, &back) != nil {
			continue
		}
		x := back["x"]
		if g.Chance(0.15) {
			x = []interface{}{nil, 0.5, "x", true, ovsdb.OvsSet{GoSet: []interface{}{0.5}}, ovsdb.OvsSet{GoSet: []interface{}{"a", 1.0}}, ovsdb.OvsMap{GoMap: map[interface{}]interface{}{"a": 0.5}}}[g.Intn(7)]
		}
		_, class, msg := guarded(func() (interface{}, error) { return ovsdb.OvsToNative(cs, x) })
		if class == 2 {
			w.Add(emit.Case{Term: fmt.Sprintf("CBack %s (%s) 2%%nat (LOpt None)", dyn.CoqColTy(syms, c), gvalTerm(syms, x)),
				JSON: map[string]interface{}{"dir": "OvsToNative/mismatch", "column": c.Name, "ovs": canonText(x)}, Key: "P" + c.Name + canonText(x),
				Oracle: fmt.Sprintf("OvsToNative for column %s panics on %s: %s", c.Name, canonText(x), msg)})
			continue
		}
		nat, err := ovsdb.OvsToNative(cs, x)
		vb := "LOpt None"
		if err == nil {
			vb = syms.LVal(c.FromNative(nat))
		}
		w.Add(emit.Case{Term: fmt.Sprintf("CBack %s (%s) %d%%nat (%s)", dyn.CoqColTy(syms, c), gvalTerm(syms, x), classOf(err), vb),
			JSON: map[string]interface{}{"dir": "OvsToNative/mismatch", "column": c.Name, "from": d.Name, "ovs": canonText(x)}, Key: "B" + c.Name + canonText(x),
			Nontrivial: true, Class: "back-mismatch"})
	}
	// field types that do not match the schema are rejected when the model is validated
	rejected, accepted := 0, 0
	for _, c := range T.Cols {
		for _, d := range T.Cols {
			if c.NativeType() == d.NativeType() {
				continue
			}
			wrong := dyn.Schema{Name: "C09", Tables: []dyn.Table{{Name: "T", IsRoot: true, Cols: []val.Col{c}}}}
			claimed := dyn.Schema{Name: "C09", Tables: []dyn.Table{{Name: "T", IsRoot: true, Cols: []val.Col{{Name: c.Name, K: d.K, KT: d.KT, VT: d.VT, Min: d.Min, Max: d.Max, Enum: d.Enum}}}}}
			if err := dyn.CheckAgainst(wrong, claimed); err != nil {
				rejected++
			} else {
				accepted++
				if len(w.Extra) < 5 {
					w.Add(emit.Case{Term: fmt.Sprintf("CFwd %s (%s) 0%%nat (GNull)", dyn.CoqColTy(syms, c), syms.LVal(c.Default())),
						JSON: map[string]interface{}{"column": c.SchemaJSON(), "field_of": d.SchemaJSON()}, Key: "V" + c.Name + d.Name,
						Oracle: fmt.Sprintf("a model whose field for a %s column has type %s passes validation", c.SchemaJSON(), d.NativeType())})
				}
			}
		}
	}
	w.Dist["validation:mismatching-field-rejected"] = rejected
	if err := c09Regressions(w); err != nil {
		return err
	}
	w.Extra["oracle_known"] = known
	return w.Flush()
}
