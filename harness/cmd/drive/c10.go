package main

import (
	"fmt"

	"github.com/ovn-org/libovsdb/model"
	"github.com/ovn-org/libovsdb/ovsdb"
	"github.com/ovn-org/libovsdb/updates"

	"verifharness/dyn"
	"verifharness/emit"
	"verifharness/gen"
	"verifharness/val"
)

func init() { drivers["C10"] = driveC10 }

var c10Enum = []val.Atom{val.Str("e1"), val.Str("e2"), val.Str("e3")}

func c10Schema() dyn.Schema {
	cols := []val.Col{
		{Name: "ai", K: 'a', KT: 'i'}, {Name: "ar", K: 'a', KT: 'r'}, {Name: "ab", K: 'a', KT: 'b'},
		{Name: "as", K: 'a', KT: 's'}, {Name: "au", K: 'a', KT: 'u'}, {Name: "ae", K: 'a', KT: 's', Enum: c10Enum},
		{Name: "oi", K: 'o', KT: 'i'}, {Name: "os", K: 'o', KT: 's'}, {Name: "ou", K: 'o', KT: 'u'},
		{Name: "ob", K: 'o', KT: 'b'}, {Name: "or", K: 'o', KT: 'r'},
		{Name: "si", K: 's', KT: 'i', Max: -1}, {Name: "ss", K: 's', KT: 's', Max: -1}, {Name: "su", K: 's', KT: 'u', Max: -1},
		{Name: "sr", K: 's', KT: 'r', Max: -1}, {Name: "s3", K: 's', KT: 's', Max: 3},
		{Name: "mss", K: 'm', KT: 's', VT: 's', Max: -1}, {Name: "msi", K: 'm', KT: 's', VT: 'i', Max: -1},
		{Name: "mis", K: 'm', KT: 'i', VT: 's', Max: -1}, {Name: "muu", K: 'm', KT: 'u', VT: 'u', Max: -1},
		{Name: "msb", K: 'm', KT: 's', VT: 'b', Max: -1},
	}
	return dyn.Schema{Name: "C10", Tables: []dyn.Table{{Name: "T", Cols: cols, IsRoot: true}}}
}

type c10obs struct {
	diff        *val.Val
	new1        val.Val
	mut1        bool
	upd2        bool
	new2        val.Val
	mut2        bool
	err1, err2  string
}

func c10Observe(db *dyn.DB, col string, a, b, d val.Val) c10obs {
	const T = "T"
	uuid := gen.UUIDn(0)
	c := db.Spec.Table(T).Col(col)
	var o c10obs
	// (1) update a -> b through AddOperation
	ma := db.Make(T, uuid, map[string]val.Val{col: a})
	before := db.Get(ma, T, col).OrderedKey()
	op := ovsdb.Operation{Op: ovsdb.OperationUpdate, Table: T, Row: db.OvsRow(T, map[string]val.Val{col: b})}
	mu := updates.ModelUpdates{}
	if err := mu.AddOperation(db.Model, T, uuid, ma, &op); err != nil {
		o.err1 = err.Error()
	}
	o.new1 = a
	_ = mu.ForEachRowUpdate(T, func(u string, ru ovsdb.RowUpdate2) error {
		if ru.Modify != nil {
			if x, ok := (*ru.Modify)[col]; ok {
				v, err := c.FromOvs(x)
				if err != nil {
					o.err1 = "modify: " + err.Error()
				} else {
					o.diff = &v
				}
			}
		}
		return nil
	})
	_ = mu.ForEachModelUpdate(T, func(u string, old, new model.Model) error {
		if new != nil {
			o.new1 = db.Get(new, T, col)
		}
		return nil
	})
	o.mut1 = db.Get(ma, T, col).OrderedKey() != before
	// (2) a peer-sent difference d through AddRowUpdate2
	ma2 := db.Make(T, uuid, map[string]val.Val{col: a})
	before2 := db.Get(ma2, T, col).OrderedKey()
	row := db.OvsRow(T, map[string]val.Val{col: d})
	mu2 := updates.ModelUpdates{}
	if err := mu2.AddRowUpdate2(db.Model, T, uuid, ma2, ovsdb.RowUpdate2{Modify: &row}); err != nil {
		o.err2 = err.Error()
	}
	o.new2 = a
	_ = mu2.ForEachModelUpdate(T, func(u string, old, new model.Model) error {
		o.upd2 = true
		if new != nil {
			o.new2 = db.Get(new, T, col)
		}
		return nil
	})
	o.mut2 = db.Get(ma2, T, col).OrderedKey() != before2
	return o
}

// c10TwoSteps changes column col of a row from a to mid and then to b with two update operations accumulated in one
// ModelUpdates, and returns the modify entry of the column (nil when there is none).
func c10TwoSteps(db *dyn.DB, col string, a, mid, b val.Val) (*val.Val, string) {
	const T = "T"
	uuid := gen.UUIDn(0)
	c := db.Spec.Table(T).Col(col)
	cur := db.Make(T, uuid, map[string]val.Val{col: a})
	mu := updates.ModelUpdates{}
	for _, target := range []val.Val{mid, b} {
		op := ovsdb.Operation{Op: ovsdb.OperationUpdate, Table: T, Row: db.OvsRow(T, map[string]val.Val{col: target})}
		if err := mu.AddOperation(db.Model, T, uuid, cur, &op); err != nil {
			return nil, err.Error()
		}
		next := model.Model(nil)
		_ = mu.ForEachModelUpdate(T, func(u string, old, new model.Model) error {
			next = new
			return nil
		})
		if next == nil {
			// the accumulated update vanished: the row is back at a
			next = db.Make(T, uuid, map[string]val.Val{col: a})
		}
		cur = model.Clone(next)
	}
	var out *val.Val
	errs := ""
	_ = mu.ForEachRowUpdate(T, func(u string, ru ovsdb.RowUpdate2) error {
		if ru.Modify != nil {
			if x, ok := (*ru.Modify)[col]; ok {
				v, err := c.FromOvs(x)
				if err != nil {
					errs = "modify: " + err.Error()
				} else {
					out = &v
				}
			}
		}
		return nil
	})
	return out, errs
}

func driveC10(o opts) error {
	db, err := c10Schema().Build()
	if err != nil {
		return err
	}
	g := gen.New(o.seed)
	syms := val.NewSyms()
	w := emit.New("C10", o.out)
	tbl := db.Spec.Table("T")

	add := func(col string, a, b, d val.Val, class string) {
		ob := c10Observe(db, col, a, b, d)
		term := fmt.Sprintf("C10.mk (%s) (%s) (%s) (%s) (%s) %s %s (%s) %s",
			syms.LVal(a), syms.LVal(b), syms.LVal(d), syms.OptLVal(ob.diff), syms.LVal(ob.new1), emit.Bool(ob.mut1),
			emit.Bool(ob.upd2), syms.LVal(ob.new2), emit.Bool(ob.mut2))
		// direct oracle (independent of the Coq model): diff empty iff a = b;
		// the update yields b; inputs not altered; a library-computed diff
		// applied to a gives b (checked when d == b by construction below).
		oracle := ""
		switch {
		case ob.err1 != "" || ob.err2 != "":
			oracle = "unexpected error: " + ob.err1 + " " + ob.err2
		case (ob.diff == nil) != a.Equal(b):
			oracle = "difference is empty although a != b (or non-empty although a == b)"
		case !ob.new1.Equal(b):
			oracle = "update does not yield b"
		case ob.mut1 || ob.mut2:
			oracle = "input model altered"
		}
		if oracle == "" && ob.diff != nil {
			// apply the computed diff to a fresh a
			ob2 := c10Observe(db, col, a, b, *ob.diff)
			if !ob2.new2.Equal(b) {
				oracle = "applying the computed difference to a does not give b"
			}
		}
		if oracle == "" {
			// the same change made in two steps of one transaction (a -> d -> b): the modify row is then a merged
			// difference; it must still be empty iff a = b and turn a into b
			if via, err := c10TwoSteps(db, col, a, d, b); err != "" {
				oracle = "two updates in one transaction: " + err
			} else if (via == nil) != a.Equal(b) {
				oracle = fmt.Sprintf("two updates in one transaction (a -> %s -> b): the modify row is empty although a != b (or non-empty although a == b)", d.Key())
			} else if via != nil {
				if ob3 := c10Observe(db, col, a, b, *via); !ob3.new2.Equal(b) {
					oracle = fmt.Sprintf("two updates in one transaction (a -> %s -> b): applying the modify row %s to a does not give b", d.Key(), via.Key())
				}
			}
		}
		var diffJ interface{}
		if ob.diff != nil {
			diffJ = ob.diff.JSONable()
		}
		w.Add(emit.Case{
			Term: term,
			JSON: map[string]interface{}{"column": col, "a": a.JSONable(), "b": b.JSONable(), "d": d.JSONable(),
				"obs_diff": diffJ, "obs_new1": ob.new1.JSONable(), "obs_mut1": ob.mut1,
				"obs_upd2": ob.upd2, "obs_new2": ob.new2.JSONable(), "obs_mut2": ob.mut2},
			Key:        col + "|" + a.OrderedKey() + "|" + b.OrderedKey() + "|" + d.OrderedKey(),
			Nontrivial: !a.Equal(b) || a.OrderedKey() != b.OrderedKey(),
			Class:      class + ":" + string(tbl.Col(col).K),
			Oracle:     oracle,
		})
	}

	usz := 3
	if o.tier == "thorough" {
		usz = 4
	}
	// exhaustive: sets over a universe of usz atoms in every order
	for _, col := range []string{"si", "ss", "su"} {
		c := tbl.Col(col)
		var pool []val.Atom
		for i := 0; i < usz; i++ {
			pool = append(pool, gen.AtomN(c.KT, i))
		}
		lists := gen.Perms(pool, usz)
		for _, la := range lists {
			for _, lb := range lists {
				add(col, val.VS(la...), val.VS(lb...), val.VS(lb...), "exh")
			}
		}
	}
	// exhaustive: maps over 2 (3) keys x 2 (3) values
	nk := 2
	if o.tier == "thorough" {
		nk = 3
	}
	for _, col := range []string{"mss", "msi", "muu"} {
		c := tbl.Col(col)
		var maps []val.Val
		var rec func(i int, cur [][2]val.Atom)
		rec = func(i int, cur [][2]val.Atom) {
			if i == nk {
				maps = append(maps, val.VM(append([][2]val.Atom(nil), cur...)...))
				return
			}
			rec(i+1, cur)
			for v := 0; v < nk; v++ {
				rec(i+1, append(cur, [2]val.Atom{gen.AtomN(c.KT, i+1), gen.AtomN(c.VT, v)}))
			}
		}
		rec(0, nil)
		for _, ma := range maps {
			for _, mb := range maps {
				add(col, ma, mb, mb, "exh")
			}
		}
	}
	// exhaustive: optionals and atoms over 3 values incl. the default
	for _, c := range tbl.Cols {
		switch c.K {
		case 'o':
			vs := []val.Val{val.VNone(), val.VSome(gen.AtomN(c.KT, 0)), val.VSome(gen.AtomN(c.KT, 1)), val.VSome(gen.AtomN(c.KT, 2))}
			for _, a := range vs {
				for _, b := range vs {
					add(c.Name, a, b, b, "exh")
				}
			}
		case 'a':
			var vs []val.Val
			for i := 0; i < 3; i++ {
				if len(c.Enum) > 0 {
					vs = append(vs, val.VA(c.Enum[i%len(c.Enum)]))
				} else {
					vs = append(vs, val.VA(gen.AtomN(c.KT, i)))
				}
			}
			for _, a := range vs {
				for _, b := range vs {
					add(c.Name, a, b, b, "exh")
				}
			}
		}
	}
	// random larger values, with an independent peer-sent difference d
	n := 400
	maxn := 12
	if o.tier == "thorough" {
		n, maxn = 20000, 60
	}
	if o.n > 0 {
		n = o.n
	}
	for i := 0; i < n; i++ {
		c := tbl.Cols[g.Intn(len(tbl.Cols))]
		sz := maxn
		if c.Max > 0 {
			sz = c.Max
		}
		if g.Chance(0.1) {
			sz = 200
			if c.Max > 0 {
				sz = c.Max
			}
		}
		u := sz + 3
		a := g.Value(c, u, sz)
		b := g.Value(c, u, sz)
		if g.Chance(0.15) {
			b = a
			if b.K == 's' { // same set, different order
				b = val.VS(append([]val.Atom(nil), a.Set...)...)
				g.R.Shuffle(len(b.Set), func(i, j int) { b.Set[i], b.Set[j] = b.Set[j], b.Set[i] })
			}
		}
		d := g.Value(c, u, sz)
		add(c.Name, a, b, d, "rnd")
	}
	nmulti := 150
	if o.tier == "thorough" {
		nmulti = 3000
	}
	if err := c10MultiColumn(g, w, nmulti); err != nil {
		return err
	}
	return w.Flush()
}

// c10MultiColumn: an update row naming several columns, some restating the value the row already has (immutable
// columns can only be restated), one changed: the new model is the old one with the changed columns, the modify row
// names exactly the changed columns, the old model is not altered. Implementation-only oracle (the Coq model is about
// one column).
func c10MultiColumn(g *gen.G, w *emit.Writer, n int) error {
	const T = "T"
	sc := c10Schema()
	sc.Tables[0].Cols = append(sc.Tables[0].Cols,
		val.Col{Name: "ims", K: 's', KT: 's', Max: -1, Immutable: true}, val.Col{Name: "imm", K: 'm', KT: 's', VT: 's', Max: -1, Immutable: true},
		val.Col{Name: "ima", K: 'a', KT: 's', Immutable: true}, val.Col{Name: "imo", K: 'o', KT: 'i', Immutable: true})
	db, err := sc.Build()
	if err != nil {
		return err
	}
	tbl := sc.Tables[0]
	for k := 0; k < n; k++ {
		uuid := gen.UUIDn(k)
		a := map[string]val.Val{}
		for _, c := range tbl.Cols {
			a[c.Name] = g.Value(c, 5, 4)
		}
		// restate 1..4 columns (immutable ones with priority), change 1..2 mutable ones
		row := map[string]val.Val{}
		want := map[string]val.Val{}
		for c, v := range a {
			want[c] = v
		}
		changed := map[string]bool{}
		for i := 0; i < 1+g.Intn(4); i++ {
			c := tbl.Cols[g.Intn(len(tbl.Cols))]
			if g.Chance(0.6) {
				c = tbl.Cols[len(tbl.Cols)-1-g.Intn(4)]
			}
			row[c.Name] = a[c.Name]
		}
		for i := 0; i < 1+g.Intn(2); i++ {
			c := tbl.Cols[g.Intn(len(tbl.Cols)-4)]
			v := g.Value(c, 5, 4)
			row[c.Name] = v
			want[c.Name] = v
			changed[c.Name] = !v.Equal(a[c.Name])
		}
		ma := db.Make(T, uuid, a)
		before := db.RowMap(ma, T)
		op := ovsdb.Operation{Op: ovsdb.OperationUpdate, Table: T, Row: db.OvsRow(T, row)}
		mu := updates.ModelUpdates{}
		oracle := ""
		if err := mu.AddOperation(db.Model, T, uuid, ma, &op); err != nil {
			oracle = "update restating some columns and changing others is refused: " + err.Error()
		}
		var got map[string]val.Val
		var modified []string
		_ = mu.ForEachModelUpdate(T, func(u string, old, new model.Model) error {
			if new != nil {
				got = db.RowMap(new, T)
			}
			return nil
		})
		_ = mu.ForEachRowUpdate(T, func(u string, ru ovsdb.RowUpdate2) error {
			if ru.Modify != nil {
				for c := range *ru.Modify {
					modified = append(modified, c)
				}
			}
			return nil
		})
		anyChange := false
		for _, ch := range changed {
			anyChange = anyChange || ch
		}
		switch {
		case oracle != "":
		case !rowsEqual(db.RowMap(ma, T), before):
			oracle = "the update altered the model it was computed from"
		case anyChange && got == nil:
			oracle = "the update changes a column but no new model is recorded"
		case got != nil && !rowsEqual(got, want):
			for c := range want {
				if !got[c].Equal(want[c]) {
					oracle = fmt.Sprintf("update %v of a row: column %s of the new model is %s, expected %s (restated columns keep their value, changed ones take the new one)",
						dyn.JSONRow(row), c, got[c].Key(), want[c].Key())
				}
			}
		}
		if oracle == "" {
			for _, c := range modified {
				if !changed[c] {
					oracle = fmt.Sprintf("the modify row names column %s, whose value the update does not change", c)
				}
			}
			for c, ch := range changed {
				found := false
				for _, m := range modified {
					found = found || m == c
				}
				if ch && !found {
					oracle = fmt.Sprintf("the modify row lacks column %s, which the update changes", c)
				}
			}
		}
		w.Count("multi-column update")
		w.Add(emit.Case{Term: "C10.mk (LAtom (AInt 0)) (LAtom (AInt 0)) (LAtom (AInt 0)) None (LAtom (AInt 0)) false false (LAtom (AInt 0)) false",
			JSON: map[string]interface{}{"multi_column_update": dyn.JSONRow(row), "row": dyn.JSONRow(a)}, Key: fmt.Sprintf("multi%d", k),
			Nontrivial: true, Class: "multi-column", Oracle: oracle})
	}
	return nil
}
